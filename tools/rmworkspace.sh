#!/bin/sh
# tools/rmworkspace.sh <name>: removes the scratch workspace with its build output (the branch ws-<name> stays until deleted)
n="$1"; W=/tmp/ws/$n
[ -d "$W/repo" ] && git -C /repo worktree remove --force "$W/repo"
[ -d "$W/verif" ] && git -C /verif worktree remove --force "$W/verif"
rm -rf "$W"
git -C /repo worktree prune; git -C /verif worktree prune
