#!/usr/bin/env python3
"""tools/mkpins.py <pins/NAME.json> — (re)writes lean/OsmoVerif/Props/<NAME>.lean: one theorem
`opsx_<fn>_pinned : Gen.<mod>.opsx_<fn> = [ … ] := by decide` per ordered statement list of Gen/<mod>Fn.lean
(deliverable B of tie T1, DESIGN §2.1), with the CURRENT content of the list as the pinned value.

Run by hand, once, when a function is tied (or after an intended change of the Go source was reviewed against the model
definition named in the doc comment); `./check` never runs it: on every run the lists are regenerated from the Go source
and the committed theorems are re-checked against them.

pins/NAME.json: {"gen": "<mod>", "header": "<text of the module comment>", "imports": ["…"],
                 "mirrors": {"<Go function>": "<model definition(s) mirroring it>", …}}
Every opsx list of the Gen file must be named in "mirrors" (and vice versa)."""
import json, os, re, sys, textwrap

ROOT = os.path.dirname(os.path.dirname(os.path.abspath(__file__)))


def lean_str(s):
    return '"' + s.replace("\\", "\\\\").replace('"', '\\"') + '"'


def parse_list(text):
    """the Go %q-quoted elements of a Lean `[…]` literal"""
    out, i = [], 0
    while True:
        i = text.find('"', i)
        if i < 0:
            return out
        j, buf = i + 1, []
        while text[j] != '"':
            if text[j] == "\\":
                buf.append({"n": "\n", "t": "\t"}.get(text[j + 1], text[j + 1]))
                j += 2
            else:
                buf.append(text[j])
                j += 1
        out.append("".join(buf))
        i = j + 1


def main():
    cfg = json.load(open(sys.argv[1]))
    name = os.path.splitext(os.path.basename(sys.argv[1]))[0]
    mod = cfg["gen"]
    gen = open(os.path.join(ROOT, "lean/OsmoVerif/Gen/%sFn.lean" % mod)).read()
    lists = re.findall(r"^def (opsx_\w+) : List String := \[(.*)\]$", gen, re.M)
    mirrors = {"opsx_" + k.replace(".", "_"): (k, v) for k, v in cfg["mirrors"].items()}
    missing = [n for n, _ in lists if n not in mirrors]
    extra = [n for n in mirrors if n not in dict(lists)]
    if missing or extra:
        sys.exit("pins/%s.json: no mirror text for %s; no generated list for %s" % (name, missing, extra))
    out = ["/-", cfg["header"].rstrip(), "-/"]
    for imp in cfg.get("imports", []):
        out.append("import " + imp)
    out += ["import OsmoVerif.Gen.%sFn" % mod, "", "-- `decide` on lists of up to a few hundred strings", "set_option maxRecDepth 100000", "",
            "namespace OsmoVerif.Props.%s" % name, "open OsmoVerif", ""]
    for lname, body in lists:
        fn, mirror = mirrors[lname]
        elems = [lean_str(e) for e in parse_list(body)]
        lines, cur = [], "    ["
        for k, e in enumerate(elems):
            piece = e + (", " if k < len(elems) - 1 else "")
            if len(cur) + len(piece) > 118 and cur.strip() not in ("[", ""):
                lines.append(cur.rstrip())
                cur = "     "
            cur += piece
        lines.append(cur + "]")
        out.append("/-- B — `%s`: %s -/" % (fn, mirror))
        out.append("theorem %s_pinned : Gen.%s.%s =" % (lname, mod, lname))
        out += lines[:-1] + [lines[-1] + " := by decide", ""]
    out.append("end OsmoVerif.Props.%s" % name)
    path = os.path.join(ROOT, "lean/OsmoVerif/Props/%s.lean" % name)
    open(path, "w").write("\n".join(out) + "\n")
    print("wrote %s: %d pinned lists" % (os.path.relpath(path, ROOT), len(lists)))


if __name__ == "__main__":
    main()
