#!/usr/bin/env python3
"""Confirms a seeded change produced by an independent sub-agent, in a scratch worktree, and keeps it under
/verif/seeded/<id>/ only if: the demo passes on the unchanged tree, the patch applies and builds, the demo
fails with it, and the runnable pinned tests (osmomath, osmoutils, x/epochs) still pass.

usage: tools/confirm_seed.py <worktree> <mutant-dir> <seed-id> <property> [--checks C01,C03]
"""
import json, os, re, shutil, subprocess, sys

ROOT = os.path.dirname(os.path.dirname(os.path.abspath(__file__)))
ENV = dict(os.environ, GOFLAGS="", GOPROXY="off", GOSUMDB="off", GOTOOLCHAIN="local")


def sh(cmd, cwd, timeout=3000):
    p = subprocess.run(cmd, cwd=cwd, shell=True, env=ENV, stdout=subprocess.PIPE, stderr=subprocess.STDOUT, text=True, timeout=timeout)
    return p.returncode, p.stdout


def main():
    wt, mdir, sid, prop = sys.argv[1:5]
    checks = None
    if "--checks" in sys.argv:
        checks = sys.argv[sys.argv.index("--checks") + 1].split(",")
    mdir = os.path.abspath(mdir)
    txt = open(os.path.join(mdir, "demo_path.txt")).read()
    # overlay for packages importing app
    ovdir = os.path.join(wt, "out", "_ov")
    os.makedirs(ovdir, exist_ok=True)
    open(os.path.join(ovdir, "statik.go"), "w").write("package statik\n")
    ov = os.path.join(ovdir, "overlay.json")
    # some demos run through a symlink out/osmosis -> worktree root (app test helpers look for "/osmosis/" in the cwd)
    link = os.path.join(wt, "out", "osmosis")
    if not os.path.islink(link):
        os.symlink(wt, link)
    json.dump({"Replace": {os.path.join(wt, "client/docs/statik/statik.go"): os.path.join(ovdir, "statik.go"),
                           os.path.join(link, "client/docs/statik/statik.go"): os.path.join(ovdir, "statik.go")}}, open(ov, "w"))
    os.makedirs(os.path.join(wt, "out", "tmp"), exist_ok=True)
    # placement(s): every "<repo-relative>.go" mentioned next to a demo source file name
    places = []
    for m in re.finditer(r"([\w./-]+\.go)", txt):
        pth = m.group(1)
        if pth.startswith("out/") or pth.startswith("/"):
            continue
        if "/" in pth and pth not in places and "statik" not in pth:
            places.append(pth)
    demos = sorted(f for f in os.listdir(mdir) if f.endswith(".go"))
    runm = re.search(r"run:\s*(.+)", txt)
    cmd = runm.group(1).strip() if runm else None
    if not cmd:
        cands = [l.strip() for l in txt.splitlines() if "go test" in l or "go run" in l]
        cmd = cands[0] if cands else None
    if not cmd or not places:
        print("cannot parse demo_path.txt:\n" + txt)
        sys.exit(2)
    cmd = re.sub(r"<json>|<overlay[^>]*>|\$OVERLAY", ov, cmd)
    cmd = re.sub(r"-overlay\s+\S+", "-overlay " + ov, cmd)
    cmd = cmd.replace("<ABS WORKTREE>", wt)
    if " -overlay" not in cmd and ("x/" in cmd and "x/epochs" not in cmd):
        cmd = cmd.replace("go test", "go test -vet=off -overlay %s" % ov, 1)
    print("places:", places, "\ncmd:", cmd)
    sh("git checkout -- . ", wt)
    placed = []
    main_demo = "demo_test.go" if "demo_test.go" in demos else demos[0]
    for pl in places[:1]:
        dst = os.path.join(wt, pl)
        os.makedirs(os.path.dirname(dst), exist_ok=True)
        shutil.copy(os.path.join(mdir, main_demo), dst)
        placed.append(dst)
    try:
        rc0, out0 = sh(cmd, wt)
        print("demo on unchanged tree: rc=%d" % rc0)
        rc, out = sh("git apply --whitespace=nowarn %s" % os.path.join(mdir, "patch.diff"), wt)
        if rc != 0:
            print("patch does not apply:", out)
            sys.exit(1)
        rc1, out1 = sh(cmd, wt)
        print("demo with change: rc=%d" % rc1)
        tests = {}
        for mod in ["osmomath", "osmoutils", "x/epochs"]:
            for pf in placed:
                pass
            # run pinned tests WITHOUT the demo files present
        for pf in placed:
            os.remove(pf)
        for mod in ["osmomath", "osmoutils", "x/epochs"]:
            r, o = sh("go build ./... && go test -count=1 ./... 2>&1 | tail -15", os.path.join(wt, mod))
            tests[mod] = (r == 0 and "FAIL" not in o)
            print("pinned tests %s: %s" % (mod, "pass" if tests[mod] else "FAIL\n" + o[-800:]))
        rb, ob = sh("go build ./x/... ./app/... 2>&1 | grep -v statik | head -5", wt)
        ok = rc0 == 0 and rc1 != 0 and all(tests.values())
        print("CONFIRMED" if ok else "NOT CONFIRMED")
        if ok:
            dst = os.path.join(ROOT, "seeded", sid)
            os.makedirs(dst, exist_ok=True)
            for f in os.listdir(mdir):
                if f.endswith(".go") or f in ("patch.diff", "demo_path.txt"):
                    shutil.copy(os.path.join(mdir, f), os.path.join(dst, f if not f.endswith(".go") else f + ".txt"))
            meta = json.load(open(os.path.join(mdir, "meta.json")))
            meta["property"] = prop
            if checks:
                meta["checks"] = checks
            meta["confirmed_by_framework_author"] = {
                "demo_cmd": cmd, "demo_unchanged_rc": rc0, "demo_with_change_rc": rc1,
                "demo_with_change_output_tail": out1[-1200:], "pinned_tests": tests}
            json.dump(meta, open(os.path.join(dst, "meta.json"), "w"), indent=1)
    finally:
        sh("git checkout -- . && git clean -fdq -- . ':!out'", wt)


if __name__ == "__main__":
    main()
