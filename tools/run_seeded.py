#!/usr/bin/env python3
"""Runs the registered checks against every kept seeded change under /verif/seeded/<id>/:
applies patch.diff to /repo (git apply), runs `./check <property> <tier>`, records the verdict, and ALWAYS
restores /repo (git checkout -- . ; removes files the patch added).  Writes seeded/RESULTS.json and prints a table.

usage: tools/run_seeded.py [--tier quick|thorough] [id ...]
"""
import json, os, subprocess, sys, re, time

ROOT = os.path.dirname(os.path.dirname(os.path.abspath(__file__)))
REPO = os.environ.get("VERIF_REPO", "/repo")


def sh(cmd, cwd=None, timeout=3600):
    p = subprocess.run(cmd, cwd=cwd, shell=isinstance(cmd, str), stdout=subprocess.PIPE, stderr=subprocess.STDOUT, text=True, timeout=timeout)
    return p.returncode, p.stdout


def main():
    args = sys.argv[1:]
    tier = "quick"
    if "--tier" in args:
        i = args.index("--tier")
        tier = args[i + 1]
        del args[i:i + 2]
    sdir = os.path.join(ROOT, "seeded")
    ids = args or sorted(d for d in os.listdir(sdir) if os.path.isdir(os.path.join(sdir, d)))
    rc, out = sh("git status --porcelain", cwd=REPO)
    if out.strip():
        print("refusing to run: /repo has uncommitted changes:\n" + out)
        sys.exit(2)
    results = {}
    try:
        results = json.load(open(os.path.join(sdir, "RESULTS.json")))
    except Exception:
        pass
    for sid in ids:
        d = os.path.join(sdir, sid)
        meta = json.load(open(os.path.join(d, "meta.json")))
        if meta.get("retired") and not args:
            results[sid] = {"property": meta["property"], "retired": meta["retired"]}
            print("%-22s retired" % sid)
            continue
        props = meta.get("checks") or [meta["property"]]
        patch = os.path.join(d, "patch.diff")
        rc, out = sh(["git", "apply", "--whitespace=nowarn", patch], cwd=REPO)
        if rc != 0:
            results[sid] = {"error": "patch does not apply: " + out[-400:]}
            print(sid, "PATCH FAILED")
            continue
        res = {"property": meta["property"], "tier": tier, "checks": {}}
        try:
            for p in props:
                t0 = time.time()
                os.environ["VERIF_EVIDENCE_DIR"] = os.path.join(ROOT, ".scratch", "seeded_evidence")
                rc, out = sh(["./check", p, tier], cwd=ROOT, timeout=7200)
                v = [l for l in out.splitlines() if l.startswith("VIOLATION")]
                broken = [l.strip() for l in out.splitlines() if l.strip().startswith("broken:")]
                kind = "missed"
                if v:
                    kind = "detected:no-failing-input-found" if "no-failing-input-found" in v[0] else "detected:failing-input"
                replay = ""
                m = re.search(r"replay=(\S+)", v[0]) if v else None
                if m:
                    rp = os.path.join(ROOT, m.group(1))
                    try:
                        replay = open(rp).read()[:1500]
                    except Exception:
                        pass
                res["checks"][p] = {"exit": rc, "verdict": kind, "violation_line": v[0] if v else "", "broken": broken[:4],
                                    "replay_excerpt": replay, "wall_s": round(time.time() - t0, 1)}
                print("%-22s %-4s %-34s %5.0fs  %s" % (sid, p, kind, time.time() - t0, (broken[0][:110] if broken else "")))
        finally:
            sh("git checkout -- . && git clean -fdq -- . ':!client/docs/statik'", cwd=REPO)
        results[sid] = res
        json.dump(results, open(os.path.join(sdir, "RESULTS.json"), "w"), indent=1)
    # the unchanged tree must be quiet again: re-run nothing here, but make sure generated files are restored
    sh([os.path.join(ROOT, ".bin/extract"), os.path.join(ROOT, "lean/OsmoVerif/Gen"), REPO])


if __name__ == "__main__":
    main()
