package main

// Gen/Twap.lean: constants the x/twap model (property C10) uses, evaluated from /repo's
// CURRENT source, plus body fingerprints of the functions the model mirrors by hand.

import (
	"go/ast"
	"go/token"
	"math/big"
	"path/filepath"
	"strconv"
	"strings"
	"time"
)

// evalDecChain evaluates initialisers of the shape  <Dec expr>.Power(n).Sub(<Dec expr>).TruncateInt()
// (exact integer powers of integer-valued Decs only); everything else goes to the generic evaluator.
func (p *pkgInfo) evalDecChain(e ast.Expr) val {
	if x, ok := p.consts[identName(e)]; ok {
		return p.evalDecChain(x)
	}
	ce, ok := e.(*ast.CallExpr)
	if !ok {
		return p.eval(e, 0)
	}
	se, ok := ce.Fun.(*ast.SelectorExpr)
	if !ok {
		return p.eval(e, 0)
	}
	P := pow10(18)
	switch se.Sel.Name {
	case "Power":
		x := p.evalDecChain(se.X)
		if x.scale != "dec18" || new(big.Int).Rem(x.v, P).Sign() != 0 || len(ce.Args) != 1 {
			fail("Power of a non-integer Dec in %s", show(e))
		}
		b := new(big.Int).Quo(x.v, P)
		r := new(big.Int).Exp(b, p.evalInt(ce.Args[0], 0), nil)
		return val{r.Mul(r, P), "dec18"}
	case "Sub":
		x, y := p.evalDecChain(se.X), p.evalDecChain(ce.Args[0])
		if x.scale != y.scale {
			fail("Sub of different scales in %s", show(e))
		}
		return val{new(big.Int).Sub(x.v, y.v), x.scale}
	case "TruncateInt":
		x := p.evalDecChain(se.X)
		if x.scale != "dec18" {
			fail("TruncateInt of non-Dec in %s", show(e))
		}
		return val{new(big.Int).Quo(x.v, P), "int"}
	}
	return p.eval(e, 0)
}

func identName(e ast.Expr) string {
	if id, ok := e.(*ast.Ident); ok {
		return id.Name
	}
	return ""
}

func genTwap(outDir string) {
	l := newLean("Twap")
	tt := loadPkg(filepath.Join(repo, "x/twap/types"))
	gt := loadPkg(filepath.Join(repo, "x/gamm/types"))
	tw := loadPkg(filepath.Join(repo, "x/twap"))

	maxSp := tt.evalDecChain(id("MaxSpotPrice"))
	if maxSp.scale != "dec18" {
		fail("twap MaxSpotPrice is not a Dec")
	}
	l.intDef("MaxSpotPrice", maxSp.v) // raw Dec
	// MaxSpotPriceBigDec = osmomath.BigDecFromDec(MaxSpotPrice)
	mb, ok := tt.consts["MaxSpotPriceBigDec"].(*ast.CallExpr)
	if !ok || callName(mb.Fun) != "osmomath.BigDecFromDec" || identName(mb.Args[0]) != "MaxSpotPrice" {
		fail("twap MaxSpotPriceBigDec is no longer BigDecFromDec(MaxSpotPrice)")
	}
	l.intDef("MaxSpotPriceBigDec", new(big.Int).Mul(maxSp.v, pow10(18)))
	sf := gt.evalDecChain(id("SpotPriceSigFigs"))
	if sf.scale != "int" {
		fail("gamm SpotPriceSigFigs is not an Int")
	}
	l.intDef("SpotPriceSigFigs", sf.v)
	// Go's zero time.Time (no previous spot price error), as Unix seconds; and ns per ms of
	// CanonicalTimeMs (time.Time.UnixMilli).
	l.intDef("zeroTimeUnixSec", big.NewInt(time.Time{}.Unix()))
	l.intDef("nsPerSec", big.NewInt(int64(time.Second)))
	l.intDef("nsPerMs", big.NewInt(int64(time.Millisecond)))
	l.natDef("NumRecordsToPrunePerBlock", tw.evalInt(id("NumRecordsToPrunePerBlock"), 0))
	// the store key separator: the most recent records of a pool are visited in the byte order of
	// "<denom0><sep><denom1>" (updateRecords stops at the first rejected pair, so the order is semantic)
	ks, ok := tt.consts["KeySeparator"].(*ast.BasicLit)
	if !ok || ks.Kind != token.STRING {
		fail("twap KeySeparator is no longer a string literal")
	}
	sep, err := strconv.Unquote(ks.Value)
	if err != nil || len(sep) != 1 {
		fail("twap KeySeparator is not a one-character string: %s", ks.Value)
	}
	l.strDef("KeySeparator", sep)
	genTwapKeys(l, tt, tw)

	for _, fn := range []string{"newTwapRecord", "getSpotPrices", "Keeper.afterCreatePool", "Keeper.EndBlock", "Keeper.updateRecords",
		"Keeper.updateRecord", "recordWithUpdatedAccumulators", "Keeper.getInterpolatedRecord", "Keeper.getMostRecentRecord",
		"computeTwap", "twapLog", "arithmetic.computeTwap", "geometric.computeTwap", "Keeper.getTwap", "Keeper.getTwapToNow",
		"Keeper.pruneRecordsBeforeTimeButNewest", "Keeper.getRecordAtOrBeforeTime", "Keeper.StoreNewRecord", "Keeper.StoreHistoricalTWAP",
		"Keeper.GetAllMostRecentRecordsForPoolWithDenoms", "Keeper.trackChangedPool", "Keeper.getChangedPools", "epochhook.AfterEpochEnd"} {
		l.strDef("src_"+strings.ReplaceAll(fn, ".", "_"), tw.bodyText(fn))
	}
	// (every store key constructor / key range of types/keys.go: the model keys its stores by the structured
	// (pool, denom0, denom1, time) and so abstracts from the byte layout of the keys)
	for _, fn := range []string{"SpotPriceMulDuration", "AccumDiffDivDuration", "CanonicalTimeMs", "FormatHistoricalPoolIndexTWAPKey",
		"FormatHistoricalPoolIndexTimeSuffix", "FormatHistoricalPoolIndexTWAPKeyFromStrTime", "FormatHistoricalPoolIndexTimePrefix",
		"FormatHistoricalPoolIndexDenomPairTWAPKey", "FormatMostRecentTWAPKey", "FormatKeyPoolTwapRecords",
		"GetAllMostRecentTwapsForPool", "GetMostRecentTwapForPool", "GetAllUniqueDenomPairs", "LexicographicalOrderDenoms"} {
		l.strDef("src_types_"+fn, tt.bodyText(fn))
	}
	l.write(outDir)
}
