package main

import (
	"go/ast"
	"math/big"
	"os/exec"
	"path/filepath"
	"strings"
)

func sdkMathDir() (string, string) {
	cmd := exec.Command("go", "list", "-m", "-f", "{{.Version}} {{.Dir}}", "cosmossdk.io/math")
	cmd.Dir = repo
	cmd.Env = append(cmd.Environ(), "GOPROXY=off", "GOSUMDB=off", "GOFLAGS=")
	out, err := cmd.Output()
	if err != nil {
		fail("go list cosmossdk.io/math: %v", err)
	}
	f := strings.Fields(string(out))
	if len(f) != 2 {
		fail("unexpected go list output %q", out)
	}
	return f[0], f[1]
}

func genOsmomath(outDir string) {
	ver, dir := sdkMathDir()
	sdk := loadPkg(dir)
	externalConsts["sdkmath.LegacyPrecision"] = sdk.evalInt(id("LegacyPrecision"), 0).Int64()
	externalConsts["sdkmath.LegacyDecimalPrecisionBits"] = sdk.evalInt(id("LegacyDecimalPrecisionBits"), 0).Int64()
	externalConsts["sdkmath.MaxBitLen"] = sdk.evalInt(id("MaxBitLen"), 0).Int64()

	p := loadPkg(filepath.Join(repo, "osmomath"))
	l := newLean("Osmomath")
	l.strDef("sdkMathVersion", ver)
	for _, c := range []string{"BigDecPrecision", "BigDecimalPrecisionBits", "maxBitLen", "maxDecBitLen", "maxLog2Iterations", "powIterationLimit", "DecPrecision"} {
		l.natDef(c, p.evalInt(id(c), 0))
	}
	l.natDef("sdkLegacyPrecision", big.NewInt(externalConsts["sdkmath.LegacyPrecision"]))
	l.natDef("sdkMaxBitLen", big.NewInt(externalConsts["sdkmath.MaxBitLen"]))
	l.natDef("sdkLegacyDecimalPrecisionBits", big.NewInt(externalConsts["sdkmath.LegacyDecimalPrecisionBits"]))
	for _, c := range []string{"logOfEbase2", "tickLogOf2", "powPrecision", "maxSupportedExponent", "pointOne", "one_half"} {
		l.intDef(c, p.eval(id(c), 0).v)
	}
	l.intList("exp2Num", p.slice("numeratorCoefficients13Param"))
	l.intList("exp2Den", p.slice("denominatorCoefficients13Param"))
	// rounding-operator lists of the BigDec primitives themselves: the model of
	// each primitive is written by hand; the body fingerprint below makes a
	// change of any primitive visible as a changed Gen file => the pinned
	// `rfl` obligations in Props/C12 stop checking and trigger the search.
	for _, fn := range []string{
		"chopPrecisionAndRound", "chopPrecisionAndRoundSdkDec", "chopPrecisionAndRoundUpMut", "incBasedOnRem",
		"chopPrecisionAndTruncate", "chopPrecisionAndTruncateMut", "assertMaxBitLen",
		"BigDec.AddMut", "BigDec.SubMut", "BigDec.MulMut", "BigDec.MulDecMut", "BigDec.MulTruncate", "BigDec.MulTruncateDec",
		"BigDec.MulRoundUp", "BigDec.MulRoundUpDec", "BigDec.MulInt", "BigDec.MulInt64", "BigDec.QuoMut", "BigDec.QuoRaw",
		"BigDec.QuoTruncate", "BigDec.QuoTruncateMut", "BigDec.QuoTruncateDec", "BigDec.QuoTruncateDecMut", "BigDec.QuoRoundUp",
		"BigDec.QuoByDecRoundUp", "BigDec.QuoRoundUpMut", "BigDec.QuoRoundUpNextIntMut", "BigDec.QuoInt", "BigDec.QuoInt64",
		"BigDec.Dec", "BigDec.DecWithPrecision", "BigDec.ChopPrecisionMut", "BigDec.DecRoundUp", "BigDec.CeilMut", "BigDec.Ceil",
		"BigDec.TruncateInt", "BigDec.TruncateDec", "BigDec.RoundInt", "BigDec.PowerIntegerMut", "NewBigDecFromStr", "BigDec.String",
		"BigDec.Unmarshal", "BigDec.Marshal",
		// the integer side (Model/NumInt.lean): osmomath.BigInt, the BigDec <-> integer conversions, DivIntByU64ToBigDec
		"BigInt.Add", "BigInt.Sub", "BigInt.Mul", "BigInt.Quo", "BigInt.Mod", "BigInt.Neg", "BigInt.Abs", "BigInt.ToDec",
		"BigInt.Int64", "BigInt.Uint64", "BigInt.Marshal", "BigInt.Unmarshal", "BigInt.String", "MinBigInt", "MaxBigInt",
		"NewBigIntFromBigInt", "NewBigIntFromString", "NewBigIntWithDecimal", "newIntegerFromString", "unmarshalText",
		"NewBigDecWithPrec", "NewBigDecFromBigIntWithPrec", "NewBigDecFromBigIntMutWithPrec", "NewBigDecFromIntWithPrec",
		"NewBigDecFromDecMulDec", "BigDecFromSDKInt", "BigDec.TruncateInt64", "BigDec.RoundInt64", "BigDec.IsInteger",
		"DivIntByU64ToBigDec", "MinBigDec", "MaxBigDec",
		"MonotonicSqrtMut", "MonotonicSqrtBigDecMut", "SigFigRound", "Exp2", "exp2ChebyshevRationalApprox", "BigDec.LogBase2",
		"Pow", "PowApprox", "AbsDifferenceWithSign", "BinarySearch", "BinarySearchBigDec", "ErrTolerance.Compare", "ErrTolerance.CompareBigDec",
	} {
		l.strDef("src_"+strings.ReplaceAll(fn, ".", "_"), p.bodyText(fn))
	}
	l.write(outDir)
}

func genCL(outDir string) {
	p := loadPkg(filepath.Join(repo, "x/concentrated-liquidity/types"))
	l := newLean("CL")
	for _, c := range []string{"MinInitializedTick", "MaxTick", "MinCurrentTick", "MinInitializedTickV2", "MinCurrentTickV2", "ExponentAtPriceOne"} {
		l.intDef(c, p.evalInt(id(c), 0))
	}
	for _, c := range []string{"MaxSpotPrice", "MinSpotPrice", "MaxSpotPriceBigDec", "MinSpotPriceBigDec", "MinSpotPriceV2", "MaxSqrtPrice", "MinSqrtPrice", "MaxSqrtPriceBigDec", "MinSqrtPriceBigDec"} {
		l.intDef(c, p.eval(id(c), 0).v)
	}
	l.intList("SupportedUptimes", p.slice("SupportedUptimes"))
	l.intList("AuthorizedTickSpacing", p.slice("AuthorizedTickSpacing"))
	l.intList("AuthorizedSpreadFactors", p.slice("AuthorizedSpreadFactors"))

	k := loadPkg(filepath.Join(repo, "x/concentrated-liquidity"))
	l.natDef("swapNoProgressLimit", k.evalInt(id("swapNoProgressLimit"), 0))
	for _, fn := range []string{"Keeper.computeOutAmtGivenIn", "Keeper.computeInAmtGivenOut", "Keeper.swapCrossTickLogic", "Keeper.updatePoolForSwap",
		"SwapState.updateSpreadRewardGrowthGlobal", "validateSwapProgressAndAmountConsumption", "edgeCaseInequalityBasedOnSwapStrategy"} {
		l.strDef("src_"+strings.ReplaceAll(fn, ".", "_"), k.bodyText(fn))
	}
	ss := loadPkg(filepath.Join(repo, "x/concentrated-liquidity/swapstrategy"))
	for _, fn := range []string{"zeroForOneStrategy.ComputeSwapWithinBucketOutGivenIn", "zeroForOneStrategy.ComputeSwapWithinBucketInGivenOut",
		"oneForZeroStrategy.ComputeSwapWithinBucketOutGivenIn", "oneForZeroStrategy.ComputeSwapWithinBucketInGivenOut",
		"computeSpreadRewardChargePerSwapStepOutGivenIn", "computeSpreadRewardChargeFromAmountIn", "GetSqrtPriceLimit",
		"zeroForOneStrategy.GetSqrtTargetPrice", "oneForZeroStrategy.GetSqrtTargetPrice"} {
		l.strDef("src_"+strings.ReplaceAll(fn, ".", "_"), ss.bodyText(fn))
		l.strList("ops_"+strings.ReplaceAll(fn, ".", "_"), ss.opList(fn))
	}
	m := loadPkg(filepath.Join(repo, "x/concentrated-liquidity/math"))
	for _, fn := range []string{"CalcAmount0Delta", "CalcAmount1Delta", "GetNextSqrtPriceFromAmount0InRoundingUp",
		"GetNextSqrtPriceFromAmount0OutRoundingUp", "GetNextSqrtPriceFromAmount1InRoundingDown", "GetNextSqrtPriceFromAmount1OutRoundingDown",
		"Liquidity0", "Liquidity1"} {
		l.strList("ops_"+fn, m.opList(fn))
	}
	for _, fn := range []string{"TickToSqrtPrice", "TickToPrice", "TickToAdditiveGeometricIndices", "CalculatePriceToTick", "CalculateSqrtPriceToTick",
		"RoundDownTickToSpacing", "SqrtPriceToTickRoundDownSpacing", "CalcAmount0Delta", "CalcAmount1Delta",
		"GetNextSqrtPriceFromAmount0InRoundingUp", "GetNextSqrtPriceFromAmount0OutRoundingUp",
		"GetNextSqrtPriceFromAmount1InRoundingDown", "GetNextSqrtPriceFromAmount1OutRoundingDown", "Liquidity0", "Liquidity1"} {
		l.strDef("src_"+fn, m.bodyText(fn))
	}
	l.write(outDir)
}

func id(n string) ast.Expr { return &ast.Ident{Name: n} }

func genMore(outDir string) {
	genEpochs(outDir)
	genAccum(outDir)
	genAuth(outDir)
	genGamm(outDir)
	genTwap(outDir)
	genIncentives(outDir)
	genGammMath(outDir)
	genDet(outDir)
	genLockup(outDir)
	genExpr(outDir)
}
