package main

import (
	"strconv"
	"strings"
)

// gen_expr_specs.go — the whitelist of functions tied by the expression translator (Deliverable A, `tie`)
// and of functions whose ordered operator/comparison lists are pinned (Deliverable B, `pinOps`).
// A parameter key is the Go expression with the function's parameters written $0 (receiver), $1, $2, …;
// every Go parameter / keeper read the body uses must be bound here, otherwise the extraction fails.

func genExpr(outDir string) {
	specMint()
	specRouter()
	specGamm()
	specTwap()
	specSuperfluid()
	specAccum()
	specIncentives()
	specCL()
	specKeepers()
	writeFnFiles(outDir)
}

// ---------------------------------------------------------------- x/mint (C18)
func specMint() {
	const types, keeper = "x/mint/types", "x/mint/keeper"
	tie(&xspec{mod: "Mint", dir: types, fn: "Minter.NextEpochProvisions", lean: "NextEpochProvisions",
		params: []xparam{{"$0.EpochProvisions", "epochProvisions", tyDec}, {"$1.ReductionFactor", "reductionFactor", tyDec}},
		doc:    "x/mint/types/minter.go `Minter.NextEpochProvisions`"})
	tie(&xspec{mod: "Mint", dir: types, fn: "Minter.EpochProvision", lean: "EpochProvision",
		params: []xparam{{"$0.EpochProvisions", "epochProvisions", tyDec}},
		doc:    "x/mint/types/minter.go `Minter.EpochProvision` (the amount of the coin)"})
	tie(&xspec{mod: "Mint", dir: keeper, fn: "getProportions", lean: "getProportions",
		params: []xparam{{"$1.Amount", "amount", tyInt}, {"$2", "ratio", tyDec}},
		doc:    "x/mint/keeper/keeper.go `getProportions` (the amount of the coin; error = none)"})
	pinOps("Mint", keeper, "Keeper.DistributeMintedCoin", "distributeToModule", "distributeDeveloperRewards", "FundCommunityPool")
	pinOps("Mint", keeper, "Keeper.distributeDeveloperRewards", "BurnCoins", "AddSupplyOffset", "FundCommunityPool", "SendCoinsFromModuleToAccount")
	// x/pool-incentives: the distribution table the mint hook allocates over (Model/PoolIncentives.lean)
	const pik = "x/pool-incentives/keeper"
	pinOps("Mint", pik, "Keeper.AllocateAsset", "GetBalance", "GetDistrInfo", "FundCommunityPoolFromModule", "AddToGaugeRewards", "ToLegacyDec", "TruncateInt", "IsPositive", "IsZero")
	pinOps("Mint", pik, "Keeper.UpdateDistrRecords", "GetDistrInfo", "validateRecords", "SetDistrInfo", "Equal", "IsZero", "delete", "SliceStable")
	pinOps("Mint", pik, "Keeper.ReplaceDistrRecords", "GetDistrInfo", "validateRecords", "SetDistrInfo")
	pinOps("Mint", pik, "Keeper.validateRecords", "GetGaugeByID")
}

func decParams(names ...string) []xparam {
	var out []xparam
	for i, n := range names {
		out = append(out, xparam{key: "$" + itoa(i+1), name: n, ty: tyDec})
	}
	return out
}

func bigParams(names ...string) []xparam {
	var out []xparam
	for i, n := range names {
		out = append(out, xparam{key: "$" + itoa(i+1), name: n, ty: tyBig})
	}
	return out
}

func itoa(i int) string { return strconv.Itoa(i) }

// ---------------------------------------------------------------- x/poolmanager taker fee (C05)
func specRouter() {
	const pm = "x/poolmanager"
	for _, fn := range []string{"CalcTakerFeeExactIn", "CalcTakerFeeExactOut"} {
		tie(&xspec{mod: "Router", dir: pm, fn: fn, lean: fn,
			params: []xparam{{"$1.Amount", "amount", tyInt}, {"$2", "takerFee", tyDec}},
			doc:    "x/poolmanager/taker_fee.go `" + fn + "`: (amount of the first coin, amount of the fee coin)"})
	}
	pinOps("Router", pm, "Keeper.chargeTakerFee", "GetTradingPairTakerFee", "SendCoinsFromAccountToModule", "isDenomWhitelisted", "Contains")
}

// ---------------------------------------------------------------- x/gamm pool math (C04)
func specGamm() {
	const bal, ss, cc = "x/gamm/pool-models/balancer", "x/gamm/pool-models/stableswap", "x/gamm/pool-models/internal/cfmm_common"
	pow := xextern{key: "osmomath.Pow", name: "pow", args: []string{tyDec, tyDec}, res: tyDec, fallible: true}
	tie(&xspec{mod: "GammMath", dir: bal, fn: "feeRatio", lean: "feeRatio", params: decParams("normalizedWeight", "spreadFactor"),
		doc: "balancer/amm.go `feeRatio`"})
	tie(&xspec{mod: "GammMath", dir: bal, fn: "solveConstantFunctionInvariant", lean: "solveConstantFunctionInvariant",
		externs: []xextern{pow},
		params:  decParams("tokenBalanceFixedBefore", "tokenBalanceFixedAfter", "tokenWeightFixed", "tokenBalanceUnknownBefore", "tokenWeightUnknown"),
		doc:     "balancer/amm.go `solveConstantFunctionInvariant` (`pow` = osmomath.Pow)"})
	tie(&xspec{mod: "GammMath", dir: bal, fn: "calcPoolSharesOutGivenSingleAssetIn", lean: "calcPoolSharesOutGivenSingleAssetIn",
		externs: []xextern{pow},
		params:  decParams("tokenBalanceIn", "normalizedTokenWeightIn", "poolShares", "tokenAmountIn", "spreadFactor"),
		doc:     "balancer/amm.go `calcPoolSharesOutGivenSingleAssetIn`"})
	tie(&xspec{mod: "GammMath", dir: bal, fn: "calcSingleAssetInGivenPoolSharesOut", lean: "calcSingleAssetInGivenPoolSharesOut",
		externs: []xextern{pow},
		params:  decParams("tokenBalanceIn", "normalizedTokenWeightIn", "totalPoolSharesSupply", "sharesAmountOut", "spreadFactor"),
		doc:     "balancer/amm.go `calcSingleAssetInGivenPoolSharesOut`"})
	tie(&xspec{mod: "GammMath", dir: bal, fn: "calcPoolSharesInGivenSingleAssetOut", lean: "calcPoolSharesInGivenSingleAssetOut",
		externs: []xextern{pow},
		params:  decParams("tokenBalanceOut", "normalizedTokenWeightOut", "totalPoolSharesSupply", "tokenAmountOut", "spreadFactor", "exitFee"),
		doc:     "balancer/amm.go `calcPoolSharesInGivenSingleAssetOut`"})
	tie(&xspec{mod: "GammMath", dir: ss, fn: "cfmmConstantMultiNoVY", lean: "cfmmConstantMultiNoVY",
		params: bigParams("xReserve", "yReserve", "wSumSquares"), doc: "stableswap/amm.go `cfmmConstantMultiNoVY`"})
	tie(&xspec{mod: "GammMath", dir: ss, fn: "cfmmConstantMultiNoV", lean: "cfmmConstantMultiNoV",
		params: bigParams("xReserve", "yReserve", "wSumSquares"), doc: "stableswap/amm.go `cfmmConstantMultiNoV`"})
	tie(&xspec{mod: "GammMath", dir: ss, fn: "targetKCalculator", lean: "targetKCalculator",
		params: bigParams("x0", "y0", "w", "yf"), doc: "stableswap/amm.go `targetKCalculator`"})
	tie(&xspec{mod: "GammMath", dir: ss, fn: "deriveUpperLowerXFinalReserveBounds", lean: "deriveUpperLowerXFinalReserveBounds",
		params: bigParams("xReserve", "yReserve", "wSumSquares", "yFinal"), doc: "stableswap/amm.go `deriveUpperLowerXFinalReserveBounds`"})
	tie(&xspec{mod: "GammMath", dir: ss, fn: "oneMinus", lean: "oneMinus",
		params: []xparam{{"$1", "spreadFactor", tyDec}}, doc: "stableswap/amm.go `oneMinus`"})
	pinOps("GammMath", cc, "CalcExitPool", "GetTotalShares", "GetTotalPoolLiquidity")
	pinOps("GammMath", cc, "MaximalExactRatioJoin", "GetTotalShares", "GetTotalPoolLiquidity")
	pinOps("GammMath", ss, "iterKCalculator")
	pinOps("GammMath", ss, "solveCFMMBinarySearchMulti", "BinarySearchBigDec", "iterKCalculator")
	pinOps("GammMath", bal, "Pool.CalcOutAmtGivenIn")
	pinOps("GammMath", bal, "Pool.CalcInAmtGivenOut")
}

// ---------------------------------------------------------------- x/twap (C10)
func specTwap() {
	const types, tw = "x/twap/types", "x/twap"
	rec := []xparam{{"Time", "time", tyTime}, {"Height", "height", tyI64}, {"P0LastSpotPrice", "sp0", tyDec}, {"P1LastSpotPrice", "sp1", tyDec},
		{"P0ArithmeticTwapAccumulator", "acc0", tyDec}, {"P1ArithmeticTwapAccumulator", "acc1", tyDec},
		{"GeometricTwapAccumulator", "geom", tyDec}, {"LastErrorTime", "lastErr", tyTime}}
	structs := map[string][]xparam{"TwapRecord": rec}
	tymap := map[string]string{"types.TwapRecord": "TwapRecord"}
	logBase2 := xextern{key: "BigDec.LogBase2", name: "logBase2", args: []string{tyBig}, res: tyBig, fallible: true}
	canon := xextern{key: "types.CanonicalTimeMs", name: "canonicalTimeMs", args: []string{tyTime}, res: tyI64}
	tie(&xspec{mod: "Twap", dir: types, fn: "SpotPriceMulDuration", lean: "SpotPriceMulDuration",
		params: []xparam{{"$1", "sp", tyDec}, {"$2", "timeDeltaMs", tyI64}}, doc: "x/twap/types/utils.go `SpotPriceMulDuration`"})
	tie(&xspec{mod: "Twap", dir: types, fn: "AccumDiffDivDuration", lean: "AccumDiffDivDuration",
		params: []xparam{{"$1", "accumDiff", tyDec}, {"$2", "timeDeltaMs", tyI64}}, doc: "x/twap/types/utils.go `AccumDiffDivDuration`"})
	tie(&xspec{mod: "Twap", dir: tw, fn: "twapLog", lean: "twapLog", externs: []xextern{logBase2},
		params: []xparam{{"$1", "price", tyDec}}, doc: "x/twap/logic.go `twapLog` (`logBase2` = BigDec.LogBase2)"})
	tie(&xspec{mod: "Twap", dir: tw, fn: "recordWithUpdatedAccumulators", lean: "recordWithUpdatedAccumulators",
		externs: []xextern{logBase2, canon}, structs: structs, tymap: tymap,
		params: []xparam{{"$1", "r", "TwapRecord"}, {"$2", "newTime", tyTime}},
		doc:    "x/twap/logic.go `recordWithUpdatedAccumulators`: the fields (time, height, sp0, sp1, acc0, acc1, geom, lastErr) of the result"})
	tie(&xspec{mod: "Twap", dir: tw, fn: "arithmetic.computeTwap", lean: "arithmetic_computeTwap",
		externs: []xextern{canon}, structs: structs, tymap: tymap,
		params: []xparam{{"$1", "a", "TwapRecord"}, {"$2", "b", "TwapRecord"}, {"$3==$1.Asset0Denom", "quoteIsAsset0", tyBool}},
		doc:    "x/twap/strategy.go `arithmetic.computeTwap`"})
	tie(&xspec{mod: "Twap", dir: tw, fn: "geometric.computeTwap", lean: "geometric_computeTwap",
		externs: []xextern{canon, {key: "osmomath.Exp2", name: "exp2", args: []string{tyBig}, res: tyBig, fallible: true},
			{key: "osmomath.SigFigRound", name: "sigFigRound", args: []string{tyDec, tyInt}, res: tyDec, fallible: true}},
		structs: structs, tymap: tymap,
		params: []xparam{{"$1", "a", "TwapRecord"}, {"$2", "b", "TwapRecord"}, {"$3==$1.Asset0Denom", "quoteIsAsset0", tyBool},
			{"gammtypes.SpotPriceSigFigs", "spotPriceSigFigs", tyInt}},
		doc: "x/twap/strategy.go `geometric.computeTwap`"})
	pinOps("Twap", tw, "computeTwap", "computeTwap")
	pinOps("Twap", tw, "getSpotPrices", "RouteCalculateSpotPrice")
	pinOps("Twap", tw, "Keeper.updateRecord", "recordWithUpdatedAccumulators", "getSpotPrices")
}

// ---------------------------------------------------------------- x/superfluid (C11)
func specSuperfluid() {
	const k = "x/superfluid/keeper"
	risk := xparam{"$0.GetParams($1).MinimumRiskFactor", "minRiskFactor", tyDec}
	tie(&xspec{mod: "Superfluid", dir: k, fn: "Keeper.GetRiskAdjustedOsmoValue", lean: "GetRiskAdjustedOsmoValue",
		params: []xparam{risk, {"$2", "amount", tyInt}}, doc: "x/superfluid/keeper/superfluid_asset.go `GetRiskAdjustedOsmoValue`"})
	tie(&xspec{mod: "Superfluid", dir: k, fn: "Keeper.UnriskAdjustOsmoValue", lean: "UnriskAdjustOsmoValue",
		params: []xparam{risk, {"$2", "amount", tyDec}}, doc: "x/superfluid/keeper/superfluid_asset.go `UnriskAdjustOsmoValue`"})
	tie(&xspec{mod: "Superfluid", dir: k, fn: "Keeper.GetSuperfluidOSMOTokens", lean: "GetSuperfluidOSMOTokens",
		externs: []xextern{{key: "$0.GetSuperfluidAsset", name: "getSuperfluidAsset", fallible: true, noargs: true}},
		params:  []xparam{risk, {"$0.GetOsmoEquivalentMultiplier($1,$2)", "multiplier", tyDec}, {"$3", "amount", tyInt}},
		doc:     "x/superfluid/keeper/twap_price.go `GetSuperfluidOSMOTokens` (`getSuperfluidAsset` = none when the denom is not a superfluid asset)"})
	tie(&xspec{mod: "Superfluid", dir: k, fn: "Keeper.calculateOsmoBackingPerShare", lean: "calculateOsmoBackingPerShare",
		params: []xparam{{"$1.GetTotalShares()", "totalShares", tyInt}, {"$2", "osmoInPool", tyInt}},
		doc:    "x/superfluid/keeper/twap_price.go `calculateOsmoBackingPerShare`"})
	pinOps("Superfluid", k, "Keeper.UpdateOsmoEquivalentMultipliers", "calculateOsmoBackingPerShare", "SetOsmoEquivalentMultiplier", "BeginUnwindSuperfluidAsset", "AmountOf")
	pinOps("Superfluid", k, "Keeper.updateConcentratedOsmoEquivalentMultiplier", "SetOsmoEquivalentMultiplier", "BeginUnwindSuperfluidAsset", "AmountOf", "GetFullRangeLiquidityInPool")
}

// ---------------------------------------------------------------- osmoutils/accum (C15)
func specAccum() {
	const a = "osmoutils/accum"
	dc := "DC"
	tie(&xspec{mod: "Accum", dir: a, fn: "GetTotalRewards", lean: "GetTotalRewards", tyvars: []string{dc},
		tymap: map[string]string{"sdk.DecCoins": dc},
		externs: []xextern{{key: "DC.Sub", name: "dcSub", args: []string{dc, dc}, res: dc, fallible: true},
			{key: "DC.MulDec", name: "dcMulDec", args: []string{dc, tyDec}, res: dc, fallible: true},
			{key: "DC.Add", name: "dcAdd", args: []string{dc, dc}, res: dc, fallible: true}},
		params: []xparam{{"$1.valuePerShare", "valuePerShare", dc}, {"$2.AccumValuePerShare", "accumValuePerShare", dc},
			{"$2.NumShares", "numShares", tyDec}, {"$2.UnclaimedRewardsTotal", "unclaimedRewardsTotal", dc}},
		doc: "osmoutils/accum/accum_helpers.go `GetTotalRewards` over abstract sdk.DecCoins operations (Sub, MulDec, Add)"})
	pinOps("Accum", a, "AccumulatorObject.ClaimRewards", "GetPosition", "GetTotalRewards", "TruncateDecimal", "deletePosition", "initOrUpdatePosition", "IsZero")
	pinOps("Accum", a, "AccumulatorObject.AddToAccumulator", "setAccumulator")
	// the sign dispatch of UpdatePositionIntervalAccumulation (A), over the two abstract mutators
	mut := func(n string) xextern {
		return xextern{key: "$0." + n, name: strings.ToLower(n[:1]) + n[1:], args: []string{tyDec, dc}, argIdx: []int{1, 2}, fallible: true}
	}
	tie(&xspec{mod: "Accum", dir: a, fn: "AccumulatorObject.UpdatePositionIntervalAccumulation", lean: "UpdatePositionIntervalAccumulation",
		tyvars: []string{dc}, tymap: map[string]string{"sdk.DecCoins": dc},
		externs: []xextern{mut("RemoveFromPositionIntervalAccumulation"), mut("AddToPositionIntervalAccumulation")},
		params:  []xparam{{"$2", "numShares", tyDec}, {"$3", "intervalAccumulationPerShare", dc}},
		doc:     "osmoutils/accum/accum.go `UpdatePositionIntervalAccumulation`: zero is an error, a negative amount removes its negation, a positive one adds"})
	// B (statement skeletons) for every function that reads or writes positions / the total share counter
	pinK("AccumOps", a, "MakeAccumulator", "GetAccumulator", "setAccumulator", "AccumulatorObject.AddToAccumulator",
		"AccumulatorObject.NewPosition", "AccumulatorObject.NewPositionIntervalAccumulation",
		"AccumulatorObject.AddToPosition", "AccumulatorObject.AddToPositionIntervalAccumulation",
		"AccumulatorObject.RemoveFromPosition", "AccumulatorObject.RemoveFromPositionIntervalAccumulation",
		"AccumulatorObject.UpdatePosition", "AccumulatorObject.UpdatePositionIntervalAccumulation",
		"AccumulatorObject.SetPositionIntervalAccumulation", "AccumulatorObject.DeletePosition", "AccumulatorObject.deletePosition",
		"AccumulatorObject.GetPositionSize", "AccumulatorObject.HasPosition", "AccumulatorObject.ClaimRewards",
		"AccumulatorObject.AddToUnclaimedRewards", "initOrUpdatePosition", "GetPosition", "GetTotalRewards")
}

// ---------------------------------------------------------------- x/incentives (C09)
func specIncentives() {
	const k = "x/incentives/keeper"
	pinOps("Incentives", k, "Keeper.distributeInternal", "guaranteedNonzeroCoinAmountOf", "NewIntFromBigInt", "BigIntMut", "addLockRewards",
		"updateGaugePostDistribute", "skipSpamGaugeDistribute", "Sign", "NewIntFromUint64", "Len")
	pinOps("Incentives", k, "Keeper.updateGaugePostDistribute")
	pinOps("Incentives", k, "Keeper.skipSpamGaugeDistribute", "Len")
	pinOps("Incentives", k, "Keeper.checkFinishDistribution", "GetGaugeByID", "moveActiveGaugeToFinishedGauge")
}
