package main

// gen_expr_specs.go — the whitelist of functions tied by the expression translator (Deliverable A, `tie`)
// and of functions whose ordered operator/comparison lists are pinned (Deliverable B, `pinOps`).
// A parameter key is the Go expression with the function's parameters written $0 (receiver), $1, $2, …;
// every Go parameter / keeper read the body uses must be bound here, otherwise the extraction fails.

func genExpr(outDir string) {
	specMint()
	writeFnFiles(outDir)
}

// ---------------------------------------------------------------- x/mint (C18)
func specMint() {
	const types, keeper = "x/mint/types", "x/mint/keeper"
	tie(&xspec{mod: "Mint", dir: types, fn: "Minter.NextEpochProvisions", lean: "NextEpochProvisions",
		params: []xparam{{"$0.EpochProvisions", "epochProvisions", tyDec}, {"$1.ReductionFactor", "reductionFactor", tyDec}},
		doc:    "x/mint/types/minter.go `Minter.NextEpochProvisions`"})
	tie(&xspec{mod: "Mint", dir: types, fn: "Minter.EpochProvision", lean: "EpochProvision",
		params: []xparam{{"$0.EpochProvisions", "epochProvisions", tyDec}},
		doc:    "x/mint/types/minter.go `Minter.EpochProvision` (the amount of the coin)"})
	tie(&xspec{mod: "Mint", dir: keeper, fn: "getProportions", lean: "getProportions",
		params: []xparam{{"$1.Amount", "amount", tyInt}, {"$2", "ratio", tyDec}},
		doc:    "x/mint/keeper/keeper.go `getProportions` (the amount of the coin; error = none)"})
	pinOps("Mint", keeper, "Keeper.DistributeMintedCoin", "distributeToModule", "distributeDeveloperRewards", "FundCommunityPool")
	pinOps("Mint", keeper, "Keeper.distributeDeveloperRewards", "BurnCoins", "AddSupplyOffset", "FundCommunityPool", "SendCoinsFromModuleToAccount")
}
