package main

import "path/filepath"

// genEpochs: body fingerprints of the functions Model/Epochs.lean mirrors by hand (C17).
// No Lean constants are needed by that model (KeyPrefixEpoch only fixes the iteration order = identifier order).
func genEpochs(outDir string) {
	k := loadPkg(filepath.Join(repo, "x/epochs/keeper"))
	for _, fn := range []string{"Keeper.BeginBlocker", "Keeper.AddEpochInfo", "Keeper.setEpochInfo", "Keeper.IterateEpochInfo",
		"Keeper.AfterEpochEnd", "Keeper.BeforeEpochStart"} {
		fingerprints["Epochs."+fn] = k.bodyText(fn)
	}
	t := loadPkg(filepath.Join(repo, "x/epochs/types"))
	for _, fn := range []string{"EpochInfo.Validate", "MultiEpochHooks.AfterEpochEnd", "MultiEpochHooks.BeforeEpochStart", "panicCatchingEpochHook"} {
		fingerprints["Epochs."+fn] = t.bodyText(fn)
	}
	u := loadPkg(filepath.Join(repo, "osmoutils"))
	for _, fn := range []string{"ApplyFuncIfNoError", "applyFunc", "IsOutOfGasError"} {
		fingerprints["Epochs.osmoutils."+fn] = u.bodyText(fn)
	}
}
