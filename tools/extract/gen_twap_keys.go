package main

// Store key constructors of x/twap/types/keys.go as TOKEN LISTS (Gen/Twap.lean `key_*`): the Lean side
// (Model/TwapKeys.lean) builds the key strings by interpreting these lists, so the theorems about the key
// ranges of the pruning pass / the record lookup (Props/C10: each range holds exactly the historical keys of
// its own (pool, denom0, denom1) before / up to the given time) are re-checked against what keys.go says now.
//
// Understood shape of a constructor: optional locals `x := osmoutils.FormatFixedLengthU64(<uint64 param>)` /
// `x := osmoutils.FormatTimeString(<time param>)`, then ONE fmt.Sprintf / fmt.Fprintf whose verbs are %s / %d and
// whose arguments are string constants, parameters or those locals; or a delegation
// `return Other(<params / locals in order>)`.  Anything else is an extraction failure.

import (
	"go/ast"
	"go/token"
	"strconv"
	"strings"
)

type keyTok struct{ kind, text string }

func (p *pkgInfo) strConst(e ast.Expr) (string, bool) {
	switch x := e.(type) {
	case *ast.BasicLit:
		if x.Kind == token.STRING {
			s, err := strconv.Unquote(x.Value)
			return s, err == nil
		}
	case *ast.Ident:
		if v, ok := p.consts[x.Name]; ok {
			return p.strConst(v)
		}
	case *ast.BinaryExpr:
		if x.Op == token.ADD {
			a, ok1 := p.strConst(x.X)
			b, ok2 := p.strConst(x.Y)
			return a + b, ok1 && ok2
		}
	case *ast.ParenExpr:
		return p.strConst(x.X)
	}
	return "", false
}

func typeText(e ast.Expr) string { return oneLine(e) }

func (p *pkgInfo) keyTokens(fn string, depth int) []keyTok {
	if depth > 3 {
		fail("twap key constructor %s: delegation too deep", fn)
	}
	fd := p.fn(fn)
	role := map[string]string{} // identifier -> pool | d0 | d1 | time | pool20
	nStr := 0
	var params []string
	for _, f := range fd.Type.Params.List {
		for _, nm := range f.Names {
			params = append(params, nm.Name)
			switch typeText(f.Type) {
			case "uint64":
				role[nm.Name] = "pool"
			case "string":
				role[nm.Name] = []string{"d0", "d1", "time"}[min(nStr, 2)]
				nStr++
			case "time.Time":
				role[nm.Name] = "rawtime"
			default:
				fail("twap key constructor %s: parameter %s of type %s", fn, nm.Name, typeText(f.Type))
			}
		}
	}
	var format *ast.CallExpr
	var deleg *ast.CallExpr
	for _, st := range fd.Body.List {
		switch s := st.(type) {
		case *ast.AssignStmt:
			if len(s.Lhs) != 1 || len(s.Rhs) != 1 {
				fail("twap key constructor %s: assignment %s", fn, oneLine(s))
			}
			lhs, ok := s.Lhs[0].(*ast.Ident)
			ce, ok2 := s.Rhs[0].(*ast.CallExpr)
			if !ok || !ok2 || len(ce.Args) != 1 {
				fail("twap key constructor %s: assignment %s", fn, oneLine(s))
			}
			arg, _ := ce.Args[0].(*ast.Ident)
			switch {
			case callName(ce.Fun) == "osmoutils.FormatFixedLengthU64" && arg != nil && role[arg.Name] == "pool":
				role[lhs.Name] = "pool20"
			case callName(ce.Fun) == "osmoutils.FormatTimeString" && arg != nil && role[arg.Name] == "rawtime":
				role[lhs.Name] = "time"
			default:
				fail("twap key constructor %s: assignment %s", fn, oneLine(s))
			}
		case *ast.DeclStmt: // var buffer bytes.Buffer
		case *ast.ExprStmt:
			ce, ok := s.X.(*ast.CallExpr)
			if !ok || callName(ce.Fun) != "fmt.Fprintf" || format != nil {
				fail("twap key constructor %s: statement %s", fn, oneLine(s))
			}
			format = ce
		case *ast.ReturnStmt:
			if len(s.Results) != 1 {
				fail("twap key constructor %s: %s", fn, oneLine(s))
			}
			r := s.Results[0]
			if ce, ok := r.(*ast.CallExpr); ok && len(ce.Args) == 1 && oneLine(ce.Fun) == "[]byte" { // []byte(fmt.Sprintf(…))
				r = ce.Args[0]
			}
			if ce, ok := r.(*ast.CallExpr); ok {
				switch {
				case callName(ce.Fun) == "fmt.Sprintf" && format == nil:
					format = ce
				case oneLine(ce.Fun) == "buffer.Bytes" && format != nil:
				default:
					if _, isFn := p.funcs[callName(ce.Fun)]; isFn && format == nil {
						deleg = ce
					} else {
						fail("twap key constructor %s: %s", fn, oneLine(s))
					}
				}
			} else {
				fail("twap key constructor %s: %s", fn, oneLine(s))
			}
		default:
			fail("twap key constructor %s: statement %s", fn, oneLine(st))
		}
	}
	if deleg != nil {
		callee := p.fn(callName(deleg.Fun))
		var want []string
		for _, f := range callee.Type.Params.List {
			for range f.Names {
				want = append(want, typeText(f.Type))
			}
		}
		got := []string{}
		for _, a := range deleg.Args {
			id, ok := a.(*ast.Ident)
			if !ok {
				fail("twap key constructor %s: delegation %s", fn, oneLine(deleg))
			}
			got = append(got, role[id.Name])
		}
		// the callee's parameters take the roles by position (pool, d0, d1, time): the arguments must carry exactly these
		if strings.Join(got, ",") != strings.Join([]string{"pool", "d0", "d1", "time"}[:len(got)], ",") || len(got) != len(want) {
			fail("twap key constructor %s: delegation %s passes %v", fn, oneLine(deleg), got)
		}
		return p.keyTokens(callName(deleg.Fun), depth+1)
	}
	if format == nil {
		fail("twap key constructor %s: no format call", fn)
	}
	args := format.Args
	if callName(format.Fun) == "fmt.Fprintf" {
		args = args[1:]
	}
	lit, ok := args[0].(*ast.BasicLit)
	if !ok || lit.Kind != token.STRING {
		fail("twap key constructor %s: format is not a literal", fn)
	}
	f, _ := strconv.Unquote(lit.Value)
	args = args[1:]
	var out []keyTok
	add := func(k keyTok) {
		if k.kind == "lit" && len(out) > 0 && out[len(out)-1].kind == "lit" {
			out[len(out)-1].text += k.text
			return
		}
		out = append(out, k)
	}
	for i := 0; i < len(f); {
		if f[i] != '%' {
			j := i
			for j < len(f) && f[j] != '%' {
				j++
			}
			add(keyTok{"lit", f[i:j]})
			i = j
			continue
		}
		if i+1 >= len(f) || (f[i+1] != 's' && f[i+1] != 'd') || len(args) == 0 {
			fail("twap key constructor %s: format %q", fn, f)
		}
		verb := f[i+1]
		a := args[0]
		args = args[1:]
		i += 2
		if s, ok := p.strConst(a); ok {
			if verb != 's' {
				fail("twap key constructor %s: constant with %%d", fn)
			}
			add(keyTok{"lit", s})
			continue
		}
		id, ok := a.(*ast.Ident)
		if !ok || role[id.Name] == "" || role[id.Name] == "rawtime" {
			fail("twap key constructor %s: argument %s", fn, oneLine(a))
		}
		r := role[id.Name]
		if (r == "pool") != (verb == 'd') {
			fail("twap key constructor %s: argument %s with %%%c", fn, id.Name, verb)
		}
		add(keyTok{r, ""})
	}
	if len(args) != 0 {
		fail("twap key constructor %s: surplus arguments", fn)
	}
	return out
}

func (l *leanFile) keyDef(name string, toks []keyTok) {
	var ss []string
	for _, t := range toks {
		ss = append(ss, "("+strconv.Quote(t.kind)+", "+strconv.Quote(t.text)+")")
	}
	l.sb.WriteString("def " + name + " : List (String × String) := [" + strings.Join(ss, ", ") + "]\n")
}

// rangeArgs: the two key constructors passed to the (only) call of `callee` inside fn (start, end).
func (p *pkgInfo) rangeArgs(fn, callee string, iStart, iEnd int) (string, string) {
	fd := p.fn(fn)
	var found *ast.CallExpr
	n := 0
	ast.Inspect(fd.Body, func(nd ast.Node) bool {
		if ce, ok := nd.(*ast.CallExpr); ok && calleeName(ce) == callee {
			found = ce
			n++
		}
		return true
	})
	if n != 1 || len(found.Args) <= iEnd {
		fail("twap %s: expected one call of %s", fn, callee)
	}
	name := func(e ast.Expr) string {
		ce, ok := e.(*ast.CallExpr)
		if !ok {
			// a local assigned once from a constructor call
			if id, ok := e.(*ast.Ident); ok {
				if v := p.localValue(fn, id.Name); v != nil {
					if ce2, ok := v.(*ast.CallExpr); ok {
						return calleeName(ce2)
					}
				}
			}
			fail("twap %s: range bound %s of %s is not a key constructor call", fn, oneLine(e), callee)
		}
		return calleeName(ce)
	}
	return name(found.Args[iStart]), name(found.Args[iEnd])
}

func genTwapKeys(l *leanFile, tt, tw *pkgInfo) {
	// the key a historical record is stored under
	hk, _ := tw.rangeArgs("Keeper.StoreHistoricalTWAP", "MustSet", 1, 1)
	l.keyDef("key_hist", tt.keyTokens(hk, 0))
	// the reverse range scan of the pruning pass: [start, end)
	ps, pe := tw.rangeArgs("Keeper.pruneRecordsBeforeTimeButNewest", "ReverseIterator", 0, 1)
	l.keyDef("key_pruneStart", tt.keyTokens(ps, 0))
	l.keyDef("key_pruneEnd", tt.keyTokens(pe, 0))
	// the reverse range scan of getRecordAtOrBeforeTime: [start, end)
	ls, le := tw.rangeArgs("Keeper.getRecordAtOrBeforeTime", "GetFirstValueInRange", 1, 2)
	l.keyDef("key_lookupStart", tt.keyTokens(ls, 0))
	l.keyDef("key_lookupEnd", tt.keyTokens(le, 0))
	// the most recent record
	l.keyDef("key_recent", tt.keyTokens("FormatMostRecentTWAPKey", 0))
}
