package main

// gen_expr_specs_keepers.go — Deliverable B (`pinK`: statement skeletons, gen_expr_k.go) for the keeper-level functions
// outside concentrated liquidity: x/lockup (C06), x/gamm keeper (C02), x/poolmanager router (C05), x/superfluid stake.go
// (C11), x/epochs BeginBlocker (C17).  There is no Dec arithmetic to translate in these functions; what is tied is the
// coin arithmetic, the guards, the order of the keeper calls and which variable each of them receives.

func specKeepers() {
	specLockup()
	specGammKeeper()
	specRouterOps()
	specSuperfluidOps()
	specEpochs()
}

// ---------------------------------------------------------------- x/lockup (C06)
func specLockup() {
	const k = "x/lockup/keeper"
	pinK("LockupOps", k, // lock.go
		"Keeper.WithdrawMaturedLocks", "Keeper.BeginUnlockAllNotUnlockings", "Keeper.AddToExistingLock", "Keeper.HasLock",
		"Keeper.AddTokensToLockByID", "Keeper.CreateLock", "Keeper.CreateLockNoSend", "Keeper.lock", "Keeper.BeginUnlock",
		"Keeper.BeginForceUnlock", "Keeper.beginUnlock", "Keeper.UnlockMaturedLock", "Keeper.PartialForceUnlock", "Keeper.ForceUnlock",
		"Keeper.unlockMaturedLockInternalLogic", "Keeper.SetLockRewardReceiverAddress", "Keeper.ExtendLockup",
		"Keeper.SlashTokensFromLockByID", "Keeper.removeTokensFromLock", "Keeper.setLock", "Keeper.setLockAndAddLockRefs",
		"Keeper.setSyntheticLockAndResetRefs", "Keeper.deleteLock", "Keeper.SplitLock")
	pinK("LockupOps", k, // iterator.go: the key ranges the queries and the EndBlocker walk
		"unlockingPrefix", "Keeper.iteratorAfterTime", "Keeper.iteratorBeforeTime", "Keeper.iteratorDuration", "Keeper.iteratorLongerDuration",
		"Keeper.iteratorShorterDuration", "Keeper.iterator", "Keeper.unlockFromIterator", "Keeper.beginUnlockFromIterator")
}

// ---------------------------------------------------------------- x/gamm keeper (C02)
func specGammKeeper() {
	const k = "x/gamm/keeper"
	pinK("GammKeeperOps", k, // pool_service.go, share.go, swap.go
		"Keeper.InitializePool", "Keeper.JoinPoolNoSwap", "getMaximalNoSwapLPAmount", "Keeper.JoinSwapExactAmountIn", "Keeper.JoinSwapShareAmountOut",
		"Keeper.ExitPool", "Keeper.ExitSwapShareAmountIn", "Keeper.ExitSwapExactAmountOut",
		"Keeper.applyJoinPoolStateChange", "Keeper.applyExitPoolStateChange", "Keeper.MintPoolShareToAccount", "Keeper.BurnPoolShareFromAccount",
		"Keeper.SwapExactAmountIn", "Keeper.SwapExactAmountOut", "Keeper.updatePoolForSwap")
}

// ---------------------------------------------------------------- x/poolmanager router (C05)
func specRouterOps() {
	const pm = "x/poolmanager"
	pinK("RouterOps", pm,
		"Keeper.RouteExactAmountIn", "Keeper.SplitRouteExactAmountIn", "Keeper.SwapExactAmountIn", "Keeper.SwapExactAmountInNoTakerFee",
		"Keeper.RouteExactAmountInNoTakerFee", "Keeper.multihopEstimateOutGivenExactAmountInInternal", "Keeper.RouteExactAmountOut",
		"Keeper.SplitRouteExactAmountOut", "Keeper.MultihopEstimateInGivenExactAmountOut", "Keeper.createMultihopExpectedSwapOuts",
		"Keeper.chargeTakerFee", "Keeper.GetTradingPairTakerFee")
}

// ---------------------------------------------------------------- x/superfluid stake.go (C11)
func specSuperfluidOps() {
	const k = "x/superfluid/keeper"
	pinK("SuperfluidOps", k,
		"Keeper.GetTotalSyntheticAssetsLocked", "Keeper.GetExpectedDelegationAmount", "Keeper.RefreshIntermediaryDelegationAmounts",
		"Keeper.IncreaseSuperfluidDelegation", "Keeper.validateLockForSF", "Keeper.validateLockForSFDelegate", "Keeper.SuperfluidDelegate",
		"Keeper.undelegateCommon", "Keeper.SuperfluidUndelegate", "Keeper.SuperfluidUnbondLock", "Keeper.SuperfluidUndelegateAndUnbondLock",
		"Keeper.unbondLock", "Keeper.alreadySuperfluidStaking", "Keeper.mintOsmoTokensAndDelegate", "Keeper.forceUndelegateAndBurnOsmoTokens")
}

// ---------------------------------------------------------------- x/epochs (C17)
func specEpochs() {
	pinK("EpochsOps", "x/epochs/keeper", "Keeper.BeginBlocker", "Keeper.AddEpochInfo", "Keeper.setEpochInfo", "Keeper.IterateEpochInfo",
		"Keeper.AfterEpochEnd", "Keeper.BeforeEpochStart")
	pinK("EpochsOps", "x/epochs/types", "MultiEpochHooks.AfterEpochEnd", "MultiEpochHooks.BeforeEpochStart", "panicCatchingEpochHook")
	pinK("EpochsOps", "osmoutils", "ApplyFuncIfNoError", "applyFunc", "IsOutOfGasError")
}
