package main

// gen_expr_specs_keepers.go — Deliverable B (`pinK`: statement skeletons, gen_expr_k.go) for the keeper-level functions
// outside concentrated liquidity: x/lockup (C06), x/gamm keeper (C02), x/poolmanager router (C05), x/superfluid stake.go
// (C11), x/epochs BeginBlocker (C17).  There is no Dec arithmetic to translate in these functions; what is tied is the
// coin arithmetic, the guards, the order of the keeper calls and which variable each of them receives.

func specKeepers() {
	specLockup()
	specGammKeeper()
	specRouterOps()
	specSuperfluidOps()
	specEpochs()
}

// ---------------------------------------------------------------- x/lockup (C06)
func specLockup() {
	const k = "x/lockup/keeper"
	pinK("LockupOps", k, // lock.go
		"Keeper.WithdrawMaturedLocks", "Keeper.BeginUnlockAllNotUnlockings", "Keeper.AddToExistingLock", "Keeper.HasLock",
		"Keeper.AddTokensToLockByID", "Keeper.CreateLock", "Keeper.CreateLockNoSend", "Keeper.lock", "Keeper.BeginUnlock",
		"Keeper.BeginForceUnlock", "Keeper.beginUnlock", "Keeper.UnlockMaturedLock", "Keeper.PartialForceUnlock", "Keeper.ForceUnlock",
		"Keeper.unlockMaturedLockInternalLogic", "Keeper.SetLockRewardReceiverAddress", "Keeper.ExtendLockup",
		"Keeper.SlashTokensFromLockByID", "Keeper.removeTokensFromLock", "Keeper.setLock", "Keeper.setLockAndAddLockRefs",
		"Keeper.setSyntheticLockAndResetRefs", "Keeper.deleteLock", "Keeper.SplitLock")
	pinK("LockupOps", k, // iterator.go: the key ranges the queries and the EndBlocker walk
		"unlockingPrefix", "Keeper.iteratorAfterTime", "Keeper.iteratorBeforeTime", "Keeper.iteratorDuration", "Keeper.iteratorLongerDuration",
		"Keeper.iteratorShorterDuration", "Keeper.iterator", "Keeper.unlockFromIterator", "Keeper.beginUnlockFromIterator")
}

func specGammKeeper()    {}
func specRouterOps()     {}
func specSuperfluidOps() {}
func specEpochs()        {}
