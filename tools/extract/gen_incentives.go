package main

// Gen/Incentives.lean for property C09: the literals the lock-gauge distribution depends on
// (base coin unit of checkIfDenomsAreDistributable, the spam-gauge rule of skipSpamGaugeDistribute)
// and body fingerprints of every x/incentives / x/lockup function Model/Incentives.lean mirrors by hand.

import (
	"go/ast"
	"go/token"
	"math/big"
	"path/filepath"
	"strconv"
	"strings"
)

func stringConst(p *pkgInfo, name string) string {
	e, ok := p.consts[name]
	if !ok {
		fail("no const %s in %s", name, p.dir)
	}
	bl, ok := e.(*ast.BasicLit)
	if !ok || bl.Kind != token.STRING {
		fail("%s is not a string literal", name)
	}
	s, err := strconv.Unquote(bl.Value)
	if err != nil {
		fail("%s: %v", name, err)
	}
	return s
}

func genIncentives(outDir string) {
	l := newLean("Incentives")
	ap := loadPkg(filepath.Join(repo, "app/params"))
	l.sb.WriteString("def BaseCoinUnit : String := " + strconv.Quote(stringConst(ap, "BaseCoinUnit")) + "\n")

	k := loadPkg(filepath.Join(repo, "x/incentives/keeper"))
	// skipSpamGaugeDistribute: `remainCoins.Len() == 1 && remainCoins[0].Amount.LTE(osmomath.NewInt(N)) && remainCoins[0].Denom != "D"`
	fd, ok := k.funcs["Keeper.skipSpamGaugeDistribute"]
	if !ok {
		fail("no func Keeper.skipSpamGaugeDistribute")
	}
	var ints []string
	var strs []string
	ast.Inspect(fd.Body, func(n ast.Node) bool {
		switch x := n.(type) {
		case *ast.CallExpr:
			if se, ok := x.Fun.(*ast.SelectorExpr); ok && se.Sel.Name == "NewInt" && len(x.Args) == 1 {
				if bl, ok := x.Args[0].(*ast.BasicLit); ok && bl.Kind == token.INT {
					ints = append(ints, bl.Value)
				}
			}
		case *ast.BinaryExpr:
			if x.Op == token.NEQ {
				if bl, ok := x.Y.(*ast.BasicLit); ok && bl.Kind == token.STRING {
					s, _ := strconv.Unquote(bl.Value)
					strs = append(strs, s)
				}
			}
		}
		return true
	})
	if len(ints) != 1 || len(strs) != 1 {
		fail("skipSpamGaugeDistribute no longer has the shape `Len()==1 && Amount.LTE(NewInt(N)) && Denom != \"D\"` (ints %v, strings %v)", ints, strs)
	}
	n, ok2 := new(big.Int).SetString(ints[0], 10)
	if !ok2 {
		fail("spam threshold %q", ints[0])
	}
	l.intDef("spamMaxAmount", n)
	l.sb.WriteString("def spamExemptDenom : String := " + strconv.Quote(strs[0]) + "\n")

	for _, fn := range []string{
		"Keeper.AfterEpochEnd", "Keeper.Distribute", "Keeper.distributeInternal", "Keeper.skipSpamGaugeDistribute",
		"Keeper.updateGaugePostDistribute", "Keeper.checkFinishDistribution", "Keeper.getDistributeToBaseLocks",
		"Keeper.getLocksToDistributionWithMaxDuration", "Keeper.moveUpcomingGaugeToActiveGauge", "Keeper.moveActiveGaugeToFinishedGauge",
		"Keeper.doDistributionSends", "distributionInfo.addLockRewards", "guaranteedNonzeroCoinAmountOf",
		"Keeper.CreateGauge", "Keeper.CreateGaugeRefKeys", "Keeper.AddToGaugeRewards", "Keeper.addToGaugeRewards",
		"Keeper.checkIfDenomsAreDistributable", "Keeper.addGaugeRefByKey", "Keeper.deleteGaugeRefByKey", "removeValue",
		"FilterLocksByMinDuration", "Keeper.getGaugesFromIterator",
	} {
		l.strDef("src_"+strings.ReplaceAll(fn, ".", "_"), k.bodyText(fn))
	}
	t := loadPkg(filepath.Join(repo, "x/incentives/types"))
	for _, fn := range []string{"Gauge.IsUpcomingGauge", "Gauge.IsActiveGauge", "Gauge.IsFinishedGauge"} {
		l.strDef("src_types_"+strings.ReplaceAll(fn, ".", "_"), t.bodyText(fn))
	}
	lk := loadPkg(filepath.Join(repo, "x/lockup/keeper"))
	for _, fn := range []string{"Keeper.GetLocksLongerThanDurationDenom", "Keeper.LockIteratorLongerThanDurationDenom", "Keeper.iteratorLongerDuration", "combineLocks"} {
		l.strDef("src_lockup_"+strings.ReplaceAll(fn, ".", "_"), lk.bodyText(fn))
	}
	lt := loadPkg(filepath.Join(repo, "x/lockup/types"))
	l.strDef("src_lockup_SumLocksByDenom", lt.bodyText("SumLocksByDenom"))
	l.write(outDir)
}
