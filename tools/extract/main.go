// extract: the translator (tie T1).  Parses the CURRENT /repo working tree with
// go/parser and regenerates lean/OsmoVerif/Gen/*.lean: numeric constants and
// tables (as raw integers), ordered rounding-operator lists of the straight
// line arithmetic the proofs rest on, authorisation guard facts and map-range
// facts.  Anything the evaluator does not recognise is an extraction FAILURE
// (exit 2), never defaulted.
package main

import (
	"fmt"
	"go/ast"
	"go/constant"
	"go/parser"
	"go/printer"
	"go/token"
	"math/big"
	"os"
	"path/filepath"
	"sort"
	"strings"
)

var repo = "/repo"
var fset = token.NewFileSet()

type pkgInfo struct {
	dir    string
	files  map[string]*ast.File
	consts map[string]ast.Expr // name -> value expr (const or var initialiser)
	iota   map[string]int
	funcs  map[string]*ast.FuncDecl // "Recv.Name" or "Name"
}

var pkgs = map[string]*pkgInfo{}

func fail(f string, a ...any) {
	if softFail {
		panic(softFailure{fmt.Sprintf(f, a...)})
	}
	fmt.Fprintf(os.Stderr, "EXTRACT-FAIL: "+f+"\n", a...)
	os.Exit(2)
}

func loadPkg(dir string) *pkgInfo {
	if p, ok := pkgs[dir]; ok {
		return p
	}
	p := &pkgInfo{dir: dir, files: map[string]*ast.File{}, consts: map[string]ast.Expr{}, iota: map[string]int{}, funcs: map[string]*ast.FuncDecl{}}
	ents, err := os.ReadDir(dir)
	if err != nil {
		fail("cannot read %s: %v", dir, err)
	}
	for _, e := range ents {
		n := e.Name()
		if !strings.HasSuffix(n, ".go") || strings.HasSuffix(n, "_test.go") {
			continue
		}
		f, err := parser.ParseFile(fset, filepath.Join(dir, n), nil, parser.ParseComments)
		if err != nil {
			fail("parse %s: %v", n, err)
		}
		p.files[n] = f
		for _, d := range f.Decls {
			switch d := d.(type) {
			case *ast.GenDecl:
				if d.Tok != token.CONST && d.Tok != token.VAR {
					continue
				}
				var lastVals []ast.Expr
				for i, s := range d.Specs {
					vs := s.(*ast.ValueSpec)
					vals := vs.Values
					if len(vals) == 0 && d.Tok == token.CONST {
						vals = lastVals
					} else {
						lastVals = vals
					}
					for j, nm := range vs.Names {
						if j < len(vals) {
							p.consts[nm.Name] = vals[j]
							p.iota[nm.Name] = i
						} else if len(vals) == 1 && len(vs.Names) > 1 {
							// multi-assign from call: `x, _ = f()`
							p.consts[nm.Name] = vals[0]
						}
					}
				}
			case *ast.FuncDecl:
				name := d.Name.Name
				if d.Recv != nil && len(d.Recv.List) > 0 {
					t := d.Recv.List[0].Type
					if st, ok := t.(*ast.StarExpr); ok {
						t = st.X
					}
					if id, ok := t.(*ast.Ident); ok {
						name = id.Name + "." + name
					}
				}
				p.funcs[name] = d
			}
		}
	}
	pkgs[dir] = p
	return p
}

// ---------- value evaluator ----------
// A value is a raw integer together with a scale tag: "int", "dec18", "dec36", "dur".
type val struct {
	v     *big.Int
	scale string
}

func pow10(n int64) *big.Int { return new(big.Int).Exp(big.NewInt(10), big.NewInt(n), nil) }

func parseDecStr(s string, prec int64) *big.Int {
	neg := false
	if strings.HasPrefix(s, "-") {
		neg = true
		s = s[1:]
	}
	parts := strings.Split(s, ".")
	if len(parts) > 2 || len(parts[0]) == 0 {
		fail("bad decimal literal %q", s)
	}
	frac := ""
	if len(parts) == 2 {
		frac = parts[1]
	}
	if int64(len(frac)) > prec {
		fail("decimal literal %q exceeds precision %d", s, prec)
	}
	comb := parts[0] + frac + strings.Repeat("0", int(prec)-len(frac))
	r, ok := new(big.Int).SetString(comb, 10)
	if !ok {
		fail("bad decimal literal %q", s)
	}
	if neg {
		r.Neg(r)
	}
	return r
}

var durUnits = map[string]int64{"Nanosecond": 1, "Microsecond": 1e3, "Millisecond": 1e6, "Second": 1e9, "Minute": 60e9, "Hour": 3600e9}

func callName(e ast.Expr) string {
	switch f := e.(type) {
	case *ast.Ident:
		return f.Name
	case *ast.SelectorExpr:
		if x, ok := f.X.(*ast.Ident); ok {
			return x.Name + "." + f.Sel.Name
		}
		return "(…)." + f.Sel.Name
	}
	return ""
}

func (p *pkgInfo) evalInt(e ast.Expr, iotaV int) *big.Int {
	v := p.eval(e, iotaV)
	if v.scale != "int" && v.scale != "dur" {
		fail("expected integer, got %s in %s", v.scale, show(e))
	}
	return v.v
}

func show(e ast.Node) string {
	var sb strings.Builder
	printer.Fprint(&sb, fset, e)
	return sb.String()
}

var externalConsts = map[string]int64{}

func (p *pkgInfo) eval(e ast.Expr, iotaV int) val {
	switch e := e.(type) {
	case *ast.BasicLit:
		switch e.Kind {
		case token.INT, token.FLOAT:
			c := constant.MakeFromLiteral(e.Value, e.Kind, 0)
			c = constant.ToInt(c)
			if c.Kind() != constant.Int {
				fail("non-integer literal %s", e.Value)
			}
			b, _ := new(big.Int).SetString(c.ExactString(), 10)
			return val{b, "int"}
		}
	case *ast.ParenExpr:
		return p.eval(e.X, iotaV)
	case *ast.UnaryExpr:
		x := p.eval(e.X, iotaV)
		if e.Op == token.SUB {
			return val{new(big.Int).Neg(x.v), x.scale}
		}
	case *ast.BinaryExpr:
		x, y := p.eval(e.X, iotaV), p.eval(e.Y, iotaV)
		sc := x.scale
		if sc == "int" {
			sc = y.scale
		}
		r := new(big.Int)
		switch e.Op {
		case token.ADD:
			r.Add(x.v, y.v)
		case token.SUB:
			r.Sub(x.v, y.v)
		case token.MUL:
			r.Mul(x.v, y.v)
		case token.QUO:
			r.Quo(x.v, y.v)
		case token.SHL:
			r.Lsh(x.v, uint(y.v.Int64()))
		default:
			fail("unsupported operator in %s", show(e))
		}
		return val{r, sc}
	case *ast.Ident:
		if e.Name == "iota" {
			return val{big.NewInt(int64(iotaV)), "int"}
		}
		if x, ok := p.consts[e.Name]; ok {
			return p.eval(x, p.iota[e.Name])
		}
		fail("unknown identifier %s in %s", e.Name, p.dir)
	case *ast.SelectorExpr:
		n := callName(e)
		if x, ok := e.X.(*ast.Ident); ok && x.Name == "time" {
			if u, ok := durUnits[e.Sel.Name]; ok {
				return val{big.NewInt(u), "dur"}
			}
		}
		if v, ok := externalConsts[n]; ok {
			return val{big.NewInt(v), "int"}
		}
		if x, ok := e.X.(*ast.Ident); ok {
			if q := importedPkg(p, x.Name); q != nil {
				return q.eval(&ast.Ident{Name: e.Sel.Name}, 0)
			}
		}
		fail("unknown selector %s", n)
	case *ast.CallExpr:
		n := callName(e.Fun)
		if i := strings.LastIndex(n, "."); i >= 0 {
			pre := n[:i]
			if pre == "osmomath" || pre == "sdkmath" || pre == "math" || pre == "types" {
				n = n[i+1:]
			}
		}
		arg := func(i int) ast.Expr {
			if i >= len(e.Args) {
				fail("missing arg in %s", show(e))
			}
			return e.Args[i]
		}
		str := func(i int) string {
			bl, ok := arg(i).(*ast.BasicLit)
			if !ok || bl.Kind != token.STRING {
				fail("expected string literal in %s", show(e))
			}
			return strings.Trim(bl.Value, "\"`")
		}
		switch n {
		case "MustNewBigDecFromStr", "NewBigDecFromStr":
			return val{parseDecStr(str(0), 36), "dec36"}
		case "MustNewDecFromStr", "NewDecFromStr", "LegacyMustNewDecFromStr", "LegacyNewDecFromStr":
			return val{parseDecStr(str(0), 18), "dec18"}
		case "NewDec", "LegacyNewDec":
			return val{new(big.Int).Mul(p.evalInt(arg(0), iotaV), pow10(18)), "dec18"}
		case "NewBigDec":
			return val{new(big.Int).Mul(p.evalInt(arg(0), iotaV), pow10(36)), "dec36"}
		case "NewDecWithPrec", "LegacyNewDecWithPrec":
			return val{new(big.Int).Mul(p.evalInt(arg(0), iotaV), pow10(18-p.evalInt(arg(1), iotaV).Int64())), "dec18"}
		case "NewBigDecWithPrec":
			return val{new(big.Int).Mul(p.evalInt(arg(0), iotaV), pow10(36-p.evalInt(arg(1), iotaV).Int64())), "dec36"}
		case "OneDec", "LegacyOneDec":
			return val{pow10(18), "dec18"}
		case "ZeroDec", "LegacyZeroDec":
			return val{big.NewInt(0), "dec18"}
		case "OneBigDec":
			return val{pow10(36), "dec36"}
		case "ZeroBigDec":
			return val{big.NewInt(0), "dec36"}
		case "NewInt", "NewIntFromUint64", "int64", "uint64", "uint", "int", "time.Duration", "Duration":
			return val{p.evalInt(arg(0), iotaV), "int"}
		case "MustMonotonicSqrt":
			x := p.eval(arg(0), iotaV)
			if x.scale != "dec18" || x.v.Sign() < 0 {
				fail("MustMonotonicSqrt of %s", show(e))
			}
			v := new(big.Int).Mul(x.v, pow10(18))
			r := new(big.Int).Sqrt(v)
			if new(big.Int).Mul(r, r).Cmp(v) < 0 {
				r.Add(r, big.NewInt(1))
			}
			return val{r, "dec18"}
		case "BigDecFromDec":
			x := p.eval(arg(0), iotaV)
			if x.scale != "dec18" {
				fail("BigDecFromDec of non-Dec %s", show(e))
			}
			return val{new(big.Int).Mul(x.v, pow10(18)), "dec36"}
		}
		// method calls on a value: X.Neg(), X.PowerInteger(n), X.QuoInt64(n)
		if se, ok := e.Fun.(*ast.SelectorExpr); ok {
			switch se.Sel.Name {
			case "Neg":
				x := p.eval(se.X, iotaV)
				return val{new(big.Int).Neg(x.v), x.scale}
			case "PowerInteger":
				x := p.eval(se.X, iotaV)
				if x.scale != "dec36" {
					fail("PowerInteger on %s", x.scale)
				}
				// only exact integer bases are accepted (2^9 etc.)
				P := pow10(36)
				if new(big.Int).Rem(x.v, P).Sign() != 0 {
					fail("PowerInteger of non-integer base in %s", show(e))
				}
				b := new(big.Int).Quo(x.v, P)
				r := new(big.Int).Exp(b, p.evalInt(arg(0), iotaV), nil)
				return val{r.Mul(r, P), "dec36"}
			case "QuoInt64":
				x := p.eval(se.X, iotaV)
				return val{new(big.Int).Quo(x.v, p.evalInt(arg(0), iotaV)), x.scale}
			}
		}
		fail("unsupported initialiser call %s", show(e))
	}
	fail("unsupported expression %s", show(e))
	return val{}
}

func importedPkg(p *pkgInfo, alias string) *pkgInfo {
	for _, f := range p.files {
		for _, im := range f.Imports {
			path := strings.Trim(im.Path.Value, "\"")
			name := filepath.Base(path)
			if im.Name != nil {
				name = im.Name.Name
			}
			if name != alias {
				continue
			}
			const pre = "github.com/osmosis-labs/osmosis/"
			if strings.HasPrefix(path, pre+"v") {
				rest := path[len(pre):]
				rest = rest[strings.Index(rest, "/")+1:]
				return loadPkg(filepath.Join(repo, rest))
			}
			if strings.HasPrefix(path, pre) {
				return loadPkg(filepath.Join(repo, path[len(pre):]))
			}
		}
	}
	return nil
}

func (p *pkgInfo) slice(name string) []val {
	e, ok := p.consts[name]
	if !ok {
		fail("no var %s in %s", name, p.dir)
	}
	cl, ok := e.(*ast.CompositeLit)
	if !ok {
		fail("%s is not a composite literal", name)
	}
	var out []val
	for _, el := range cl.Elts {
		out = append(out, p.eval(el, 0))
	}
	return out
}

// ---------- operator-list facts ----------
// ordered list of osmomath method names called anywhere inside a function body
// (source order, depth-first), restricted to arithmetic method names.
var arithNames = map[string]bool{}

func init() {
	for _, n := range strings.Fields(`Add AddMut Sub SubMut Mul MulMut MulTruncate MulTruncateMut MulRoundUp MulRoundUpMut MulDec MulDecMut
MulTruncateDec MulRoundUpDec MulInt MulIntMut MulInt64 MulInt64Mut Quo QuoMut QuoRaw QuoTruncate QuoTruncateMut QuoTruncateDec QuoTruncateDecMut
QuoRoundUp QuoRoundUpMut QuoRoundupMut QuoByDecRoundUp QuoRoundUpNextIntMut QuoInt QuoIntMut QuoInt64 Ceil CeilMut TruncateInt TruncateInt64 TruncateDec
RoundInt RoundInt64 Dec DecRoundUp DecWithPrecision ChopPrecision ChopPrecisionMut BigDecFromDec BigDecFromDecMut NewBigDecFromDecMulDec PowerInteger PowerIntegerMut
Neg NegMut Abs AbsMut ToLegacyDec SafeSub GT GTE LT LTE Equal IsZero IsNegative IsPositive IsNil
MonotonicSqrt MonotonicSqrtMut MonotonicSqrtBigDec MustMonotonicSqrt Pow Exp2 LogBase2 SigFigRound`) {
		arithNames[n] = true
	}
}

func (p *pkgInfo) opList(fn string) []string {
	fd, ok := p.funcs[fn]
	if !ok {
		fail("no func %s in %s", fn, p.dir)
	}
	var out []string
	// post-order so that receiver chains read left-to-right: a.Mul(b).Quo(c) => Mul, Quo
	var walk func(n ast.Node)
	walk = func(n ast.Node) {
		ast.Inspect(n, func(m ast.Node) bool {
			ce, ok := m.(*ast.CallExpr)
			if !ok {
				return true
			}
			if se, ok := ce.Fun.(*ast.SelectorExpr); ok {
				walk(se.X)
				for _, a := range ce.Args {
					walk(a)
				}
				if arithNames[se.Sel.Name] {
					out = append(out, se.Sel.Name)
				}
				return false
			}
			if id, ok := ce.Fun.(*ast.Ident); ok && arithNames[id.Name] {
				for _, a := range ce.Args {
					walk(a)
				}
				out = append(out, id.Name)
				return false
			}
			return true
		})
	}
	walk(fd.Body)
	return out
}

// source text of a function body with comments and whitespace stripped: a
// fingerprint used for functions whose exact shape the model mirrors by hand.
func (p *pkgInfo) bodyText(fn string) string {
	fd, ok := p.funcs[fn]
	if !ok {
		fail("no func %s in %s", fn, p.dir)
	}
	s := show(fd.Body)
	return strings.Join(strings.Fields(s), " ")
}

// ---------- Lean emission ----------
type leanFile struct {
	name string
	sb   strings.Builder
}

func newLean(name string) *leanFile {
	l := &leanFile{name: name}
	fmt.Fprintf(&l.sb, "-- GENERATED by /verif/tools/extract from /repo's working tree. Do not edit.\nnamespace OsmoVerif.Gen.%s\n\n", name)
	return l
}
func (l *leanFile) intDef(n string, v *big.Int) {
	fmt.Fprintf(&l.sb, "def %s : Int := %s\n", n, leanInt(v))
}
func (l *leanFile) natDef(n string, v *big.Int) {
	if v.Sign() < 0 {
		fail("negative Nat %s", n)
	}
	fmt.Fprintf(&l.sb, "def %s : Nat := %s\n", n, v.String())
}
func leanInt(v *big.Int) string {
	if v.Sign() < 0 {
		return "(" + v.String() + ")"
	}
	return v.String()
}
func (l *leanFile) intList(n string, vs []val) {
	var ss []string
	for _, v := range vs {
		ss = append(ss, leanInt(v.v))
	}
	fmt.Fprintf(&l.sb, "def %s : List Int := [%s]\n", n, strings.Join(ss, ", "))
}
func (l *leanFile) strList(n string, vs []string) {
	var ss []string
	for _, v := range vs {
		ss = append(ss, fmt.Sprintf("%q", v))
	}
	fmt.Fprintf(&l.sb, "def %s : List String := [%s]\n", n, strings.Join(ss, ", "))
}
func (l *leanFile) strDef(n string, v string) {
	if strings.HasPrefix(n, "src_") {
		// body fingerprints are not Lean facts: they go to fingerprints.json and only
		// escalate the correspondence budget when they differ from the pinned ones.
		fingerprints[l.name+"."+n[4:]] = v
		return
	}
	fmt.Fprintf(&l.sb, "def %s : String := %q\n", n, v)
}

var fingerprints = map[string]string{}

func (l *leanFile) write(outDir string) {
	fmt.Fprintf(&l.sb, "\nend OsmoVerif.Gen.%s\n", l.name)
	writeIfChanged(filepath.Join(outDir, l.name+".lean"), l.sb.String())
}

func writeIfChanged(path, text string) {
	if old, err := os.ReadFile(path); err == nil && string(old) == text {
		return // keep mtime: lake hashes content anyway
	}
	if err := os.WriteFile(path, []byte(text), 0o644); err != nil {
		fail("write %s: %v", path, err)
	}
}

func sortedKeys(m map[string]string) []string {
	var ks []string
	for k := range m {
		ks = append(ks, k)
	}
	sort.Strings(ks)
	return ks
}

func main() {
	if len(os.Args) < 2 {
		fail("usage: extract <outdir> [repo]")
	}
	outDir := os.Args[1]
	if len(os.Args) > 2 {
		repo = os.Args[2]
	}
	os.MkdirAll(outDir, 0o755)
	genOsmomath(outDir)
	genCL(outDir)
	genMore(outDir)
	ks := sortedKeys(fingerprints)
	var sb strings.Builder
	sb.WriteString("{\n")
	for i, k := range ks {
		sep := ","
		if i == len(ks)-1 {
			sep = ""
		}
		fmt.Fprintf(&sb, " %q: %q%s\n", k, fingerprints[k], sep)
	}
	sb.WriteString("}\n")
	os.WriteFile(filepath.Join(outDir, "fingerprints.json"), []byte(sb.String()), 0o644)
}
