package main

// gen_expr.go — the Go→Lean EXPRESSION TRANSLATOR (tie T1 for the arithmetic outside the
// concentrated-liquidity math).
//
// For a whitelisted Go function whose body is straight-line code (local assignments, early returns,
// if/else, method chains on osmomath.Dec / BigDec / Int, calls of other whitelisted functions) it emits
//
//	def OsmoVerif.Gen.<Mod>.<fn> (externs…) (params…) : Option <ty>
//
// over the bit-exact primitives of Model/Num.lean + Model/NumGen.lean: raw Int representation, every
// operation that can panic / overflow / return an error is an `Option` sequenced with `Option.bind` in
// Go's evaluation order (receiver, arguments left to right, then the call).
//
//   - Go locals are NOT Lean lets: a local is an entry of the symbolic environment, temporaries are named
//     t1, t2, … by position.  The output is therefore stable under renaming of locals/parameters, under
//     introducing or removing a local for an intermediate value, and under reformatting/comments.
//   - `if c { A } ; rest` is translated by continuation duplication: `if c then ⟦A;rest⟧ else ⟦rest⟧`.
//   - `…Mut` methods are translated as their pure counterpart ONLY when the receiver is an allocation
//     made inside this function (a fresh temporary or a local holding one); every alias of that allocation
//     in the environment is then updated to the result (that is what the mutation does).  A `Mut` on a
//     parameter, a field of a parameter, a constant or an extern result fails the extraction.
//   - anything not recognised (statement kind, method, type, unbound identifier, shadowing, loops,
//     closures, defer, switch, …) is an extraction FAILURE — never a default.
//
// Deliverable B lives here too: `opListX`, the ordered operator list with comparison operators and
// declaration-order-numbered operand names, for functions that are too complex for the above.

import (
	"fmt"
	"go/ast"
	"go/token"
	"sort"
	"strings"
)

// ---------------------------------------------------------------- soft failures (for tryEval)

type softFailure struct{ msg string }

var softFail bool

func xfail(f string, a ...any) {
	fail("gen_expr: "+f, a...)
}

// tryEval: the constant evaluator of main.go, but a failure is reported instead of exiting.
func (p *pkgInfo) tryEval(e ast.Expr) (v val, ok bool) {
	old := softFail
	softFail = true
	defer func() {
		softFail = old
		if r := recover(); r != nil {
			if _, is := r.(softFailure); is {
				ok = false
				return
			}
			panic(r)
		}
	}()
	return p.eval(e, 0), true
}

// ---------------------------------------------------------------- specification of a tied function

type xparam struct{ key, name, ty string }

type xextern struct {
	key      string   // normalised callee: "osmomath.Pow", "types.CanonicalTimeMs", "BigDec.LogBase2", "$0.GetSuperfluidAsset"
	name     string   // Lean parameter name
	args     []string // argument types
	res      string   // result type ("" = only an error)
	fallible bool     // can panic / returns an error ⇒ Option
	noargs   bool     // the call's arguments are not evaluated (store reads keyed by ctx/denom: the result is an input)
	argIdx   []int    // if set: only these argument positions (0-based) are evaluated and passed (ctx, ids, names are skipped)
	field    bool     // key "T.Field": a field read of a value of opaque type T (a projection, not a call)
	fresh    bool     // the result is an allocation handed over to the caller (e.g. the mutated argument of a …Mut function)
}

type xspec struct {
	mod, dir, fn, lean string
	params             []xparam
	externs            []xextern
	tyvars             []string            // opaque Lean type variables
	tymap              map[string]string   // Go type text → type name (opaque types, struct types)
	structs            map[string][]xparam // struct type → fields (key = Go field, name = Lean suffix, ty)
	doc                string
	ignore             []string // side-effect-only statements (telemetry, logging): normalised callee or bare method name
	outs               []xparam // fields the function writes through its pointer receiver: appended to the result tuple
	loop               *xloop   // translate the BODY of the function's single top-level `for … range` loop
}

// xloop: loop-body mode.  The loop key is $k, the loop value $v, the ranged-over local $r; a local declared before the
// loop by `x := <init>` is named by `pre[norm(<init>)]`.  `state` are the variables / slice elements the body updates:
// the generated definition takes their current values and returns the updated ones (`continue` returns them as they are).
type xloop struct {
	pre   map[string]string
	state []xparam
}

type xdone struct {
	spec   *xspec
	resTys []string
	hasErr bool
	fresh  []bool // per result: every return path returns an allocation of the callee
	text   string
	// the function starts with `defer func() { if r := recover(); r != nil { err = … } }()`: a panic is an error return
	recovers bool
}

var xregistry = map[string]*xdone{} // dir + ":" + fn

const (
	tyDec  = "Dec"
	tyBig  = "BigDec"
	tyInt  = "Int"
	tyBInt = "BigInt"
	tyI64  = "I64"
	tyTime = "Time"
	tyDur  = "Dur"
	tyBool = "Bool"
	tyCoin = "Coin"
	tyLit  = "Lit" // untyped integer constant
)

var goTypes = map[string]string{
	"osmomath.Dec": tyDec, "sdkmath.LegacyDec": tyDec, "math.LegacyDec": tyDec, "sdk.Dec": tyDec,
	"osmomath.BigDec": tyBig, "osmomath.Int": tyInt, "sdkmath.Int": tyInt, "math.Int": tyInt, "sdk.Int": tyInt,
	"osmomath.BigInt": tyBInt,
	"sdk.Coin":        tyCoin, "int64": tyI64, "uint64": tyI64, "int": tyI64, "time.Time": tyTime, "time.Duration": tyDur,
	"bool": tyBool, "error": "error",
}

type xval struct {
	lean  string // atomic Lean term
	ty    string
	alloc int // 0: not owned by this function (parameter, constant, extern result)
}

type xenv struct {
	vars       map[string]xval   // "x" or "x.Field"
	declared   map[string]string // declared, not yet assigned: name → type
	structs    map[string]string // variable → struct type
	errPending bool              // an `x, err := f()` whose `if err != nil { return }` must follow
}

func (e *xenv) clone() *xenv {
	n := &xenv{vars: map[string]xval{}, declared: map[string]string{}, structs: map[string]string{}, errPending: e.errPending}
	for k, v := range e.vars {
		n.vars[k] = v
	}
	for k, v := range e.declared {
		n.declared[k] = v
	}
	for k, v := range e.structs {
		n.structs[k] = v
	}
	return n
}

type xtr struct {
	p      *pkgInfo
	spec   *xspec
	fd     *ast.FuncDecl
	pnames map[string]string // Go parameter name → "$i"
	binds  map[string]xparam // normalised expression → parameter
	nTmp   int
	nAlloc int
	pre    []string // pending `Option.bind (…) fun t =>` heads
	resTys []string
	hasErr bool
	fresh  []bool
	named  []string // named results
	aliases  map[string]string // local := <path rooted at a parameter>  (a struct copy that is only read)
	state    map[string]xparam // normalised key → state variable / written receiver field
	stateOrd []xparam
	inLoop   bool
	recovers bool
	// the last `x, err := f()`: index of its binder in `pre`, and whether f turns its panics into errors
	pendingPre      int
	pendingRecovers bool
}

func (t *xtr) fail(f string, a ...any) {
	xfail("%s.%s: %s", t.spec.dir, t.spec.fn, fmt.Sprintf(f, a...))
}

func (t *xtr) tmp() string   { t.nTmp++; return fmt.Sprintf("t%d", t.nTmp) }
func (t *xtr) newAlloc() int { t.nAlloc++; return t.nAlloc }

// norm: printed form of an expression with the function's parameters replaced by $0 (receiver), $1, …
func (t *xtr) norm(e ast.Expr) string {
	switch e := e.(type) {
	case *ast.Ident:
		if s, ok := t.pnames[e.Name]; ok {
			return s
		}
		if s, ok := t.aliases[e.Name]; ok {
			return s
		}
		return e.Name
	case *ast.SelectorExpr:
		return t.norm(e.X) + "." + e.Sel.Name
	case *ast.CallExpr:
		var as []string
		for _, a := range e.Args {
			as = append(as, t.norm(a))
		}
		return t.norm(e.Fun) + "(" + strings.Join(as, ",") + ")"
	case *ast.ParenExpr:
		return "(" + t.norm(e.X) + ")"
	case *ast.BinaryExpr:
		return t.norm(e.X) + e.Op.String() + t.norm(e.Y)
	case *ast.UnaryExpr:
		return e.Op.String() + t.norm(e.X)
	case *ast.StarExpr:
		return "*" + t.norm(e.X)
	case *ast.BasicLit:
		return e.Value
	case *ast.IndexExpr:
		return t.norm(e.X) + "[" + t.norm(e.Index) + "]"
	}
	return "?" + show(e)
}

func (t *xtr) goTy(e ast.Expr) string {
	s := show(e)
	if ty, ok := t.spec.tymap[s]; ok {
		return ty
	}
	if ty, ok := goTypes[s]; ok {
		return ty
	}
	t.fail("unsupported Go type %s", s)
	return ""
}

func leanTy(ty string) string {
	switch ty {
	case tyBool:
		return "Bool"
	case tyDec, tyBig, tyInt, tyBInt, tyI64, tyTime, tyDur, tyCoin, tyLit:
		return "Int"
	}
	return ty // opaque type variable
}

// ---------------------------------------------------------------- operator tables

type xop struct {
	lean     string   // Lean function (fallible ops) or format string (pure ops)
	args     []string // argument types
	res      string
	fallible bool
	mut      bool
}

func bin(lean, arg, res string) xop { return xop{lean: lean, args: []string{arg}, res: res, fallible: true} }
func un(lean, res string) xop       { return xop{lean: lean, res: res, fallible: true} }
func pure1(f, res string) xop       { return xop{lean: f, res: res} }
func cmp(f, arg string) xop         { return xop{lean: f, args: []string{arg}, res: tyBool} }

var methodOps = map[string]map[string]xop{}

func init() {
	dec := map[string]xop{
		"Add": bin("Dec.add", tyDec, tyDec), "Sub": bin("Dec.sub", tyDec, tyDec), "Mul": bin("Dec.mul", tyDec, tyDec),
		"MulTruncate": bin("Dec.mulTruncate", tyDec, tyDec), "MulRoundUp": bin("Dec.mulRoundUp", tyDec, tyDec),
		"MulInt": bin("Dec.mulInt", tyInt, tyDec), "MulInt64": bin("Dec.mulInt", tyI64, tyDec),
		"Quo": bin("Dec.quo", tyDec, tyDec), "QuoTruncate": bin("Dec.quoTruncate", tyDec, tyDec),
		"QuoRoundUp": bin("Dec.quoRoundUp", tyDec, tyDec), "QuoRoundup": bin("Dec.quoRoundUp", tyDec, tyDec),
		"QuoInt": bin("Dec.quoInt", tyInt, tyDec), "QuoInt64": bin("Dec.quoInt", tyI64, tyDec),
		"Ceil": un("Dec.ceil", tyDec), "TruncateInt": un("Dec.truncateInt", tyInt), "RoundInt": un("Dec.roundInt", tyInt),
		"TruncateDec": un("Dec.truncateDec", tyDec),
		"Neg":         pure1("(-%s)", tyDec), "Abs": pure1("((Int.natAbs %s : Nat) : Int)", tyDec),
	}
	sint := map[string]xop{
		"Add": bin("SInt.add", tyInt, tyInt), "Sub": bin("SInt.sub", tyInt, tyInt), "Mul": bin("SInt.mul", tyInt, tyInt),
		"Quo": bin("SInt.quo", tyInt, tyInt), "AddRaw": bin("SInt.add", tyI64, tyInt), "SubRaw": bin("SInt.sub", tyI64, tyInt),
		"MulRaw": bin("SInt.mul", tyI64, tyInt), "QuoRaw": bin("SInt.quo", tyI64, tyInt),
		"ToLegacyDec": pure1("(SInt.toDec %s)", tyDec),
		"Neg":         pure1("(-%s)", tyInt), "Abs": pure1("((Int.natAbs %s : Nat) : Int)", tyInt),
	}
	big := map[string]xop{
		"Add": bin("BigDec.add", tyBig, tyBig), "Sub": bin("BigDec.sub", tyBig, tyBig), "Mul": bin("BigDec.mul", tyBig, tyBig),
		"MulTruncate": bin("BigDec.mulTruncate", tyBig, tyBig), "MulRoundUp": bin("BigDec.mulRoundUp", tyBig, tyBig),
		"MulDec": bin("BigDec.mulDec", tyDec, tyBig), "MulTruncateDec": bin("BigDec.mulTruncateDec", tyDec, tyBig),
		"MulRoundUpDec": bin("BigDec.mulRoundUpDec", tyDec, tyBig),
		"MulInt":        bin("BigDec.mulInt", tyBInt, tyBig), "MulInt64": bin("BigDec.mulInt", tyI64, tyBig),
		"Quo": bin("BigDec.quo", tyBig, tyBig), "QuoRaw": bin("BigDec.quoRaw", tyI64, tyBig),
		"QuoTruncate": bin("BigDec.quoTruncate", tyBig, tyBig), "QuoTruncateDec": bin("BigDec.quoTruncateDec", tyDec, tyBig),
		"QuoRoundUp": bin("BigDec.quoRoundUp", tyBig, tyBig), "QuoByDecRoundUp": bin("BigDec.quoByDecRoundUp", tyDec, tyBig),
		"QuoInt": bin("BigDec.quoInt", tyBInt, tyBig), "QuoInt64": bin("BigDec.quoInt", tyI64, tyBig),
		"Ceil": un("BigDec.ceil", tyBig), "TruncateInt": un("BigDec.truncateInt", tyBInt), "TruncateDec": un("BigDec.truncateDec", tyBig),
		"RoundInt": un("BigDec.roundInt", tyBInt), "Dec": un("BigDec.dec", tyDec), "DecRoundUp": un("BigDec.decRoundUp", tyDec),
		"Neg": pure1("(-%s)", tyBig), "Abs": pure1("((Int.natAbs %s : Nat) : Int)", tyBig),
	}
	// the Mut variants: same value, receiver must be an allocation of this function
	addMut := func(m map[string]xop, names ...string) {
		for _, n := range names {
			o, ok := m[n]
			if !ok {
				panic("no op " + n)
			}
			o.mut = true
			m[n+"Mut"] = o
		}
	}
	addMut(dec, "Add", "Sub", "Mul", "MulTruncate", "MulRoundUp", "MulInt", "MulInt64", "Quo", "QuoTruncate", "QuoRoundUp", "QuoRoundup",
		"QuoInt", "QuoInt64", "Neg", "Abs")
	addMut(big, "Add", "Sub", "Mul", "MulDec", "Quo", "QuoTruncate", "QuoTruncateDec", "QuoRoundUp", "Ceil", "Neg", "Abs")
	{
		o := bin("BigDec.quoRoundUpNextIntMut", tyBig, tyBig)
		o.mut = true
		big["QuoRoundUpNextIntMut"] = o
	}
	for _, tm := range []struct {
		ty string
		m  map[string]xop
	}{{tyDec, dec}, {tyInt, sint}, {tyBig, big}} {
		tm.m["GT"] = cmp("(%s > %s)", tm.ty)
		tm.m["GTE"] = cmp("(%s ≥ %s)", tm.ty)
		tm.m["LT"] = cmp("(%s < %s)", tm.ty)
		tm.m["LTE"] = cmp("(%s ≤ %s)", tm.ty)
		tm.m["Equal"] = cmp("(%s = %s)", tm.ty)
		tm.m["IsZero"] = pure1("(%s = 0)", tyBool)
		tm.m["IsNegative"] = pure1("(%s < 0)", tyBool)
		tm.m["IsPositive"] = pure1("(%s > 0)", tyBool)
		methodOps[tm.ty] = tm.m
	}
	methodOps[tyTime] = map[string]xop{
		"UTC":   pure1("%s", tyTime), // the instant is the value; the location does not enter comparisons
		"Equal": cmp("(%s = %s)", tyTime), "After": cmp("(%s > %s)", tyTime), "Before": cmp("(%s < %s)", tyTime),
		"Sub": {lean: "(%s - %s)", args: []string{tyTime}, res: tyDur},
	}
}

func compat(want, got string) bool {
	if want == got {
		return true
	}
	if got == tyLit && (want == tyI64 || want == tyInt || want == tyDur || want == tyBInt) {
		return true
	}
	if want == tyI64 && got == tyDur || want == tyDur && got == tyI64 {
		return true
	}
	return false
}

// ---------------------------------------------------------------- expressions

func (t *xtr) bind(op string) string {
	n := t.tmp()
	t.pre = append(t.pre, "Option.bind ("+op+") fun "+n+" =>")
	return n
}

// apply an operator of the tables to an evaluated receiver and arguments
func (t *xtr) applyOp(name string, o xop, recv xval, args []xval, env *xenv, at ast.Node) xval {
	if len(args) != len(o.args) {
		t.fail("%s: %d arguments, expected %d in %s", name, len(args), len(o.args), show(at))
	}
	for i, a := range args {
		if !compat(o.args[i], a.ty) {
			t.fail("%s: argument %d has type %s, expected %s in %s", name, i, a.ty, o.args[i], show(at))
		}
	}
	if o.mut && recv.alloc == 0 {
		t.fail("%s mutates a receiver that is not a fresh temporary of this function (%s) in %s", name, recv.lean, show(at))
	}
	var res xval
	if o.fallible {
		parts := []string{o.lean, recv.lean}
		for _, a := range args {
			parts = append(parts, a.lean)
		}
		res = xval{lean: t.bind(strings.Join(parts, " ")), ty: o.res}
	} else {
		fa := []any{recv.lean}
		for _, a := range args {
			fa = append(fa, a.lean)
		}
		res = xval{lean: fmt.Sprintf(o.lean, fa...), ty: o.res}
	}
	if o.res == tyBool {
		return res
	}
	if o.mut {
		res.alloc = recv.alloc
		for k, v := range env.vars { // every alias of the mutated allocation now holds the result
			if v.alloc == recv.alloc {
				v.lean = res.lean
				v.ty = res.ty
				env.vars[k] = v
			}
		}
	} else {
		res.alloc = t.newAlloc()
	}
	return res
}

func (t *xtr) lit(v val, at ast.Node) xval {
	switch v.scale {
	case "dec18":
		return xval{lean: leanInt(v.v), ty: tyDec}
	case "dec36":
		return xval{lean: leanInt(v.v), ty: tyBig}
	case "int":
		return xval{lean: leanInt(v.v), ty: tyLit}
	case "dur":
		return xval{lean: leanInt(v.v), ty: tyDur}
	}
	t.fail("constant of unknown scale %s in %s", v.scale, show(at))
	return xval{}
}

func (t *xtr) param(b xparam) xval {
	if b.ty == tyBool {
		return xval{lean: "(" + b.name + " = true)", ty: tyBool}
	}
	return xval{lean: b.name, ty: b.ty}
}

func (t *xtr) externByKey(k string) *xextern {
	for i := range t.spec.externs {
		if t.spec.externs[i].key == k {
			return &t.spec.externs[i]
		}
	}
	return nil
}

func (t *xtr) externArgs(x *xextern, e *ast.CallExpr, env *xenv) []xval {
	if x.noargs {
		return nil
	}
	if x.argIdx != nil {
		var out []xval
		for _, i := range x.argIdx {
			if i >= len(e.Args) {
				t.fail("extern %s: no argument %d in %s", x.key, i, show(e))
			}
			out = append(out, t.expr(e.Args[i], env))
		}
		return out
	}
	return t.exprs(e.Args, env)
}

// a value passed where the Lean side expects a `Bool` (booleans are propositions inside the translation)
func boolArg(v xval) string { return "(decide " + v.lean + ")" }

// peekTy: the type of a variable / bound expression without emitting anything ("" if unknown)
func (t *xtr) peekTy(e ast.Expr, env *xenv) string {
	if b, ok := t.binds[t.norm(e)]; ok {
		return b.ty
	}
	if v, ok := env.vars[identName(e)]; ok {
		return v.ty
	}
	return ""
}

func (t *xtr) callExtern(x *xextern, args []xval, at ast.Node) xval {
	if len(args) != len(x.args) {
		t.fail("extern %s: %d arguments, expected %d in %s", x.key, len(args), len(x.args), show(at))
	}
	parts := []string{x.name}
	for i, a := range args {
		if !compat(x.args[i], a.ty) {
			t.fail("extern %s: argument %d has type %s, expected %s in %s", x.key, i, a.ty, x.args[i], show(at))
		}
		if a.ty == tyBool {
			parts = append(parts, boolArg(a))
		} else {
			parts = append(parts, a.lean)
		}
	}
	call := strings.Join(parts, " ")
	var r xval
	if x.fallible {
		r = xval{lean: t.bind(call), ty: x.res}
	} else {
		r = xval{lean: "(" + call + ")", ty: x.res}
	}
	if x.res == tyBool {
		r.lean = "(" + r.lean + " = true)"
	}
	if x.fresh {
		r.alloc = t.newAlloc()
	}
	return r
}

// isState: the normalised expression names a state variable (loop mode) or a written receiver field
func (t *xtr) isState(key string) bool { _, ok := t.state[key]; return ok }

func (t *xtr) stateVal(key string, env *xenv) (xval, bool) {
	if v, ok := env.vars["#"+key]; ok {
		return v, true
	}
	if b, ok := t.binds[key]; ok {
		return t.param(b), true
	}
	return xval{}, false
}

// the registry entry of a callee named by a call's Fun expression (same package or imported package)
func (t *xtr) callee(fun ast.Expr) *xdone {
	switch f := fun.(type) {
	case *ast.Ident:
		return xregistry[t.spec.dir+":"+f.Name]
	case *ast.SelectorExpr:
		if x, ok := f.X.(*ast.Ident); ok {
			if d, isParam := t.pnames[x.Name]; isParam {
				if d == "$0" { // a method of the same receiver type
					if i := strings.Index(t.spec.fn, "."); i > 0 {
						return xregistry[t.spec.dir+":"+t.spec.fn[:i+1]+f.Sel.Name]
					}
				}
				return nil
			}
			if q := importedPkg(t.p, x.Name); q != nil {
				rel := strings.TrimPrefix(strings.TrimPrefix(q.dir, repo), "/")
				return xregistry[rel+":"+f.Sel.Name]
			}
		}
	}
	return nil
}

func (t *xtr) callDone(d *xdone, argExprs []ast.Expr, env *xenv, at ast.Node) []xval {
	// only the arguments the callee's specification binds positionally are evaluated (left to right);
	// the others (ctx, denoms, …) do not enter the arithmetic
	used := map[int]bool{}
	for _, pr := range d.spec.params {
		var i int
		if n, _ := fmt.Sscanf(pr.key, "$%d", &i); n == 1 && !strings.ContainsAny(pr.key, ".(") {
			used[i] = true
		}
	}
	args := make([]xval, len(argExprs))
	for i, a := range argExprs {
		if used[i+1] {
			args[i] = t.expr(a, env)
		}
	}
	parts := []string{"OsmoVerif.Gen." + d.spec.mod + "." + d.spec.lean}
	for _, x := range d.spec.externs {
		mine := t.externByKey(x.key)
		if mine == nil { // the same callee seen from another package ("TickToSqrtPrice" / "math.TickToSqrtPrice"): same Lean name
			for i := range t.spec.externs {
				if t.spec.externs[i].name == x.name && strings.HasSuffix(t.spec.externs[i].key, "."+x.key) {
					mine = &t.spec.externs[i]
				}
			}
		}
		if mine == nil {
			t.fail("callee %s needs extern %s which this function does not declare", d.spec.fn, x.key)
		}
		parts = append(parts, mine.name)
	}
	for _, pr := range d.spec.params {
		if j, path, ok := argPath(pr.key); ok && j >= 1 && j <= len(argExprs) {
			// a field of the callee's j-th parameter: the same field of the caller's j-th argument
			k2 := t.norm(argExprs[j-1]) + "." + path
			if v, ok := t.stateVal(k2, env); ok && compat(pr.ty, v.ty) {
				parts = append(parts, leanArg(v))
				continue
			}
			if v, ok := env.vars[identName(argExprs[j-1])+"."+path]; ok && compat(pr.ty, v.ty) {
				parts = append(parts, leanArg(v))
				continue
			}
			t.fail("callee %s reads %s: %s is not available here", d.spec.fn, pr.key, k2)
		}
		if !strings.HasPrefix(pr.key, "$") || strings.ContainsAny(pr.key, ".(") {
			// a keeper read such as $0.GetParams($1).X: the caller must read the very same thing
			// (same receiver, ctx in the same position) and bind it itself
			if v, ok := t.stateVal(pr.key, env); ok && strings.HasPrefix(pr.key, "$0.") && compat(pr.ty, v.ty) {
				parts = append(parts, leanArg(v))
				continue
			}
			mine, ok := t.binds[pr.key]
			if !ok || mine.ty != pr.ty || !strings.HasPrefix(pr.key, "$0.") {
				t.fail("callee %s has a non-positional parameter %s which this function does not bind identically", d.spec.fn, pr.key)
			}
			parts = append(parts, mine.name)
			continue
		}
		var i int
		fmt.Sscanf(pr.key, "$%d", &i)
		if i < 1 || i > len(args) {
			t.fail("callee %s: parameter %s out of range in %s", d.spec.fn, pr.key, show(at))
		}
		if !compat(pr.ty, args[i-1].ty) {
			t.fail("callee %s: argument %d has type %s, expected %s in %s", d.spec.fn, i, args[i-1].ty, pr.ty, show(at))
		}
		parts = append(parts, leanArg(args[i-1]))
	}
	r := t.bind(strings.Join(parts, " "))
	if len(d.resTys) == 0 {
		return nil
	}
	if len(d.resTys) == 1 {
		v := xval{lean: r, ty: d.resTys[0]}
		if v.ty == tyBool {
			v.lean = "(" + r + " = true)"
		}
		if d.fresh[0] {
			v.alloc = t.newAlloc()
		}
		return []xval{v}
	}
	var out []xval
	for i, ty := range d.resTys {
		v := xval{lean: tupleProj(r, i, len(d.resTys)), ty: ty}
		if d.fresh[i] {
			v.alloc = t.newAlloc()
		}
		out = append(out, v)
	}
	return out
}

func leanArg(v xval) string {
	if v.ty == tyBool {
		return boolArg(v)
	}
	return v.lean
}

// argPath: "$2.NumShares" → (2, "NumShares"); keys with calls are keeper reads, not argument fields
func argPath(key string) (int, string, bool) {
	if !strings.HasPrefix(key, "$") || strings.ContainsAny(key, "(") {
		return 0, "", false
	}
	i := strings.Index(key, ".")
	if i < 0 {
		return 0, "", false
	}
	var j int
	if n, _ := fmt.Sscanf(key[:i], "$%d", &j); n != 1 || j == 0 {
		return 0, "", false
	}
	return j, key[i+1:], true
}

func tupleProj(r string, i, n int) string {
	s := r
	for k := 0; k < i; k++ {
		s += ".2"
	}
	if i < n-1 {
		s += ".1"
	}
	return s
}

func (t *xtr) exprs(es []ast.Expr, env *xenv) []xval {
	var out []xval
	for _, e := range es {
		out = append(out, t.expr(e, env))
	}
	return out
}

var ctorPkgs = map[string]bool{"osmomath": true, "sdkmath": true, "math": true, "sdk": true}

func (t *xtr) expr(e ast.Expr, env *xenv) xval {
	if k := t.norm(e); t.isState(k) {
		if v, ok := t.stateVal(k, env); ok {
			return v
		}
		t.fail("%s is read before it is written and is not an input", k)
	}
	if id, ok := e.(*ast.Ident); ok {
		if v, reassigned := env.vars[id.Name]; reassigned && t.pnames[id.Name] != "" {
			return v // a scalar parameter that was assigned to
		}
	}
	if b, ok := t.binds[t.norm(e)]; ok {
		return t.param(b)
	}
	switch e := e.(type) {
	case *ast.ParenExpr:
		return t.expr(e.X, env)
	case *ast.BasicLit:
		if e.Kind == token.INT {
			return xval{lean: e.Value, ty: tyLit}
		}
	case *ast.Ident:
		if v, ok := env.vars[e.Name]; ok {
			return v
		}
		if _, ok := env.declared[e.Name]; ok {
			t.fail("%s is read before it is assigned", e.Name)
		}
		if _, ok := env.structs[e.Name]; ok {
			t.fail("struct value %s used as a scalar", e.Name)
		}
		if e.Name == "true" {
			return xval{lean: "True", ty: tyBool}
		}
		if e.Name == "false" {
			return xval{lean: "False", ty: tyBool}
		}
		if _, isParam := t.pnames[e.Name]; isParam {
			t.fail("parameter %s is not bound by the specification", e.Name)
		}
		if _, ok := t.p.consts[e.Name]; ok {
			if v, ok := t.p.tryEval(e); ok {
				return t.lit(v, e)
			}
		}
		t.fail("unknown identifier %s", e.Name)
	case *ast.SelectorExpr:
		if x, ok := e.X.(*ast.Ident); ok {
			if v, ok := env.vars[x.Name+"."+e.Sel.Name]; ok {
				return v
			}
			if st, ok := env.structs[x.Name]; ok {
				t.fail("field %s.%s of struct %s is not listed in the specification", x.Name, e.Sel.Name, st)
			}
			if _, isVar := env.vars[x.Name]; !isVar {
				if _, isParam := t.pnames[x.Name]; !isParam {
					if v, ok := t.p.tryEval(e); ok { // constant of an imported package
						return t.lit(v, e)
					}
				}
			}
		}
		if ty := t.peekTy(e.X, env); ty != "" {
			if x := t.externByKey(ty + "." + e.Sel.Name); x != nil && x.field {
				return t.callExtern(x, []xval{t.expr(e.X, env)}, e)
			}
		}
		if e.Sel.Name == "Amount" {
			c := t.expr(e.X, env)
			if c.ty == tyCoin {
				return xval{lean: c.lean, ty: tyInt, alloc: c.alloc}
			}
		}
		t.fail("unsupported selector %s", show(e))
	case *ast.UnaryExpr:
		x := t.expr(e.X, env)
		switch {
		case e.Op == token.NOT && x.ty == tyBool:
			return xval{lean: "(¬ " + x.lean + ")", ty: tyBool}
		case e.Op == token.SUB && (x.ty == tyI64 || x.ty == tyLit || x.ty == tyDur):
			return xval{lean: "(-" + x.lean + ")", ty: x.ty}
		}
		t.fail("unsupported unary expression %s", show(e))
	case *ast.BinaryExpr:
		return t.binary(e, env)
	case *ast.CompositeLit:
		if show(e.Type) == "sdk.Coin" {
			var amt ast.Expr
			for _, el := range e.Elts {
				kv, ok := el.(*ast.KeyValueExpr)
				if !ok {
					t.fail("positional sdk.Coin literal %s", show(e))
				}
				switch identName(kv.Key) {
				case "Amount":
					amt = kv.Value
				case "Denom":
				default:
					t.fail("unknown sdk.Coin field in %s", show(e))
				}
			}
			if amt == nil {
				t.fail("sdk.Coin literal without Amount: %s", show(e))
			}
			a := t.expr(amt, env)
			if a.ty != tyInt {
				t.fail("sdk.Coin amount of type %s in %s", a.ty, show(e))
			}
			return xval{lean: a.lean, ty: tyCoin, alloc: a.alloc}
		}
		t.fail("unsupported composite literal %s", show(e))
	case *ast.CallExpr:
		vs := t.call(e, env)
		if len(vs) != 1 {
			t.fail("multi-valued call %s in a single-value context", show(e))
		}
		return vs[0]
	}
	t.fail("unsupported expression %s", show(e))
	return xval{}
}

func (t *xtr) binary(e *ast.BinaryExpr, env *xenv) xval {
	switch e.Op {
	case token.LAND, token.LOR:
		x := t.expr(e.X, env)
		n := len(t.pre)
		y := t.expr(e.Y, env)
		if len(t.pre) != n {
			t.fail("right operand of %s has a fallible operation (short-circuit evaluation is not translated): %s", e.Op, show(e))
		}
		if x.ty != tyBool || y.ty != tyBool {
			t.fail("non-boolean operand of %s in %s", e.Op, show(e))
		}
		op := "∧"
		if e.Op == token.LOR {
			op = "∨"
		}
		return xval{lean: "(" + x.lean + " " + op + " " + y.lean + ")", ty: tyBool}
	}
	x, y := t.expr(e.X, env), t.expr(e.Y, env)
	native := func(ty string) bool { return ty == tyI64 || ty == tyLit || ty == tyDur }
	if !native(x.ty) || !native(y.ty) {
		t.fail("operator %s on non-native operands (%s, %s) in %s", e.Op, x.ty, y.ty, show(e))
	}
	ty := x.ty
	if ty == tyLit {
		ty = y.ty
	}
	switch e.Op {
	// NB Go's int64/uint64 wrap-around is not modelled (DESIGN §3): native integers are unbounded here
	case token.ADD:
		return xval{lean: "(" + x.lean + " + " + y.lean + ")", ty: ty}
	case token.SUB:
		return xval{lean: "(" + x.lean + " - " + y.lean + ")", ty: ty}
	case token.MUL:
		return xval{lean: "(" + x.lean + " * " + y.lean + ")", ty: ty}
	case token.REM: // Go's % truncates; a zero divisor is a run-time panic
		return xval{lean: t.bind("I64.rem " + x.lean + " " + y.lean), ty: ty}
	case token.EQL:
		return xval{lean: "(" + x.lean + " = " + y.lean + ")", ty: tyBool}
	case token.NEQ:
		return xval{lean: "(" + x.lean + " ≠ " + y.lean + ")", ty: tyBool}
	case token.LSS:
		return xval{lean: "(" + x.lean + " < " + y.lean + ")", ty: tyBool}
	case token.LEQ:
		return xval{lean: "(" + x.lean + " ≤ " + y.lean + ")", ty: tyBool}
	case token.GTR:
		return xval{lean: "(" + x.lean + " > " + y.lean + ")", ty: tyBool}
	case token.GEQ:
		return xval{lean: "(" + x.lean + " ≥ " + y.lean + ")", ty: tyBool}
	}
	t.fail("unsupported operator %s in %s", e.Op, show(e))
	return xval{}
}

func (t *xtr) call(e *ast.CallExpr, env *xenv) []xval {
	one := func(v xval) []xval { return []xval{v} }
	// (1) extern named by its normalised callee (package function or method on a parameter)
	if x := t.externByKey(t.norm(e.Fun)); x != nil {
		return one(t.callExtern(x, t.externArgs(x, e, env), e))
	}
	if e.Ellipsis != token.NoPos {
		if se, ok := e.Fun.(*ast.SelectorExpr); !ok || len(e.Args) != 1 || t.externByKey(t.peekTy(se.X, env)+"."+se.Sel.Name) == nil {
			t.fail("variadic spread outside an extern method call: %s", show(e))
		}
	}
	// (2) another translated function
	if d := t.callee(e.Fun); d != nil {
		return t.callDone(d, e.Args, env, e)
	}
	switch f := e.Fun.(type) {
	case *ast.Ident:
		switch f.Name {
		case "int64", "uint64", "int":
			if len(e.Args) == 1 {
				a := t.expr(e.Args[0], env)
				if a.ty == tyI64 || a.ty == tyLit || a.ty == tyDur {
					return one(xval{lean: a.lean, ty: tyI64})
				}
			}
		}
		t.fail("call of unknown function %s", show(e))
	case *ast.SelectorExpr:
		if x, ok := f.X.(*ast.Ident); ok {
			_, isVar := env.vars[x.Name]
			_, isParam := t.pnames[x.Name]
			_, isStruct := env.structs[x.Name]
			if !isVar && !isParam && !isStruct && isImportName(t.p, x.Name) {
				return one(t.pkgCall(x.Name, f.Sel.Name, e, env))
			}
		}
		// method call: receiver, then arguments
		recv := t.expr(f.X, env)
		if x := t.externByKey(recv.ty + "." + f.Sel.Name); x != nil {
			args := append([]xval{recv}, t.exprs(e.Args, env)...)
			return one(t.callExtern(x, args, e))
		}
		ops, ok := methodOps[recv.ty]
		if !ok {
			t.fail("method %s on a value of type %s in %s", f.Sel.Name, recv.ty, show(e))
		}
		o, ok := ops[f.Sel.Name]
		if !ok {
			t.fail("unsupported method %s.%s in %s", recv.ty, f.Sel.Name, show(e))
		}
		args := t.exprs(e.Args, env)
		if key := t.norm(f.X); o.mut && t.isState(key) {
			// the mutation of a written receiver field / state variable IS the intended effect
			recv.alloc = t.newAlloc()
			r := t.applyOp(recv.ty+"."+f.Sel.Name, o, recv, args, env, e)
			env.vars["#"+key] = r
			return one(r)
		}
		return one(t.applyOp(recv.ty+"."+f.Sel.Name, o, recv, args, env, e))
	}
	t.fail("unsupported call %s", show(e))
	return nil
}

func isImportName(p *pkgInfo, alias string) bool {
	if _, isConst := p.consts[alias]; isConst {
		return false
	}
	for _, f := range p.files {
		for _, im := range f.Imports {
			path := strings.Trim(im.Path.Value, "\"")
			name := path[strings.LastIndex(path, "/")+1:]
			if im.Name != nil {
				name = im.Name.Name
			}
			if name == alias {
				return true
			}
		}
	}
	return false
}

// constructors and helpers of osmomath / sdkmath / sdk / time
func (t *xtr) pkgCall(pkg, name string, e *ast.CallExpr, env *xenv) xval {
	arg1 := func(want ...string) xval {
		if len(e.Args) != 1 {
			t.fail("%s.%s expects one argument: %s", pkg, name, show(e))
		}
		a := t.expr(e.Args[0], env)
		for _, w := range want {
			if compat(w, a.ty) {
				return a
			}
		}
		t.fail("%s.%s: argument of type %s in %s", pkg, name, a.ty, show(e))
		return a
	}
	if pkg == "time" && name == "Duration" {
		a := arg1(tyI64)
		return xval{lean: a.lean, ty: tyDur}
	}
	if !ctorPkgs[pkg] {
		t.fail("call into package %s is neither an extern nor a translated function: %s", pkg, show(e))
	}
	switch name {
	case "OneDec", "LegacyOneDec":
		return xval{lean: "P18", ty: tyDec, alloc: t.newAlloc()}
	case "ZeroDec", "LegacyZeroDec":
		return xval{lean: "0", ty: tyDec, alloc: t.newAlloc()}
	case "OneBigDec":
		return xval{lean: "P36", ty: tyBig, alloc: t.newAlloc()}
	case "ZeroBigDec":
		return xval{lean: "0", ty: tyBig, alloc: t.newAlloc()}
	case "OneInt":
		return xval{lean: "1", ty: tyInt, alloc: t.newAlloc()}
	case "ZeroInt":
		return xval{lean: "0", ty: tyInt, alloc: t.newAlloc()}
	case "NewDec", "LegacyNewDec":
		a := arg1(tyI64)
		return xval{lean: "(" + a.lean + " * P18)", ty: tyDec, alloc: t.newAlloc()}
	case "NewBigDec":
		a := arg1(tyI64)
		return xval{lean: "(" + a.lean + " * P36)", ty: tyBig, alloc: t.newAlloc()}
	case "NewInt", "NewIntFromUint64":
		a := arg1(tyI64)
		return xval{lean: a.lean, ty: tyInt, alloc: t.newAlloc()}
	case "NewDecFromInt", "LegacyNewDecFromInt":
		a := arg1(tyInt)
		return xval{lean: "(SInt.toDec " + a.lean + ")", ty: tyDec, alloc: t.newAlloc()}
	case "BigDecFromDec":
		a := arg1(tyDec)
		return xval{lean: "(BigDec.ofDec " + a.lean + ")", ty: tyBig, alloc: t.newAlloc()}
	case "BigDecFromDecMut":
		a := arg1(tyDec)
		if a.alloc == 0 {
			t.fail("BigDecFromDecMut reuses an argument that is not a fresh temporary in %s", show(e))
		}
		return xval{lean: "(BigDec.ofDec " + a.lean + ")", ty: tyBig, alloc: t.newAlloc()}
	case "MinDec", "LegacyMinDec", "MaxDec", "LegacyMaxDec", "MinInt", "MaxInt":
		if len(e.Args) != 2 {
			t.fail("%s expects two arguments", name)
		}
		a, b := t.expr(e.Args[0], env), t.expr(e.Args[1], env)
		want := tyDec
		if strings.HasSuffix(name, "Int") {
			want = tyInt
		}
		if a.ty != want || b.ty != want {
			t.fail("%s on (%s, %s) in %s", name, a.ty, b.ty, show(e))
		}
		f := "min"
		if strings.Contains(name, "Max") {
			f = "max"
		}
		return xval{lean: "(" + f + " " + a.lean + " " + b.lean + ")", ty: want} // returns one of its operands: not owned
	case "NewCoin":
		if pkg != "sdk" || len(e.Args) != 2 {
			t.fail("unsupported %s", show(e))
		}
		a := t.expr(e.Args[1], env)
		if a.ty != tyInt {
			t.fail("sdk.NewCoin amount of type %s in %s", a.ty, show(e))
		}
		return xval{lean: t.bind("newCoin " + a.lean), ty: tyCoin, alloc: a.alloc}
	}
	// a constant initialiser such as osmomath.NewDecWithPrec(1, 12) / MustNewDecFromStr("0.5")
	if v, ok := t.p.tryEval(e); ok {
		r := t.lit(v, e)
		r.alloc = t.newAlloc()
		return r
	}
	t.fail("unsupported constructor %s", show(e))
	return xval{}
}

// ---------------------------------------------------------------- statements

func (t *xtr) flush(ind string) string {
	var sb strings.Builder
	for _, l := range t.pre {
		sb.WriteString(ind + l + "\n")
	}
	t.pre = nil
	return sb.String()
}

func paren(body, ind string) string {
	body = strings.TrimRight(body, "\n")
	if !strings.Contains(body, "\n") {
		return strings.TrimSpace(body)
	}
	return "(\n" + body + "\n" + ind + ")"
}

func isErrNotNil(c ast.Expr) bool {
	b, ok := c.(*ast.BinaryExpr)
	return ok && b.Op == token.NEQ && identName(b.X) == "err" && identName(b.Y) == "nil"
}

func (t *xtr) assign(name string, v xval, env *xenv, define bool, nested bool) {
	if name == "_" {
		return
	}
	if pn, isParam := t.pnames[name]; isParam {
		b, bound := t.binds[pn]
		if !bound || define || !compat(b.ty, v.ty) || (b.ty != tyI64 && b.ty != tyDur) {
			t.fail("assignment to parameter %s", name)
		}
		if v.ty == tyLit {
			v.ty = b.ty
		}
		env.vars[name] = v // a native scalar parameter used as a local: later reads see the new value
		return
	}
	if _, isAlias := t.aliases[name]; isAlias {
		t.fail("assignment to %s, which the translation treats as a read-only copy", name)
	}
	_, known := env.vars[name]
	dty, declared := env.declared[name]
	if define && nested && (known || declared) {
		t.fail("`:=` in a nested block shadows %s", name)
	}
	if !define && !known && !declared {
		t.fail("assignment to undeclared variable %s", name)
	}
	if declared {
		if !compat(dty, v.ty) {
			t.fail("%s declared %s, assigned %s", name, dty, v.ty)
		}
		if v.ty == tyLit {
			v.ty = dty
		}
		delete(env.declared, name)
	}
	env.vars[name] = v
}

// seq translates a statement list to a Lean term of type `Option <result>`; depth > 0 inside a nested block
func (t *xtr) seq(list []ast.Stmt, env *xenv, ind string, depth int) string {
	if len(list) == 0 {
		if t.inLoop && !env.errPending {
			return t.retState(env, ind) // end of the loop body: next iteration
		}
		if len(t.resTys) == 0 && !t.hasErr && !env.errPending {
			return t.retState(env, ind) // a procedure: only its writes are returned
		}
		t.fail("control reaches the end of the function without a return")
	}
	s, rest := list[0], list[1:]
	if env.errPending {
		is, ok := s.(*ast.IfStmt)
		if !ok || is.Init != nil || !isErrNotNil(is.Cond) || is.Else != nil {
			t.fail("a fallible call must be followed by `if err != nil { return …, err }`, found %s", show(s))
		}
		if len(is.Body.List) == 1 {
			if rs, ok := is.Body.List[0].(*ast.ReturnStmt); ok {
				// the error is propagated (possibly wrapped): `none`
				if !t.hasErr || len(rs.Results) == 0 || identName(rs.Results[len(rs.Results)-1]) == "nil" {
					t.fail("error branch does not return an error: %s", show(is))
				}
				env.errPending = false
				return t.seq(rest, env, ind, depth)
			}
		}
		// the error is HANDLED (`continue`, a different return): only sound when an error of the callee is exactly
		// the `none` of its translation, i.e. the callee converts its panics into errors (defer/recover)
		if !t.pendingRecovers || t.pendingPre != len(t.pre)-1 {
			t.fail("an error is handled without being returned, but the callee may also panic: %s", show(is))
		}
		last := t.pre[len(t.pre)-1]
		t.pre = t.pre[:len(t.pre)-1]
		i := strings.LastIndex(last, ") fun ")
		if !strings.HasPrefix(last, "Option.bind (") || i < 0 {
			t.fail("internal: unexpected binder %q", last)
		}
		call, tmp := last[len("Option.bind ("):i], strings.TrimSuffix(last[i+len(") fun "):], " =>")
		head := t.flush(ind)
		env.errPending = false
		errEnv := env.clone()
		errBody := t.seq(is.Body.List, errEnv, ind+"    ", depth+1) // must end in continue / return
		okBody := t.seq(rest, env, ind+"  ", depth)
		return head + ind + "match " + call + " with\n" + ind + "| none => " + paren(errBody, ind+"  ") + "\n" + ind + "| some " + tmp + " =>\n" + okBody
	}
	switch s := s.(type) {
	case *ast.BlockStmt:
		return t.seq(append(append([]ast.Stmt{}, s.List...), rest...), env, ind, depth)
	case *ast.DeclStmt:
		gd, ok := s.Decl.(*ast.GenDecl)
		if !ok || gd.Tok != token.VAR {
			t.fail("unsupported declaration %s", show(s))
		}
		for _, sp := range gd.Specs {
			vs := sp.(*ast.ValueSpec)
			if len(vs.Values) != 0 || vs.Type == nil {
				t.fail("unsupported var declaration %s", show(s))
			}
			for _, n := range vs.Names {
				if _, ok := env.vars[n.Name]; ok {
					t.fail("redeclaration of %s", n.Name)
				}
				env.declared[n.Name] = t.goTy(vs.Type)
			}
		}
		return t.seq(rest, env, ind, depth)
	case *ast.AssignStmt:
		if (s.Tok == token.ADD_ASSIGN || s.Tok == token.SUB_ASSIGN) && len(s.Lhs) == 1 && len(s.Rhs) == 1 && identName(s.Lhs[0]) != "" {
			op := token.ADD
			if s.Tok == token.SUB_ASSIGN {
				op = token.SUB
			}
			v := t.binary(&ast.BinaryExpr{X: s.Lhs[0], Op: op, Y: s.Rhs[0]}, env)
			t.assign(identName(s.Lhs[0]), v, env, false, depth > 0)
			return t.seq(rest, env, ind, depth)
		}
		if s.Tok != token.DEFINE && s.Tok != token.ASSIGN {
			t.fail("unsupported assignment operator in %s", show(s))
		}
		def := s.Tok == token.DEFINE
		// x, err := fallibleCall(...)
		if len(s.Rhs) == 1 && len(s.Lhs) >= 2 {
			ce, ok := s.Rhs[0].(*ast.CallExpr)
			if !ok || identName(s.Lhs[len(s.Lhs)-1]) != "err" {
				t.fail("unsupported multi-value assignment %s", show(s))
			}
			var vals []xval
			recovers := false
			if x := t.externByKey(t.norm(ce.Fun)); x != nil {
				if !x.fallible {
					t.fail("extern %s is not fallible but is assigned with err", x.key)
				}
				v := t.callExtern(x, t.externArgs(x, ce, env), ce)
				if x.res != "" {
					vals = []xval{v}
				} else {
					vals = []xval{{lean: "()", ty: "Unit"}}
				}
			} else if d := t.callee(ce.Fun); d != nil && d.hasErr {
				vals = t.callDone(d, ce.Args, env, ce)
				recovers = d.recovers
			} else {
				t.fail("unsupported multi-value assignment %s", show(s))
			}
			if len(vals) != len(s.Lhs)-1 {
				t.fail("%d values for %d variables in %s", len(vals), len(s.Lhs)-1, show(s))
			}
			for i, l := range s.Lhs[:len(s.Lhs)-1] {
				if identName(l) == "" {
					t.fail("unsupported assignment target %s", show(l))
				}
				t.assign(identName(l), vals[i], env, def, depth > 0)
			}
			env.errPending = true
			t.pendingRecovers, t.pendingPre = recovers, len(t.pre)-1
			return t.seq(rest, env, ind, depth) // pending binds are flushed by the next if / return
		}
		if len(s.Lhs) != len(s.Rhs) {
			t.fail("unsupported assignment %s", show(s))
		}
		// `body := rec.Body` where only fields of rec.Body are bound: an alias (a struct copy that is only read)
		if len(s.Lhs) == 1 && def && identName(s.Lhs[0]) != "" {
			if k := t.norm(s.Rhs[0]); strings.HasPrefix(k, "$") && t.isPathPrefix(k) {
				switch s.Rhs[0].(type) {
				case *ast.SelectorExpr, *ast.IndexExpr, *ast.Ident:
					n := identName(s.Lhs[0])
					if _, dup := t.aliases[n]; dup || env.vars[n].lean != "" {
						t.fail("redefinition of %s", n)
					}
					t.aliases[n] = k
					return t.seq(rest, env, ind, depth)
				}
			}
		}
		// struct copy `n := record`
		if len(s.Lhs) == 1 {
			if st, ok := env.structs[identName(s.Rhs[0])]; ok && identName(s.Lhs[0]) != "" {
				src, dst := identName(s.Rhs[0]), identName(s.Lhs[0])
				if _, dup := env.structs[dst]; dup && def {
					t.fail("redefinition of struct %s", dst)
				}
				env.structs[dst] = st
				for _, f := range t.spec.structs[st] {
					v := env.vars[src+"."+f.key]
					env.vars[dst+"."+f.key] = v // the copy shares the pointers: same allocation ids
				}
				return t.seq(rest, env, ind, depth)
			}
		}
		vals := t.exprs(s.Rhs, env) // all right-hand sides first (parallel assignment)
		for i, l := range s.Lhs {
			if k := t.norm(l); t.isState(k) && !def {
				if !compat(t.state[k].ty, vals[i].ty) {
					t.fail("%s has type %s, assigned %s", k, t.state[k].ty, vals[i].ty)
				}
				v := vals[i]
				if v.ty == tyLit {
					v.ty = t.state[k].ty
				}
				env.vars["#"+k] = v
				continue
			}
			switch l := l.(type) {
			case *ast.Ident:
				t.assign(l.Name, vals[i], env, def, depth > 0)
			case *ast.SelectorExpr:
				x := identName(l.X)
				st, ok := env.structs[x]
				if !ok || def {
					t.fail("unsupported assignment target %s", show(l))
				}
				if _, isParam := t.pnames[x]; isParam {
					t.fail("assignment to a field of parameter %s", x)
				}
				found := false
				for _, f := range t.spec.structs[st] {
					if f.key == l.Sel.Name {
						if !compat(f.ty, vals[i].ty) {
							t.fail("field %s.%s has type %s, assigned %s", x, f.key, f.ty, vals[i].ty)
						}
						found = true
					}
				}
				if !found {
					t.fail("assignment to field %s.%s which the specification does not list", x, l.Sel.Name)
				}
				env.vars[x+"."+l.Sel.Name] = vals[i]
			default:
				t.fail("unsupported assignment target %s", show(l))
			}
		}
		return t.seq(rest, env, ind, depth) // pending binds are flushed by the next if / return
	case *ast.ExprStmt:
		if ce, ok := s.X.(*ast.CallExpr); ok && identName(ce.Fun) == "panic" {
			return t.flush(ind) + ind + "none\n"
		}
		if ce, ok := s.X.(*ast.CallExpr); ok && t.ignored(ce) {
			return t.seq(rest, env, ind, depth) // telemetry / logging: no effect on the values
		}
		if ce, ok := s.X.(*ast.CallExpr); ok {
			if se, ok := ce.Fun.(*ast.SelectorExpr); ok && strings.HasSuffix(se.Sel.Name, "Mut") && t.isState(t.norm(se.X)) {
				t.call(ce, env) // in-place update of a written field: the new value is recorded by `call`
				return t.seq(rest, env, ind, depth)
			}
		}
		t.fail("unsupported expression statement %s", show(s))
	case *ast.DeferStmt:
		// `defer func() { r := recover(); if r != nil { …; err = … } }()`: a panic becomes an error return (both `none`)
		fl, ok := s.Call.Fun.(*ast.FuncLit)
		if !ok || depth != 0 || !t.hasErr || len(s.Call.Args) != 0 || !strings.Contains(show(fl.Body), "recover()") {
			t.fail("unsupported defer %s", strings.SplitN(show(s), "\n", 2)[0])
		}
		t.recovers = true
		return t.seq(rest, env, ind, depth)
	case *ast.BranchStmt:
		if s.Tok == token.CONTINUE && t.inLoop && s.Label == nil {
			return t.retState(env, ind)
		}
		t.fail("unsupported branch statement %s", show(s))
	case *ast.ReturnStmt:
		return t.ret(s, env, ind)
	case *ast.IfStmt:
		if s.Init != nil {
			t.fail("if with an init statement: %s", show(s.Cond))
		}
		c := t.expr(s.Cond, env)
		if c.ty != tyBool {
			t.fail("condition of type %s: %s", c.ty, show(s.Cond))
		}
		head := t.flush(ind)
		thenList := append(append([]ast.Stmt{}, s.Body.List...), rest...)
		var elseList []ast.Stmt
		switch el := s.Else.(type) {
		case nil:
			elseList = rest
		case *ast.BlockStmt:
			elseList = append(append([]ast.Stmt{}, el.List...), rest...)
		case *ast.IfStmt:
			elseList = append([]ast.Stmt{el}, rest...)
		default:
			t.fail("unsupported else branch")
		}
		// NB variables defined inside a branch stay in the flat environment of that branch's continuation;
		// `:=` that would shadow an outer variable is rejected in `assign`.
		th := t.seq(thenList, env.clone(), ind+"  ", depth+1)
		el := t.seq(elseList, env.clone(), ind, depth)
		return head + ind + "if " + c.lean + " then " + paren(th, ind) + " else\n" + el
	}
	t.fail("unsupported statement %s", strings.SplitN(show(s), "\n", 2)[0])
	return ""
}

// errOnlyCall: evaluates a call of an extern / tied function whose only result is an error (reports whether it was one)
func (t *xtr) errOnlyCall(ce *ast.CallExpr, env *xenv) bool {
	if x := t.externByKey(t.norm(ce.Fun)); x != nil && x.fallible && x.res == "" {
		t.callExtern(x, t.externArgs(x, ce, env), ce)
		return true
	}
	if d := t.callee(ce.Fun); d != nil && d.hasErr && len(d.resTys) == 0 {
		t.callDone(d, ce.Args, env, ce)
		return true
	}
	return false
}

func (t *xtr) ignored(ce *ast.CallExpr) bool {
	n := t.norm(ce.Fun)
	for _, ig := range t.spec.ignore {
		if ig == n || strings.HasSuffix(n, "."+ig) {
			return true
		}
	}
	return false
}

// isPathPrefix: some bound expression or state variable is a field below `k`
func (t *xtr) isPathPrefix(k string) bool {
	if _, bound := t.binds[k]; bound {
		return false
	}
	for b := range t.binds {
		if strings.HasPrefix(b, k+".") {
			return true
		}
	}
	for b := range t.state {
		if strings.HasPrefix(b, k+".") {
			return true
		}
	}
	return false
}

// stateAtoms: the current values of the state variables / written fields, in specification order
func (t *xtr) stateAtoms(env *xenv) []string {
	var atoms []string
	for _, st := range t.stateOrd {
		v, ok := t.stateVal(st.key, env)
		if !ok {
			t.fail("%s is neither written on this path nor an input", st.key)
		}
		atoms = append(atoms, v.lean)
	}
	return atoms
}

func (t *xtr) retState(env *xenv, ind string) string {
	atoms := t.stateAtoms(env)
	if len(atoms) == 0 {
		return t.flush(ind) + ind + "some ()\n"
	}
	if len(atoms) == 1 {
		return t.flush(ind) + ind + "some " + atoms[0] + "\n"
	}
	return t.flush(ind) + ind + "some (" + strings.Join(atoms, ", ") + ")\n"
}

func (t *xtr) ret(s *ast.ReturnStmt, env *xenv, ind string) string {
	results := s.Results
	if len(results) == 0 {
		if len(t.named) == 0 {
			t.fail("bare return in a function without named results")
		}
		for _, n := range t.named {
			results = append(results, &ast.Ident{Name: n})
		}
	}
	want := len(t.resTys)
	if t.hasErr {
		want++
	}
	if len(results) != want {
		t.fail("return with %d values, expected %d", len(results), want)
	}
	if t.hasErr {
		last := results[len(results)-1]
		results = results[:len(results)-1]
		if ce, ok := last.(*ast.CallExpr); ok && len(results) == 0 && t.errOnlyCall(ce, env) {
			// `return f(…)` with f returning only an error: f's failure is ours, its success is `nil`
		} else if identName(last) != "nil" {
			// a Go error return: the value positions are not evaluated
			return t.flush(ind) + ind + "none\n"
		}
	}
	if t.inLoop {
		t.fail("a non-error return inside the loop body is not translated")
	}
	var atoms []string
	for i, r := range results {
		ty := t.resTys[i]
		if fields, ok := t.spec.structs[ty]; ok {
			x := identName(r)
			if env.structs[x] != ty {
				t.fail("return of %s where a %s variable is expected", show(r), ty)
			}
			for _, f := range fields {
				v, ok := env.vars[x+"."+f.key]
				if !ok {
					t.fail("field %s.%s is unset at return", x, f.key)
				}
				atoms = append(atoms, v.lean)
			}
			t.fresh[i] = false
			continue
		}
		v := t.expr(r, env)
		if !compat(ty, v.ty) {
			t.fail("return value %d has type %s, expected %s in %s", i, v.ty, ty, show(r))
		}
		if v.alloc == 0 {
			t.fresh[i] = false
		}
		if ty == tyBool {
			atoms = append(atoms, boolArg(v))
		} else {
			atoms = append(atoms, v.lean)
		}
	}
	atoms = append(atoms, t.stateAtoms(env)...)
	if len(atoms) == 0 {
		return t.flush(ind) + ind + "some ()\n"
	}
	// peephole: `Option.bind (op) fun t => some t`  ⇒  `op`
	if len(atoms) == 1 && len(t.pre) > 0 {
		last := t.pre[len(t.pre)-1]
		suffix := ") fun " + atoms[0] + " =>"
		if strings.HasPrefix(last, "Option.bind (") && strings.HasSuffix(last, suffix) {
			op := strings.TrimSuffix(strings.TrimPrefix(last, "Option.bind ("), suffix)
			t.pre = t.pre[:len(t.pre)-1]
			return t.flush(ind) + ind + op + "\n"
		}
	}
	if len(atoms) == 1 {
		return t.flush(ind) + ind + "some " + atoms[0] + "\n"
	}
	return t.flush(ind) + ind + "some (" + strings.Join(atoms, ", ") + ")\n"
}

// ---------------------------------------------------------------- one function

func translateFn(spec *xspec) *xdone {
	p := loadPkg(repo + "/" + spec.dir)
	fd, ok := p.funcs[spec.fn]
	if !ok {
		xfail("no func %s in %s", spec.fn, spec.dir)
	}
	t := &xtr{p: p, spec: spec, fd: fd, pnames: map[string]string{}, binds: map[string]xparam{}, aliases: map[string]string{},
		state: map[string]xparam{}, pendingPre: -1}
	if fd.Body == nil {
		t.fail("no body")
	}
	env := &xenv{vars: map[string]xval{}, declared: map[string]string{}, structs: map[string]string{}}
	idx := 1
	if fd.Recv != nil && len(fd.Recv.List) == 1 && len(fd.Recv.List[0].Names) == 1 {
		t.pnames[fd.Recv.List[0].Names[0].Name] = "$0"
	}
	for _, f := range fd.Type.Params.List {
		for _, n := range f.Names {
			t.pnames[n.Name] = fmt.Sprintf("$%d", idx)
			idx++
		}
		if len(f.Names) == 0 {
			idx++
		}
	}
	rev := map[string]string{}
	for n, d := range t.pnames {
		rev[d] = n
	}
	// Lean signature
	var sig []string
	for _, v := range spec.tyvars {
		sig = append(sig, "{"+v+" : Type}")
	}
	for _, x := range spec.externs {
		var parts []string
		for _, a := range x.args {
			parts = append(parts, leanTy(a))
		}
		r := "Unit"
		if x.res != "" {
			r = leanTy(x.res)
		}
		if x.fallible {
			r = "Option " + r
		}
		parts = append(parts, r)
		sig = append(sig, "("+x.name+" : "+strings.Join(parts, " → ")+")")
	}
	seenName := map[string]bool{}
	for _, pr := range spec.params {
		if fields, ok := spec.structs[pr.ty]; ok {
			g, ok := rev[pr.key]
			if !ok {
				t.fail("struct parameter %s is not a parameter of the function", pr.key)
			}
			env.structs[g] = pr.ty
			for _, f := range fields {
				ln := pr.name + "_" + f.name
				sig = append(sig, "("+ln+" : "+leanTy(f.ty)+")")
				env.vars[g+"."+f.key] = t.param(xparam{name: ln, ty: f.ty})
			}
			continue
		}
		t.binds[pr.key] = pr
		if !seenName[pr.name] { // two Go expressions that denote the same value share one Lean parameter
			sig = append(sig, "("+pr.name+" : "+leanTy(pr.ty)+")")
		}
		seenName[pr.name] = true
	}
	// written receiver fields / loop state
	for _, o := range spec.outs {
		t.state[o.key] = o
		t.stateOrd = append(t.stateOrd, o)
	}
	body := fd.Body.List
	if spec.loop != nil {
		body = t.enterLoop()
	}
	// results
	var resFields []*ast.Field
	if fd.Type.Results != nil && spec.loop == nil {
		resFields = fd.Type.Results.List
	}
	if spec.loop != nil && fd.Type.Results != nil {
		for _, f := range fd.Type.Results.List { // an error return inside the loop body is `none`
			if show(f.Type) == "error" {
				t.hasErr = true
			}
		}
	}
	for _, f := range resFields {
		n := len(f.Names)
		if n == 0 {
			n = 1
		}
		for i := 0; i < n; i++ {
			ty := t.goTy(f.Type)
			if ty == "error" {
				t.hasErr = true
				if i < len(f.Names) {
					t.named = append(t.named, f.Names[i].Name)
				}
				continue
			}
			if t.hasErr {
				t.fail("error is not the last result")
			}
			t.resTys = append(t.resTys, ty)
			t.fresh = append(t.fresh, true)
			if i < len(f.Names) {
				t.named = append(t.named, f.Names[i].Name)
				env.declared[f.Names[i].Name] = ty
			}
		}
	}
	if len(t.resTys) == 0 && len(t.stateOrd) == 0 && !t.hasErr {
		t.fail("no result and no written field")
	}
	var rts []string
	for _, ty := range t.resTys {
		if fields, ok := spec.structs[ty]; ok {
			for _, f := range fields {
				rts = append(rts, leanTy(f.ty))
			}
			continue
		}
		rts = append(rts, leanTy(ty))
	}
	for _, st := range t.stateOrd {
		rts = append(rts, leanTy(st.ty))
	}
	if len(rts) == 0 {
		rts = []string{"Unit"}
	}
	bodyText := t.seq(body, env, "  ", 0)
	var sb strings.Builder
	if spec.doc != "" {
		sb.WriteString("/-- " + spec.doc + " -/\n")
	}
	rt := strings.Join(rts, " × ")
	if len(rts) > 1 {
		rt = "(" + rt + ")"
	}
	sb.WriteString("def " + spec.lean + " " + strings.Join(sig, " ") + " : Option " + rt + " :=\n")
	sb.WriteString(bodyText)
	d := &xdone{spec: spec, resTys: t.resTys, hasErr: t.hasErr, fresh: t.fresh, text: sb.String(), recovers: t.recovers}
	for _, st := range t.stateOrd { // callers see the written fields as further results
		d.resTys = append(d.resTys, st.ty)
		d.fresh = append(d.fresh, false)
	}
	xregistry[spec.dir+":"+spec.fn] = d
	return d
}

// enterLoop: loop-body mode.  Names the loop variables and the pre-loop locals, registers the state variables and
// returns the statements of the loop body.
func (t *xtr) enterLoop() []ast.Stmt {
	var loop *ast.RangeStmt
	for _, s := range t.fd.Body.List {
		if rs, ok := s.(*ast.RangeStmt); ok {
			if loop != nil {
				t.fail("more than one top-level range loop")
			}
			loop = rs
			continue
		}
		if loop != nil {
			continue
		}
		if as, ok := s.(*ast.AssignStmt); ok && as.Tok == token.DEFINE && len(as.Lhs) == 1 && len(as.Rhs) == 1 {
			if name, ok := t.spec.loop.pre[t.norm(as.Rhs[0])]; ok {
				t.pnames[identName(as.Lhs[0])] = name
			}
		}
	}
	if loop == nil {
		t.fail("no top-level range loop")
	}
	if loop.Tok != token.DEFINE {
		t.fail("the range loop does not declare its variables")
	}
	if x := identName(loop.X); x != "" {
		if _, isParam := t.pnames[x]; !isParam {
			t.pnames[x] = "$r"
		}
	}
	if k := identName(loop.Key); k != "" && k != "_" {
		t.pnames[k] = "$k"
	}
	if loop.Value != nil {
		if v := identName(loop.Value); v != "" && v != "_" {
			t.pnames[v] = "$v"
		}
	}
	for _, st := range t.spec.loop.state {
		t.state[st.key] = st
		t.stateOrd = append(t.stateOrd, st)
	}
	t.inLoop = true
	return loop.Body.List
}

// ---------------------------------------------------------------- Deliverable B: operator lists with comparisons and operands

var cmpTokens = map[token.Token]string{token.EQL: "==", token.NEQ: "!=", token.LSS: "<", token.LEQ: "<=", token.GTR: ">", token.GEQ: ">=",
	token.LAND: "&&", token.LOR: "||"}

// opListX: ordered list (source order, receiver and arguments before the call) of the arithmetic
// method calls AND the comparison / boolean operators of a function body.  Each entry carries its
// operands: locals and parameters are named v<k> by DECLARATION order (receiver, parameters, named
// results, then `:=` / var / range declarations in source order), so that renaming them does not change
// the list while swapping two operands or replacing one does; fields, package-level names and
// literals keep their text; a nested expression is `_`.  Comparisons with nil are not recorded.
func (p *pkgInfo) opListX(fn string, also ...string) []string {
	alsoNames := map[string]bool{}
	for _, a := range also {
		alsoNames[a] = true
	}
	// sdk Int / big.Int arithmetic that `arithNames` (the list the CL model interprets) does not carry
	for _, a := range []string{"MulRaw", "QuoRaw", "AddRaw", "SubRaw", "Mod", "ModRaw", "Power", "Int64", "Uint64", "Rem", "Cmp"} {
		alsoNames[a] = true
	}
	fd, ok := p.funcs[fn]
	if !ok {
		fail("no func %s in %s", fn, p.dir)
	}
	num := map[string]string{}
	decl := func(n string) {
		if n == "_" || n == "" {
			return
		}
		if _, ok := num[n]; !ok {
			num[n] = fmt.Sprintf("v%d", len(num))
		}
	}
	if fd.Recv != nil {
		for _, f := range fd.Recv.List {
			for _, n := range f.Names {
				decl(n.Name)
			}
		}
	}
	fields := func(fl *ast.FieldList) {
		if fl == nil {
			return
		}
		for _, f := range fl.List {
			for _, n := range f.Names {
				decl(n.Name)
			}
		}
	}
	fields(fd.Type.Params)
	fields(fd.Type.Results)
	ast.Inspect(fd.Body, func(n ast.Node) bool {
		switch s := n.(type) {
		case *ast.AssignStmt:
			if s.Tok == token.DEFINE {
				for _, l := range s.Lhs {
					decl(identName(l))
				}
			}
		case *ast.ValueSpec:
			for _, nm := range s.Names {
				decl(nm.Name)
			}
		case *ast.RangeStmt:
			if s.Tok == token.DEFINE {
				decl(identName(s.Key))
				if s.Value != nil {
					decl(identName(s.Value))
				}
			}
		case *ast.FuncLit:
			fields(s.Type.Params)
		}
		return true
	})
	var operand func(e ast.Expr) string
	operand = func(e ast.Expr) string {
		switch e := e.(type) {
		case *ast.Ident:
			if v, ok := num[e.Name]; ok {
				return v
			}
			return e.Name
		case *ast.SelectorExpr:
			return operand(e.X) + "." + e.Sel.Name
		case *ast.BasicLit:
			return e.Value
		case *ast.ParenExpr:
			return operand(e.X)
		case *ast.StarExpr:
			return operand(e.X)
		case *ast.IndexExpr:
			return operand(e.X) + "[" + operand(e.Index) + "]"
		case *ast.CallExpr:
			// nullary constructors / getters and constructors of literals read as operands:
			// osmomath.OneDec(), x.BigIntMut(), osmomath.NewInt(100), uint64(0)
			lits := true
			var as []string
			for _, a := range e.Args {
				bl, ok := a.(*ast.BasicLit)
				if !ok {
					lits = false
					break
				}
				as = append(as, bl.Value)
			}
			if lits {
				if se, ok := e.Fun.(*ast.SelectorExpr); ok && !arithNames[se.Sel.Name] {
					return operand(se.X) + "." + se.Sel.Name + "(" + strings.Join(as, ",") + ")"
				}
				if id, ok := e.Fun.(*ast.Ident); ok && len(as) > 0 {
					return id.Name + "(" + strings.Join(as, ",") + ")"
				}
			}
		}
		return "_"
	}
	var out []string
	var walk func(n ast.Node)
	walk = func(n ast.Node) {
		ast.Inspect(n, func(m ast.Node) bool {
			switch x := m.(type) {
			case *ast.CallExpr:
				if se, ok := x.Fun.(*ast.SelectorExpr); ok && tiedCallName(p, x.Fun) == "" && !alsoNames[se.Sel.Name] {
					walk(se.X)
					for _, a := range x.Args {
						walk(a)
					}
					if arithNames[se.Sel.Name] {
						ops := []string{operand(se.X)}
						for _, a := range x.Args {
							ops = append(ops, operand(a))
						}
						out = append(out, se.Sel.Name+"("+strings.Join(ops, ",")+")")
					}
					return false
				}
				cn := tiedCallName(p, x.Fun)
				if se, ok := x.Fun.(*ast.SelectorExpr); ok && cn == "" && alsoNames[se.Sel.Name] {
					cn = se.Sel.Name
				}
				if id, ok := x.Fun.(*ast.Ident); ok && cn == "" && alsoNames[id.Name] {
					cn = id.Name
				}
				if cn != "" {
					var ops []string
					if se, ok := x.Fun.(*ast.SelectorExpr); ok && alsoNames[se.Sel.Name] && !isImportName(p, identName(se.X)) {
						walk(se.X) // a method call: the receiver is the first operand
						ops = append(ops, operand(se.X))
					}
					for _, a := range x.Args {
						walk(a)
						ops = append(ops, operand(a))
					}
					out = append(out, cn+"("+strings.Join(ops, ",")+")")
					return false
				}
				if id, ok := x.Fun.(*ast.Ident); ok && arithNames[id.Name] {
					var ops []string
					for _, a := range x.Args {
						walk(a)
						ops = append(ops, operand(a))
					}
					out = append(out, id.Name+"("+strings.Join(ops, ",")+")")
					return false
				}
				return true
			case *ast.BinaryExpr:
				if tok, ok := cmpTokens[x.Op]; ok {
					if identName(x.X) == "nil" || identName(x.Y) == "nil" {
						return true
					}
					walk(x.X)
					walk(x.Y)
					out = append(out, tok+"("+operand(x.X)+","+operand(x.Y)+")")
					return false
				}
				return true
			case *ast.UnaryExpr:
				if x.Op == token.NOT {
					walk(x.X)
					out = append(out, "!")
					return false
				}
			}
			return true
		})
	}
	walk(fd.Body)
	return out
}

// tiedCallName: the name of a callee that the expression translator has tied (same or imported package)
func tiedCallName(p *pkgInfo, fun ast.Expr) string {
	rel := strings.TrimPrefix(strings.TrimPrefix(p.dir, repo), "/")
	switch f := fun.(type) {
	case *ast.Ident:
		if _, ok := xregistry[rel+":"+f.Name]; ok {
			return f.Name
		}
	case *ast.SelectorExpr:
		if x, ok := f.X.(*ast.Ident); ok {
			if q := importedPkg(p, x.Name); q != nil {
				qrel := strings.TrimPrefix(strings.TrimPrefix(q.dir, repo), "/")
				if _, ok := xregistry[qrel+":"+f.Sel.Name]; ok {
					return f.Sel.Name
				}
			}
		}
	}
	return ""
}

// ---------------------------------------------------------------- files

type fnFile struct {
	mod   string
	defs  []*xdone
	lists []struct {
		name string
		ops  []string
	}
}

var fnFiles = map[string]*fnFile{}

func fnFileOf(mod string) *fnFile {
	f, ok := fnFiles[mod]
	if !ok {
		f = &fnFile{mod: mod}
		fnFiles[mod] = f
	}
	return f
}

func tie(spec *xspec) {
	f := fnFileOf(spec.mod)
	f.defs = append(f.defs, translateFn(spec))
}

func pinOps(mod, dir, fn string, also ...string) {
	p := loadPkg(repo + "/" + dir)
	f := fnFileOf(mod)
	f.lists = append(f.lists, struct {
		name string
		ops  []string
	}{"opsx_" + strings.ReplaceAll(fn, ".", "_"), p.opListX(fn, also...)})
}

func writeFnFiles(outDir string) {
	var mods []string
	for m := range fnFiles {
		mods = append(mods, m)
	}
	sort.Strings(mods)
	for _, m := range mods {
		f := fnFiles[m]
		l := &leanFile{name: m + "Fn"}
		fmt.Fprintf(&l.sb, "-- GENERATED by /verif/tools/extract (gen_expr.go) from /repo's working tree. Do not edit.\n"+
			"-- Straight-line Go arithmetic translated to Lean over the primitives of Model/Num.lean + Model/NumGen.lean\n"+
			"-- (DESIGN §2.1, tie T1): temporaries are named by position, every fallible operation is sequenced with\n"+
			"-- Option.bind in Go's evaluation order; `ops_*` are ordered operator lists (operands numbered by declaration order).\n"+
			"import OsmoVerif.Model.NumGen\n\nset_option linter.unusedVariables false\n\nnamespace OsmoVerif.Gen.%s\nopen OsmoVerif.Num\n\n", m)
		for _, d := range f.defs {
			l.sb.WriteString(d.text + "\n")
		}
		for _, x := range f.lists {
			l.strList(x.name, x.ops)
		}
		// leanFile.write closes `OsmoVerif.Gen.<name>`; close our namespace by hand
		fmt.Fprintf(&l.sb, "\nend OsmoVerif.Gen.%s\n", m)
		writeIfChanged(outDir+"/"+l.name+".lean", l.sb.String())
	}
}
