package main

// Gen/Lockup.lean for property C06: the denomination prefix of concentrated-liquidity share coins, which
// x/lockup burns instead of paying out when a lock is withdrawn (unlockMaturedLockInternalLogic), and the
// fact that this is the prefix test the withdrawal path applies.

import (
	"go/ast"
	"go/token"
	"path/filepath"
	"strconv"
	"strings"
)

func genLockup(outDir string) {
	ct := loadPkg(filepath.Join(repo, "x/concentrated-liquidity/types"))
	l := newLean("Lockup")
	e, ok := ct.consts["ConcentratedLiquidityTokenPrefix"]
	if !ok {
		fail("no const ConcentratedLiquidityTokenPrefix in x/concentrated-liquidity/types")
	}
	bl, ok := e.(*ast.BasicLit)
	if !ok || bl.Kind != token.STRING {
		fail("ConcentratedLiquidityTokenPrefix is not a string literal")
	}
	pfx, err := strconv.Unquote(bl.Value)
	if err != nil || pfx == "" {
		fail("ConcentratedLiquidityTokenPrefix: %q %v", bl.Value, err)
	}
	l.sb.WriteString("def ConcentratedLiquidityTokenPrefix : String := " + strconv.Quote(pfx) + "\n")
	// the share denomination of a pool is "<prefix>/<pool id>"
	body := ct.bodyText("GetConcentratedLockupDenomFromPoolId")
	if !strings.Contains(body, `fmt.Sprintf("%s/%d", ConcentratedLiquidityTokenPrefix, poolId)`) {
		fail("GetConcentratedLockupDenomFromPoolId no longer formats <prefix>/<pool id>: %s", body)
	}
	// the withdrawal path classifies a coin as a CL share by this prefix
	lk := loadPkg(filepath.Join(repo, "x/lockup/keeper"))
	ub := lk.bodyText("Keeper.unlockMaturedLockInternalLogic")
	if !strings.Contains(ub, "strings.HasPrefix(coin.Denom, cltypes.ConcentratedLiquidityTokenPrefix)") {
		fail("unlockMaturedLockInternalLogic no longer tests the CL share prefix with strings.HasPrefix: the model's isCLDenom is out of date")
	}
	l.write(outDir)
}
