package main

import (
	"go/ast"
	"path/filepath"
	"strings"
)

// ---------- authorisation decision facts (property C20) ----------

func calleeName(ce *ast.CallExpr) string {
	switch f := ce.Fun.(type) {
	case *ast.Ident:
		return f.Name
	case *ast.SelectorExpr:
		return f.Sel.Name
	}
	return ""
}

func (p *pkgInfo) fn(name string) *ast.FuncDecl {
	fd, ok := p.funcs[name]
	if !ok || fd.Body == nil {
		fail("no func %s in %s", name, p.dir)
	}
	return fd
}

func oneLine(n ast.Node) string { return strings.Join(strings.Fields(show(n)), " ") }

// guards: source text of every `if` condition that mentions one of the keywords, in source order,
// located BEFORE the first call of `effect` (the first state-changing call of the function).  With
// effect == "" the whole body is scanned.  A missing effect call is an extraction failure.
func (p *pkgInfo) guards(fn string, effect string, kws []string) []string {
	fd := p.fn(fn)
	limit := fd.Body.End()
	if effect != "" {
		found := false
		ast.Inspect(fd.Body, func(n ast.Node) bool {
			if ce, ok := n.(*ast.CallExpr); ok && !found && calleeName(ce) == effect {
				found = true
				limit = ce.Pos()
			}
			return !found
		})
		if !found {
			fail("func %s in %s no longer calls %s (the first state-changing call the guards must precede)", fn, p.dir, effect)
		}
	}
	out := []string{}
	ast.Inspect(fd.Body, func(n ast.Node) bool {
		is, ok := n.(*ast.IfStmt)
		if !ok || is.Pos() >= limit {
			return true
		}
		c := oneLine(is.Cond)
		for _, k := range kws {
			if strings.Contains(c, k) {
				out = append(out, c)
				break
			}
		}
		return true
	})
	return out
}

// callText: source text of the first call of `callee` inside fn.
func (p *pkgInfo) callText(fn, callee string) string {
	fd := p.fn(fn)
	res := ""
	ast.Inspect(fd.Body, func(n ast.Node) bool {
		if ce, ok := n.(*ast.CallExpr); ok && res == "" && calleeName(ce) == callee {
			res = oneLine(ce)
		}
		return res == ""
	})
	if res == "" {
		fail("func %s in %s no longer calls %s", fn, p.dir, callee)
	}
	return res
}

// callOrder: the watched callees in the order of their first call inside fn; all must occur.
func (p *pkgInfo) callOrder(fn string, watch []string) []string {
	fd := p.fn(fn)
	seen := map[string]bool{}
	out := []string{}
	ast.Inspect(fd.Body, func(n ast.Node) bool {
		if ce, ok := n.(*ast.CallExpr); ok {
			c := calleeName(ce)
			for _, w := range watch {
				if w == c && !seen[c] {
					// arguments are evaluated before the call: visit them first
					for _, a := range ce.Args {
						ast.Inspect(a, func(m ast.Node) bool {
							if ce2, ok := m.(*ast.CallExpr); ok {
								c2 := calleeName(ce2)
								for _, w2 := range watch {
									if w2 == c2 && !seen[c2] {
										seen[c2] = true
										out = append(out, c2)
									}
								}
							}
							return true
						})
					}
					seen[c] = true
					out = append(out, c)
				}
			}
		}
		return true
	})
	for _, w := range watch {
		if !seen[w] {
			fail("func %s in %s no longer calls %s", fn, p.dir, w)
		}
	}
	return out
}

// assignText: right-hand side of the first `name := …` / `name = …` inside fn.
func (p *pkgInfo) assignText(fn, name string) string {
	fd := p.fn(fn)
	res := ""
	ast.Inspect(fd.Body, func(n ast.Node) bool {
		as, ok := n.(*ast.AssignStmt)
		if !ok || res != "" {
			return res == ""
		}
		for i, l := range as.Lhs {
			if id, ok := l.(*ast.Ident); ok && id.Name == name && len(as.Rhs) > 0 {
				r := as.Rhs[0]
				if len(as.Rhs) == len(as.Lhs) {
					r = as.Rhs[i]
				}
				res = oneLine(r)
			}
		}
		return res == ""
	})
	if res == "" {
		fail("func %s in %s no longer assigns %s", fn, p.dir, name)
	}
	return res
}

// firstStmt: source text of the first statement of fn's body (a handler that is a bare `return …, err`).
func (p *pkgInfo) firstStmt(fn string) string {
	fd := p.fn(fn)
	if len(fd.Body.List) == 0 {
		fail("func %s in %s has an empty body", fn, p.dir)
	}
	return oneLine(fd.Body.List[0])
}

func genAuth(outDir string) {
	l := newLean("Auth")
	who := []string{"Sender", "sender", "Owner", "owner", "Admin", "isGovModuleSender", "updateInitiator"}
	type g struct {
		lean, fn, effect string
		kws              []string
	}
	emit := func(p *pkgInfo, gs []g) {
		for _, x := range gs {
			l.strList("guards_"+x.lean, p.guards(x.fn, x.effect, x.kws))
			l.strDef("src_"+x.lean, p.bodyText(x.fn))
		}
	}
	// --- tokenfactory
	tf := loadPkg(filepath.Join(repo, "x/tokenfactory/keeper"))
	modAcc := []string{"IsModuleAcc", "GetAddress().Equals"}
	emit(tf, []g{
		{"tokenfactory_Mint", "msgServer.Mint", "mintTo", who},
		{"tokenfactory_Burn", "msgServer.Burn", "burnFrom", who},
		{"tokenfactory_ForceTransfer", "msgServer.ForceTransfer", "forceTransfer", who},
		{"tokenfactory_ChangeAdmin", "msgServer.ChangeAdmin", "setAdmin", who},
		{"tokenfactory_SetDenomMetadata", "msgServer.SetDenomMetadata", "SetDenomMetaData", who},
		{"tokenfactory_SetBeforeSendHook", "msgServer.SetBeforeSendHook", "setBeforeSendHook", who},
		{"tokenfactory_k_mintTo", "Keeper.mintTo", "MintCoins", modAcc},
		{"tokenfactory_k_burnFrom", "Keeper.burnFrom", "SendCoinsFromAccountToModule", modAcc},
		{"tokenfactory_k_forceTransfer", "Keeper.forceTransfer", "SendCoins", modAcc},
	})
	l.strDef("src_tokenfactory_k_IsModuleAcc", tf.bodyText("Keeper.IsModuleAcc"))
	l.strDef("src_tokenfactory_k_GetAuthorityMetadata", tf.bodyText("Keeper.GetAuthorityMetadata"))
	l.strDef("src_tokenfactory_k_setAdmin", tf.bodyText("Keeper.setAdmin"))
	l.strDef("src_tokenfactory_k_createDenomAfterValidation", tf.bodyText("Keeper.createDenomAfterValidation"))
	l.strDef("src_tokenfactory_k_validateCreateDenom", tf.bodyText("Keeper.validateCreateDenom"))
	// the namespace of a new denom is the message sender: no other creator can be named
	l.strDef("call_tokenfactory_CreateDenom", tf.callText("msgServer.CreateDenom", "CreateDenom"))
	l.strDef("call_tokenfactory_k_CreateDenom_validate", tf.callText("Keeper.CreateDenom", "validateCreateDenom"))
	l.strDef("call_tokenfactory_k_CreateDenom_create", tf.callText("Keeper.CreateDenom", "createDenomAfterValidation"))
	l.strDef("call_tokenfactory_k_validateCreateDenom_GetTokenDenom", tf.callText("Keeper.validateCreateDenom", "GetTokenDenom"))
	l.strDef("def_tokenfactory_k_createDenomAfterValidation_authorityMetadata", tf.assignText("Keeper.createDenomAfterValidation", "authorityMetadata"))
	tft := loadPkg(filepath.Join(repo, "x/tokenfactory/types"))
	l.strDef("def_tokenfactory_GetTokenDenom_denom", tft.assignText("GetTokenDenom", "denom"))
	l.strDef("src_tokenfactory_GetTokenDenom", tft.bodyText("GetTokenDenom"))
	l.strDef("src_tokenfactory_DeconstructDenom", tft.bodyText("DeconstructDenom"))
	// --- lockup
	lk := loadPkg(filepath.Join(repo, "x/lockup/keeper"))
	emit(lk, []g{
		{"lockup_BeginUnlocking", "msgServer.BeginUnlocking", "BeginUnlock", who},
		{"lockup_ForceUnlock", "msgServer.ForceUnlock", "PartialForceUnlock", append([]string{"found"}, who...)},
		{"lockup_k_ExtendLockup", "Keeper.ExtendLockup", "deleteLockRefs", who},
		{"lockup_k_SetLockRewardReceiverAddress", "Keeper.SetLockRewardReceiverAddress", "setLock", who},
	})
	l.strDef("call_lockup_ExtendLockup", lk.callText("msgServer.ExtendLockup", "ExtendLockup"))
	l.strDef("call_lockup_ExtendLockup_owner", lk.callText("msgServer.ExtendLockup", "AccAddressFromBech32"))
	l.strDef("call_lockup_SetRewardReceiverAddress", lk.callText("msgServer.SetRewardReceiverAddress", "SetLockRewardReceiverAddress"))
	l.strDef("call_lockup_SetRewardReceiverAddress_owner", lk.callText("msgServer.SetRewardReceiverAddress", "AccAddressFromBech32"))
	// BeginUnlockingAll names no lock: it walks the not-unlocking locks of the address decoded from msg.Owner
	l.strDef("call_lockup_BeginUnlockingAll", lk.callText("msgServer.BeginUnlockingAll", "BeginUnlockAllNotUnlockings"))
	l.strDef("call_lockup_BeginUnlockingAll_owner", lk.callText("msgServer.BeginUnlockingAll", "AccAddressFromBech32"))
	l.strDef("call_lockup_k_BeginUnlockAllNotUnlockings", lk.callText("Keeper.BeginUnlockAllNotUnlockings", "beginUnlockFromIterator"))
	l.strDef("call_lockup_k_beginUnlockFromIterator", lk.callText("Keeper.beginUnlockFromIterator", "BeginUnlock"))
	l.strDef("src_lockup_BeginUnlockingAll", lk.bodyText("msgServer.BeginUnlockingAll"))
	l.strDef("src_lockup_k_beginUnlockFromIterator", lk.bodyText("Keeper.beginUnlockFromIterator"))
	// --- concentrated liquidity
	cl := loadPkg(filepath.Join(repo, "x/concentrated-liquidity"))
	emit(cl, []g{
		{"cl_k_WithdrawPosition", "Keeper.WithdrawPosition", "positionHasActiveUnderlyingLockAndUpdate", who},
		{"cl_k_addToPosition", "Keeper.addToPosition", "positionHasActiveUnderlyingLockAndUpdate", who},
		{"cl_k_collectSpreadRewards", "Keeper.collectSpreadRewards", "prepareClaimableSpreadRewards", who},
		{"cl_k_collectIncentives", "Keeper.collectIncentives", "prepareClaimAllIncentivesForPosition", who},
		{"cl_k_transferPositions", "Keeper.transferPositions", "positionHasActiveUnderlyingLockAndUpdate", who},
	})
	l.strDef("def_cl_k_transferPositions_isGovModuleSender", cl.assignText("Keeper.transferPositions", "isGovModuleSender"))
	for _, c := range [][3]string{
		{"cl_WithdrawPosition", "msgServer.WithdrawPosition", "WithdrawPosition"},
		{"cl_AddToPosition", "msgServer.AddToPosition", "addToPosition"},
		{"cl_CollectSpreadRewards", "msgServer.CollectSpreadRewards", "collectSpreadRewards"},
		{"cl_CollectIncentives", "msgServer.CollectIncentives", "collectIncentives"},
		{"cl_TransferPositions", "msgServer.TransferPositions", "transferPositions"},
	} {
		l.strDef("call_"+c[0], cl.callText(c[1], c[2]))
		l.strDef("call_"+c[0]+"_sender", cl.callText(c[1], "AccAddressFromBech32"))
		l.strDef("src_"+c[0], cl.bodyText(c[1]))
	}
	// --- superfluid
	sf := loadPkg(filepath.Join(repo, "x/superfluid/keeper"))
	emit(sf, []g{
		{"superfluid_k_validateLockForSF", "Keeper.validateLockForSF", "", who},
		{"superfluid_k_convertLockToStake", "Keeper.convertLockToStake", "forceUnlockAndExitBalancerPool", who},
	})
	l.strList("order_superfluid_k_validateLockForSFDelegate", sf.callOrder("Keeper.validateLockForSFDelegate", []string{"validateLockForSF", "GetSuperfluidAsset", "alreadySuperfluidStaking"}))
	l.strList("order_superfluid_k_SuperfluidDelegate", sf.callOrder("Keeper.SuperfluidDelegate", []string{"validateLockForSFDelegate", "GetOrCreateIntermediaryAccount", "SetLockIdIntermediaryAccountConnection", "createSyntheticLockup", "mintOsmoTokensAndDelegate"}))
	l.strList("order_superfluid_k_undelegateCommon", sf.callOrder("Keeper.undelegateCommon", []string{"validateLockForSF", "DeleteLockIdIntermediaryAccountConnection", "DeleteSyntheticLockup", "forceUndelegateAndBurnOsmoTokens"}))
	l.strList("order_superfluid_k_unbondLock", sf.callOrder("Keeper.unbondLock", []string{"validateLockForSF", "BeginForceUnlock"}))
	l.strList("order_superfluid_k_SuperfluidUndelegateAndUnbondLock", sf.callOrder("Keeper.SuperfluidUndelegateAndUnbondLock", []string{"SuperfluidUndelegate", "unbondLock", "DeleteSyntheticLockup", "SuperfluidDelegate"}))
	l.strList("order_superfluid_k_SuperfluidUndelegate", sf.callOrder("Keeper.SuperfluidUndelegate", []string{"undelegateCommon", "createSyntheticLockup"}))
	for _, c := range [][3]string{
		{"superfluid_SuperfluidDelegate", "msgServer.SuperfluidDelegate", "SuperfluidDelegate"},
		{"superfluid_SuperfluidUndelegate", "msgServer.SuperfluidUndelegate", "SuperfluidUndelegate"},
		{"superfluid_SuperfluidUnbondLock", "msgServer.SuperfluidUnbondLock", "SuperfluidUnbondLock"},
		{"superfluid_SuperfluidUndelegateAndUnbondLock", "msgServer.SuperfluidUndelegateAndUnbondLock", "SuperfluidUndelegateAndUnbondLock"},
		{"superfluid_UnbondConvertAndStake", "msgServer.UnbondConvertAndStake", "UnbondConvertAndStake"},
	} {
		l.strDef("call_"+c[0], sf.callText(c[1], c[2]))
	}
	for _, f := range []string{"validateLockForSFDelegate", "SuperfluidDelegate", "undelegateCommon", "unbondLock", "SuperfluidUndelegateAndUnbondLock", "SuperfluidUndelegate", "SuperfluidUnbondLock"} {
		l.strDef("src_superfluid_k_"+f, sf.bodyText("Keeper."+f))
	}
	// UnbondConvertAndStake: undelegateCommon (owner check for superfluid-BONDED locks only) precedes
	// convertLockToStake, whose own owner check (guards_superfluid_k_convertLockToStake, above) precedes the
	// force-unlock / pool exit
	l.strList("order_superfluid_k_UnbondConvertAndStake", sf.callOrder("Keeper.UnbondConvertAndStake", []string{"AccAddressFromBech32", "getMigrationType", "undelegateCommon", "convertLockToStake", "convertUnlockedToStake"}))
	l.strList("guards_superfluid_k_UnbondConvertAndStake", sf.guards("Keeper.UnbondConvertAndStake", "", []string{"migrationType"}))
	l.strList("order_superfluid_k_convertLockToStake", sf.callOrder("Keeper.convertLockToStake", []string{"GetLockByID", "forceUnlockAndExitBalancerPool", "convertGammSharesToOsmoAndStake"}))
	l.strDef("call_superfluid_k_UnbondConvertAndStake_convertLockToStake", sf.callText("Keeper.UnbondConvertAndStake", "convertLockToStake"))
	l.strDef("call_superfluid_k_UnbondConvertAndStake_undelegateCommon", sf.callText("Keeper.UnbondConvertAndStake", "undelegateCommon"))
	l.strDef("call_superfluid_k_UnbondConvertAndStake_sender", sf.callText("Keeper.UnbondConvertAndStake", "AccAddressFromBech32"))
	// AddToConcentratedLiquiditySuperfluidPosition: lock owner = position owner = sender, before anything is touched
	emit(sf, []g{
		{"superfluid_k_addToConcentratedLiquiditySuperfluidPosition", "Keeper.addToConcentratedLiquiditySuperfluidPosition", "SuperfluidUndelegateToConcentratedPosition", who},
		{"superfluid_k_validateGammLockForSuperfluidStaking", "Keeper.validateGammLockForSuperfluidStaking", "", who},
	})
	l.strDef("call_superfluid_AddToConcentratedLiquiditySuperfluidPosition", sf.callText("msgServer.AddToConcentratedLiquiditySuperfluidPosition", "addToConcentratedLiquiditySuperfluidPosition"))
	l.strDef("call_superfluid_AddToConcentratedLiquiditySuperfluidPosition_sender", sf.callText("msgServer.AddToConcentratedLiquiditySuperfluidPosition", "AccAddressFromBech32"))
	l.strDef("call_superfluid_k_SuperfluidUndelegateToConcentratedPosition", sf.callText("Keeper.SuperfluidUndelegateToConcentratedPosition", "undelegateCommon"))
	// the migration message is disabled: its handler is a bare error return
	l.strDef("stmt_superfluid_UnlockAndMigrateSharesToFullRangeConcentratedPosition", sf.firstStmt("msgServer.UnlockAndMigrateSharesToFullRangeConcentratedPosition"))
	// UnPoolWhitelistedPool names no lock: it walks the sender's own locks of the pool's share denom
	l.strDef("call_superfluid_UnPoolWhitelistedPool_locks", sf.callText("msgServer.UnPoolWhitelistedPool", "GetAccountLockedLongerDurationDenom"))
	l.strDef("call_superfluid_UnPoolWhitelistedPool_sender", sf.callText("msgServer.UnPoolWhitelistedPool", "AccAddressFromBech32"))
	l.strDef("call_superfluid_UnPoolWhitelistedPool_unpool", sf.callText("msgServer.UnPoolWhitelistedPool", "UnpoolAllowedPools"))
	l.strList("order_superfluid_k_UnpoolAllowedPools", sf.callOrder("Keeper.UnpoolAllowedPools", []string{"checkUnpoolWhitelisted", "validateGammLockForSuperfluidStaking", "unbondSuperfluidIfExists", "ForceUnlock", "ExitPool"}))
	for _, f := range []string{"UnbondConvertAndStake", "convertLockToStake", "addToConcentratedLiquiditySuperfluidPosition", "getMigrationType"} {
		l.strDef("src_superfluid_k_"+f, sf.bodyText("Keeper."+f))
	}
	// --- gamm: the scaling factors of a stableswap pool belong to its controller
	gk := loadPkg(filepath.Join(repo, "x/gamm/keeper"))
	ss := loadPkg(filepath.Join(repo, "x/gamm/pool-models/stableswap"))
	emit(ss, []g{{"gamm_stableswap_SetScalingFactors", "Pool.SetScalingFactors", "", who}})
	l.strDef("call_gamm_StableSwapAdjustScalingFactors", gk.callText("msgServer.StableSwapAdjustScalingFactors", "setStableSwapScalingFactors"))
	l.strDef("call_gamm_k_setStableSwapScalingFactors", gk.callText("Keeper.setStableSwapScalingFactors", "SetScalingFactors"))
	l.strList("order_gamm_k_setStableSwapScalingFactors", gk.callOrder("Keeper.setStableSwapScalingFactors", []string{"GetPoolAndPoke", "SetScalingFactors", "setPool"}))
	// --- valset-pref: DelegateBondedTokens breaks a lock named by id
	vp := loadPkg(filepath.Join(repo, "x/valset-pref"))
	emit(vp, []g{
		{"valsetpref_k_validateLockForForceUnlock", "Keeper.validateLockForForceUnlock", "", append([]string{"IsUnlocking"}, who...)},
	})
	l.strList("order_valsetpref_k_ForceUnlockBondedOsmo", vp.callOrder("Keeper.ForceUnlockBondedOsmo", []string{"validateLockForForceUnlock", "GetSyntheticLockupByUnderlyingLockId", "ForceUnlock"}))
	l.strList("order_valsetpref_DelegateBondedTokens", vp.callOrder("msgServer.DelegateBondedTokens", []string{"GetDelegationPreferences", "ForceUnlockBondedOsmo", "DelegateToValidatorSet"}))
	l.strDef("call_valsetpref_DelegateBondedTokens", vp.callText("msgServer.DelegateBondedTokens", "ForceUnlockBondedOsmo"))
	l.strDef("call_valsetpref_DelegateBondedTokens_prefs", vp.callText("msgServer.DelegateBondedTokens", "GetDelegationPreferences"))
	l.strDef("call_valsetpref_k_ForceUnlockBondedOsmo", vp.callText("Keeper.ForceUnlockBondedOsmo", "validateLockForForceUnlock"))
	l.strDef("src_valsetpref_DelegateBondedTokens", vp.bodyText("msgServer.DelegateBondedTokens"))
	l.strDef("src_valsetpref_k_ForceUnlockBondedOsmo", vp.bodyText("Keeper.ForceUnlockBondedOsmo"))
	l.write(outDir)
}
