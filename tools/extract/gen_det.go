package main

// Gen/Det.lean for property C19 (determinism): every `range` statement over a map-typed
// expression in the consensus-relevant non-test Go packages of /repo, classified by what the
// loop body does with the (randomised) iteration order:
//
//   sorted       the loop only collects keys/values into slices, and each such slice is sorted
//                (sort.*, slices.Sort*, osmoutils.SortSlice, x.Sort()) before its first other use
//   commutative  the body only performs order-insensitive accumulation recognised syntactically
//                (x = x.Add(..), +=, ++, delete, m2[k] = v with the range key, set insertion of a
//                constant, max/min, pure local definitions, guards without calls)
//   readonly     the body only returns a constant bool / an error built without any impure call
//                on the first match (any match is equivalent; no gas-consuming call happens on
//                the way, so GasUsed cannot depend on the order)
//   effectful    everything else (store writes, sends, events, appends that are not sorted
//                afterwards, early exit with a value, calls the classifier does not know)
//
// Type information is syntactic (no go/types: the translator has to stay a <2 s step that needs
// no type-checked build of the whole dependency graph): the type of a range operand is resolved
// through parser-resolved local declarations, struct fields, function/method results, conversions,
// make/composite literals, across packages (repo packages and the module cache, parsed lazily).
// A range operand whose type cannot be resolved is NOT silently dropped: it is listed in
// `unresolvedRanges`, which Props/C19 obliges to be a subset of a hand-audited table.
//
// The stable key of a site is (file ":" enclosing function, ordinal of the map range inside that
// function in source order); line numbers appear only in comments.

import (
	"fmt"
	"go/ast"
	"go/parser"
	"go/token"
	"os"
	"os/exec"
	"path/filepath"
	"regexp"
	"sort"
	"strings"
)

// ---------------------------------------------------------------- packages (syntactic)

type tpkg struct {
	path  string
	dir   string
	name  string
	files []*ast.File
	types map[string]*ast.TypeSpec
	tfile map[string]*ast.File // file of each type / func / var (for import alias resolution)
	vars  map[string]*ast.ValueSpec
	funcs map[string]*ast.FuncDecl // "Name" or "Recv.Name"
}

// T is a type expression together with the package and file it is written in.
type T struct {
	p *tpkg
	f *ast.File
	e ast.Expr
}

var detPkgs = map[string]*tpkg{} // by dir
var modDirs [][2]string          // (module path, dir), longest path first
var goroot string

func detInitModules() {
	cmd := exec.Command("go", "list", "-m", "-f", "{{.Path}} {{.Dir}}", "all")
	cmd.Dir = repo
	cmd.Env = append(cmd.Environ(), "GOPROXY=off", "GOSUMDB=off", "GOFLAGS=")
	out, err := cmd.Output()
	if err != nil {
		fail("go list -m all: %v", err)
	}
	for _, l := range strings.Split(string(out), "\n") {
		f := strings.Fields(l)
		if len(f) == 2 {
			modDirs = append(modDirs, [2]string{f[0], f[1]})
		}
	}
	sort.Slice(modDirs, func(i, j int) bool { return len(modDirs[i][0]) > len(modDirs[j][0]) })
	o, err := exec.Command("go", "env", "GOROOT").Output()
	if err != nil {
		fail("go env GOROOT: %v", err)
	}
	goroot = strings.TrimSpace(string(o))
}

func importDir(path string) string {
	for _, m := range modDirs {
		if path == m[0] {
			return m[1]
		}
		if strings.HasPrefix(path, m[0]+"/") {
			return filepath.Join(m[1], path[len(m[0])+1:])
		}
	}
	d := filepath.Join(goroot, "src", path)
	if st, err := os.Stat(d); err == nil && st.IsDir() {
		return d
	}
	return ""
}

func detLoad(dir, path string) *tpkg {
	if dir == "" {
		return nil
	}
	if p, ok := detPkgs[dir]; ok {
		return p
	}
	p := &tpkg{path: path, dir: dir, types: map[string]*ast.TypeSpec{}, tfile: map[string]*ast.File{}, vars: map[string]*ast.ValueSpec{}, funcs: map[string]*ast.FuncDecl{}}
	detPkgs[dir] = p
	ents, err := os.ReadDir(dir)
	if err != nil {
		return p
	}
	for _, e := range ents {
		n := e.Name()
		if !strings.HasSuffix(n, ".go") || strings.HasSuffix(n, "_test.go") {
			continue
		}
		f, err := parser.ParseFile(fset, filepath.Join(dir, n), nil, parser.ParseComments)
		if err != nil {
			if strings.HasPrefix(dir, repo) {
				fail("parse %s: %v", filepath.Join(dir, n), err)
			}
			continue
		}
		if ignoredByBuildTag(f) {
			continue
		}
		if f.Name.Name == "main" && p.name != "" && p.name != "main" {
			continue
		}
		if strings.HasSuffix(f.Name.Name, "_test") {
			continue
		}
		p.name = f.Name.Name
		p.files = append(p.files, f)
		for _, d := range f.Decls {
			switch d := d.(type) {
			case *ast.GenDecl:
				for _, s := range d.Specs {
					switch s := s.(type) {
					case *ast.TypeSpec:
						p.types[s.Name.Name] = s
						p.tfile["t:"+s.Name.Name] = f
					case *ast.ValueSpec:
						for _, nm := range s.Names {
							p.vars[nm.Name] = s
							p.tfile["v:"+nm.Name] = f
						}
					}
				}
			case *ast.FuncDecl:
				name := d.Name.Name
				if d.Recv != nil && len(d.Recv.List) > 0 {
					name = recvName(d.Recv.List[0].Type) + "." + name
				}
				p.funcs[name] = d
				p.tfile["f:"+name] = f
			}
		}
	}
	return p
}

func ignoredByBuildTag(f *ast.File) bool {
	for _, cg := range f.Comments {
		if cg.Pos() > f.Package {
			break
		}
		for _, c := range cg.List {
			if strings.HasPrefix(c.Text, "//go:build") {
				t := c.Text
				if strings.Contains(t, "ignore") || strings.Contains(t, "js") && !strings.Contains(t, "!js") || strings.Contains(t, "windows") && !strings.Contains(t, "!windows") {
					return true
				}
			}
		}
	}
	return false
}

func recvName(t ast.Expr) string {
	for {
		switch x := t.(type) {
		case *ast.StarExpr:
			t = x.X
		case *ast.ParenExpr:
			t = x.X
		case *ast.IndexExpr:
			t = x.X
		case *ast.IndexListExpr:
			t = x.X
		case *ast.Ident:
			return x.Name
		default:
			return "?"
		}
	}
}

var versionElem = regexp.MustCompile(`^v[0-9]+$`)

// importOf resolves an import alias used in file f to a package.
func importOf(f *ast.File, alias string) *tpkg {
	var guess *tpkg
	for _, im := range f.Imports {
		path := strings.Trim(im.Path.Value, "\"")
		if im.Name != nil {
			if im.Name.Name == alias {
				return detLoad(importDir(path), path)
			}
			continue
		}
		els := strings.Split(path, "/")
		base := els[len(els)-1]
		if versionElem.MatchString(base) && len(els) > 1 {
			base = els[len(els)-2]
		}
		base = strings.TrimPrefix(base, "go-")
		if i := strings.Index(base, "."); i > 0 { // gopkg.in/yaml.v2
			base = base[:i]
		}
		if base == alias {
			guess = detLoad(importDir(path), path)
			if guess != nil && (guess.name == alias || guess.name == "") {
				return guess
			}
		} else if q := detPkgsByPathName(path, alias); q != nil {
			return q
		}
	}
	return guess
}

// detPkgsByPathName: an unaliased import whose package name differs from its last path element.
func detPkgsByPathName(path, alias string) *tpkg {
	d := importDir(path)
	if d == "" {
		return nil
	}
	if p, ok := detPkgs[d]; ok {
		if p.name == alias {
			return p
		}
		return nil
	}
	return nil
}

var builtinTypes = map[string]string{"string": "string", "int": "int", "int8": "int", "int16": "int", "int32": "int", "int64": "int", "uint": "int", "uint8": "int",
	"uint16": "int", "uint32": "int", "uint64": "int", "uintptr": "int", "byte": "int", "rune": "int", "bool": "basic", "float32": "basic", "float64": "basic",
	"error": "iface", "any": "iface", "complex128": "basic", "complex64": "basic"}

func mkT(p *tpkg, f *ast.File, e ast.Expr) *T {
	if e == nil || p == nil {
		return nil
	}
	return &T{p, f, e}
}

// under resolves named types to their underlying type expression (depth-limited).
func under(t *T) *T {
	for i := 0; i < 20 && t != nil; i++ {
		switch e := t.e.(type) {
		case *ast.ParenExpr:
			t = mkT(t.p, t.f, e.X)
		case *ast.Ident:
			if _, ok := builtinTypes[e.Name]; ok {
				return t
			}
			ts, ok := t.p.types[e.Name]
			if !ok {
				return nil // type parameter or unknown
			}
			t = mkT(t.p, t.p.tfile["t:"+e.Name], ts.Type)
		case *ast.SelectorExpr:
			x, ok := e.X.(*ast.Ident)
			if !ok {
				return nil
			}
			q := importOf(t.f, x.Name)
			if q == nil {
				return nil
			}
			ts, ok := q.types[e.Sel.Name]
			if !ok {
				return nil
			}
			t = mkT(q, q.tfile["t:"+e.Sel.Name], ts.Type)
		case *ast.IndexExpr: // generic instantiation
			t = mkT(t.p, t.f, e.X)
		case *ast.IndexListExpr:
			t = mkT(t.p, t.f, e.X)
		default:
			return t
		}
	}
	return nil
}

// kind: "map", "slice", "array", "string", "chan", "int", "func", "struct", "ptr", "iface", "basic", "" (unknown)
func kindOf(t *T) string {
	u := under(t)
	if u == nil {
		return ""
	}
	switch e := u.e.(type) {
	case *ast.MapType:
		return "map"
	case *ast.ArrayType:
		if e.Len == nil {
			return "slice"
		}
		return "array"
	case *ast.ChanType:
		return "chan"
	case *ast.FuncType:
		return "func"
	case *ast.StructType:
		return "struct"
	case *ast.InterfaceType:
		return "iface"
	case *ast.StarExpr:
		return "ptr"
	case *ast.Ellipsis:
		return "slice"
	case *ast.Ident:
		return builtinTypes[e.Name]
	}
	return ""
}

// named returns (package, type name) of a possibly pointer-wrapped named type.
func named(t *T) (*tpkg, string) {
	for i := 0; i < 10 && t != nil; i++ {
		switch e := t.e.(type) {
		case *ast.ParenExpr:
			t = mkT(t.p, t.f, e.X)
		case *ast.StarExpr:
			t = mkT(t.p, t.f, e.X)
		case *ast.IndexExpr:
			t = mkT(t.p, t.f, e.X)
		case *ast.IndexListExpr:
			t = mkT(t.p, t.f, e.X)
		case *ast.Ident:
			if _, ok := t.p.types[e.Name]; ok {
				return t.p, e.Name
			}
			return nil, ""
		case *ast.SelectorExpr:
			if x, ok := e.X.(*ast.Ident); ok {
				if q := importOf(t.f, x.Name); q != nil {
					if _, ok := q.types[e.Sel.Name]; ok {
						return q, e.Sel.Name
					}
				}
			}
			return nil, ""
		default:
			return nil, ""
		}
	}
	return nil, ""
}

func deref(t *T) *T {
	u := under(t)
	if u == nil {
		return nil
	}
	if s, ok := u.e.(*ast.StarExpr); ok {
		return mkT(u.p, u.f, s.X)
	}
	return t
}

func elemOf(t *T, key bool) *T {
	u := under(t)
	if u == nil {
		return nil
	}
	switch e := u.e.(type) {
	case *ast.MapType:
		if key {
			return mkT(u.p, u.f, e.Key)
		}
		return mkT(u.p, u.f, e.Value)
	case *ast.ArrayType:
		if key {
			return mkT(u.p, u.f, ast.NewIdent("int"))
		}
		return mkT(u.p, u.f, e.Elt)
	case *ast.Ellipsis:
		if key {
			return mkT(u.p, u.f, ast.NewIdent("int"))
		}
		return mkT(u.p, u.f, e.Elt)
	case *ast.ChanType:
		return mkT(u.p, u.f, e.Value)
	case *ast.StarExpr:
		return elemOf(mkT(u.p, u.f, e.X), key)
	case *ast.Ident:
		if e.Name == "string" {
			return mkT(u.p, u.f, ast.NewIdent("int"))
		}
	}
	return nil
}

// fieldOrMethod looks a selector up on a type: struct field (incl. embedded), method of the named
// type, interface method.  Returns the field type, or the method's FuncType.
func fieldOrMethod(t *T, sel string, depth int) *T {
	if t == nil || depth > 6 {
		return nil
	}
	if q, n := named(t); q != nil {
		if fd, ok := q.funcs[n+"."+sel]; ok {
			return mkT(q, q.tfile["f:"+n+"."+sel], fd.Type)
		}
	}
	u := under(deref(t))
	if u == nil {
		return nil
	}
	switch e := u.e.(type) {
	case *ast.StructType:
		for _, fl := range e.Fields.List {
			for _, nm := range fl.Names {
				if nm.Name == sel {
					return mkT(u.p, u.f, fl.Type)
				}
			}
		}
		for _, fl := range e.Fields.List {
			if len(fl.Names) == 0 { // embedded
				et := mkT(u.p, u.f, fl.Type)
				if _, n := named(et); n == sel {
					return et
				}
				if r := fieldOrMethod(et, sel, depth+1); r != nil {
					return r
				}
			}
		}
	case *ast.InterfaceType:
		for _, m := range e.Methods.List {
			for _, nm := range m.Names {
				if nm.Name == sel {
					return mkT(u.p, u.f, m.Type)
				}
			}
		}
		for _, m := range e.Methods.List {
			if len(m.Names) == 0 {
				if r := fieldOrMethod(mkT(u.p, u.f, m.Type), sel, depth+1); r != nil {
					return r
				}
			}
		}
	}
	return nil
}

// ---------------------------------------------------------------- expression types

type fctx struct {
	p *tpkg
	f *ast.File
}

func isTypeExpr(c fctx, e ast.Expr) bool {
	switch e := e.(type) {
	case *ast.ArrayType, *ast.MapType, *ast.ChanType, *ast.FuncType, *ast.InterfaceType, *ast.StructType:
		return true
	case *ast.ParenExpr:
		return isTypeExpr(c, e.X)
	case *ast.StarExpr:
		return isTypeExpr(c, e.X)
	case *ast.Ident:
		if e.Obj != nil {
			return e.Obj.Kind == ast.Typ
		}
		if _, ok := builtinTypes[e.Name]; ok {
			return true
		}
		_, ok := c.p.types[e.Name]
		return ok
	case *ast.SelectorExpr:
		if x, ok := e.X.(*ast.Ident); ok && x.Obj == nil {
			if q := importOf(c.f, x.Name); q != nil {
				_, ok := q.types[e.Sel.Name]
				return ok
			}
		}
	case *ast.IndexExpr:
		return isTypeExpr(c, e.X)
	}
	return false
}

func resultsOf(ft *T) []*T {
	if ft == nil {
		return nil
	}
	u := under(ft)
	if u == nil {
		return nil
	}
	f, ok := u.e.(*ast.FuncType)
	if !ok || f.Results == nil {
		return nil
	}
	var out []*T
	for _, fl := range f.Results.List {
		n := len(fl.Names)
		if n == 0 {
			n = 1
		}
		for i := 0; i < n; i++ {
			out = append(out, mkT(u.p, u.f, fl.Type))
		}
	}
	return out
}

// funcTypeOf: the function type of a call's Fun expression.
func funcTypeOf(c fctx, fun ast.Expr, depth int) *T {
	switch f := fun.(type) {
	case *ast.ParenExpr:
		return funcTypeOf(c, f.X, depth)
	case *ast.FuncLit:
		return mkT(c.p, c.f, f.Type)
	case *ast.IndexExpr: // generic instantiation f[T]
		return funcTypeOf(c, f.X, depth)
	case *ast.IndexListExpr:
		return funcTypeOf(c, f.X, depth)
	case *ast.Ident:
		if f.Obj != nil {
			if fd, ok := f.Obj.Decl.(*ast.FuncDecl); ok {
				return mkT(c.p, c.f, fd.Type)
			}
			return typeOf(c, f, depth+1)
		}
		if fd, ok := c.p.funcs[f.Name]; ok {
			return mkT(c.p, c.p.tfile["f:"+f.Name], fd.Type)
		}
		return typeOf(c, f, depth+1)
	case *ast.SelectorExpr:
		if x, ok := f.X.(*ast.Ident); ok && x.Obj == nil {
			if _, isVar := c.p.vars[x.Name]; !isVar {
				if q := importOf(c.f, x.Name); q != nil {
					if fd, ok := q.funcs[f.Sel.Name]; ok {
						return mkT(q, q.tfile["f:"+f.Sel.Name], fd.Type)
					}
					if vs, ok := q.vars[f.Sel.Name]; ok {
						return valueSpecType(fctx{q, q.tfile["v:"+f.Sel.Name]}, vs, f.Sel.Name, depth+1)
					}
					return nil
				}
			}
		}
		return fieldOrMethod(typeOf(c, f.X, depth+1), f.Sel.Name, 0)
	}
	return nil
}

func valueSpecType(c fctx, vs *ast.ValueSpec, name string, depth int) *T {
	if vs.Type != nil {
		return mkT(c.p, c.f, vs.Type)
	}
	for i, nm := range vs.Names {
		if nm.Name != name {
			continue
		}
		if len(vs.Values) == len(vs.Names) {
			return typeOf(c, vs.Values[i], depth+1)
		}
		if len(vs.Values) == 1 {
			return tupleElem(c, vs.Values[0], i, depth+1)
		}
	}
	return nil
}

func tupleElem(c fctx, rhs ast.Expr, i int, depth int) *T {
	switch r := rhs.(type) {
	case *ast.ParenExpr:
		return tupleElem(c, r.X, i, depth)
	case *ast.CallExpr:
		rs := resultsOf(funcTypeOf(c, r.Fun, depth+1))
		if i < len(rs) {
			return rs[i]
		}
	case *ast.IndexExpr: // v, ok := m[k]
		if i == 0 {
			return typeOf(c, r, depth+1)
		}
		return mkT(c.p, c.f, ast.NewIdent("bool"))
	case *ast.TypeAssertExpr:
		if i == 0 && r.Type != nil {
			return mkT(c.p, c.f, r.Type)
		}
		return mkT(c.p, c.f, ast.NewIdent("bool"))
	case *ast.UnaryExpr: // v, ok := <-ch ; or the parser's synthetic `k, v := range X`
		if r.Op == token.RANGE {
			return elemOf(typeOf(c, r.X, depth+1), i == 0)
		}
		if i == 0 {
			return typeOf(c, r, depth+1)
		}
		return mkT(c.p, c.f, ast.NewIdent("bool"))
	}
	return nil
}

func typeOf(c fctx, e ast.Expr, depth int) *T {
	if depth > 40 || e == nil {
		return nil
	}
	switch e := e.(type) {
	case *ast.ParenExpr:
		return typeOf(c, e.X, depth+1)
	case *ast.BasicLit:
		switch e.Kind {
		case token.STRING:
			return mkT(c.p, c.f, ast.NewIdent("string"))
		case token.INT, token.CHAR:
			return mkT(c.p, c.f, ast.NewIdent("int"))
		default:
			return mkT(c.p, c.f, ast.NewIdent("float64"))
		}
	case *ast.CompositeLit:
		if e.Type != nil {
			return mkT(c.p, c.f, e.Type)
		}
		return nil
	case *ast.FuncLit:
		return mkT(c.p, c.f, e.Type)
	case *ast.Ident:
		if e.Obj != nil {
			switch d := e.Obj.Decl.(type) {
			case *ast.Field:
				if el, ok := d.Type.(*ast.Ellipsis); ok {
					return mkT(c.p, c.f, &ast.ArrayType{Elt: el.Elt})
				}
				return mkT(c.p, c.f, d.Type)
			case *ast.ValueSpec:
				return valueSpecType(c, d, e.Name, depth)
			case *ast.AssignStmt:
				if len(d.Rhs) == 1 {
					if ta, ok := d.Rhs[0].(*ast.TypeAssertExpr); ok && ta.Type == nil {
						return typeSwitchVar(c, d, e)
					}
				}
				for i, l := range d.Lhs {
					if li, ok := l.(*ast.Ident); ok && li.Name == e.Name {
						if len(d.Rhs) == len(d.Lhs) {
							return typeOf(c, d.Rhs[i], depth+1)
						}
						if len(d.Rhs) == 1 {
							return tupleElem(c, d.Rhs[0], i, depth+1)
						}
					}
				}
				return nil
			case *ast.RangeStmt:
				xt := typeOf(c, d.X, depth+1)
				if k, ok := d.Key.(*ast.Ident); ok && k.Name == e.Name && k.Obj == e.Obj {
					return elemOf(xt, true)
				}
				if d.Value != nil {
					if v, ok := d.Value.(*ast.Ident); ok && v.Name == e.Name {
						return elemOf(xt, false)
					}
				}
				return nil
			case *ast.FuncDecl:
				return mkT(c.p, c.f, d.Type)
			}
			return nil
		}
		switch e.Name {
		case "true", "false":
			return mkT(c.p, c.f, ast.NewIdent("bool"))
		case "nil":
			return nil
		}
		if vs, ok := c.p.vars[e.Name]; ok {
			return valueSpecType(fctx{c.p, c.p.tfile["v:"+e.Name]}, vs, e.Name, depth)
		}
		if fd, ok := c.p.funcs[e.Name]; ok {
			return mkT(c.p, c.p.tfile["f:"+e.Name], fd.Type)
		}
		return nil
	case *ast.SelectorExpr:
		if x, ok := e.X.(*ast.Ident); ok && x.Obj == nil {
			if _, isVar := c.p.vars[x.Name]; !isVar {
				if q := importOf(c.f, x.Name); q != nil {
					if vs, ok := q.vars[e.Sel.Name]; ok {
						return valueSpecType(fctx{q, q.tfile["v:"+e.Sel.Name]}, vs, e.Sel.Name, depth+1)
					}
					if fd, ok := q.funcs[e.Sel.Name]; ok {
						return mkT(q, q.tfile["f:"+e.Sel.Name], fd.Type)
					}
					return nil
				}
			}
		}
		return fieldOrMethod(typeOf(c, e.X, depth+1), e.Sel.Name, 0)
	case *ast.CallExpr:
		if id, ok := e.Fun.(*ast.Ident); ok && id.Obj == nil {
			if _, local := c.p.funcs[id.Name]; !local {
				switch id.Name {
				case "make", "new":
					if len(e.Args) > 0 {
						if id.Name == "new" {
							return mkT(c.p, c.f, &ast.StarExpr{X: e.Args[0]})
						}
						return mkT(c.p, c.f, e.Args[0])
					}
				case "append":
					if len(e.Args) > 0 {
						return typeOf(c, e.Args[0], depth+1)
					}
				case "len", "cap", "copy":
					return mkT(c.p, c.f, ast.NewIdent("int"))
				case "min", "max":
					if len(e.Args) > 0 {
						return typeOf(c, e.Args[0], depth+1)
					}
				}
			}
		}
		if isTypeExpr(c, e.Fun) && len(e.Args) == 1 {
			f := e.Fun
			if p, ok := f.(*ast.ParenExpr); ok {
				f = p.X
			}
			return mkT(c.p, c.f, f)
		}
		rs := resultsOf(funcTypeOf(c, e.Fun, depth+1))
		if len(rs) >= 1 {
			return rs[0]
		}
		return nil
	case *ast.IndexExpr:
		return elemOf(typeOf(c, e.X, depth+1), false)
	case *ast.SliceExpr:
		t := typeOf(c, e.X, depth+1)
		if kindOf(t) == "array" || kindOf(t) == "ptr" {
			if el := elemOf(t, false); el != nil {
				return mkT(el.p, el.f, &ast.ArrayType{Elt: el.e})
			}
		}
		return t
	case *ast.StarExpr:
		t := typeOf(c, e.X, depth+1)
		u := under(t)
		if u == nil {
			return nil
		}
		if s, ok := u.e.(*ast.StarExpr); ok {
			return mkT(u.p, u.f, s.X)
		}
		return nil
	case *ast.UnaryExpr:
		t := typeOf(c, e.X, depth+1)
		switch e.Op {
		case token.AND:
			if t == nil {
				return nil
			}
			return mkT(t.p, t.f, &ast.StarExpr{X: t.e})
		case token.ARROW:
			return elemOf(t, false)
		case token.NOT:
			return mkT(c.p, c.f, ast.NewIdent("bool"))
		}
		return t
	case *ast.BinaryExpr:
		switch e.Op {
		case token.EQL, token.NEQ, token.LSS, token.GTR, token.LEQ, token.GEQ, token.LAND, token.LOR:
			return mkT(c.p, c.f, ast.NewIdent("bool"))
		}
		if t := typeOf(c, e.X, depth+1); t != nil {
			return t
		}
		return typeOf(c, e.Y, depth+1)
	case *ast.TypeAssertExpr:
		if e.Type != nil {
			return mkT(c.p, c.f, e.Type)
		}
	}
	return nil
}

var typeSwitches = map[*ast.File]map[*ast.AssignStmt]*ast.TypeSwitchStmt{}

// typeSwitchVar: type of the symbolic variable of `switch v := x.(type)` at the use `use`:
// the single type of the enclosing case clause (unknown in multi-type / default clauses).
func typeSwitchVar(c fctx, as *ast.AssignStmt, use *ast.Ident) *T {
	m, ok := typeSwitches[c.f]
	if !ok {
		m = map[*ast.AssignStmt]*ast.TypeSwitchStmt{}
		ast.Inspect(c.f, func(n ast.Node) bool {
			if ts, ok := n.(*ast.TypeSwitchStmt); ok {
				if a, ok := ts.Assign.(*ast.AssignStmt); ok {
					m[a] = ts
				}
			}
			return true
		})
		typeSwitches[c.f] = m
	}
	ts := m[as]
	if ts == nil {
		return nil
	}
	for _, cl := range ts.Body.List {
		cc := cl.(*ast.CaseClause)
		if cc.Pos() <= use.Pos() && use.Pos() < cc.End() {
			if len(cc.List) == 1 {
				if id, ok := cc.List[0].(*ast.Ident); ok && id.Name == "nil" {
					return nil
				}
				return mkT(c.p, c.f, cc.List[0])
			}
			return nil
		}
	}
	return nil
}

// ---------------------------------------------------------------- body classification

var sortFuncs = map[string]bool{"sort.Strings": true, "sort.Slice": true, "sort.SliceStable": true, "sort.Sort": true, "sort.Stable": true, "sort.Ints": true,
	"sort.Float64s": true, "slices.Sort": true, "slices.SortFunc": true, "slices.SortStableFunc": true, "osmoutils.SortSlice": true}

// pure calls: no state access, no gas, deterministic in their arguments
var pureFuncs = map[string]bool{"len": true, "cap": true, "string": true, "int": true, "int64": true, "uint64": true, "fmt.Errorf": true, "fmt.Sprintf": true,
	"errors.New": true, "errorsmod.Wrap": true, "errorsmod.Wrapf": true, "strings.HasPrefix": true, "strings.HasSuffix": true, "strings.Contains": true,
	"strings.ToLower": true, "strings.ToUpper": true, "strings.TrimSpace": true, "bytes.Equal": true, "min": true, "max": true}
var pureMethods = map[string]bool{"GT": true, "GTE": true, "LT": true, "LTE": true, "Equal": true, "IsZero": true, "IsNil": true, "IsNegative": true, "IsPositive": true,
	"IsAnyNegative": true, "IsAllPositive": true, "Empty": true, "String": true, "Error": true, "Wrap": true, "Wrapf": true, "Len": true,
	"Add": true, "Sub": true, "Mul": true, "Quo": true, "MulInt": true, "MulInt64": true, "QuoInt": true, "QuoInt64": true, "Neg": true, "Abs": true,
	"TruncateInt": true, "ToLegacyDec": true, "AmountOf": true, "Int64": true, "Uint64": true, "BigInt": true, "IsEqual": true}
var addMethods = map[string]bool{"Add": true, "AddMut": true, "AddAmount": true, "AddRaw": true, "AddCoins": true}

type bodyInfo struct {
	keyName, valName string
	appended         map[string]bool
	nonAppend        bool // some statement other than an append
	impure           string
	returns          bool
	breaks           bool
}

func pureExpr(e ast.Expr, why *string) bool {
	ok := true
	ast.Inspect(e, func(n ast.Node) bool {
		if !ok {
			return false
		}
		switch x := n.(type) {
		case *ast.CallExpr:
			name := callName(x.Fun)
			if pureFuncs[name] {
				return true
			}
			if se, isSel := x.Fun.(*ast.SelectorExpr); isSel && pureMethods[se.Sel.Name] {
				// a method of the whitelisted arithmetic/inspection family on any receiver
				if id, isId := se.X.(*ast.Ident); isId && id.Obj == nil && !pureFuncs[name] && id.Name != "types" {
					// package-qualified function with a whitelisted NAME is not trusted
					if _, isBuiltin := builtinTypes[id.Name]; !isBuiltin {
						*why = "call " + name
						ok = false
						return false
					}
				}
				return true
			}
			if isConvName(name) {
				return true
			}
			*why = "call " + name
			ok = false
			return false
		case *ast.FuncLit:
			*why = "func literal"
			ok = false
			return false
		case *ast.UnaryExpr:
			if x.Op == token.ARROW {
				*why = "channel receive"
				ok = false
				return false
			}
		}
		return true
	})
	return ok
}

func isConvName(n string) bool {
	switch n {
	case "sdk.AccAddress", "sdk.ValAddress", "[]byte", "sdk.Coins", "sdk.NewCoins", "sdk.NewCoin", "sdk.NewInt64Coin", "osmomath.NewInt", "osmomath.NewDec",
		"osmomath.ZeroInt", "osmomath.ZeroDec", "osmomath.OneDec", "osmomath.OneInt", "sdk.NewDecCoin", "sdk.NewDecCoins", "struct{}":
		return true
	}
	return false
}

func detIdentName(e ast.Expr) string {
	if id, ok := e.(*ast.Ident); ok {
		return id.Name
	}
	return ""
}

// classify one statement of a map-range body.  Returns the weakest class that still holds:
// "collect" (append to slice), "comm", "ro" (read-only early return), "eff".
func (b *bodyInfo) stmt(s ast.Stmt) string {
	why := &b.impure
	switch s := s.(type) {
	case *ast.EmptyStmt:
		return "comm"
	case *ast.BranchStmt:
		if s.Tok == token.CONTINUE && s.Label == nil {
			return "comm"
		}
		*why = "break/goto"
		return "eff"
	case *ast.IncDecStmt:
		if detIdentName(s.X) != "" {
			return "comm"
		}
		if ix, ok := s.X.(*ast.IndexExpr); ok && pureExpr(ix, why) { // counts[k]++
			return "comm"
		}
		*why = "inc/dec of non-variable"
		return "eff"
	case *ast.DeclStmt:
		gd, ok := s.Decl.(*ast.GenDecl)
		if !ok || gd.Tok != token.VAR {
			return "comm"
		}
		for _, sp := range gd.Specs {
			for _, v := range sp.(*ast.ValueSpec).Values {
				if !pureExpr(v, why) {
					return "eff"
				}
			}
		}
		return "comm"
	case *ast.ExprStmt:
		if ce, ok := s.X.(*ast.CallExpr); ok {
			if detIdentName(ce.Fun) == "panic" { // aborts the whole tx/block; no impure call precedes it in a non-effectful body
				for _, a := range ce.Args {
					if !pureExpr(a, why) {
						return "eff"
					}
				}
				return "comm"
			}
			if detIdentName(ce.Fun) == "delete" {
				for _, a := range ce.Args {
					if !pureExpr(a, why) {
						return "eff"
					}
				}
				return "comm"
			}
			if se, ok := ce.Fun.(*ast.SelectorExpr); ok && (se.Sel.Name == "AddMut" || se.Sel.Name == "SubMut") && detIdentName(se.X) != "" {
				for _, a := range ce.Args {
					if !pureExpr(a, why) {
						return "eff"
					}
				}
				return "comm"
			}
			*why = "call " + callName(ce.Fun)
		}
		return "eff"
	case *ast.AssignStmt:
		if len(s.Lhs) == 1 && len(s.Rhs) == 1 {
			lhs, rhs := s.Lhs[0], s.Rhs[0]
			// x = append(x, ...)
			if ce, ok := rhs.(*ast.CallExpr); ok && detIdentName(ce.Fun) == "append" && len(ce.Args) >= 1 {
				ln := strings.Join(strings.Fields(show(lhs)), "")
				if ln == strings.Join(strings.Fields(show(ce.Args[0])), "") {
					for _, a := range ce.Args[1:] {
						if !pureExpr(a, why) {
							return "eff"
						}
					}
					if detIdentName(lhs) == "" {
						*why = "append to non-local " + ln
						return "eff"
					}
					b.appended[ln] = true
					return "collect"
				}
			}
			if !pureExpr(rhs, why) {
				return "eff"
			}
			switch s.Tok {
			case token.DEFINE:
				return "comm"
			case token.ADD_ASSIGN, token.SUB_ASSIGN, token.OR_ASSIGN, token.AND_ASSIGN:
				if detIdentName(lhs) != "" {
					return "comm"
				}
				if ix, ok := lhs.(*ast.IndexExpr); ok && pureExpr(ix, why) {
					return "comm"
				}
			case token.ASSIGN:
				// acc = acc.Add(...)
				if ce, ok := rhs.(*ast.CallExpr); ok {
					if se, ok := ce.Fun.(*ast.SelectorExpr); ok && addMethods[se.Sel.Name] && detIdentName(lhs) != "" && detIdentName(se.X) == detIdentName(lhs) {
						return "comm"
					}
				}
				// acc = acc + x
				if be, ok := rhs.(*ast.BinaryExpr); ok && be.Op == token.ADD && detIdentName(lhs) != "" && detIdentName(be.X) == detIdentName(lhs) {
					if t := be.Y; detIdentName(t) != detIdentName(lhs) {
						return "comm"
					}
				}
				// m2[key] = v  (distinct keys: the range key itself)  /  set[x] = const
				if ix, ok := lhs.(*ast.IndexExpr); ok && pureExpr(ix.X, why) {
					if b.keyName != "" && detIdentName(ix.Index) == b.keyName {
						return "comm"
					}
					switch r := rhs.(type) {
					case *ast.Ident:
						if r.Name == "true" || r.Name == "false" {
							return "comm"
						}
					case *ast.CompositeLit:
						if len(r.Elts) == 0 && pureExpr(ix.Index, why) {
							return "comm"
						}
					}
				}
			}
			*why = "assignment " + strings.Join(strings.Fields(show(s)), " ")
			return "eff"
		}
		if s.Tok == token.DEFINE {
			for _, r := range s.Rhs {
				if !pureExpr(r, why) {
					// v, ok := m[k] is pure
					return "eff"
				}
			}
			return "comm"
		}
		*why = "multi-assignment"
		return "eff"
	case *ast.ReturnStmt:
		b.returns = true
		for _, r := range s.Results {
			if !pureExpr(r, why) {
				return "eff"
			}
			// returning the key/value that matched depends on WHICH entry matched first
			dep := false
			ast.Inspect(r, func(n ast.Node) bool {
				if id, ok := n.(*ast.Ident); ok && (id.Name == b.keyName || id.Name == b.valName) && id.Name != "" && id.Name != "_" {
					if _, isErr := r.(*ast.CallExpr); !isErr { // inside an error message it is tolerated
						dep = true
					}
				}
				return true
			})
			if dep {
				*why = "returns the matched entry"
				return "eff"
			}
		}
		return "ro"
	case *ast.IfStmt:
		if s.Init != nil {
			if c := b.stmt(s.Init); c == "eff" {
				return "eff"
			}
		}
		if !pureExpr(s.Cond, why) {
			return "eff"
		}
		// max/min pattern: if x > m { m = x }
		cls := b.block(s.Body.List)
		if s.Else != nil {
			var c2 string
			switch e := s.Else.(type) {
			case *ast.BlockStmt:
				c2 = b.block(e.List)
			default:
				c2 = b.stmt(e)
			}
			cls = joinClass(cls, c2)
		}
		if cls == "eff" && len(s.Body.List) == 1 && s.Else == nil {
			if as, ok := s.Body.List[0].(*ast.AssignStmt); ok && as.Tok == token.ASSIGN && len(as.Lhs) == 1 && detIdentName(as.Lhs[0]) != "" {
				m := detIdentName(as.Lhs[0])
				x := strings.Join(strings.Fields(show(as.Rhs[0])), "")
				cond := strings.Join(strings.Fields(show(s.Cond)), "")
				for _, pat := range []string{x + ">" + m, x + "<" + m, m + "<" + x, m + ">" + x, x + ".GT(" + m + ")", x + ".LT(" + m + ")", m + ".LT(" + x + ")", m + ".GT(" + x + ")"} {
					if cond == pat {
						b.impure = ""
						return "comm"
					}
				}
			}
		}
		return cls
	case *ast.BlockStmt:
		return b.block(s.List)
	}
	*why = fmt.Sprintf("%T", s)
	return "eff"
}

func joinClass(a, c string) string {
	rank := map[string]int{"comm": 0, "collect": 1, "ro": 2, "eff": 3}
	if a == "eff" || c == "eff" {
		return "eff"
	}
	// mixing collection / accumulation with an early return makes the partial result observable
	if (a == "ro") != (c == "ro") && (a == "collect" || c == "collect") {
		return "eff"
	}
	if rank[a] >= rank[c] {
		return a
	}
	return c
}

func (b *bodyInfo) block(l []ast.Stmt) string {
	cls := "comm"
	for _, s := range l {
		c := b.stmt(s)
		if c != "collect" {
			if _, isIf := s.(*ast.IfStmt); !isIf {
				b.nonAppend = true
			}
		}
		cls = joinClass(cls, c)
		if cls == "eff" {
			return cls
		}
	}
	return cls
}

// firstUseIsSort: in the statements following the loop (same block), the first statement that
// mentions `name` must be a call of a sort function on it.
func firstUseIsSort(following []ast.Stmt, name string) bool {
	for _, s := range following {
		mentions := false
		ast.Inspect(s, func(n ast.Node) bool {
			if id, ok := n.(*ast.Ident); ok && id.Name == name {
				mentions = true
			}
			return !mentions
		})
		if !mentions {
			continue
		}
		if onlyBenignMentions(s, name) {
			continue
		}
		var ce *ast.CallExpr
		switch s := s.(type) {
		case *ast.ExprStmt:
			ce, _ = s.X.(*ast.CallExpr)
		case *ast.AssignStmt:
			if len(s.Rhs) == 1 {
				ce, _ = s.Rhs[0].(*ast.CallExpr)
			}
		}
		if ce == nil {
			return false
		}
		n := callName(ce.Fun)
		if sortFuncs[n] && len(ce.Args) >= 1 {
			a := ce.Args[0]
			if c2, ok := a.(*ast.CallExpr); ok && len(c2.Args) == 1 { // sort.Sort(sort.StringSlice(x))
				a = c2.Args[0]
			}
			return detIdentName(a) == name
		}
		if se, ok := ce.Fun.(*ast.SelectorExpr); ok && se.Sel.Name == "Sort" && detIdentName(se.X) == name {
			return true
		}
		return false
	}
	return false // never sorted
}

// onlyBenignMentions: every mention of `name` in s is `len(name)` or the self-append
// `name = append(name, …)` (the collection simply continues, e.g. in a second loop).
func onlyBenignMentions(s ast.Stmt, name string) bool {
	benign := map[*ast.Ident]bool{}
	ast.Inspect(s, func(n ast.Node) bool {
		switch x := n.(type) {
		case *ast.CallExpr:
			if detIdentName(x.Fun) == "len" && len(x.Args) == 1 {
				if id, ok := x.Args[0].(*ast.Ident); ok && id.Name == name {
					benign[id] = true
				}
			}
		case *ast.AssignStmt:
			if len(x.Lhs) == 1 && len(x.Rhs) == 1 && x.Tok == token.ASSIGN {
				if l, ok := x.Lhs[0].(*ast.Ident); ok && l.Name == name {
					if ce, ok := x.Rhs[0].(*ast.CallExpr); ok && detIdentName(ce.Fun) == "append" && len(ce.Args) >= 1 {
						if a, ok := ce.Args[0].(*ast.Ident); ok && a.Name == name {
							benign[l] = true
							benign[a] = true
						}
					}
				}
			}
		}
		return true
	})
	all := true
	ast.Inspect(s, func(n ast.Node) bool {
		if id, ok := n.(*ast.Ident); ok && id.Name == name && !benign[id] {
			all = false
		}
		return all
	})
	return all
}

type mapSite struct {
	file, fn string
	ord      int
	class    string
	line     int
	expr     string
	why      string
}

func classifyRange(rs *ast.RangeStmt, following []ast.Stmt) (string, string) {
	b := &bodyInfo{keyName: detIdentName(rs.Key), valName: detIdentName(rs.Value), appended: map[string]bool{}}
	if b.keyName == "_" {
		b.keyName = ""
	}
	cls := b.block(rs.Body.List)
	switch cls {
	case "eff":
		return "effectful", b.impure
	case "ro":
		return "readonly", ""
	case "comm":
		return "commutative", ""
	case "collect":
		var names []string
		for n := range b.appended {
			names = append(names, n)
		}
		sort.Strings(names)
		for _, n := range names {
			if !firstUseIsSort(following, n) {
				return "effectful", "slice " + n + " collected in map order is used before/without being sorted"
			}
		}
		return "sorted", ""
	}
	return "effectful", "?"
}

func detSkipDir(rel string) bool {
	for _, el := range strings.Split(rel, string(filepath.Separator)) {
		switch el {
		case "simulation", "testutil", "testutils", "apptesting", "test_helpers", "testhelpers", "testcontracts", "clmocks", "twapmock", "mocks", "testdata":
			return true
		}
	}
	return strings.Contains(rel, "client/cli")
}

func repoImportPath(rel string) string {
	for _, m := range modDirs {
		if strings.HasPrefix(filepath.Join(repo, rel)+"/", m[1]+"/") && m[1] != "" {
			r, _ := filepath.Rel(m[1], filepath.Join(repo, rel))
			if r == "." {
				return m[0]
			}
			return m[0] + "/" + filepath.ToSlash(r)
		}
	}
	return rel
}

func genDet(outDir string) {
	detInitModules()
	var sites []mapSite
	var unresolved []mapSite
	var ambient []mapSite
	nRanges, nNonMap := 0, 0
	for _, root := range []string{"app", "x", "osmoutils", "ante", "wasmbinding"} {
		var dirs []string
		filepath.Walk(filepath.Join(repo, root), func(path string, info os.FileInfo, err error) error {
			if err == nil && info.IsDir() {
				rel, _ := filepath.Rel(repo, path)
				if detSkipDir(rel) {
					return filepath.SkipDir
				}
				dirs = append(dirs, path)
			}
			return nil
		})
		sort.Strings(dirs)
		for _, dir := range dirs {
			rel, _ := filepath.Rel(repo, dir)
			p := detLoad(dir, repoImportPath(rel))
			if p == nil {
				continue
			}
			files := append([]*ast.File(nil), p.files...)
			sort.Slice(files, func(i, j int) bool { return fset.File(files[i].Pos()).Name() < fset.File(files[j].Pos()).Name() })
			for _, f := range files {
				fn := fset.File(f.Pos()).Name()
				base := filepath.Base(fn)
				if strings.HasSuffix(base, ".pb.go") || strings.HasSuffix(base, ".pb.gw.go") {
					continue
				}
				frel, _ := filepath.Rel(repo, fn)
				c := fctx{p, f}
				for _, d := range f.Decls {
					fd, ok := d.(*ast.FuncDecl)
					if !ok || fd.Body == nil {
						// package-level var initialisers with func literals
						if gd, ok := d.(*ast.GenDecl); ok {
							detScan(c, frel, "<init>", gd, &sites, &unresolved, &nRanges, &nNonMap)
						}
						continue
					}
					name := fd.Name.Name
					if fd.Recv != nil && len(fd.Recv.List) > 0 {
						name = recvName(fd.Recv.List[0].Type) + "." + name
					}
					detScan(c, frel, name, fd.Body, &sites, &unresolved, &nRanges, &nNonMap)
					ambientScan(c, frel, name, fd.Body, &ambient)
				}
			}
		}
	}
	l := newLean("Det")
	fmt.Fprintf(&l.sb, "/-! map-range facts (C19).  %d range statements scanned, %d over non-map operands, %d over maps, %d unresolved. -/\n\n", nRanges, nNonMap, len(sites), len(unresolved))
	fmt.Fprintf(&l.sb, "/-- (file:function, ordinal of the map range inside that function, class) -/\ndef mapRanges : List (String × Nat × String) := [\n")
	for i, s := range sites {
		sep := ","
		if i == len(sites)-1 {
			sep = ""
		}
		why := ""
		if s.why != "" {
			why = " — " + s.why
		}
		fmt.Fprintf(&l.sb, "  (%q, %d, %q)%s  -- line %d: range %s%s\n", s.file+":"+s.fn, s.ord, s.class, sep, s.line, detOneLine(s.expr, 70), detOneLine(why, 110))
	}
	fmt.Fprintf(&l.sb, "]\n\n/-- range statements whose operand type the syntactic resolver could not determine (file:function, ordinal among these, operand) -/\ndef unresolvedRanges : List (String × Nat × String) := [\n")
	for i, s := range unresolved {
		sep := ","
		if i == len(unresolved)-1 {
			sep = ""
		}
		fmt.Fprintf(&l.sb, "  (%q, %d, %q)%s  -- line %d\n", s.file+":"+s.fn, s.ord, detOneLine(s.expr, 100), sep, s.line)
	}
	fmt.Fprintf(&l.sb, "]\n\n/-- other ambient-nondeterminism sources in the same files: wall clock (time.Now/Since), goroutines (go), select, math/rand\n(file:function, ordinal of that kind inside the function, kind) -/\ndef ambientSites : List (String × Nat × String) := [\n")
	for i, s := range ambient {
		sep := ","
		if i == len(ambient)-1 {
			sep = ""
		}
		fmt.Fprintf(&l.sb, "  (%q, %d, %q)%s  -- line %d: %s\n", s.file+":"+s.fn, s.ord, s.class, sep, s.line, detOneLine(s.expr, 90))
	}
	fmt.Fprintf(&l.sb, "]\n\ndef rangesScanned : Nat := %d\ndef rangesNonMap : Nat := %d\n", nRanges, nNonMap)
	l.write(outDir)
	if os.Getenv("EXTRACT_DET_DEBUG") != "" {
		for _, s := range sites {
			fmt.Printf("MAP %-11s %s:%d %s#%d range %s | %s\n", s.class, s.file, s.line, s.fn, s.ord, detOneLine(s.expr, 60), s.why)
		}
		for _, s := range ambient {
			fmt.Printf("AMBIENT %s %s:%d %s#%d %s\n", s.class, s.file, s.line, s.fn, s.ord, detOneLine(s.expr, 80))
		}
		for _, s := range unresolved {
			fmt.Printf("UNRESOLVED %s:%d %s#%d range %s\n", s.file, s.line, s.fn, s.ord, detOneLine(s.expr, 80))
		}
	}
}

// ambientScan lists wall-clock reads, goroutine launches, select statements and math/rand calls.
func ambientScan(c fctx, file, fn string, root ast.Node, out *[]mapSite) {
	ords := map[string]int{}
	add := func(kind string, n ast.Node) {
		ords[kind]++
		*out = append(*out, mapSite{file, fn, ords[kind], kind, fset.Position(n.Pos()).Line, show(n), ""})
	}
	randAlias := ""
	for _, im := range c.f.Imports {
		if strings.Trim(im.Path.Value, "\"") == "math/rand" || strings.Trim(im.Path.Value, "\"") == "math/rand/v2" {
			randAlias = "rand"
			if im.Name != nil {
				randAlias = im.Name.Name
			}
		}
	}
	ast.Inspect(root, func(n ast.Node) bool {
		switch x := n.(type) {
		case *ast.GoStmt:
			add("go", x.Call)
		case *ast.SelectStmt:
			add("select", &ast.Ident{NamePos: x.Pos(), Name: "select"})
		case *ast.CallExpr:
			nm := callName(x.Fun)
			if nm == "time.Now" || nm == "time.Since" || nm == "time.Until" {
				add("clock", x)
			} else if randAlias != "" && strings.HasPrefix(nm, randAlias+".") {
				add("rand", x)
			}
		}
		return true
	})
}

func detOneLine(s string, n int) string {
	s = strings.Join(strings.Fields(s), " ")
	s = strings.ReplaceAll(s, "-/", "- /")
	if len([]rune(s)) > n {
		s = string([]rune(s)[:n]) + "…"
	}
	return s
}

// detScan walks one function body; for each RangeStmt decides map / non-map / unresolved.
func detScan(c fctx, file, fn string, root ast.Node, sites, unresolved *[]mapSite, nRanges, nNonMap *int) {
	ord, uord := 0, 0
	var walkBlock func(list []ast.Stmt)
	var visit func(n ast.Node)
	handle := func(rs *ast.RangeStmt, following []ast.Stmt) {
		*nRanges++
		t := typeOf(c, rs.X, 0)
		k := kindOf(t)
		if k == "ptr" {
			k = kindOf(elemOfPtr(t))
		}
		line := fset.Position(rs.Pos()).Line
		switch k {
		case "map":
			ord++
			cls, why := classifyRange(rs, following)
			*sites = append(*sites, mapSite{file, fn, ord, cls, line, show(rs.X), why})
		case "":
			// Go 1.22 range-over-int literal
			if bl, ok := rs.X.(*ast.BasicLit); ok && bl.Kind == token.INT {
				*nNonMap++
				return
			}
			uord++
			*unresolved = append(*unresolved, mapSite{file, fn, uord, "unresolved", line, show(rs.X), ""})
			if os.Getenv("EXTRACT_DET_DEBUG") == "2" {
				ast.Inspect(rs.X, func(n ast.Node) bool {
					if e, ok := n.(ast.Expr); ok {
						t := typeOf(c, e, 0)
						ts := "<nil>"
						if t != nil {
							ts = show(t.e) + " in " + t.p.path
						}
						fmt.Printf("   TRACE %s:%d  %s : %s\n", file, line, detOneLine(show(e), 50), ts)
					}
					return true
				})
			}
		default:
			*nNonMap++
			if os.Getenv("EXTRACT_DET_DEBUG") == "3" && k != "slice" && k != "array" && k != "string" {
				fmt.Printf("KIND %s %s:%d range %s\n", k, file, line, detOneLine(show(rs.X), 60))
			}
		}
	}
	walkBlock = func(list []ast.Stmt) {
		for i, s := range list {
			if rs, ok := s.(*ast.RangeStmt); ok {
				handle(rs, list[i+1:])
				visit(rs.X)
				walkBlock(rs.Body.List)
				continue
			}
			if ls, ok := s.(*ast.LabeledStmt); ok {
				if rs, ok := ls.Stmt.(*ast.RangeStmt); ok {
					handle(rs, list[i+1:])
					visit(rs.X)
					walkBlock(rs.Body.List)
					continue
				}
			}
			visit(s)
		}
	}
	visit = func(n ast.Node) {
		if n == nil {
			return
		}
		ast.Inspect(n, func(m ast.Node) bool {
			switch x := m.(type) {
			case *ast.BlockStmt:
				walkBlock(x.List)
				return false
			case *ast.CaseClause:
				for _, e := range x.List {
					visit(e)
				}
				walkBlock(x.Body)
				return false
			case *ast.CommClause:
				if x.Comm != nil {
					visit(x.Comm)
				}
				walkBlock(x.Body)
				return false
			case *ast.RangeStmt: // range statement not directly inside a statement list (cannot happen)
				handle(x, nil)
				visit(x.X)
				walkBlock(x.Body.List)
				return false
			}
			return true
		})
	}
	visit(root)
}

func elemOfPtr(t *T) *T {
	u := under(t)
	if u == nil {
		return nil
	}
	if s, ok := u.e.(*ast.StarExpr); ok {
		return mkT(u.p, u.f, s.X)
	}
	return nil
}
