package main

// Gen/GammMath.lean for property C04 (balancer / stableswap pool math): weight scaling, share supply,
// stableswap scaled-amount bounds, the solver tolerances / iteration caps that live as LOCAL
// variables inside function bodies, the rounding-direction enum, ordered rounding-operator lists of
// the straight-line arithmetic, the fact that no MaxInRatio/MaxOutRatio guard is declared anywhere
// in x/gamm, and body fingerprints of every function Model/Gamm.lean mirrors by hand.

import (
	"go/ast"
	"go/token"
	"math/big"
	"path/filepath"
	"strings"
)

// evalG extends pkgInfo.eval by the few initialiser shapes used in x/gamm:
// X.MulRaw(n), X.Power(n) (integer-valued Dec), X.TruncateInt(), NewIntWithDecimal(n, k).
func evalGM(p *pkgInfo, e ast.Expr) val {
	switch e := e.(type) {
	case *ast.ParenExpr:
		return evalGM(p, e.X)
	case *ast.Ident:
		if x, ok := p.consts[e.Name]; ok {
			return evalGM(p, x)
		}
	case *ast.CallExpr:
		n := callName(e.Fun)
		if i := strings.LastIndex(n, "."); i >= 0 {
			n = n[i+1:]
		}
		if se, ok := e.Fun.(*ast.SelectorExpr); ok {
			switch se.Sel.Name {
			case "MulRaw":
				x := evalGM(p, se.X)
				return val{new(big.Int).Mul(x.v, evalGM(p, e.Args[0]).v), x.scale}
			case "Power":
				x := evalGM(p, se.X)
				if x.scale != "dec18" || new(big.Int).Rem(x.v, pow10(18)).Sign() != 0 {
					fail("Power of a non-integer Dec in %s", show(e))
				}
				b := new(big.Int).Quo(x.v, pow10(18))
				r := new(big.Int).Exp(b, evalGM(p, e.Args[0]).v, nil)
				return val{r.Mul(r, pow10(18)), "dec18"}
			case "TruncateInt":
				x := evalGM(p, se.X)
				if x.scale != "dec18" {
					fail("TruncateInt of %s in %s", x.scale, show(e))
				}
				return val{new(big.Int).Quo(x.v, pow10(18)), "int"}
			}
		}
		if n == "NewIntWithDecimal" {
			return val{new(big.Int).Mul(evalGM(p, e.Args[0]).v, pow10(evalGM(p, e.Args[1]).v.Int64())), "int"}
		}
	}
	return p.eval(e, 0)
}

// localValue returns the right-hand side of the FIRST `name := expr` / `name = expr` inside fn's body.
func (p *pkgInfo) localValue(fn, name string) ast.Expr {
	fd, ok := p.funcs[fn]
	if !ok {
		fail("no func %s in %s", fn, p.dir)
	}
	var found ast.Expr
	ast.Inspect(fd.Body, func(n ast.Node) bool {
		if found != nil {
			return false
		}
		as, ok := n.(*ast.AssignStmt)
		if !ok || len(as.Lhs) != 1 || len(as.Rhs) != 1 {
			return true
		}
		if id, ok := as.Lhs[0].(*ast.Ident); ok && id.Name == name {
			found = as.Rhs[0]
			return false
		}
		return true
	})
	if found == nil {
		fail("no local %s in %s", name, fn)
	}
	return found
}

// fieldAssigned returns the right-hand side of `recv.field = expr` inside fn's body (or nil).
func (p *pkgInfo) fieldAssigned(fn, recv, field string) ast.Expr {
	fd := p.funcs[fn]
	var found ast.Expr
	ast.Inspect(fd.Body, func(n ast.Node) bool {
		as, ok := n.(*ast.AssignStmt)
		if !ok || len(as.Lhs) != 1 || len(as.Rhs) != 1 {
			return true
		}
		if se, ok := as.Lhs[0].(*ast.SelectorExpr); ok && se.Sel.Name == field {
			if id, ok := se.X.(*ast.Ident); ok && id.Name == recv {
				found = as.Rhs[0]
			}
		}
		return true
	})
	return found
}

// tolField: a field of an `osmomath.ErrTolerance{…}` literal. `osmomath.Dec{}` (nil) is reported as absent.
func (p *pkgInfo) tolField(lit ast.Expr, field string) (ast.Expr, bool) {
	cl, ok := lit.(*ast.CompositeLit)
	if !ok {
		fail("ErrTolerance is not a composite literal: %s", show(lit))
	}
	for _, el := range cl.Elts {
		kv, ok := el.(*ast.KeyValueExpr)
		if !ok {
			fail("positional ErrTolerance literal %s", show(lit))
		}
		if k, ok := kv.Key.(*ast.Ident); ok && k.Name == field {
			if c, ok := kv.Value.(*ast.CompositeLit); ok && len(c.Elts) == 0 {
				return nil, false // Dec{} = nil
			}
			return kv.Value, true
		}
	}
	return nil, false
}

func (l *leanFile) optIntDef(n string, v *big.Int) {
	if v == nil {
		l.sb.WriteString("def " + n + " : Option Int := none\n")
		return
	}
	l.sb.WriteString("def " + n + " : Option Int := some " + leanInt(v) + "\n")
}

// identDeclaredAnywhere: is an identifier with this name declared (const/var/func) in any non-test file below dir?
func identDeclaredAnywhere(dirs []string, name string) bool {
	for _, d := range dirs {
		p := loadPkg(d)
		if _, ok := p.consts[name]; ok {
			return true
		}
		if _, ok := p.funcs[name]; ok {
			return true
		}
	}
	return false
}

func genGammMath(outDir string) {
	l := newLean("GammMath")
	om := loadPkg(filepath.Join(repo, "osmomath"))
	for _, c := range []string{"RoundUnconstrained", "RoundUp", "RoundDown", "RoundBankers"} {
		l.natDef(c, om.evalInt(id(c), 0))
	}
	dirOf := func(e ast.Expr) *big.Int {
		se, ok := e.(*ast.SelectorExpr)
		if !ok {
			fail("rounding direction is not a selector: %s", show(e))
		}
		return om.evalInt(id(se.Sel.Name), 0)
	}

	t := loadPkg(filepath.Join(repo, "x/gamm/types"))
	for _, c := range []string{"OneShareExponent", "StableswapMinScaledAmtPerAsset", "ScalingFactorMultiplier", "MinNumOfAssetsInPool", "MaxNumOfAssetsInPool"} {
		l.intDef(c, t.evalInt(id(c), 0))
	}
	for _, c := range []string{"OneShare", "InitPoolSharesSupply", "StableswapMaxScaledAmtPerAsset"} {
		v := evalGM(t, id(c))
		if v.scale != "int" {
			fail("%s is not an Int", c)
		}
		l.intDef(c, v.v)
	}

	b := loadPkg(filepath.Join(repo, "x/gamm/pool-models/balancer"))
	l.intDef("GuaranteedWeightPrecision", evalGM(b, id("GuaranteedWeightPrecision")).v)
	l.intDef("MaxUserSpecifiedWeight", evalGM(b, id("MaxUserSpecifiedWeight")).v)
	// The balancer math of older releases was guarded by MaxInRatio / MaxOutRatio (amount ≤ ratio · reserve),
	// which kept every Pow base inside [0.5, 2).  Record whether such a guard is declared at all.
	guardDirs := []string{filepath.Join(repo, "x/gamm/types"), filepath.Join(repo, "x/gamm/pool-models/balancer"),
		filepath.Join(repo, "x/gamm/pool-models/internal/cfmm_common"), filepath.Join(repo, "x/gamm/keeper")}
	decl := identDeclaredAnywhere(guardDirs, "MaxInRatio") || identDeclaredAnywhere(guardDirs, "MaxOutRatio")
	if decl {
		l.sb.WriteString("def MaxRatioGuardDeclared : Bool := true\n")
	} else {
		l.sb.WriteString("def MaxRatioGuardDeclared : Bool := false\n")
	}

	// cosmossdk.io/math: `LegacyMaxSortableDec = LegacyOneDec().Quo(LegacySmallestDec())` (set in an init func),
	// the sentinel MaximalExactRatioJoin starts its minimum with: 1 / 10^-prec, raw 10^(2·prec).
	_, sdkMath := sdkMathDir()
	sm := loadPkg(sdkMath)
	foundMax := false
	for _, f := range sm.files {
		for _, d := range f.Decls {
			fd, ok := d.(*ast.FuncDecl)
			if !ok || fd.Name.Name != "init" || fd.Recv != nil {
				continue
			}
			ast.Inspect(fd.Body, func(n ast.Node) bool {
				as, ok := n.(*ast.AssignStmt)
				if !ok || len(as.Lhs) != 1 {
					return true
				}
				if idn, ok := as.Lhs[0].(*ast.Ident); ok && idn.Name == "LegacyMaxSortableDec" {
					if show(as.Rhs[0]) != "LegacyOneDec().Quo(LegacySmallestDec())" {
						fail("LegacyMaxSortableDec has an unknown initialiser %s", show(as.Rhs[0]))
					}
					foundMax = true
				}
				return true
			})
		}
	}
	if !foundMax {
		fail("LegacyMaxSortableDec initialiser not found in cosmossdk.io/math")
	}
	if show(sm.funcs["LegacySmallestDec"].Body) != "{\n\treturn LegacyDec{new(big.Int).Set(oneInt)}\n}" && !strings.Contains(show(sm.funcs["LegacySmallestDec"].Body), "Set(oneInt)") {
		fail("LegacySmallestDec has an unknown body")
	}
	l.intDef("MaxSortableDec", pow10(2*sm.evalInt(id("LegacyPrecision"), 0).Int64()))

	s := loadPkg(filepath.Join(repo, "x/gamm/pool-models/stableswap"))
	const solver = "solveCFMMBinarySearchMulti"
	l.natDef("solverMaxIterations", s.evalInt(s.localValue(solver, "maxIterations"), 0))
	tol := s.localValue(solver, "errTolerance")
	if e, ok := s.tolField(tol, "AdditiveTolerance"); ok {
		l.optIntDef("solverAdditiveTolerance", s.eval(e, 0).v)
	} else {
		l.optIntDef("solverAdditiveTolerance", nil)
	}
	if e, ok := s.tolField(tol, "MultiplicativeTolerance"); ok {
		v := s.eval(e, 0)
		if v.scale != "dec18" {
			fail("solver multiplicative tolerance is not a Dec")
		}
		l.optIntDef("solverMultiplicativeTolerance", v.v)
	} else {
		l.optIntDef("solverMultiplicativeTolerance", nil)
	}
	// errTolerance.RoundingDir = roundingDirection ; roundingDirection := osmomath.RoundUp
	rd := s.fieldAssigned(solver, "errTolerance", "RoundingDir")
	if rd == nil {
		fail("solver rounding direction not assigned")
	}
	if idn, ok := rd.(*ast.Ident); ok {
		rd = s.localValue(solver, idn.Name)
	}
	l.natDef("solverRoundingDir", dirOf(rd))

	c := loadPkg(filepath.Join(repo, "x/gamm/pool-models/internal/cfmm_common"))
	const bsj = "BinarySearchSingleAssetJoin"
	l.natDef("singleJoinMaxIterations", c.evalInt(c.localValue(bsj, "maxIterations"), 0))
	tol = c.localValue(bsj, "errTolerance")
	if e, ok := c.tolField(tol, "AdditiveTolerance"); ok {
		l.optIntDef("singleJoinAdditiveTolerance", c.eval(e, 0).v)
	} else {
		l.optIntDef("singleJoinAdditiveTolerance", nil)
	}
	if e, ok := c.tolField(tol, "MultiplicativeTolerance"); ok {
		l.optIntDef("singleJoinMultiplicativeTolerance", c.eval(e, 0).v)
	} else {
		l.optIntDef("singleJoinMultiplicativeTolerance", nil)
	}
	if e, ok := c.tolField(tol, "RoundingDir"); ok {
		l.natDef("singleJoinRoundingDir", dirOf(e))
	} else {
		fail("single-asset-join rounding direction missing")
	}
	// the `a` of the stableswap spot price and the guard `tokensIn[0].Amount.GT(OneInt())` are literals
	// of the model as well, but they do not enter any theorem; they are covered by the fingerprints.

	name := func(fn string) string { return strings.ReplaceAll(fn, ".", "_") }
	for _, fn := range []string{"solveConstantFunctionInvariant", "calcPoolSharesOutGivenSingleAssetIn", "feeRatio",
		"calcSingleAssetInGivenPoolSharesOut", "calcPoolSharesInGivenSingleAssetOut", "Pool.CalcOutAmtGivenIn", "Pool.CalcInAmtGivenOut",
		"Pool.calcSingleAssetJoin", "Pool.CalcTokenInShareAmountOut", "Pool.ExitSwapExactAmountOut"} {
		l.strList("ops_bal_"+name(fn), b.opList(fn))
		l.strDef("src_bal_"+name(fn), b.bodyText(fn))
	}
	for _, fn := range []string{"Pool.SetInitialPoolAssets", "Pool.parsePoolAssets", "Pool.parsePoolAssetsByDenoms", "Pool.applySwap",
		"Pool.CalcJoinPoolShares", "Pool.CalcJoinPoolNoSwapShares", "Pool.calcJoinSingleAssetTokensIn", "Pool.exitPool", "Pool.IncreaseLiquidity",
		"Pool.UpdatePoolAssetBalance", "Pool.UpdatePoolAssetBalances", "Pool.SwapOutAmtGivenIn", "Pool.SwapInAmtGivenOut", "Pool.JoinPool",
		"Pool.JoinPoolNoSwap", "Pool.ExitPool", "getPoolAssetByDenom", "updateIntermediaryPoolAssetsLiquidity", "ensureDenomInPool"} {
		l.strDef("src_bal_"+name(fn), b.bodyText(fn))
	}
	for _, fn := range []string{"CalcExitPool", "MaximalExactRatioJoin", "BinarySearchSingleAssetJoin"} {
		l.strList("ops_"+fn, c.opList(fn))
		l.strDef("src_"+fn, c.bodyText(fn))
	}
	l.strDef("src_SwapAllCoinsToSingleAsset", c.bodyText("SwapAllCoinsToSingleAsset"))
	for _, fn := range []string{"cfmmConstantMultiNoV", "cfmmConstantMultiNoVY", "targetKCalculator", "iterKCalculator",
		"deriveUpperLowerXFinalReserveBounds", "solveCFMMBinarySearchMulti", "solveCfmm", "Pool.calcOutAmtGivenIn", "Pool.calcInAmtGivenOut",
		"Pool.calcSingleAssetJoinShares", "Pool.singleAssetJoinSpreadFactorRatio", "Pool.getDescaledPoolAmt", "oneMinus"} {
		l.strList("ops_ss_"+name(fn), s.opList(fn))
		l.strDef("src_ss_"+name(fn), s.bodyText(fn))
	}
	for _, fn := range []string{"Pool.scaleCoin", "Pool.scaledSortedPoolReserves", "Pool.reorderReservesAndScalingFactors", "Pool.joinPoolSharesInternal",
		"Pool.CalcOutAmtGivenIn", "Pool.CalcInAmtGivenOut", "Pool.SwapOutAmtGivenIn", "Pool.SwapInAmtGivenOut", "Pool.ExitPool", "Pool.JoinPoolNoSwap",
		"Pool.CalcJoinPoolNoSwapShares", "Pool.updatePoolLiquidityForSwap", "Pool.updatePoolLiquidityForExit", "Pool.updatePoolForJoin",
		"validateScalingFactors", "validatePoolLiquidity", "Pool.GetScalingFactorByDenom"} {
		l.strDef("src_ss_"+name(fn), s.bodyText(fn))
	}
	l.strDef("src_DivIntByU64ToBigDec", om.bodyText("DivIntByU64ToBigDec"))
	l.strDef("src_DivCoinAmtsByU64ToBigDec", om.bodyText("DivCoinAmtsByU64ToBigDec"))
	_ = token.NoPos
	l.write(outDir)
}
