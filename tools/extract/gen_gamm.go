package main

import (
	"go/ast"
	"math/big"
	"path/filepath"
	"strings"
)

// genGamm: constants and body fingerprints for the x/gamm keeper + x/poolmanager router model (C02).
func genGamm(outDir string) {
	t := loadPkg(filepath.Join(repo, "x/gamm/types"))
	l := newLean("Gamm")
	for _, c := range []string{"OneShareExponent", "MinNumOfAssetsInPool", "MaxNumOfAssetsInPool"} {
		l.natDef(c, t.evalInt(id(c), 0))
	}
	// OneShare = osmomath.NewIntWithDecimal(1, OneShareExponent); InitPoolSharesSupply = OneShare.MulRaw(100)
	intWithDecimal := func(e ast.Expr) *big.Int {
		ce, ok := e.(*ast.CallExpr)
		if !ok || len(ce.Args) != 2 || !strings.HasSuffix(callName(ce.Fun), "NewIntWithDecimal") {
			fail("gamm: expected NewIntWithDecimal(n, dec), got %s", show(e))
		}
		return new(big.Int).Mul(t.evalInt(ce.Args[0], 0), pow10(t.evalInt(ce.Args[1], 0).Int64()))
	}
	oneShare := intWithDecimal(t.consts["OneShare"])
	l.intDef("OneShare", oneShare)
	ips, ok := t.consts["InitPoolSharesSupply"].(*ast.CallExpr)
	if !ok || len(ips.Args) != 1 {
		fail("gamm: InitPoolSharesSupply has an unexpected shape")
	}
	se, ok := ips.Fun.(*ast.SelectorExpr)
	if !ok || se.Sel.Name != "MulRaw" || show(se.X) != "OneShare" {
		fail("gamm: InitPoolSharesSupply is not OneShare.MulRaw(k): %s", show(ips))
	}
	l.intDef("InitPoolSharesSupply", new(big.Int).Mul(oneShare, t.evalInt(ips.Args[0], 0)))
	// the share denom prefix
	kd := loadPkg(filepath.Join(repo, "x/gamm/types"))
	if fd, ok := kd.funcs["GetPoolShareDenom"]; ok {
		l.strDef("src_GetPoolShareDenom", strings.Join(strings.Fields(show(fd.Body)), " "))
	} else {
		fail("gamm: no GetPoolShareDenom")
	}
	k := loadPkg(filepath.Join(repo, "x/gamm/keeper"))
	for _, fn := range []string{"Keeper.SwapExactAmountIn", "Keeper.SwapExactAmountOut", "Keeper.updatePoolForSwap",
		"Keeper.applyJoinPoolStateChange", "Keeper.applyExitPoolStateChange", "Keeper.MintPoolShareToAccount", "Keeper.BurnPoolShareFromAccount",
		"Keeper.InitializePool", "Keeper.JoinPoolNoSwap", "getMaximalNoSwapLPAmount", "Keeper.JoinSwapExactAmountIn", "Keeper.JoinSwapShareAmountOut",
		"Keeper.ExitPool", "Keeper.ExitSwapShareAmountIn", "Keeper.ExitSwapExactAmountOut"} {
		l.strDef("src_"+strings.ReplaceAll(fn, ".", "_"), k.bodyText(fn))
	}
	pm := loadPkg(filepath.Join(repo, "x/poolmanager"))
	for _, fn := range []string{"Keeper.RouteExactAmountIn", "Keeper.SwapExactAmountIn", "Keeper.RouteExactAmountOut", "Keeper.createMultihopExpectedSwapOuts",
		"Keeper.chargeTakerFee", "CalcTakerFeeExactIn", "CalcTakerFeeExactOut", "Keeper.GetTradingPairTakerFee", "Keeper.SetDenomPairTakerFee",
		"Keeper.CreatePool", "Keeper.createPoolZeroLiquidityNoCreationFee", "Keeper.fundCommunityPoolIfNotWhitelisted"} {
		l.strDef("src_pm_"+strings.ReplaceAll(fn, ".", "_"), pm.bodyText(fn))
	}
	bal := loadPkg(filepath.Join(repo, "x/gamm/pool-models/balancer"))
	for _, fn := range []string{"Pool.IncreaseLiquidity", "Pool.UpdatePoolAssetBalance", "Pool.UpdatePoolAssetBalances", "Pool.addToPoolAssetBalances",
		"Pool.applySwap", "Pool.exitPool", "Pool.JoinPoolNoSwap", "Pool.JoinPool", "Pool.ExitPool", "Pool.ExitSwapExactAmountOut"} {
		l.strDef("src_bal_"+strings.ReplaceAll(fn, ".", "_"), bal.bodyText(fn))
	}
	ss := loadPkg(filepath.Join(repo, "x/gamm/pool-models/stableswap"))
	for _, fn := range []string{"Pool.updatePoolLiquidityForSwap", "Pool.updatePoolLiquidityForExit", "Pool.updatePoolForJoin", "Pool.JoinPoolNoSwap", "Pool.ExitPool"} {
		l.strDef("src_ss_"+strings.ReplaceAll(fn, ".", "_"), ss.bodyText(fn))
	}
	l.write(outDir)
}
