package main

// gen_expr_k.go — Deliverable B for KEEPER-LEVEL functions (`pinK`): the ordered "statement skeleton" of a Go
// function, pinned by `opsx_<fn>_pinned : … := by decide` in Props/TieGen*.lean.  It extends `opListX` so that the list
// ALSO records
//
//   * every call, in Go's evaluation order (receiver, arguments, then the call), with its operands — so the ORDER of the
//     keeper calls (setEpochInfo before BeforeEpochStart; SendCoins / ApplySwap / setPool) and WHICH VARIABLE each call
//     receives (lock.Coins vs finalCoinsToSendBackToUser, tokenInAfterTakerFee vs tokenIn) are part of the pinned list;
//     package functions keep their package (`strings.HasPrefix` vs `strings.Contains`) and string literals their text;
//   * comparisons, boolean connectives, negation and native arithmetic (`+ - * / %`);
//   * assignments whose right-hand side is a plain variable / field / literal, and every assignment to a field or element
//     (`=(lhs,rhs)`), `+=`, `++`;
//   * what a `range` loop iterates over, `return` operands (other than nil / err / zero values), `continue` / `break`;
//   * the block structure: `if` / `else` / `for` / `range(..)` / `switch` / `case` / `func` … `end`.
//
// Locals and parameters are `v<k>` by declaration order (receiver, parameters, named results, then `:=` / var / range /
// closure parameters in source order): renaming them does not change the list.  Logging, telemetry, event emission and
// the construction of error values are skipped.

import (
	"fmt"
	"go/ast"
	"go/token"
	"strings"
)

// calls that cannot influence state or results: logging, telemetry, events, error text
var kIgnoreSel = map[string]bool{"Logger": true, "Debug": true, "Info": true, "Errorf": true, "Sprintf": true, "Wrap": true, "Wrapf": true,
	"IncrCounter": true, "IncrCounterWithLabels": true, "SetGaugeWithLabels": true, "SetGauge": true, "MeasureSince": true,
	"EmitEvent": true, "EmitEvents": true, "EmitTypedEvent": true, "EmitTypedEvents": true, "NewEvent": true, "NewAttribute": true}
var kIgnorePkg = map[string]bool{"fmt": true, "errors": true, "errorsmod": true, "telemetry": true, "strconv": true, "events": true, "log": true}

// conversions that are transparent for operands
var kConv = map[string]bool{"int64": true, "uint64": true, "int": true, "uint": true, "int32": true, "uint32": true, "string": true, "float64": true}

var kArith = map[token.Token]string{token.ADD: "+", token.SUB: "-", token.MUL: "*", token.QUO: "/", token.REM: "%"}

type kwalk struct {
	p      *pkgInfo
	num    map[string]string
	out    []string
	hasErr bool
	named  bool // the enclosing function / closure has named results
}

func (k *kwalk) emit(f string, a ...any) { k.out = append(k.out, fmt.Sprintf(f, a...)) }

func (k *kwalk) decl(n string) {
	if n == "_" || n == "" {
		return
	}
	if _, ok := k.num[n]; !ok {
		k.num[n] = fmt.Sprintf("v%d", len(k.num))
	}
}

func (k *kwalk) fields(fl *ast.FieldList) {
	if fl == nil {
		return
	}
	for _, f := range fl.List {
		for _, n := range f.Names {
			k.decl(n.Name)
		}
	}
}

func (k *kwalk) isPkg(e ast.Expr) (string, bool) {
	id, ok := e.(*ast.Ident)
	if !ok {
		return "", false
	}
	if _, isVar := k.num[id.Name]; isVar {
		return "", false
	}
	if isImportName(k.p, id.Name) {
		return id.Name, true
	}
	return "", false
}

func (k *kwalk) operand(e ast.Expr) string {
	switch e := e.(type) {
	case nil:
		return ""
	case *ast.Ident:
		if v, ok := k.num[e.Name]; ok {
			return v
		}
		return e.Name
	case *ast.SelectorExpr:
		return k.operand(e.X) + "." + e.Sel.Name
	case *ast.BasicLit:
		return e.Value
	case *ast.ParenExpr:
		return k.operand(e.X)
	case *ast.StarExpr:
		return k.operand(e.X)
	case *ast.UnaryExpr:
		if e.Op == token.AND {
			return "&" + k.operand(e.X)
		}
		if e.Op == token.SUB {
			return "-" + k.operand(e.X)
		}
	case *ast.IndexExpr:
		return k.operand(e.X) + "[" + k.operand(e.Index) + "]"
	case *ast.SliceExpr:
		return k.operand(e.X) + "[" + k.operand(e.Low) + ":" + k.operand(e.High) + "]"
	case *ast.CompositeLit:
		var as []string
		for _, el := range e.Elts {
			if kv, ok := el.(*ast.KeyValueExpr); ok {
				as = append(as, k.operand(kv.Key)+":"+k.operand(kv.Value))
			} else {
				as = append(as, k.operand(el))
			}
		}
		return "{" + strings.Join(as, ",") + "}"
	case *ast.CallExpr:
		if id, ok := e.Fun.(*ast.Ident); ok && kConv[id.Name] && len(e.Args) == 1 {
			return k.operand(e.Args[0])
		}
		// nullary constructors / getters and constructors of literals read as operands
		lits := true
		var as []string
		for _, a := range e.Args {
			bl, ok := a.(*ast.BasicLit)
			if !ok {
				lits = false
				break
			}
			as = append(as, bl.Value)
		}
		if lits {
			if se, ok := e.Fun.(*ast.SelectorExpr); ok {
				return k.operand(se.X) + "." + se.Sel.Name + "(" + strings.Join(as, ",") + ")"
			}
			if id, ok := e.Fun.(*ast.Ident); ok {
				return id.Name + "(" + strings.Join(as, ",") + ")"
			}
		}
	}
	return "_"
}

func (k *kwalk) ignoredCall(ce *ast.CallExpr) bool {
	switch f := ce.Fun.(type) {
	case *ast.Ident: // emitXxxTelemetry(…), emitSwapDebugLogs(…)
		if strings.HasPrefix(f.Name, "emit") && (strings.HasSuffix(f.Name, "Telemetry") || strings.HasSuffix(f.Name, "Logs")) {
			return true
		}
	case *ast.SelectorExpr:
		if kIgnoreSel[f.Sel.Name] {
			return true
		}
		if rc, ok := f.X.(*ast.CallExpr); ok { // ctx.Logger().Error(…), k.Logger(ctx).Warn(…)
			if rs, ok := rc.Fun.(*ast.SelectorExpr); ok && rs.Sel.Name == "Logger" {
				return true
			}
		}
		if pkg, ok := k.isPkg(f.X); ok && kIgnorePkg[pkg] {
			return true
		}
	}
	return false
}

// expr: post-order walk of an expression
func (k *kwalk) expr(e ast.Expr) {
	switch e := e.(type) {
	case nil:
	case *ast.ParenExpr:
		k.expr(e.X)
	case *ast.StarExpr:
		k.expr(e.X)
	case *ast.SelectorExpr:
		k.expr(e.X)
	case *ast.IndexExpr:
		k.expr(e.X)
		k.expr(e.Index)
	case *ast.SliceExpr:
		k.expr(e.X)
		k.expr(e.Low)
		k.expr(e.High)
	case *ast.TypeAssertExpr:
		k.expr(e.X)
	case *ast.KeyValueExpr:
		k.expr(e.Value)
	case *ast.CompositeLit:
		if strings.HasSuffix(show(e.Type), "Error") { // the fields of an error value are diagnostics
			return
		}
		for _, el := range e.Elts {
			k.expr(el)
		}
	case *ast.UnaryExpr:
		k.expr(e.X)
		if e.Op == token.NOT {
			k.emit("!(%s)", k.operand(e.X))
		}
	case *ast.BinaryExpr:
		if identName(e.X) == "nil" || identName(e.Y) == "nil" {
			k.expr(e.X)
			k.expr(e.Y)
			return
		}
		k.expr(e.X)
		k.expr(e.Y)
		if tok, ok := cmpTokens[e.Op]; ok {
			k.emit("%s(%s,%s)", tok, k.operand(e.X), k.operand(e.Y))
		} else if tok, ok := kArith[e.Op]; ok {
			k.emit("%s(%s,%s)", tok, k.operand(e.X), k.operand(e.Y))
		}
	case *ast.FuncLit:
		k.emit("func")
		k.fields(e.Type.Params)
		k.fields(e.Type.Results)
		oldErr, oldNamed := k.hasErr, k.named
		k.hasErr, k.named = lastIsError(e.Type.Results), hasNames(e.Type.Results)
		k.block(e.Body.List)
		k.hasErr, k.named = oldErr, oldNamed
		k.emit("end")
	case *ast.CallExpr:
		if k.ignoredCall(e) {
			return
		}
		if id, ok := e.Fun.(*ast.Ident); ok && kConv[id.Name] && len(e.Args) == 1 {
			k.expr(e.Args[0])
			return
		}
		var ops []string
		name := ""
		switch f := e.Fun.(type) {
		case *ast.Ident:
			name = f.Name
		case *ast.SelectorExpr:
			if pkg, ok := k.isPkg(f.X); ok {
				name = pkg + "." + f.Sel.Name
			} else {
				k.expr(f.X)
				name = f.Sel.Name
				ops = append(ops, k.operand(f.X))
			}
		case *ast.FuncLit: // immediately invoked closure
			k.expr(f)
			name = "call"
		default:
			k.expr(e.Fun)
			name = "call"
		}
		for _, a := range e.Args {
			k.expr(a)
			ops = append(ops, k.operand(a))
		}
		if e.Ellipsis != token.NoPos && len(ops) > 0 {
			ops[len(ops)-1] += "..."
		}
		k.emit("%s(%s)", name, strings.Join(ops, ","))
	}
}

// a condition that is a plain flag shows which one
func (k *kwalk) emitIf(cond ast.Expr) {
	switch cond.(type) {
	case *ast.Ident, *ast.SelectorExpr:
		k.emit("if(%s)", k.operand(cond))
	default:
		k.emit("if")
	}
}

func (k *kwalk) block(list []ast.Stmt) {
	for _, s := range list {
		k.stmt(s)
	}
}

func isErrName(e ast.Expr) bool {
	n := identName(e)
	return n == "err" || n == "nil"
}

func (k *kwalk) stmt(s ast.Stmt) {
	switch s := s.(type) {
	case nil:
	case *ast.ExprStmt:
		k.expr(s.X)
	case *ast.BlockStmt:
		k.block(s.List)
	case *ast.LabeledStmt:
		k.stmt(s.Stmt)
	case *ast.DeclStmt:
		gd, ok := s.Decl.(*ast.GenDecl)
		if !ok {
			return
		}
		for _, sp := range gd.Specs {
			vs, ok := sp.(*ast.ValueSpec)
			if !ok {
				continue
			}
			for _, v := range vs.Values {
				k.expr(v)
			}
			for _, n := range vs.Names {
				k.decl(n.Name)
			}
			for i, n := range vs.Names {
				if i < len(vs.Values) && n.Name != "_" {
					k.emit("=(%s,%s)", k.operand(n), k.operand(vs.Values[i]))
				}
			}
		}
	case *ast.AssignStmt:
		for _, r := range s.Rhs {
			k.expr(r)
		}
		for _, l := range s.Lhs { // calls inside an assignment target (x[f(i)] = …)
			if _, isIdent := l.(*ast.Ident); !isIdent {
				k.expr(l)
			}
		}
		if s.Tok == token.DEFINE {
			for _, l := range s.Lhs {
				k.decl(identName(l))
			}
		}
		switch {
		case s.Tok != token.ASSIGN && s.Tok != token.DEFINE:
			k.emit("%s(%s,%s)", s.Tok.String(), k.operand(s.Lhs[0]), k.operand(s.Rhs[0]))
		case len(s.Lhs) == len(s.Rhs):
			for i, l := range s.Lhs {
				if identName(l) == "_" || identName(l) == "err" {
					continue
				}
				r := k.operand(s.Rhs[i])
				_, lhsIsIdent := l.(*ast.Ident)
				// a plain copy is invisible otherwise; a write to a field / element is an effect
				if r != "_" || (!lhsIsIdent) || s.Tok == token.ASSIGN {
					k.emit("=(%s,%s)", k.operand(l), r)
				}
			}
		default: // a, b = f()
			if s.Tok == token.ASSIGN {
				var ls []string
				for _, l := range s.Lhs {
					ls = append(ls, k.operand(l))
				}
				k.emit("=(%s,_)", strings.Join(ls, ";"))
			}
		}
	case *ast.IncDecStmt:
		k.expr(s.X)
		k.emit("%s(%s)", s.Tok.String(), k.operand(s.X))
	case *ast.ReturnStmt:
		var ops []string
		interesting := len(s.Results) == 0 && k.named // a bare return hands back the named results as they are
		for i, r := range s.Results {
			if ce, isCall := r.(*ast.CallExpr); k.hasErr && i == len(s.Results)-1 && identName(r) == "" && (!isCall || k.ignoredCall(ce)) {
				ops = append(ops, "error") // a constructed error: its text is not tied
				interesting = interesting || len(s.Results) == 1
				continue
			}
			k.expr(r)
			o := k.operand(r)
			ops = append(ops, o)
			if _, isCall := r.(*ast.CallExpr); isCall && o == "_" {
				interesting = true // the result of the call just listed is returned
			}
			if !isErrName(r) && o != "_" && !strings.HasSuffix(o, "{}") {
				interesting = true
			}
		}
		if interesting {
			k.emit("return(%s)", strings.Join(ops, ","))
		}
	case *ast.BranchStmt:
		k.emit("%s", s.Tok.String())
	case *ast.DeferStmt:
		k.emit("defer")
		k.expr(s.Call)
	case *ast.GoStmt:
		k.emit("go")
		k.expr(s.Call)
	case *ast.IfStmt:
		if k.isErrPropagation(s) {
			k.stmt(s.Init) // `if err := f(); err != nil { return …, err }`: only the call carries information
			return
		}
		k.stmt(s.Init)
		k.expr(s.Cond)
		k.emitIf(s.Cond)
		k.block(s.Body.List)
		for el := s.Else; el != nil; {
			k.emit("else")
			if ei, ok := el.(*ast.IfStmt); ok {
				k.stmt(ei.Init)
				k.expr(ei.Cond)
				k.emitIf(ei.Cond)
				k.block(ei.Body.List)
				el = ei.Else
				continue
			}
			k.stmt(el)
			break
		}
		k.emit("end")
	case *ast.ForStmt:
		k.stmt(s.Init)
		k.emit("for")
		k.expr(s.Cond)
		k.block(s.Body.List)
		k.stmt(s.Post)
		k.emit("end")
	case *ast.RangeStmt:
		k.expr(s.X)
		if s.Tok == token.DEFINE {
			k.decl(identName(s.Key))
			if s.Value != nil {
				k.decl(identName(s.Value))
			}
		}
		k.emit("range(%s)", k.operand(s.X))
		k.block(s.Body.List)
		k.emit("end")
	case *ast.SwitchStmt:
		k.stmt(s.Init)
		k.expr(s.Tag)
		k.emit("switch(%s)", k.operand(s.Tag))
		for _, c := range s.Body.List {
			cc := c.(*ast.CaseClause)
			var ops []string
			for _, e := range cc.List {
				k.expr(e)
				ops = append(ops, k.operand(e))
			}
			k.emit("case(%s)", strings.Join(ops, ","))
			k.block(cc.Body)
		}
		k.emit("end")
	case *ast.TypeSwitchStmt:
		k.stmt(s.Init)
		k.stmt(s.Assign)
		k.emit("typeswitch")
		for _, c := range s.Body.List {
			cc := c.(*ast.CaseClause)
			var ops []string
			for _, e := range cc.List {
				ops = append(ops, show(e))
			}
			k.emit("case(%s)", strings.Join(ops, ","))
			k.block(cc.Body)
		}
		k.emit("end")
	default:
		fail("pinK: unsupported statement %T in %s", s, k.p.dir)
	}
}

// `if err != nil { return <zero values>, err }` (also with a wrapped / constructed error)
func (k *kwalk) isErrPropagation(s *ast.IfStmt) bool {
	if s.Else != nil || !isErrNotNil(s.Cond) || len(s.Body.List) != 1 || !k.hasErr {
		return false
	}
	if as, ok := s.Init.(*ast.AssignStmt); s.Init != nil && (!ok || len(as.Lhs) != 1 || identName(as.Lhs[0]) != "err") {
		return false
	}
	rs, ok := s.Body.List[0].(*ast.ReturnStmt)
	if !ok || len(rs.Results) == 0 {
		return false
	}
	for i, r := range rs.Results {
		if i == len(rs.Results)-1 {
			if identName(r) == "nil" {
				return false
			}
			continue
		}
		switch r := r.(type) {
		case *ast.CompositeLit:
			if len(r.Elts) != 0 {
				return false
			}
		case *ast.Ident:
			if r.Name != "nil" && r.Name != "false" {
				return false
			}
		case *ast.BasicLit:
			if r.Value != "0" && r.Value != `""` {
				return false
			}
		default:
			return false
		}
	}
	return true
}

func (p *pkgInfo) opListK(fn string) []string {
	fd, ok := p.funcs[fn]
	if !ok {
		fail("no func %s in %s", fn, p.dir)
	}
	if fd.Body == nil {
		fail("func %s in %s has no body", fn, p.dir)
	}
	k := &kwalk{p: p, num: map[string]string{}}
	k.fields(fd.Recv)
	k.fields(fd.Type.Params)
	k.fields(fd.Type.Results)
	k.hasErr, k.named = lastIsError(fd.Type.Results), hasNames(fd.Type.Results)
	k.block(fd.Body.List)
	return k.out
}

func lastIsError(fl *ast.FieldList) bool {
	return fl != nil && len(fl.List) > 0 && show(fl.List[len(fl.List)-1].Type) == "error"
}

func hasNames(fl *ast.FieldList) bool {
	return fl != nil && len(fl.List) > 0 && len(fl.List[0].Names) > 0
}

// pinK: emit `opsx_<fn>` for every named function of the package
func pinK(mod, dir string, fns ...string) {
	p := loadPkg(repo + "/" + dir)
	f := fnFileOf(mod)
	for _, fn := range fns {
		f.lists = append(f.lists, struct {
			name string
			ops  []string
		}{"opsx_" + strings.ReplaceAll(fn, ".", "_"), p.opListK(fn)})
	}
}
