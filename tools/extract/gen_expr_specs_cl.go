package main

// gen_expr_specs_cl.go — tie T1 for the KEEPER-LEVEL arithmetic of x/concentrated-liquidity (C01, C03, C07, C08):
// Deliverable A (`tie`) for the straight-line helpers of incentives.go, spread_rewards.go, swaps.go, model/pool.go,
// swapstrategy and math/tick.go, incl. the BODY of the record loop of calcAccruedIncentivesForAccum (loop-body mode);
// Deliverable B (`pinK`, gen_expr_k.go) for the loop / keeper functions.

const (
	clDir   = "x/concentrated-liquidity"
	clModel = "x/concentrated-liquidity/model"
	clMath  = "x/concentrated-liquidity/math"
	clStrat = "x/concentrated-liquidity/swapstrategy"
)

func specCL() {
	specCLArith()
	specCLOps()
}

func specCLArith() {
	const mod = "CLKeeper"
	// ------------------------------------------------------------ incentives.go
	tie(&xspec{mod: mod, dir: clDir, fn: "computeTotalIncentivesToEmit", lean: "computeTotalIncentivesToEmit",
		params: decParams("timeElapsedSeconds", "emissionRate"),
		doc:    "incentives.go `computeTotalIncentivesToEmit` (defer/recover: an overflow panic is the error return, both `none`)"})
	tie(&xspec{mod: mod, dir: clDir, fn: "scaleUpTotalEmittedAmount", lean: "scaleUpTotalEmittedAmount",
		params: decParams("totalEmittedAmount", "scalingFactor"),
		doc:    "incentives.go `scaleUpTotalEmittedAmount` (defer/recover)"})
	tie(&xspec{mod: mod, dir: clDir, fn: "scaleDownIncentiveAmount", lean: "scaleDownIncentiveAmount",
		params: []xparam{{"$1", "incentiveAmount", tyInt}, {"$2", "scalingFactor", tyDec}},
		doc:    "incentives.go `scaleDownIncentiveAmount`"})
	const remaining = "IncentiveRecordBody.RemainingCoin.Amount"
	tie(&xspec{mod: mod, dir: clDir, fn: "calcAccruedIncentivesForAccum", lean: "calcAccruedIncentivesForAccum_body",
		tyvars: []string{"Denom", "DCoin", "DC"},
		externs: []xextern{
			{key: "sdk.NewDecCoinFromDec", name: "newDecCoinFromDec", args: []string{"Denom", tyDec}, res: "DCoin", fallible: true},
			{key: "DC.Add", name: "dcAdd", args: []string{"DC", "DCoin"}, res: "DC", fallible: true}},
		params: []xparam{
			{"$v.IncentiveRecordBody.StartTime.UTC()", "startTime", tyTime}, {"$1.BlockTime().UTC()", "blockTime", tyTime},
			{"$v.MinUptime!=$2", "otherUptime", tyBool},
			{"$3", "liquidityInAccum", tyDec}, {"$4", "timeElapsed", tyDec}, {"$7", "scalingFactor", tyDec},
			{"$v.IncentiveRecordBody.EmissionRate", "emissionRate", tyDec},
			{"$v.IncentiveRecordBody.RemainingCoin.Denom", "denom", "Denom"},
			{"$acc", "incentivesToAdd", "DC"},
			// the record of this iteration in the input slice and in its copy hold the same amount until this iteration writes it
			{"$5[$k]." + remaining, "remaining", tyDec}, {"$r[$k]." + remaining, "remaining", tyDec}},
		loop: &xloop{pre: map[string]string{"sdk.NewDecCoins()": "$acc"},
			state: []xparam{{"$acc", "incentivesToAdd", "DC"}, {"$r[$k]." + remaining, "remaining", tyDec}}},
		ignore: []string{"emitIncentiveOverflowTelemetry", "emitAccumulatorUpdateTelemetry", "Info"},
		doc: "incentives.go `calcAccruedIncentivesForAccum`: ONE ITERATION of the record loop — (coins to add to the accumulator, the record's " +
			"remaining amount) before ↦ after; a skipped record (`continue`) returns them unchanged.  `otherUptime` = `incentiveRecord.MinUptime != accumUptime`"})

	// ------------------------------------------------------------ spread_rewards.go
	dcSub := xextern{key: "DC.Sub", name: "dcSub", args: []string{"DC", "DC"}, res: "DC", fallible: true}
	dcAddAll := xextern{key: "DC.Add", name: "dcAdd", args: []string{"DC", "DC"}, res: "DC", fallible: true}
	tie(&xspec{mod: mod, dir: clDir, fn: "calculateSpreadRewardGrowth", lean: "calculateSpreadRewardGrowth", tyvars: []string{"DC"},
		tymap: map[string]string{"sdk.DecCoins": "DC"}, externs: []xextern{dcSub},
		params: []xparam{{"$1", "targetTick", tyI64}, {"$2", "ticksGrowthOpposite", "DC"}, {"$3", "currentTick", tyI64},
			{"$4", "growthGlobal", "DC"}, {"$5", "isUpperTick", tyBool}},
		doc: "spread_rewards.go `calculateSpreadRewardGrowth` over abstract sdk.DecCoins"})
	tie(&xspec{mod: mod, dir: clDir, fn: "Keeper.getSpreadRewardGrowthOutside", lean: "getSpreadRewardGrowthOutside",
		tyvars: []string{"Pool", "TickInfo", "Acc", "DC"}, tymap: map[string]string{"sdk.DecCoins": "DC"},
		externs: []xextern{
			{key: "$0.getPoolById", name: "getPoolById", res: "Pool", fallible: true, noargs: true},
			{key: "Pool.GetCurrentTick", name: "getCurrentTick", args: []string{"Pool"}, res: tyI64},
			{key: "$0.GetTickInfo", name: "getTickInfo", args: []string{tyI64}, argIdx: []int{2}, res: "TickInfo", fallible: true},
			{key: "TickInfo.SpreadRewardGrowthOppositeDirectionOfLastTraversal", name: "tickGrowthOpposite", args: []string{"TickInfo"}, res: "DC", field: true},
			{key: "$0.GetSpreadRewardAccumulator", name: "getSpreadRewardAccumulator", res: "Acc", fallible: true, noargs: true},
			{key: "Acc.GetValue", name: "getValue", args: []string{"Acc"}, res: "DC"},
			dcSub, dcAddAll},
		params: []xparam{{"$3", "lowerTick", tyI64}, {"$4", "upperTick", tyI64}},
		doc:    "spread_rewards.go `getSpreadRewardGrowthOutside` (pool, tick infos and the accumulator are store reads)"})
	tie(&xspec{mod: mod, dir: clDir, fn: "scaleDownSpreadRewardAmount", lean: "scaleDownSpreadRewardAmount",
		params: []xparam{{"$1", "incentiveAmount", tyInt}, {"$2", "scalingFactor", tyDec}},
		doc:    "spread_rewards.go `scaleDownSpreadRewardAmount`"})

	// ------------------------------------------------------------ swaps.go
	tie(&xspec{mod: mod, dir: clDir, fn: "SwapState.updateSpreadRewardGrowthGlobal", lean: "updateSpreadRewardGrowthGlobal",
		params: []xparam{{"$1", "spreadRewardChargeTotal", tyDec}, {"$2", "scalingFactor", tyDec}, {"$0.liquidity", "liquidity", tyDec},
			{"$0.globalSpreadRewardGrowth", "globalSpreadRewardGrowth", tyDec},
			{"$0.globalSpreadRewardGrowthPerUnitLiquidity", "growthPerUnitLiquidity", tyDec}},
		outs: []xparam{{"$0.globalSpreadRewardGrowth", "globalSpreadRewardGrowth", tyDec},
			{"$0.globalSpreadRewardGrowthPerUnitLiquidity", "growthPerUnitLiquidity", tyDec}},
		doc: "swaps.go `SwapState.updateSpreadRewardGrowthGlobal`: (growth per unit of liquidity of the step, new globalSpreadRewardGrowth, " +
			"new globalSpreadRewardGrowthPerUnitLiquidity)"})
	tie(&xspec{mod: mod, dir: clDir, fn: "validateSwapProgressAndAmountConsumption", lean: "validateSwapProgressAndAmountConsumption",
		params: []xparam{{"$1", "computedSqrtPrice", tyBig}, {"$2", "sqrtPriceStart", tyBig}, {"$3", "amountIn", tyDec}, {"$4", "amountOut", tyDec}},
		doc:    "swaps.go `validateSwapProgressAndAmountConsumption` (`none` = SwapNoProgressWithConsumptionError)"})
	tie(&xspec{mod: mod, dir: clDir, fn: "edgeCaseInequalityBasedOnSwapStrategy", lean: "edgeCaseInequalityBasedOnSwapStrategy",
		params: []xparam{{"$1", "isZeroForOne", tyBool}, {"$2", "nextInitializedTickSqrtPrice", tyBig}, {"$3", "computedSqrtPrice", tyBig}},
		doc:    "swaps.go `edgeCaseInequalityBasedOnSwapStrategy`"})

	// ------------------------------------------------------------ swapstrategy: what a tick crossing does to tick and liquidity
	tie(&xspec{mod: mod, dir: clStrat, fn: "zeroForOneStrategy.UpdateTickAfterCrossing", lean: "zeroForOne_UpdateTickAfterCrossing",
		params: []xparam{{"$1", "nextTick", tyI64}}, doc: "swapstrategy/zero_for_one.go `UpdateTickAfterCrossing`"})
	tie(&xspec{mod: mod, dir: clStrat, fn: "oneForZeroStrategy.UpdateTickAfterCrossing", lean: "oneForZero_UpdateTickAfterCrossing",
		params: []xparam{{"$1", "nextTick", tyI64}}, doc: "swapstrategy/one_for_zero.go `UpdateTickAfterCrossing`"})
	tie(&xspec{mod: mod, dir: clStrat, fn: "zeroForOneStrategy.SetLiquidityDeltaSign", lean: "zeroForOne_SetLiquidityDeltaSign",
		params: []xparam{{"$1", "liquidityDelta", tyDec}}, doc: "swapstrategy/zero_for_one.go `SetLiquidityDeltaSign`"})
	tie(&xspec{mod: mod, dir: clStrat, fn: "oneForZeroStrategy.SetLiquidityDeltaSign", lean: "oneForZero_SetLiquidityDeltaSign",
		params: []xparam{{"$1", "liquidityDelta", tyDec}}, doc: "swapstrategy/one_for_zero.go `SetLiquidityDeltaSign`"})

	// ------------------------------------------------------------ math/tick.go, model/pool.go
	tickToSqrtPrice := xextern{key: "TickToSqrtPrice", name: "tickToSqrtPrice", args: []string{tyI64}, res: tyBig, fallible: true}
	tie(&xspec{mod: mod, dir: clMath, fn: "TicksToSqrtPrice", lean: "TicksToSqrtPrice", externs: []xextern{tickToSqrtPrice},
		params: []xparam{{"$1", "lowerTick", tyI64}, {"$2", "upperTick", tyI64}},
		doc:    "math/tick.go `TicksToSqrtPrice`: (sqrt price of the lower tick, of the upper tick); the UPPER tick is converted first"})
	tie(&xspec{mod: mod, dir: clMath, fn: "TickToSqrtPrice", lean: "TickToSqrtPrice",
		externs: []xextern{{key: "TickToPrice", name: "tickToPrice", args: []string{tyI64}, res: tyBig, fallible: true},
			{key: "osmomath.MonotonicSqrtMut", name: "monotonicSqrt", args: []string{tyDec}, res: tyDec, fallible: true, fresh: true},
			{key: "osmomath.MonotonicSqrtBigDec", name: "monotonicSqrtBigDec", args: []string{tyBig}, res: tyBig, fallible: true}},
		params: []xparam{{"$1", "tickIndex", tyI64}},
		doc:    "math/tick.go `TickToSqrtPrice`: 18-decimal square root on the launch range, 36-decimal below it (`tickToPrice`, the two monotonic square roots are C13/C14 functions)"})
	tie(&xspec{mod: mod, dir: clMath, fn: "RoundDownTickToSpacing", lean: "RoundDownTickToSpacing",
		params: []xparam{{"$1", "tickIndex", tyI64}, {"$2", "tickSpacing", tyI64}},
		doc:    "math/tick.go `RoundDownTickToSpacing` (`I64.rem` = Go's truncating `%`, a zero spacing panics)"})
	tie(&xspec{mod: mod, dir: clMath, fn: "SqrtPriceToTickRoundDownSpacing", lean: "SqrtPriceToTickRoundDownSpacing",
		externs: []xextern{{key: "CalculateSqrtPriceToTick", name: "calculateSqrtPriceToTick", args: []string{tyBig}, res: tyI64, fallible: true}},
		params:  []xparam{{"$1", "sqrtPrice", tyBig}, {"$2", "tickSpacing", tyI64}},
		doc:     "math/tick.go `SqrtPriceToTickRoundDownSpacing`"})
	curTick := xparam{"$0.CurrentTick", "currentTick", tyI64}
	tie(&xspec{mod: mod, dir: clModel, fn: "Pool.IsCurrentTickInRange", lean: "IsCurrentTickInRange",
		params: []xparam{curTick, {"$1", "lowerTick", tyI64}, {"$2", "upperTick", tyI64}},
		doc:    "model/pool.go `Pool.IsCurrentTickInRange`"})
	tie(&xspec{mod: mod, dir: clModel, fn: "Pool.UpdateLiquidityIfActivePosition", lean: "UpdateLiquidityIfActivePosition",
		params: []xparam{curTick, {"$0.CurrentTickLiquidity", "currentTickLiquidity", tyDec}, {"$2", "lowerTick", tyI64}, {"$3", "upperTick", tyI64},
			{"$4", "liquidityDelta", tyDec}},
		outs: []xparam{{"$0.CurrentTickLiquidity", "currentTickLiquidity", tyDec}},
		doc:  "model/pool.go `Pool.UpdateLiquidityIfActivePosition`: (updated?, the pool's new CurrentTickLiquidity)"})
	calcDelta := func(n string) xextern {
		return xextern{key: "math." + n, name: "c" + n[1:], args: []string{tyDec, tyBig, tyBig, tyBool}, res: tyBig, fallible: true}
	}
	mathTickToSqrtPrice := tickToSqrtPrice
	mathTickToSqrtPrice.key = "math.TickToSqrtPrice"
	tie(&xspec{mod: mod, dir: clModel, fn: "Pool.CalcActualAmounts", lean: "CalcActualAmounts",
		externs: []xextern{mathTickToSqrtPrice, calcDelta("CalcAmount0Delta"), calcDelta("CalcAmount1Delta")},
		params: []xparam{curTick, {"$0.CurrentSqrtPrice", "currentSqrtPrice", tyBig}, {"$2", "lowerTick", tyI64}, {"$3", "upperTick", tyI64},
			{"$4", "liquidityDelta", tyDec}},
		doc: "model/pool.go `Pool.CalcActualAmounts` (`calcAmount0Delta`/`calcAmount1Delta` = math.CalcAmount{0,1}Delta, whose operators Model/CL.lean interprets)"})
	tie(&xspec{mod: mod, dir: clModel, fn: "Pool.ApplySwap", lean: "ApplySwap",
		params: []xparam{{"$1", "newLiquidity", tyDec}, {"$2", "newCurrentTick", tyI64}, {"$3", "newCurrentSqrtPrice", tyBig}},
		outs: []xparam{{"$0.CurrentTickLiquidity", "currentTickLiquidity", tyDec}, {"$0.CurrentTick", "currentTick", tyI64},
			{"$0.CurrentSqrtPrice", "currentSqrtPrice", tyBig}},
		doc: "model/pool.go `Pool.ApplySwap`: the pool's new (CurrentTickLiquidity, CurrentTick, CurrentSqrtPrice); `none` = one of the three range errors"})
}

// B — the loop / keeper functions: every call in order with its operands, comparisons, writes, block structure
func specCLOps() {
	const mod = "CLKeeperOps"
	pinK(mod, clDir, // swaps.go
		"newSwapState", "Keeper.SwapExactAmountIn", "Keeper.SwapExactAmountOut", "Keeper.swapOutAmtGivenIn", "Keeper.swapInAmtGivenOut",
		"Keeper.swapSetup", "iteratorToNextInitializedTickSqrtPriceTarget", "Keeper.computeOutAmtGivenIn", "Keeper.computeInAmtGivenOut",
		"Keeper.swapCrossTickLogic", "Keeper.updatePoolForSwap", "getZeroForOne", "checkDenomValidity", "Keeper.setupSwapStrategy",
		"Keeper.getPoolForSwap")
	pinK(mod, clDir, // incentives.go
		"Keeper.getInitialUptimeGrowthOppositeDirectionOfLastTraversalForTick", "Keeper.UpdatePoolUptimeAccumulatorsToNow",
		"Keeper.updatePoolUptimeAccumulatorsToNowWithPool", "Keeper.updateGivenPoolUptimeAccumulatorsToNow", "calcAccruedIncentivesForAccum",
		"Keeper.setIncentiveRecord", "Keeper.setMultipleIncentiveRecords", "Keeper.GetUptimeGrowthInsideRange", "Keeper.GetUptimeGrowthOutsideRange",
		"Keeper.initOrUpdatePositionUptimeAccumulators", "updateAccumAndClaimRewards", "Keeper.prepareClaimAllIncentivesForPosition",
		"Keeper.redepositForfeitedIncentives", "Keeper.collectIncentives", "Keeper.CreateIncentive", "Keeper.getIncentiveScalingFactorForPool")
	pinK(mod, clDir, // spread_rewards.go
		"Keeper.initOrUpdatePositionSpreadRewardAccumulator", "Keeper.getInitialSpreadRewardGrowthOppositeDirectionOfLastTraversalForTick",
		"Keeper.collectSpreadRewards", "Keeper.prepareClaimableSpreadRewards", "updatePositionToInitValuePlusGrowthOutside",
		"Keeper.getSpreadFactorScalingFactorForPool")
	pinK(mod, clDir, // tick.go
		"Keeper.initOrUpdateTick", "Keeper.crossTick", "Keeper.GetTickInfo", "Keeper.makeInitialTickInfo", "validateTickRangeIsValid",
		"roundTickToCanonicalPriceTick")
	pinK("CLTickOps", clMath, // math/tick.go: the table / search functions (C14)
		"TickToPrice", "TickToAdditiveGeometricIndices", "CalculatePriceToTick", "CalculateSqrtPriceToTick", "PowTenInternal", "powTenBigDec")
	pinK(mod, clDir, // lp.go, position.go
		"Keeper.CreatePosition", "Keeper.WithdrawPosition", "Keeper.addToPosition", "Keeper.UpdatePosition", "Keeper.sendCoinsBetweenPoolAndUser",
		"Keeper.initializeInitialPositionForPool", "Keeper.uninitializePool", "Keeper.initOrUpdatePosition", "Keeper.transferPositions",
		"Keeper.updateFullRangeLiquidityInPool")
}
