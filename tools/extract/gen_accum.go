package main

// Gen/Accum.lean for property C15: the key separator the accumulator refuses in names, and body
// fingerprints of every osmoutils/accum function and sdk DecCoins method the model mirrors by hand.

import (
	"go/ast"
	"go/token"
	"os/exec"
	"path/filepath"
	"strconv"
	"strings"
)

func sdkDir() string {
	cmd := exec.Command("go", "list", "-m", "-f", "{{.Dir}}", "github.com/cosmos/cosmos-sdk")
	cmd.Dir = repo
	cmd.Env = append(cmd.Environ(), "GOPROXY=off", "GOSUMDB=off", "GOFLAGS=")
	out, err := cmd.Output()
	if err != nil {
		fail("go list github.com/cosmos/cosmos-sdk: %v", err)
	}
	return strings.TrimSpace(string(out))
}

func genAccum(outDir string) {
	p := loadPkg(filepath.Join(repo, "osmoutils/accum"))
	l := newLean("Accum")
	e, ok := p.consts["KeySeparator"]
	if !ok {
		fail("no const KeySeparator in osmoutils/accum")
	}
	bl, ok := e.(*ast.BasicLit)
	if !ok || bl.Kind != token.STRING {
		fail("KeySeparator is not a string literal")
	}
	sep, err := strconv.Unquote(bl.Value)
	if err != nil {
		fail("KeySeparator: %v", err)
	}
	l.sb.WriteString("def KeySeparator : String := " + strconv.Quote(sep) + "\n")
	for _, fn := range []string{
		"MakeAccumulator", "GetAccumulator", "setAccumulator", "AccumulatorObject.AddToAccumulator",
		"AccumulatorObject.NewPosition", "AccumulatorObject.NewPositionIntervalAccumulation",
		"AccumulatorObject.AddToPosition", "AccumulatorObject.AddToPositionIntervalAccumulation",
		"AccumulatorObject.RemoveFromPosition", "AccumulatorObject.RemoveFromPositionIntervalAccumulation",
		"AccumulatorObject.UpdatePosition", "AccumulatorObject.UpdatePositionIntervalAccumulation",
		"AccumulatorObject.SetPositionIntervalAccumulation", "AccumulatorObject.DeletePosition", "AccumulatorObject.deletePosition",
		"AccumulatorObject.ClaimRewards", "AccumulatorObject.AddToUnclaimedRewards", "AccumulatorObject.GetPosition",
		"AccumulatorObject.GetPositionSize", "AccumulatorObject.HasPosition", "AccumulatorObject.GetValue",
		"AccumulatorObject.GetTotalShares", "initOrUpdatePosition", "GetPosition", "GetTotalRewards",
		"formatAccumPrefixKey", "FormatPositionPrefixKey", "Options.validate",
	} {
		l.strDef("src_"+strings.ReplaceAll(fn, ".", "_"), p.bodyText(fn))
	}
	s := loadPkg(filepath.Join(sdkDir(), "types"))
	for _, fn := range []string{
		"DecCoins.Add", "DecCoins.safeAdd", "DecCoins.negative", "DecCoins.Sub", "DecCoins.SafeSub", "DecCoins.IsAnyNegative",
		"DecCoins.MulDec", "DecCoins.TruncateDecimal", "DecCoin.TruncateDecimal", "DecCoin.Add", "removeZeroDecCoins",
		"NewDecCoinFromDec", "NewDecCoinsFromCoins",
	} {
		l.strDef("src_sdk_"+strings.ReplaceAll(fn, ".", "_"), s.bodyText(fn))
	}
	l.write(outDir)
}
