# Per-property configuration of ./check (engines, op counts, Lean modules, fingerprints).
# C19 borrows the module engines for their `exportimport` op only: their other property oracles are reported by C06/C09/C10/C11/C07
EXPORT_IMPORT_ONLY = {"quick": {"VERIF_FAIL_FILTER": "export-import"}, "thorough": {"VERIF_FAIL_FILTER": "export-import"}}
# ... and the owning checks leave export/import failures to C19
NO_EXPORT_IMPORT = {"quick": {"VERIF_FAIL_EXCLUDE": "export-import"}, "thorough": {"VERIF_FAIL_EXCLUDE": "export-import"}}
# auth is borrowed for the tokenfactory part only: histories end after the tokenfactory phase, most have a hook contract
EXPORT_IMPORT_ONLY_TF = {t: dict(EXPORT_IMPORT_ONLY[t], VERIF_AUTH_FOCUS="tokenfactory") for t in EXPORT_IMPORT_ONLY}
PROPS = {
 "C12": {
  "modules": ["OsmoVerif.Props.C12", "OsmoVerif.Props.C12Str", "OsmoVerif.Props.C12Int"],
  "min_theorems": 108,
  "fingerprints": ["Osmomath.chop*", "Osmomath.incBasedOnRem*", "Osmomath.assertMaxBitLen", "Osmomath.BigDec_*", "Osmomath.NewBigDecFromStr",
                   "Osmomath.BigInt_*", "Osmomath.NewBigInt*", "Osmomath.MinBigInt", "Osmomath.MaxBigInt", "Osmomath.newIntegerFromString",
                   "Osmomath.unmarshalText", "Osmomath.NewBigDecWithPrec", "Osmomath.NewBigDecFromBigInt*", "Osmomath.NewBigDecFromIntWithPrec",
                   "Osmomath.NewBigDecFromDecMulDec", "Osmomath.BigDecFromSDKInt", "Osmomath.DivIntByU64ToBigDec", "Osmomath.MinBigDec", "Osmomath.MaxBigDec"],
  "engines": [{"name": "num", "kind": "pure", "n": {"quick": 60000, "thorough": 600000}, "shards": {"quick": 4, "thorough": 16}}],
  "rule": "stratified operand pairs (magnitude class x sign x remainder/tie class) for every modelled BigDec/Dec method; "
          "aliasing / mutation discipline on LIVE objects for every BigDec and LegacyDec method of the table (harness/cmd/pure/numalias.go): one systematic sweep "
          "method x receiver class x argument class (zero, one, minus one, one ulp, powers of ten, integers, extreme magnitudes, equal operands, the SAME object) per shard "
          "plus random cases: non-mutating methods leave receiver and arguments bit-identical (also when they panic) and return storage shared with neither (a random ...Mut "
          "operation is applied to the result, then to the operands, and the other side is read again); ...Mut methods update exactly the receiver, return it, leave a distinct "
          "argument alone and agree with the non-mutating twin on clones, also for x.opMut(x); alias chains of 3-6 mixed Mut / non-Mut calls over 2-4 shared variables are replayed "
          "by the value-semantic model (`num chain`) and an independent big.Rat reference; the special classes also pass through the value oracle; "
          "INTEGER side (harness/cmd/pure/numint.go): the whole osmomath.BigInt type and the sdk Int (constructors, Add/Sub/Mul/Quo/Mod and Raw forms, Neg, Abs, Min/Max, "
          "Int64/Uint64, comparisons, ToDec/ToLegacyDec, String/Marshal/MarshalTo/Size/JSON/amino round trips, the base-0 text decoders on canonical, exotic and malformed "
          "text), BigDec<->integer operations (MulInt64, QuoInt64, TruncateInt64, RoundInt64, NewBigDecFrom...WithPrec, BigDecFromSDKInt, NewBigDecFromDecMulDec) and "
          "DivIntByU64ToBigDec with every RoundingDirection incl. invalid ones; integer operand classes: 0, +-1, 2^k+{-1,0,1} for k around 63/64/255/256/511/512/1023/1024, "
          "powers of ten, int64/uint64 extremes, exact bit lengths, values next to the bound; Mul pairs whose bit lengths sum to bound-1..bound+2 (one systematic sweep per "
          "shard + random); Quo/Mod/QuoInt64 dividends q*m+r (r on / next to 0, m/2, m) of either sign with power-of-two and other divisors; "
          "a case is non-trivial when both operands are non-zero; distinct = distinct op lines",
  "trusted_base": ["Go math/big (modelled by Int.tdiv/tmod, Euclidean Mod by Int.emod, BitLen by Nat.log2, SetString(s, 0) by the scanner IntText.parseBase0 of Model/NumInt.lean)",
                   "aliasing/mutation of operands is a heap fact: checked by the engine on the implementation, not by a theorem",
                   "Lean core String runtime (legacy String.splitOn, String.foldl, Nat.repr) as specified by core/Batteries lemmas (Batteries.Data.String.Lemmas get/next/atEnd/extract_of_valid)"],
  "assumptions": ["BigDec string round-trip is a theorem over the model's own String functions (Props/C12Str: fromStr (toStr a) = some a iff |a| < 2^maxBitLen, none otherwise = finding F2 for every wide value); "
                  "JSON is the same text in quotes and is decided by correspondence + oracle only; binary round-trip has a theorem",
                  "the model's fromStr covers the outputs of String() and their malformed neighbours (optional '-', digits, optional '.' + 1..36 digits), not the full NewBigDecFromStr grammar; "
                  "LegacyDec.String/NewDecFromStr (18 decimals) are not modelled, so have no theorem (reference codec is proved for every precision p > 0)",
                  "LegacyDec and the sdk Int live in the module cache (cosmossdk.io/math, version pinned in Gen.Osmomath.sdkMathVersion)",
                  "BigInt / Int JSON is the decimal text in quotes: decided by correspondence (inner text) + oracle only; Float64 conversions are not modelled"],
  "explanation": "60+ theorems: each BigDec/Dec arithmetic method of the model returns the uniquely determined value of its rounding spec "
                 "(IsTrunc/IsCeil/IsHalfEven) for all operands of either sign, overflow fails iff the rounded result exceeds the bit bound; "
                 "text codec: exact round-trip bound for all values, shape/length/injectivity of String(), sign handling, accepted language of the decoder "
                 "(fromStr_eq_some_iff) and rejection of every malformed neighbour shape; integer side (Props/C12Int): BigInt Add/Sub/Mul return the exact result iff it "
                 "fits 1024 bits (the cheap pre-check of Mul never rejects a representable product), Quo truncates, Mod is Euclidean, QuoInt/QuoInt64 truncate toward zero for "
                 "either sign, MulInt exact iff it fits, DivIntByU64ToBigDec is ceiling / toward-zero / half-even-of-72 per mode for divisors below 2^63 (F70 above), "
                 "BigInt text and binary round trips for every value, accepted and rejected text; model tied to the Go code by bit-exact differential run.",
 },
 "C13": {
  "modules": ["OsmoVerif.Props.C13", "OsmoVerif.Props.C13SigFig", "OsmoVerif.Props.C13Log", "OsmoVerif.Props.C13Exp2",
              "OsmoVerif.Props.C13Pow"],
  "min_theorems": 92,
  "fingerprints": ["Osmomath.MonotonicSqrt*", "Osmomath.SigFigRound", "Osmomath.Exp2", "Osmomath.exp2ChebyshevRationalApprox",
                   "Osmomath.BigDec_LogBase2", "Osmomath.Pow", "Osmomath.PowApprox", "Osmomath.AbsDifferenceWithSign",
                   "Osmomath.BinarySearch*", "Osmomath.ErrTolerance_*"],
  "engines": [{"name": "math", "kind": "pure", "n": {"quick": 12000, "thorough": 150000}, "shards": {"quick": 4, "thorough": 16}}],
  "rule": "edge values (0, 1 ulp, 1, 2, 2-ulp, 512, 512+ulp, powers of two +-1 ulp, perfect squares +-1, sig-fig ties) and "
          "log-uniform random points per function; non-trivial = positive argument; distinct = distinct op lines",
  "trusted_base": ["700-bit big.Float reference series (harness/cmd/pure/bigfloat.go) for the one analytic bound that remains partly unproved (Pow/PowApprox precision outside [0.5,1.99]) and as an "
                   "independent cross-check of the proved ones on the sampled points",
                   "cosmossdk.io/math LegacyDec.Power/ApproxSqrt (modelled)",
                   "Mathlib real analysis (Real.logb, Real.log, Real.rpow, Real.exp with its explicit Taylor remainder) as the meaning of the true values in Props/C13Log and Props/C13Exp2"],
  "assumptions": ["PARTIAL: the Pow/PowApprox power precision is a theorem only on the middle of the domain (Props/C13Pow): bases in [0.5,1.5] (any exponent up to 1e8) and [1,1.99] "
                  "(exponents up to 100): Pow returns and |Pow(b,e)-b^e| <= max(1,b)^floor(e)*1e-8 (absolute 1e-8 for b <= 1; relative above 1, the absolute claim is refuted by a witness); "
                  "PowApprox within 1e-8*q/(1-q) for any |b-1| <= q < 1. It is FALSE below b ~ 0.4737 (F9; machine-checked witnesses at 0.4718/0.4631) and Pow panics near 2 "
                  "(F10; Pow(1.999999999999999999, 0.02) = none proved analytically); on (0.4737,0.5) and (1.99,2) it is decided by the engine's oracle against 700-bit references "
                  "on the sampled points only",
                  "FALSE as literally stated (witness theorems, tolerated by the oracle): TickLog is not within 1e-32*6932 absolutely - the coded constant tickLogOf2 has 33 significant "
                  "digits, so the result has a relative error 2e-33 (9.2e-28 at x = 2^64); Exp2 is not monotone in the last digits (adjacent inputs around 0.5 decrease by one ulp; "
                  "quasi-monotone within 2e-21 relative is proved); SigFigRound is not monotone/idempotent for tenToSigFig = 1 or not a multiple of ten (never passed by the code base)",
                  "proved for all inputs: Exp2 returns exactly on [0,512] and its relative error is <= 1e-21 there (documented 1e-18): rounding error <= 70e-36 against the exact rational function AND the analytic accuracy "
                  "|P(X)/Q(X) - 2^X| <= 1e-21 on [0,1] by a kernel-evaluated certificate (Taylor enclosure of 2^X at 39-decimal bounds of ln 2 + exact Taylor-shift bound of two degree-29 "
                  "rational polynomials on 16 subintervals); SigFigRound (half-unit bound sharp for 10^s, +1 ulp truncation for general t, grid form, idempotence s>=1, monotonicity for 10|t, "
                  "exact success condition); LogBase2 |error| <= 89e-36 (documented 1e-32), monotone, total; Ln/TickLog/CustomBaseLog error = base-2 error scaled by the base change + half an "
                  "ulp + the error of the coded constant (bounded by 40-digit enclosures of ln 2, ln 1.0001: Ln <= 63e-36 + 2.1e-37*|log2 x| <= 1e-33 on representable inputs, "
                  "TickLog <= 6.2e-31 + 1.5e-29*|log2 x|), Ln/TickLog monotone; monotone sqrt least-ness + monotonicity, domain guards, Exp2 integer exactness/split, binary-search postconditions"],
  "explanation": "theorems over the bit-exact model: discrete clauses by integer arithmetic; LogBase2 and derived logs by a real-valued (Mathlib) error analysis of the 300-iteration "
                 "squaring loop (invariant y/10^36 + 2^-i log2(x_i), per-step perturbation scaled by 2^-(i+1), truncated bit weights bounded by a potential); Exp2 by a rounding analysis against "
                 "the exact rational function plus a certified polynomial-bound checker over Q (Proofs/MathPoly) evaluated by the kernel; the model is tied to the Go code by differential run "
                 "(incl. 300-iteration log and 150000-iteration power series)",
 },
 "C14": {
  "modules": ["OsmoVerif.Props.C14", "OsmoVerif.Props.C14Mono", "OsmoVerif.Props.C14RoundTrip", "OsmoVerif.Props.TieGenCLTick", "OsmoVerif.Props.TieGenCLTickOps"],
  "min_theorems": 47,
  "fingerprints": ["CL.*"],
  "engines": [{"name": "tick", "kind": "pure", "n": {"quick": 60000, "thorough": 400000}, "shards": {"quick": 4, "thorough": 4},
               "env": {"thorough": {"VERIF_TICK_SWEEP": "1", "VERIF_TICK_SWEEP_STRIDE": "61"}}}],
  "rule": "ticks on decade boundaries +-2, range edges +-3, uniform over the swap-reachable and the extended range, out of range; sqrt prices on / "
          "one ulp around / strictly inside tick buckets; all four authorised spacings plus random ones; distinct = distinct op lines",
  "trusted_base": ["osmomath arithmetic as proved in C12/C13"],
  "assumptions": ["thorough tier additionally sweeps every 61st tick of the whole range per shard with the per-tick clauses (formula, strict monotonicity, "
                  "round trip, bucket edges); VERIF_TICK_SWEEP_STRIDE=1 enumerates all 6.1e8 ticks (about 40 min on 16 cores)"],
  "explanation": "theorems: closed formula of tick->price on the whole range, strict monotonicity of price AND sqrt price, bounds, out-of-range rejection, "
                 "spacing rounding spec, bucket containment AND completeness of the sqrt-price search (the candidate is the true bucket or the one above, so the +-1 correction always "
                 "suffices): round trip sp(t) -> t for every tick of [MinCurrentTick, MaxTick] and no spurious error for every sqrt price of [sp(MinCurrentTick), MaxSqrtPrice]; "
                 "model tied by differential run (the sweep still tests the round trip on the implementation).",
 },
 "C18": {
  "modules": ["OsmoVerif.Props.C18", "OsmoVerif.Props.C18Distr", "OsmoVerif.Props.TieGenMint"],
  "min_theorems": 50,
  "fingerprints": [],
  "engines": [{"name": "mint", "kind": "app", "n": {"quick": 3000, "thorough": 60000}, "shards": {"quick": 4, "thorough": 16}, "env": NO_EXPORT_IMPORT}],
  "rule": "histories = random valid parameter set (proportions summing to 1 with 1..18 decimals, each of the four proportions forced to 0 in a share of "
          "the histories, reduction factor/period, start epoch, 0..4 weighted receivers incl. empty addresses, drained vesting account, provisions from 0 / "
          "below one coin / exactly one coin up to the top of Dec) + a world (0-10 gauges created through real balancer pools and the incentives keeper, "
          "perpetual and not) + a distribution table built by real Update/ReplacePoolIncentives proposals (ValidateBasic + gov handler in a cache context: "
          "add, re-weight, remove with weight 0, remove all, gauge id 0, duplicate / unsorted / unknown / non-perpetual gauges, negative weights, empty) "
          "interleaved with consecutive epoch numbers fed to the real mint epoch hook through MultiEpochHooks (panicCatchingEpochHook); "
          "an evaluation is one epoch call or one proposal; non-trivial = epoch at/after the start epoch; distinct = distinct (history, op) lines",
  "trusted_base": ["cosmos-sdk bank/distribution keepers (modelled as ledgers)", "x/incentives reduced to: which gauges exist / are perpetual, AddToGaugeRewards = bank send + gauge coins (observed per gauge)"],
  "assumptions": ["the minted denom is distributable in x/incentives' sense (on mainnet it is the base denom; the test chain's `stake` gets a protorev route as the module's own tests do)",
                  "FALSE on the code (witness theorems + known findings F50-F52): AllocateAsset forwards everything - truncation dust stays in the pool-incentives module account and is "
                  "re-allocated next epoch; the weight ratio is rounded to 18 decimals before the multiplication; rounded ratios adding up to more than one make the hook fail for assets >= ~1e18",
                  "a failing mint hook (panic or error, caught by the epochs hook wrapper) from the start epoch on is judged a failing input of the property (epoch:hook-failed:<class>)"],
  "explanation": "theorems: allocation sums to the minted amount with truncated proportions and an empty mint account, reported-supply delta formula, "
                 "reduction exactly once per period over any number of consecutive epochs (induction), no mint before start; distribution table: cached TotalWeight = sum of the "
                 "record weights and records strictly sorted after EVERY history of Update/ReplaceDistrRecords (induction), removal subtracts the weight, empty / emptied table -> "
                 "community pool, conservation of AllocateAsset (gauges + community pool + what stays = asset), every minted coin accounted for over the whole epoch; "
                 "x/mint arithmetic regenerated by the expression translator, operator lists of DistributeMintedCoin, distributeDeveloperRewards, AllocateAsset, "
                 "Update/ReplaceDistrRecords, validateRecords pinned; tied by differential run through the real keepers",
 },
 "C16": {
  "modules": ["OsmoVerif.Props.C16"],
  "min_theorems": 22,
  "fingerprints": [],
  "engines": [{"name": "sumtree", "kind": "pure", "n": {"quick": 25000, "thorough": 400000}, "shards": {"quick": 4, "thorough": 16},
               "timeout": 12000}],  # a thorough shard is ~7 CPU-minutes; the default 3000 s was hit on a machine running 12 jobs per core
  "rule": "independent histories (reset m, m in 2..10,16,255) over keys of length 0..3 on a 3-4 letter alphabet (shared prefixes, "
          "empty key as nil and as empty slice); after every mutating op: raw-store dump of every internal node + 3 random queries "
          "replayed by the model (incl. `iter b e` / `riter b e` with any bound shape); the oracle compares get/split/prefix for every key of the closure, ~30 subset pairs, "
          "the 8 nil / empty-slice / key shapes of the SubsetAccumulation bounds, total, ordered iteration for ALL bound shapes (Iterator and ReverseIterator with (nil,nil), "
          "(begin,nil), (nil,end), (begin,end); bounds present or absent in the tree, the empty non-nil slice, begin<end, begin=end, begin>end; later keys that do / do not extend "
          "begin as a byte prefix) and store well-formedness with a plain Go map+sort reference; non-trivial = mutating op lines; distinct = distinct op lines",
  "trusted_base": ["cosmossdk.io/store dbadapter over cosmos-db MemDB (modelled as one sorted association list per level)",
                   "gogoproto (un)marshalling of Node/Leaf (empty Index decodes to nil; modelled by Ptr.isNil)",
                   "sdk Int overflow at 2^256 is not modelled (engine values stay below 2^80)"],
  "assumptions": ["theorems about Set/Increase/Decrease histories assume fan-out m >= 2 (NewTree accepts any uint8; production uses 10)",
                  "Remove is outside the proved fragment: statement + witnesses only (known findings F4/F5/F9); production (x/lockup) never calls Remove",
                  "T1 tie of the lockup fan-out constant and body fingerprints of tree.go/node.go are not yet in tools/extract"],
  "explanation": "WF invariant (levels concatenate to the level below including accumulations, node key = first child key, size <= m, "
                 "single root); accumulationSplit/get/subset/prefix/iterate equal the sorted-map answers on every WF store (induction over "
                 "levels); Set/Increase/Decrease preserve WF and are insert on the abstraction for every m >= 2 and every history "
                 "(induction over levels and over the history); TotalAccumulatedValue returns the value at the empty key (F3); removal: "
                 "leaf level proved right, internal levels refuted by witnesses.",
 },
 "C17": {
  "modules": ["OsmoVerif.Props.C17", "OsmoVerif.Props.TieGenEpochsOps"],
  "min_theorems": 45,
  "fingerprints": ["Epochs.*"],
  "engines": [{"name": "epochs", "kind": "pure", "n": {"quick": 24000, "thorough": 250000}, "shards": {"quick": 4, "thorough": 16}, "env": NO_EXPORT_IMPORT}],
  "rule": "histories of reset k (0-4 scripted subscribers) + 1-4 timers (durations 1ns..1 week, negative durations, zero start time, "
          "imported running timers, identifiers whose byte order differs from insertion order, malformed AddEpochInfo) + 200-260 blocks with "
          "non-decreasing times (regular, jitter, equal, exactly at / 1ns around the epoch end, around the start time, multi-epoch gaps) and a "
          "random script of ok/err/panic(4 kinds)/out-of-gas(3 kinds) outcomes with 0-3 partial writes per hook invocation; EVERY hook invocation "
          "first queries the epochs keeper through the context it is handed (GetEpochInfo of the signalling timer, AllEpochInfos, NumBlocksSinceEpochStart) "
          "and logs what it saw; a block is "
          "non-trivial when at least one timer ticks; distinct = distinct op lines",
  "trusted_base": ["Go time.Time / time.Duration arithmetic is exact integer nanosecond arithmetic inside years 1..9999 (model: Int ns since time.Time{})",
                   "cosmos-sdk CacheContext/cachekv write-back and IAVL prefix iteration order (exercised in-process by the engine, not modelled below the "
                   "association-list level)",
                   "a panicking BeginBlocker fails the block and nothing of it is committed (the engine realises this with a cache context that is written "
                   "back iff BeginBlocker returned; the model's stepBlock rolls back)"],
  "assumptions": ["int64 wrap of CurrentEpoch / block height (2^63 ticks) and time.Time overflow are not modelled",
                  "subscribers write only their own store (they READ the epochs keeper inside every hook; they do not call AddEpochInfo/DeleteEpochInfo or write the epochs store from inside a hook)",
                  "timers are never deleted (DeleteEpochInfo is not part of the modelled histories); signal_order is stated for timers added un-started, "
                  "grid additionally for any on-grid imported timer (grid_preserved)"],
  "explanation": "per-timer theorems (no tick before start, first tick sets start, <=1 epoch per block, tick iff strictly after the epoch end, grid "
                 "start+(n-1)*dur, signal history = prefix of start1,end1,start2,...) by induction over arbitrary histories (Reach); block-level theorems "
                 "(every subscriber once per signal in registration order, stores = fold of ok writes only, epoch state independent of hook outcomes, "
                 "out-of-gas propagates and cuts the invocation list) for arbitrary scripts; state visible to a subscriber INSIDE a signal (start n: the stored timer already is in epoch n, "
                 "started, on the grid, start height = this block; end n: still epoch n) for every invocation of every block; model tied to the real keeper + MultiEpochHooks + "
                 "ApplyFuncIfNoError by differential run incl. the partial state of panicking blocks.",
 },
 "C15": {
  "modules": ["OsmoVerif.Props.C15", "OsmoVerif.Props.TieGenAccum", "OsmoVerif.Props.TieGenAccumOps"],
  "min_theorems": 39,
  "fingerprints": ["Accum.*"],
  "engines": [{"name": "accum", "kind": "pure", "n": {"quick": 200000, "thorough": 1500000}, "shards": {"quick": 4, "thorough": 16}}],
  "rule": "independent histories (reset) of 20-250 API calls on the real accum package over a MemDB store: <=3 accumulators, <=6 position names, "
          "<=3 denoms, amounts with 0-18 decimals incl. tiny/huge/half-even ties/overflow; per history one naming world: classic, numeric ids with prefix relations "
          "(7,70,71,700), alphabetic prefixes, names next to / containing the key separator characters, the empty and 180-character names, accumulators whose names are "
          "prefixes of each other (acc, acc1, acc10) and position names that spell another accumulator's key tail; directed disappear paths (remove-all then claim, delete, "
          "zero-share claim) aimed at names that another live name extends; modes fresh-handle, one-handle (judged by the ledger oracle), stale-handles (2-4 live handles per "
          "accumulator out of 8 slots, every op through a randomly chosen, possibly stale one; judged by the whole-store oracle: shadow map of shares from the op arguments, "
          "only the op's own records change, recorded total shares - sum of position shares unchanged by every op) and discipline-breaking (correspondence only); every op "
          "line + full decoded store dumps are replayed by the Lean model; a case is non-trivial when it is not a getter/dump/reset; distinct = distinct op lines",
  "trusted_base": ["Go math/big (modelled by Int.tdiv/tmod)", "gogoproto (un)marshalling of AccumulatorContent/Record is the identity on in-range values (decoded store compared in every dump)",
                   "a panicking call is reverted by the caller's cache-wrapped store (stepTx); the engine flags and stops judging histories where a panic left an effect in the raw store"],
  "assumptions": ["theorems quantify over calls through a freshly fetched handle; a single long-lived handle per accumulator is covered by the engine's `one` mode (handle fields compared with the store in every dump), not by a theorem",
                  "interval (re-snapshot) ops are credited in the ledger as explicit shifts (V - iv) x shares; without interval ops the ledger is literally sum of growth x sharesThen",
                  "18-decimal half-even rounding of each settlement (MulDec) is part of the statement: |claimable - ledger| <= inexact * 0.5e-18 per denom, exact when no settlement rounded"],
  "explanation": "theorems over all finite op sequences (induction over the op list): total shares = sum of position shares; claim returns the truncated GetTotalRewards and resets "
                 "only the claimer; claimable refines the ghost ledger (sum of growth x sharesThen) within the counted half-unit roundings and exactly when representable; deleted / "
                 "empty-claimed positions disappear; unknown-position / non-positive-change calls and every error are no-ops. Model tied to the Go code by byte-exact differential run.",
 },
 "C08": {
  "modules": ["OsmoVerif.Props.C08", "OsmoVerif.Props.C08Inc", "OsmoVerif.Props.C08IncHist", "OsmoVerif.Props.TieGenCL", "OsmoVerif.Props.TieGenCLOps", "OsmoVerif.Props.TieGenCLTick"],
  "min_theorems": 164,
  "fingerprints": ["CL.Keeper_*", "CL.SwapState_*"],
  "engines": [{"name": "clmath", "kind": "pure", "n": {"quick": 30000, "thorough": 400000}, "shards": {"quick": 2, "thorough": 16}},
              {"name": "cl", "kind": "app", "n": {"quick": 1500, "thorough": 20000}, "shards": {"quick": 4, "thorough": 16}, "env": NO_EXPORT_IMPORT}],
  "rule": "cl: histories on one concentrated pool (scaling factor one or 10^27, chosen per history) through the real keeper: create incl. twin and k-fold positions, add, "
          "partial/full withdraw, swaps of both kinds/directions from 1 unit to draining, spread-reward collects by owner and non-owner, transfers, directed sequences "
          "accrue -> partial withdraw / add / transfer -> (swap) -> claim on the same position, incentive records (own denom each, start now or "
          "later), block-time advances incl. periods with zero active liquidity, incentive collects. NON-DEFAULT UPTIMES: per history a random non-empty subset of the six supported "
          "uptimes (1ns, 1m, 1h, 1d, 1w, 2w) is authorised (AuthorizedUptimes; one history in eight keeps the 1ns default), records are created on the authorised ones (and refused on the "
          "others), record lifetimes comparable with the uptime, block-time advances that put a position 1 ns below / exactly at / 1 ns above / above / far above / below an uptime, directed "
          "uptime sequences (new in-range position -> record(s) on the uptime -> time while young -> age-relative advance -> transfer (-> time) -> claim / partial / full withdrawal / add by the "
          "new owner | partial withdrawal -> claim | full withdrawal | add -> claim by the successor | collect on both sides of the uptime); oracles from the engine's own log of join times, "
          "records and block times: (a) incentives:transfer-changed-claimable:<uptime>:age-<class> / transfer-changed-join-time / join-time-differs-from-log:<op> (a transfer keeps what is "
          "collectable and forfeitable per denom, and the join time; add-to-position = full withdrawal + NEW position joining at the time of the add), (b) per op and denom, on branches synced to the "
          "block time: paid out + claimable + forfeitable (query) - emitted (keeper records) must not fall by more than the rounding dust (one unit per live position, one liquidity unit per "
          "division by the liquidity): incentives:forfeit-not-redeposited:<op>:<uptime> when the position acted upon was younger than the denom's uptime, else incentives:attributable-lost:<op>:<uptime> "
          "(forfeits of partial AND full withdrawals and of add-to-position reach the accumulators, or the withdrawer when no liquidity stays active; MsgCollectIncentives drops them: F80), "
          "(c) incentives:uptime-gate:young-position-collects / old-position-forfeits:<uptime>:age-<class> on every claimable query and claim; counters claim.* / uptime-gate.* / transfer.entitlement-checked* / "
          "conservation.* / time.age-target* per uptime and age class. After EVERY op the spread-reward state (accumulator, total shares, "
          "growth-outside of every tick, every position record incl. unclaimed, GetClaimableSpreadRewards of every position, fee balances) and the uptime-incentive state (six "
          "accumulators, tick uptime trackers, incentive records' remaining, every position's six uptime records, GetClaimableIncentives collected/forfeited, incentive balances, "
          "LastLiquidityUpdate) are compared with the Lean model (`clp fdump`, `clp idump`); incentive ops are model ops (`clp incentive/advance/sync/icollect`); oracles after every op: spread no-loss (balance - claimable <= dust), incentives (paid+claimable <= in-range time x rate x share, remaining, unmet uptime), "
          "and the fairness/solvency oracles on every solvency pass; incentive records that RUN DRY (classes dry / tiny / big / grain = a few units of 10^-18 per unit of liquidity on "
          "unscaled pools with liquidity >= 1e19 / several records of one denom and uptime ending at different moments / future starts), block-time jumps aimed exactly at, 1 ns / 1 s "
          "past, far past and just short of the moment a record is exhausted, idle jumps up to 90 days, sub-second advances, zero-liquidity gaps before the end; amount magnitude class per "
          "history (x1, x1e6, x1e12: liquidity from < 1 to >= 1e24 on both sides of the incentive scaling migration); zero-tolerance oracles on a branch synced to the block time: per denom "
          "paid out + claimable + forfeited <= emitted (keeper records) and <= sum of min(rate x qualifying time, amount) (engine's time log), + remaining <= deposited, incentive balance >= "
          "claimable + forfeited + remaining; per accumulator update (incentives:sync-*): credited per liquidity x liquidity <= record decrease x factor, decrease <= rate x elapsed; "
          "clmath: per-step growth arithmetic; distinct = distinct op lines",
  "trusted_base": ["osmoutils/accum as proved in C15", "cosmos-sdk bank", "C07 pool invariant (active liquidity, ticks = position boundaries, price-tick agreement)"],
  "assumptions": ["spread rewards: theorems over the state machine Model/CLFees.lean (= Model/CLPool.lean + accumulator, tick growth-outside, position records), tied to the keeper "
                  "by full-state comparison after every op; proved for all histories: growth-inside = growth while in range (crossings both directions, in-bucket moves, tick "
                  "init/removal), claimable = C15 formula over growth inside, twins, never-in-range, k-fold (raw bound), collect/withdraw/add/transfer neither lose nor duplicate "
                  "(second claim = 0 for both scaling factors)",
                  "SUM bound proved for all histories (sum_invariant / total_claimable_le_paid_in / spread_reward_solvency): (paid out + sum of claimable) x scale x 1e18 <= paid in x scale x 1e18 "
                  "+ (messages + positions)/2 x 1e18 raw x raw units (the half units are the half-even MulDec roundings of record settlements), hence paid out + claimable <= paid in for "
                  "histories of fewer than 2 x scale >= 2e18 messages, under the hypothesis that the claim queries of the state succeed (no overflow/negative-Sub panic; observed always "
                  "on the keeper: C[..:err] never occurs); total shares = sum of liquidity and second claim = 0 for both scaling factors are theorems",
                  "PARTIAL: the dust bound in the other direction (balance - claimable <= bound in steps/claims) is not a theorem: oracle rewards:spread-lost:*",
                  "uptime incentives: modelled in Model/CLInc.lean on top of CLFees (six uptime accumulators over DecCoins, tick uptime trackers, incentive records, position uptime records "
                  "with join time, claim with forfeit, re-deposit), compared with the keeper after EVERY op (`clp idump`) in pools on both sides of the incentive scaling migration; "
                  "theorems (Props/C08Inc): uptime growth inside = the same insideI function as spread rewards (grow / flip-on-crossing / keep laws reused; flips along a swap trace "
                  "preserve it), credited x liquidity <= record decrease x scale per pass, records only decrease over histories and never exceed what was funded, no liquidity => no "
                  "emission but LastLiquidityUpdate advances, unmet uptime => nothing collected, forfeits leave the incentive address only when < 1 unit of liquidity stays active, "
                  "collect = claimable query, owner only, transfer changes nothing, the incentive layer is conservative over the fee layer",
                  "uptime incentives over HISTORIES (Props/C08IncHist, induction over arbitrary message lists of the full model): invariant IncInv on every reachable state "
                  "(records = positions' liquidity per accumulator, total shares, trackers exactly on boundary ticks, normal forms, join times); uptime growth inside over a history = "
                  "start + accumulator growth of the messages that happened while the tick was in range; claim split by age against the join time fixed at creation (unmet uptime "
                  "never collected along any history); twins (incl. created in the same block) equal; never-in-range earns nothing; SUM bound: entitlements + records' remaining x factor "
                  "<= incentive balance x 1e18 x factor + 3e18 per message, hence sum of claimable <= incentive address balance for 3(#messages+#positions) < factor; emission accounting "
                  "per record: remaining = max(initial - sum of slots, 0), slot = floor(ns*1e9*rate/1e18) only for syncing messages with >= 1 unit of liquidity after the start; idle time "
                  "emits nothing and does not consume the record",
                  "second incentive claim = 0; PARTIAL: the dust bound in the other direction for incentives (forfeits of collectIncentives stay in the address by design) and the "
                  "converse of the slot characterisation up to the three silent Dec-overflow skips are not theorems: oracles incentives:* on the real keeper"],
  "explanation": "history model FOp/applyF/runF over CLFees.Fees; the pool component of every message is exactly the CLPool operation (C07's Inv carries over); invariant FullInv "
                 "by induction; growth inside expressed as insideI(cur, G, out(lower), out(upper)) with three laws (grow, flip on crossing, keep in bucket) and the fold over the swap "
                 "step trace (TraceOK derived from C07's loop invariant); records and claims by unfolding the accumulator calls",
 },
 "C20": {
  "modules": ["OsmoVerif.Props.C20"],
  "min_theorems": 60,
  "fingerprints": ["Auth.*"],
  "engines": [{"name": "auth", "kind": "app", "n": {"quick": 24000, "thorough": 240000}, "shards": {"quick": 4, "thorough": 16}, "env": NO_EXPORT_IMPORT}],
  "rule": "histories through the real msg servers of tokenfactory, lockup, concentrated-liquidity, superfluid, valset-pref and gamm(stableswap): factory denoms (incl. admin changes to users / "
          "module accounts / the pool address and renouncing), locks of lkd / uosmo / gamm-share / CL-share denoms with one gamm lock set up in EACH life-cycle state (bonded, unlocking, "
          "superfluid bonded / undelegating / undelegating+unlocking), CL positions (plain, with an underlying lock, superfluid staked; transfers), stableswap pools with / without a "
          "scaling-factor controller; then every object x every message type (incl. UnbondConvertAndStake, AddToConcentratedLiquiditySuperfluidPosition, the disabled "
          "UnlockAndMigrate..., DelegateBondedTokens, StableSwapAdjustScalingFactors, BeginUnlockingAll, UnPoolWhitelistedPool) x senders {owner/admin, RESOURCED stranger (holds liquid pool "
          "shares exceeding every lock, uosmo, eth/usdc, a validator-set preference, is on the force-unlock allow-list in most histories and sends what the owner could send), previous "
          "owner/admin, creator, the pool's own address (also resourced), module accounts incl. the lockup module account that holds all locked shares, gov, malformed}; for the stranger the same "
          "message is re-sent by the owner on a discarded branch (twin) and the rejection error is classified (reject-reason.* / able-reject.* counters); UnPoolWhitelistedPool is sent only by "
          "addresses without a lock of the pool and AddToConcentratedLiquiditySuperfluidPosition takes the new liquidity as an input (pool math not modelled); an evaluation is one message; "
          "non-trivial = not a message on an already renounced denom; distinct = distinct op lines",
  "trusted_base": ["cosmos-sdk bank/auth/staking keepers (ledger modelled as an association list; staking not modelled)",
                   "tx atomicity of baseapp (a message that errors is discarded): reproduced by the engine with a cache context",
                   "sets the model cannot compute are inputs: well-formed bech32 strings, maccPerms module accounts, existing contracts / validators, addresses with a validator-set "
                   "preference or delegation, the unpool allow-list",
                   "the test app's bond denom is switched to uosmo (as on the real chain) after the validator is set up"],
  "assumptions": ["the CL / lockup / superfluid / gamm math (liquidity, rewards, osmo-equivalents, lockup balances, pool exits, swaps, staking) is NOT modelled: only the authorisation decision, "
                  "the order of the checks and the owner/admin/lock/position record effect",
                  "senders are non-empty strings (ValidateBasic / signer extraction): a renounced admin is the empty string and the Go guard is a plain string "
                  "comparison (theorem renounced_empty_sender_witness)",
                  "governance module account is an administrator of TransferPositions by design (position.go isGovModuleSender)",
                  "UnbondConvertAndStake is sent with MinAmtToStake = 0 and lock id > 0 (id 0 converts the sender's own liquid shares: no owned object)"],
  "explanation": "one theorem per message: a sender other than the current owner/admin/controller gets (input state, err), for all states/arguments, whatever funds, pool shares or "
                 "preferences the sender holds; renounced admin is dead, and stays renounced over any history; mint/burn/force-transfer never change a module-account balance; new denoms are "
                 "always factory/<sender>/... and foreign namespaces are untouched (parse uniqueness proved); admin / lock-owner / position-owner records change only at the hands of the owner "
                 "(or gov); messages that name no object (BeginUnlockingAll, UnPoolWhitelistedPool) leave the locks of everybody else untouched; the disabled migration fails for everybody. "
                 "Tied by T1 guard facts extracted from the Go source (guards_pinned[_more], calls_pinned[_more], order_pinned[_more]) and by the differential run through the real msg servers; "
                 "independent oracle: unauthorised => error and no store write (all KV/transient stores of the cache context compared with the parent).",
 },
 "C06": {
  "modules": ["OsmoVerif.Props.C06", "OsmoVerif.Props.TieGenLockupOps"],
  "min_theorems": 61,
  "fingerprints": [],
  "engines": [{"name": "lockup", "kind": "app", "n": {"quick": 4000, "thorough": 40000}, "shards": {"quick": 4, "thorough": 16}, "env": NO_EXPORT_IMPORT}],
  "rule": "histories of 25-115 transactions: 3 owners (+ a stranger), 3 denominations (+ 1-2 CL share denominations cl/pool/<id> in a third of the histories; "
          "+ in 55% of the histories, class +names, 2-5 real HELD denominations whose names are related to every string lockup or its key layout treats specially: "
          "containing / ending with / a strict prefix of / an extension of / a case variant of the CL share prefix cl/pool (xcl/pool/1, ibc/cl/pool/1, gamm/cl/pool/1, "
          "uosmo/cl/pool, cl/poo, Cl/pool/1, the token-factory denominations factory/<owner A>/cl/pool/1 and factory/<owner A>/xcl/pool created and minted through "
          "the token-factory msg server; cl/pool, cl/pool/, cl/poolx, cl/pool/1x, cl/pool/999 = held coins that carry the prefix and are burned at withdrawal), of LP "
          "share names (gamm/pool/1 with gamm/pool/10, gamm/pool/1/x, gamm/pool/, xgamm/pool/1), of the synthetic-lock suffixes (real coins bar/superbonding/v1, "
          "foo/superunbonding/v1, uosmo/superbonding, bar/superbond, bar/super, foo/superbondingx/v1, xsuperbonding/v1) and of the base names (uosm, uosmox, uosmo/x, Uosmo, "
          "fooo, foo/, bar/x, barx); two transactions in five of such a history carry a related name, it may be the many-durations focus; every oracle runs for them; "
          "on discarded branches keeper CreateLock locks of 2-4 coins mixing the classes go through add / extend / partial begin-unlock keeping every coin on both sides / "
          "begin-unlock / 1ns-early attempt / UnlockMaturedLock, WithdrawMaturedLocks or keeper ForceUnlock: listed exactly once under each of their denominations, every "
          "coin back with the owner unless its name STARTS with the CL prefix (then burned, supply down by exactly that), accumulations restored), "
          "history class few-durations (5 durations, two 1ns apart; many locks share a duration key) or many-durations (a third of the histories: 11-25 pairwise "
          "distinct durations, more than the accumulation tree's fan-out, most locks in one focus denomination, one lock per duration first in ascending / "
          "descending / shuffled order, then whole (denomination, duration) buckets drained: begin-unlock in full or in parts that sum to the total, time advance "
          "to the bucket's last end time, unlock / withdraw / extend away); amount units 1 .. 2^241; duration bases seconds .. 30y; "
          "monotone block times incl. no advance, +1ns, exactly on / 1ns before an end time; MsgLockTokens (create or add-to-existing), keeper "
          "AddTokensToLockByID (also on unlocking locks), MsgExtendLockup, MsgBeginUnlocking (full, exact, partial -> split, too much, wrong denom, "
          "wrong owner), MsgBeginUnlockingAll, UnlockMaturedLock, WithdrawMaturedLocks(0/1/2/1000), MsgSetRewardReceiverAddress, MsgForceUnlock "
          "(whitelisted or not, full/partial), CL share locks created by the CL keeper (CreateFullRangePositionLocked / ...Unlocking -> mint + CreateLockNoSend) and "
          "then begun, split, extended, force-unlocked, withdrawn (burned) like any lock, malformed messages; every call in a cache context written on success "
          "only; an evaluation is one op line (transaction or query observation); VERIF_OPS counts transactions; after EVERY transaction the oracle recomputes "
          "from its own shadow lock list: lock records, module balance, per-owner conservation (CL pool shares: supply = locked, no account holds any; held coins: balance + "
          "locked = funded - withdrawn coins whose name starts with the CL prefix, bank supply = supply at funding - the same; a release that gives the owner less than the "
          "released locks hold is `release:coins-not-returned-to-owner:<name class>`), GetLocksDenom of every denomination as an id multiset, the "
          "accumulation of EVERY denomination at every duration any lock of the history ever had, each +-1ns, midpoints between neighbours, 0, -1, 2*max, MaxInt64 "
          "(each query under catch: a panic is a failing input), the coin-sum queries (module locked, account locked/unlocking/unlockable), the whole reference "
          "index decoded from the KV store, and 15 keeper list queries for every owner x denom with sampled durations/times of the closure; 60% of the histories end "
          "with an oracle-only keeper tail (not replayed by the model): synthetic locks (create / delete / matured deletion in the EndBlocker order, refused "
          "begin-unlock / extend / force-unlock messages), keeper ForceUnlock, BeginForceUnlock, SlashTokensFromLockByID (+ the CL burn variant), "
          "AddTokensToLockByID under a synthetic lock, RebuildAccumulationStoreForDenom / RebuildSuperfluidAccumulationStoresForDenom",
  "trusted_base": ["cosmos-sdk bank keeper (modelled as a ledger)", "osmoutils/sumtree Increase/Decrease/SubsetAccumulation (modelled as a map; C16; "
                   "the engine queries the real tree at every leaf boundary after every transaction)",
                   "byte encoding of the index keys is order-preserving and prefix-free (symbolic keys in the model; the engine decodes every real key)",
                   "the number of CL shares minted for a position (CL arithmetic, C03/C07) is an input of the model's clLock operation"],
  "assumptions": ["synthetic locks (superfluid) are not modelled in Lean; locks with synthetic locks cannot begin unlocking and appear only in the engine's oracle-only keeper tail",
                  "theorems cover message-reachable states plus the CL keeper's share locks: one denomination per lock (MsgLockTokens.ValidateBasic); keeper CreateLock with several denominations "
                  "and AddTokensToLockByID with a foreign denomination break index exactness (witness theorems, not reachable through messages)",
                  "per-owner conservation (balance + locked = funded) is stated for denominations without the CL share prefix; for CL share denominations the statement is "
                  "`cl_shares_never_paid_out` (no account balance ever grows) together with module balance = sum of live locks",
                  "the model's by-denomination queries are exact filters; the real *BeforeTimeDenom/ShorterDuration range iterators and the plain prefix iterators LockIteratorDenom / "
                  "AccountLockIteratorDenom would include denominations that extend the requested one and are used by no keeper query (the +names histories hold prefix-related "
                  "denominations and compare the id sets of every query in use); the accumulation-store key ranges of prefix-related denominations overlap (finding F55: rebuilds, "
                  "sum-tree root lookup) - the model keeps one map per denomination"],
  "explanation": "invariant (module balance = sum of live locks; accumulation(d) = sum over ALL live locks, unlocking or not, with duration >= d; index entries = "
                 "exactly addLockRefs' keys of every live lock) proved inductive over every operation (incl. CL share locks: minted in, burned out) and hence for every "
                 "history; 13 keeper queries proved exact; per-owner conservation; balance can rise only by the owner's own matured locks (unmatured locked amount never "
                 "decreases); CL shares never reach an account; failed op is a no-op; model tied to the real msg server/keeper by differential run",
 },
 "C03": {
  "modules": ["OsmoVerif.Props.C03", "OsmoVerif.Props.C03Limit", "OsmoVerif.Props.C03Dust", "OsmoVerif.Props.C03Ideal", "OsmoVerif.Props.TieGenCL", "OsmoVerif.Props.TieGenCLOps", "OsmoVerif.Props.TieGenCLTick"],
  "min_theorems": 175,
  "fingerprints": ["CL.*"],
  "engines": [{"name": "clmath", "kind": "pure", "n": {"quick": 40000, "thorough": 500000}, "shards": {"quick": 4, "thorough": 16}},
              {"name": "cl", "kind": "app", "n": {"quick": 1500, "thorough": 20000}, "shards": {"quick": 4, "thorough": 16}, "env": NO_EXPORT_IMPORT}],
  "rule": "clmath: stratified (liquidity, sqrt-price pairs from real ticks, remaining amounts around the amount needed to reach the target, all authorised spread factors) for "
          "amount deltas, next-price functions and the four within-bucket step functions; cl: histories on one concentrated pool with swaps of both kinds/directions from 1 unit "
          "to draining over overlapping/nested/abutting/gapped positions; directed swap classes: `limit` (more than the pool can absorb: partial fill at the min/max sqrt price, all "
          "four kinds, executed in the history and as probes on discarded branches of every young state) and `land` (the amount that ends EXACTLY on the n-th initialised tick ahead, n=1..3, "
          "from ComputeMaxInAmtGivenMaxTicksCrossed / CalcAmount0Delta / CalcAmount1Delta, +-1 unit); opening scripts that drain a lone full-range position of small liquidity to the price "
          "limit and back several times; spread factor zero in a third of the histories; oracle swap:* = integer amounts of EVERY executed swap against the exact rational curve between its "
          "start and end sqrt price over the ticks traversed, one-sided with zero tolerance (charged >= exact in / (1 - spread factor), paid <= exact out); distinct = distinct op lines",
  "trusted_base": ["osmomath arithmetic as proved in C12", "tick conversions as proved in C14"],
  "assumptions": ["whole-swap theorems (`swap_vs_exact_curve_reachable`, `swap_shortfall_bounded`, `there_and_back_no_profit`) hold for every state satisfying the C07 invariant, "
                  "hence for every reachable state with tick spacing > 0 and spread factor in [0, 1/2] (`SpfOK`; covers every authorised spread factor); Props/C03 runs with the "
                  "execution or the estimate price limit, Props/C03Limit with ANY caller-supplied price limit (finding `price_passes_limit_witness`: an exact-in swap with a positive spread "
                  "factor can end beyond a limit strictly inside a bucket, by less than one token's worth, only in its last step and only when completely filled)",
                  "bounded rounding (Props/C03 §9) is stated against the exact curve between the ACTUAL start and end sqrt prices of every step; the comparison with the ideal for the SAME "
                  "amount is Props/C03Ideal (ideal walk Spec/CLCurve.lean in exact rationals): amount out <= idealOut(net in) for both kinds, exact-in amount out > idealOut(net consumed - sumInSlack) "
                  "- steps*outLossU - 1 token, exact-out idealOut(charged less its roundings) <= delivered + sumOutSlack; the slacks are about one token per step plus liquidity*10^-24 "
                  "(price rounding), so the engine's 2*steps+4 units hold for liquidity below 10^24 tokens; the cl engine's oracle checks the same on the real keeper",
                  "estimates leaving state untouched is structural in the model (pure function) and checked on the implementation by store digests"],
  "explanation": "theorems are proved THROUGH the regenerated operator lists (Gen.CL.ops_*): a changed rounding operator in the Go source changes the model and breaks the unfolding obligations",
 },
 "C02": {
  "modules": ["OsmoVerif.Props.C02", "OsmoVerif.Props.C02C04", "OsmoVerif.Props.TieGenGammKeeperOps"],
  "min_theorems": 65,
  "fingerprints": ["Gamm.*"],
  "engines": [{"name": "gamm", "kind": "app", "n": {"quick": 2500, "thorough": 60000}, "shards": {"quick": 4, "thorough": 16}, "env": NO_EXPORT_IMPORT}],
  "rule": "histories of 40..140 messages on a fresh chain: 4 actors (one poor), 2..6 balancer pools (2..8 assets, weights 1:1..1:1048575, spread 0..0.5, "
          "also pools of LP shares) and stableswap pools (scaling factors 1..10^6); every join/exit kind, 1..4-hop exact-in and exact-out routes through both "
          "msg servers, direct sends to existing and future pool addresses, share transfers, taker fee default/pair overrides/whitelist incl. 0, 1 ulp, 100%; "
          "amounts from 1 unit to 1000x the reserve; an evaluation is one message (op line + full ledger dump); non-trivial = a message line",
  "trusted_base": ["cosmos-sdk x/bank and x/distribution keepers (modelled as the ledger Model/Ledger)",
                   "the pool-model results on each op line are produced by the engine calling the real pool structs' methods on private copies (pool math is C04)"],
  "assumptions": ["Props.C02: theorems hold for any pool-math results; the equality pool account = reserves + donations needs the history to "
                  "stay inside the pool-math contract (ghost flag `clean`, characterised by contract_swap/contract_exit/contract_join); "
                  "Props.C02C04 discharges the contract for histories whose pool-math results are those of Model/Gamm (mathIsGamm): inside the "
                  "contract iff no balancer exact-in swap answered with the entire out-reserve (iff Pow <= 0, F13), never with equal weights",
                  "tx atomicity (failed message = no state change) is the cache-context discipline of baseapp, reproduced by the engine"],
  "explanation": "trace refinement: the Lean model is the bank ledger + pool-record bookkeeping of the gamm keeper and the poolmanager router, replayed on every "
                 "message with the pool-math results of that step and compared with ALL balances, supplies and pool records of the real chain; theorems by induction "
                 "over arbitrary histories: share supply = total shares, token supplies constant, supply = sum of balances, pool account = reserves + donations "
                 "(inside the contract), exact per-hop accounting of trader / pool / taker-fee collector, third parties untouched",
 },
 "C07": {
  "modules": ["OsmoVerif.Props.C07", "OsmoVerif.Props.TieGenCL", "OsmoVerif.Props.TieGenCLOps", "OsmoVerif.Props.TieGenCLTick"],
  "min_theorems": 93,
  "fingerprints": ["CL.*"],
  "engines": [{"name": "cl", "kind": "app", "n": {"quick": 2000, "thorough": 30000}, "shards": {"quick": 4, "thorough": 16}, "env": NO_EXPORT_IMPORT}],
  "rule": "histories on one concentrated pool through the real keeper (create over overlapping/nested/abutting/gapped ranges incl. exactly on the current tick and at the range "
          "ends, add, partial/full withdraw, swaps of both kinds/directions from 1 unit to draining, swaps that end EXACTLY on an initialised tick (n = 1..3 ticks ahead, +-1 unit, both kinds "
          "and directions, followed by further swaps / LP ops / the everybody-withdraws pass), partial fills at the price limit, transfers); the bookkeeping oracle runs right after EVERY op; "
          "distinct = distinct op lines",
  "trusted_base": ["tick conversions as proved in C14/C14Mono", "osmomath arithmetic as proved in C12"],
  "assumptions": ["theorems are over the pool state machine Model/CLPool.lean, tied to the keeper by full-state comparison (pool, all ticks, all positions, balances) after ops; "
                  "positions with an underlying lock, CosmWasm hooks and the governance tick-spacing change are outside the model",
                  "clause (a) across swaps is proved for spread factors with 0 <= spf <= 1/2 (all authorised ones: `authorized_parameters_ok`)"],
  "explanation": "Inv = active liquidity / tick gross+net / stored-tick set / price-tick agreement / empty pool / id uniqueness, preserved by every op incl. the swap loop; reachable_inv by induction",
 },
 "C10": {
  "modules": ["OsmoVerif.Props.C10", "OsmoVerif.Props.C10Geom", "OsmoVerif.Props.TieGenTwap"],
  "min_theorems": 62,
  "fingerprints": ["Twap.*"],
  "engines": [{"name": "twap", "kind": "app", "n": {"quick": 5000, "thorough": 40000}, "shards": {"quick": 4, "thorough": 16}, "env": NO_EXPORT_IMPORT}],
  "rule": "two kinds of histories, half of the op budget each.  SINGLE-POOL: a fresh balancer (2 or 3 assets; random / unit / power-of-two / extreme balances and weights) or "
          "concentrated pool, then real ABCI blocks (FinalizeBlock+Commit) with irregular times (1 ms .. 13 h, sub-millisecond and equal block times, nanosecond parts): swaps, "
          "single-asset and proportional joins, exits, CL position create / withdraw-all (drain) / refill, idle blocks, pruning passes armed through the epoch hook with keep "
          "periods from 1 ns to 48 h and per-block deletion limits 1..200; queries (both strategies, both quote assets, ToNow) with start/end on, 1 ns / 1 ms "
          "around, between, before the first and after the last record and around the pruning cutoff.  WORLD (twap_world_test.go): a fresh chain with pools 1..12-15 or 1..257-259; "
          "the pools whose ids are prefixes / neighbours of each other in the decimal and little-endian key encodings (1, 2, 10, 11, 12, 25, 100, 101, 110, 255, 256, 257) are active "
          "balancer pools with 2-5 assets (1-10 pairs) or concentrated pools, the others inert fillers on the neighbouring keys; denoms from alphabets of prefix-related and "
          "byte-adjacent names (uusd/uusdc/uusdc.e/uusd-, abc/abcd/abc-/abc./abc/d/abcz, gamm/pool/1/10/100/11/2/256, zzz/zzzz/zz_z: lowest and highest valid denom characters next "
          "to the key separator); every block moves the price of a random subset of the pools; one block in four repeats its predecessor's timestamp with messages directed at pools "
          "updated in the predecessor (update rejected: record exists for this time) AND at untouched pools on both sides in changed-pool order; pruning passes with cutoffs on / 1 ns "
          "next to record times and per-block limits 5..200, before/after which every ordered pair of every active pool is asked both strategies on intervals inside / at the edge of / "
          "outside the keep window.  TRANSACTIONS (twap_tx_test.go): in half of the world blocks the price-moving messages are delivered the way a chain does, as transactions that "
          "run their messages in ONE branched context with its own gas meter, written back iff every message succeeded: committed (one message, two messages, two pools, multi-hop) "
          "and REVERTED after a pool changed inside the branch (multi-hop whose second hop fails: unattainable min-out on the same / another pool, pool does not exist; a later message "
          "of a 2-3 message transaction fails: swap min-out, join TokenInMaxs, exit TokenOutMins, on the same or another pool; out of gas in a later message, limit from a dry run), in "
          "per-pool patterns RS, SR, RR, RRS, RSR, SRS, RSS, R, S randomly merged over 1-3 pools, also in blocks that repeat a timestamp; what a transaction touched is read from the "
          "pools' bank balances / share supply; every pool with a COMMITTED change is expected in the block's record update whatever the changed-pool store says "
          "(update:changed-pool-has-no-fresh-record:<block class>[:after-reverted-tx-on-same-pool|:before-reverted-tx-on-same-pool|:reverted-tx-on-other-pool-in-block][:N-changed-pools], "
          "track:price-moving-message-not-announced[-inside-tx]:*), a pool touched only by reverted transactions is not announced and gets no record "
          "(track:pool-announced-without-committed-change, track:reverted-tx-changes-announced-pools, store:record-written-for-pool-that-did-not-change), and the interval since such a "
          "block is asked on every pool with reverted and committed transactions.  MANY POOLS: world histories with (seed + number of the world) odd promote the fillers to modelled "
          "two-asset pools (ids up to 312: the little-endian order of the changed-pool store differs from the numeric one) and run blocks that change N distinct pools with one small "
          "swap each, N over one half of 1, 2, 7, 8, 9, 15, 16, 17, 31..33, 63..65, 127..130, 255..258, 300 (the halves alternate: the four shards of a quick run cover all) plus two random "
          "sizes <= 300; the pools last / first in store order are asked over the blocks that follow.  TIME REPRESENTATION (twap_time_test.go): every question is asked with its two instants handed over as UTC, t.In(fixed zone UTC+5 / UTC-8 / +00:20 / "
          "+14:00 / -12:00 or tz database zone America/Los_Angeles, Asia/Kolkata, Australia/Lord_Howe, Pacific/Kiritimati), time.Unix(sec, nsec) with time.Local set to such a zone (and "
          "the host's), time.Parse(RFC3339Nano) of a string with an offset, time.Now().Add(..) (monotonic reading), start and end in two different zones; the primary question (model, "
          "own-log oracle) draws one of them, and 1-2 variants through the keeper API / client.Querier / the app's gRPC query router are compared with the UTC answer "
          "(query:answer-depends-on-time-location:*, query:answer-depends-on-api-path:*); one history in six hands FinalizeBlock / the next header a time with a non-UTC Location "
          "(observation counters only: the SDK context normalises it).  SUB-MILLISECOND STRUCTURE: block times on a millisecond boundary, 1-2 ns before / 1 ns after it, 0.3 / 0.7 ms into "
          "it; query times on and 1 ns around the boundaries next to record times; DIRECTED drain / refill histories (40% of the single-pool budget) on a concentrated pool (last position "
          "withdrawn / re-created) and on a balancer pool whose price sits at the 10^-18 rounding boundary (half-reserve swaps push it to zero and back), the drain record, the recovery "
          "record and the query start in the same millisecond / adjacent milliseconds / within 1 s / far apart, records inside the error period, error period from creation; every point "
          "(start = end) and interval around the last five records is asked with both strategies and judged from the engine's own log of block times and own pool reads "
          "(errorflag:not-flagged:* / errorflag:spurious:* / errorflag:strategies-disagree:*).  An evaluation is one op line (record update, block, query, prune, dump, getSpotPrices); "
          "non-trivial = answered query or state-changing op; distinct = distinct op lines",
  "trusted_base": ["osmomath Exp2 / LogBase2 / SigFigRound as modelled in C13 (bit-exact; their analytic bounds are theorems of Props/C13Log, C13Exp2, C13SigFig and are composed through the twap model in Props/C10Geom)",
                   "700-bit big.Float references (harness/engines/app/bigfloat_test.go) for the geometric clauses",
                   "the pool modules' spot prices are inputs (the engine's own read of the pool at the end of the block, cross-checked against the stored record)",
                   "store keys: the model's stores are keyed by the structured (pool, denom0, denom1, time); the byte layout is covered separately: the key constructors the keeper passes to "
                   "the store are regenerated from types/keys.go as token lists (tools/extract/gen_twap_keys.go) and the key-range theorems of Props.C10 are re-checked over them; "
                   "assumed: FormatTimeString is fixed-width and order preserving, iterators follow bytes.Compare; the engine's raw-store oracle (entries classified by their decoded "
                   "values) checks the ranges on the real store with prefix-related denoms and pool ids"],
  "assumptions": ["geometric TWAP vs the true T = 2^(weighted mean log2), min/max and reciprocity of the two quote directions are theorems over Mathlib reals (Props/C10Geom) for every "
                  "answered query whose accumulator difference is non-zero and whose prices carrying weight are in [0, MaxSpotPrice] (zero price = one, as coded): "
                  "|twap - T| <= (5e-8 + 1e-17) T + 2e-18 (3e-18 T + 1e-18 + 1e-36 before SigFigRound), min/max up to that bound (false without it: witness), product of the two "
                  "directions within 2rho + rho^2 + (1+rho) alpha (T + 1/T) + alpha^2 of 1 (<= 1.1e-7 for 1e-9 <= T <= 1e9; product 0 at MaxSpotPrice: witness); the oracle's tolerance "
                  "(half a unit of the 8th significant figure [of the 8th decimal for values >= 0.1] + 2e-18 + 1e-17 relative) is the same bound with the sharper grid form of SigFigRound; "
                  "excluded cases = finding F14 (accumulator difference 0: all prices one, logarithms that cancel, interval inside one millisecond: answer 0; witness theorems)",
                  "totality of the geometric strategy is a theorem RELATIVE to the arithmetic one (geom_answered_whenever_arith_answered: same endpoint records; prices in [0, MaxSpotPrice] keep the "
                  "mean logarithm in [-60, 128], inside Exp2's domain; interval at most 2^63 ms); NOT a theorem: that the endpoint records can be interpolated at all (Dec range checks of the "
                  "three accumulators over a realistic history) - common to both strategies, differential run",
                  "times are representable by UnixNano and block times never decrease (the second rejection branch of updateRecord, record time after block time, is unreachable "
                  "through blocks; missing most recent records / record count mismatch are unreachable through messages: only the repeated-timestamp rejection is generated)",
                  "pruning is modelled as a completed pass; the engine only compares the historical index with the model between passes"],
  "explanation": "theorems for every history (induction over updates and pruning passes): accumulators are exact integrals of the recorded prices, arithmetic TWAP = "
                 "truncated time-weighted mean with explicit overlap weights (incl. interpolation), between min and max, point intervals, pruning never changes an "
                 "answer at or after the cutoff, flag iff an error record is in force, geometric TWAP = Exp2/SigFigRound closing of the weighted mean of twapLog; for the "
                 "module state of several pools and pairs: EndBlock's record loop treats every pool independently (what happens to pool B is a function of B's stores and inputs; "
                 "an acceptable pool ends the block with fresh records whatever the other pools did), pruning works pair by pair; over the regenerated key constructors the pruning "
                 "and lookup ranges hold exactly the keys of their own (pool, pair) before / up to the time, for denoms and pool ids that extend each other included; "
                 "model tied to the keeper by differential run through the real app",
 },
 "C05": {
  "modules": ["OsmoVerif.Props.C05", "OsmoVerif.Props.TieGenRouter", "OsmoVerif.Props.TieGenRouterOps"],
  "min_theorems": 39,
  "fingerprints": [],
  "engines": [{"name": "router", "kind": "app", "n": {"quick": 2000, "thorough": 40000}, "shards": {"quick": 4, "thorough": 16}, "env": NO_EXPORT_IMPORT}],
  "rule": "histories = 2-3 balancer + 1-2 stableswap + 2-3 concentrated pools (full-range + narrow positions) over 4-5 denoms, 3-10 prior swaps/joins/positions, "
          "random default taker fee + per-pair overrides (MsgSetDenomPairTakerFee) + reduced-fee whitelist, then 12-25 messages: MsgSwapExactAmountIn/Out over "
          "random walks of 1-4 hops (1 in 6 may revisit pools; ~5% malformed: empty route, unknown pool, denom not in pool), MsgSplitRouteSwapExactAmountIn/Out with 2-4 legs, "
          "amounts from 1 unit to beyond the reserves, limits at/around the estimate (binding), fee/whitelist reconfiguration; an evaluation is one message or estimate; "
          "every message is also executed hop by hop through 1-hop messages on a branch of the same state and all stores are digested; distinct = distinct op lines",
  "trusted_base": ["the pool modules (balancer, stableswap, concentrated) are DATA for the model: per-hop pool answers are taken from the bank transfer / token_swapped events of the real execution "
                   "(and from the pool modules' own Calc* quotes for the estimate passes); their correctness is C02-C04's subject, not C05's",
                   "cosmos-sdk bank keeper, CacheContext (message atomicity is the handler's cache context; reproduced by the engine)",
                   "TakerFeeSkim runs with no taker-fee share agreements registered (no-op); trackVolume only writes volume statistics"],
  "assumptions": ["senders always hold enough of every denom (the model has no balances: insufficient-funds failures are not generated)",
                  "estimate = execution is a theorem under the stated hypotheses (each pool's quote equals its swap's amount on the same state; swaps leave OTHER pools' quotes unchanged; "
                  "distinct pools for exact-in; sender not whitelisted); that the real pool modules satisfy them is checked by the engine on every explored case, not proved",
                  "max_in_respected holds for split routes only; for a single routed exact-out swap the maximum bounds the first pool's input, not input + taker fee (known finding, refuted by witness)"],
  "explanation": "theorems for ALL routes and ALL pool functions (pools are arbitrary functions of an arbitrary state): the index loops of RouteExactAmountIn/Out equal the hop-after-hop composition "
                 "of the single-pool swaps with the per-hop taker fee (incl. which hop meets the caller's limit and how estimates become per-hop outputs/maxima), split = sum of legs in sequence, "
                 "estimate = execution (exact-in: distinct pools; exact-out: every route, decided by the first hop), min-out for routes and splits, max-in for splits, failure atomicity, "
                 "taker fee = amount*fee rounded up (exact-in) / exactly ceil(amount/(1-fee)) (exact-out), whitelist and per-pair override semantics; model tied to the real msg server by differential run.",
 },
 "C09": {
  "modules": ["OsmoVerif.Props.C09", "OsmoVerif.Props.TieGenIncentives"],
  "min_theorems": 27,
  "fingerprints": ["Incentives.*"],
  "engines": [{"name": "incentives", "kind": "app", "n": {"quick": 20000, "thorough": 300000}, "shards": {"quick": 4, "thorough": 16}, "env": NO_EXPORT_IMPORT}],
  "rule": "histories = one chain state each: 12 pool-owned empty perpetual gauges (imported as creategauge lines) + random lock gauges (perpetual / 1-6 epochs, "
          "2 lock denoms, the chain's lockable durations, 1-3 of 6 reward denoms incl. the base denom, \"stake\" and four pool-priced ones, amounts from the "
          "spam range to 1e8, start 2h before / at / 30min, exactly 1h, 1h+1ns, 1-4h after now, rejected variants), top-ups of any id and (1 in 4) of a gauge of the "
          "finished store, 3 lock owners locking / topping up / begin-unlocking (full and split) / re-addressing rewards to 5 addresses / maturing, the protorev "
          "routes of rewb / rewe / rewz toggling, MinValueForDistribution 0 / 1..10000 / 1e15 converted through real pools: balancer pools at 1:2..1:50, in 1 of 4 "
          "histories a balancer pool pricing rewe at 1e9 base units (its quote of the minimum FAILS), a concentrated pool for rewz that in half of the histories "
          "prices it at 1e9 base units (its quote of the minimum is 0), several gauges and denoms per epoch sharing the minimum-value cache, 1-4+ qualifying "
          "locks per gauge, 4-12 epochs of 1-3 h through the real AfterEpochEnd in a cache context; an evaluation is one op line "
          "(reset/creategauge/addtogauge/routes/epoch/dump); non-trivial = creategauge, addtogauge and epoch lines; distinct = distinct op lines",
  "trusted_base": ["cosmos-sdk bank keeper (module account modelled as one ledger; SendManyCoins debits the queued total)",
                   "x/lockup lock store and msg server: locks are INPUT to the model (the engine reads GetLocksLongerThanDurationDenom(denom, 1ms), the query "
                   "the distribution itself uses, and cross-checks it with its own book of lock operations)",
                   "protorev route table + pool CalcOutAmtGivenIn: the QUOTE table (per routed denom the converted minimum, possibly 0, or `the quote fails`) is INPUT to the model "
                   "(read per epoch with the same calls the filter makes); the per-Distribute cache over it is modelled",
                   "the concentrated pool that prices rewz: its own NoLock gauge is removed again (incentives and pool-incentives stores restored) before the history starts",
                   "epoch hook wrapper's cache-context atomicity (reproduced by the engine)"],
  "assumptions": ["lock-based ByDuration gauges only: NoLock (concentrated-pool) gauges, group gauges / AllocateAcrossGauges and synthetic (superfluid) denoms are out of scope (not modelled, not generated)",
                  "lockable durations exceed 1ms (the per-denom lock cache of getDistributeToBaseLocks holds locks of at least 1ms); MinValueForDistribution is denominated in the base coin unit",
                  "the gauge creator can pay (only the credit to the module account is modelled); sdk.Int 256-bit overflow is not modelled",
                  "two sub-claims are false for the code and are proved false on witnesses (known findings F19 receiver, F21 spam rule); the positive theorems carry the exact guard; "
                  "the former findings F20 / F61 / F62 / F63 are repaired in the repository (fixed: 21bb9c1bc7, af3cbe6371, d4c28ad126) and their clauses are theorems for all inputs; "
                  "minimum-value quotes are coin amounts (not negative)"],
  "explanation": "for every history (induction over op lists from any configuration): distributed <= coins per gauge and denom; module balance >= remainder of all "
                 "(hence all unfinished) gauges and is debited by exactly what is queued; per processed gauge every qualifying lock gets, per denom, exactly "
                 "floor(remaining*lockAmt/(lockSum*remainingEpochs)) unless below the minimum / unpriced / zero - exactly the property's clause, with or without the per-Distribute cache: worth at least the configured minimum "
                 "converted through the route's pool quote (a zero quote admits every positive share, no route or a pool that cannot quote admits nothing and never fails the "
                 "epoch) -, addressed to its reward receiver, and under "
                 "consistent receivers every address receives exactly the entries addressed to it; upcoming -> active iff start <= block time; finished gauges are "
                 "never touched again and reject every top-up; finishing happens exactly in the epoch in which the number of epochs with a qualifying lock reaches numEpochs "
                 "(finished => filled = numEpochs, FULL); failing operations are no-ops. Model tied to the real keepers by differential run.",
 },
 "C04": {
  "modules": ["OsmoVerif.Props.C04", "OsmoVerif.Props.TieGenGammMath", "OsmoVerif.Props.C02C04", "OsmoVerif.Props.C04Real",
              "OsmoVerif.Props.C04Seq", "OsmoVerif.Props.C04Stable", "OsmoVerif.Props.C04Mid"],
  "min_theorems": 186,
  "fingerprints": ["GammMath.*", "Osmomath.Pow", "Osmomath.PowApprox", "Osmomath.AbsDifferenceWithSign", "Osmomath.BinarySearch*", "Osmomath.ErrTolerance_*"],
  "engines": [{"name": "gammmath", "kind": "pure", "n": {"quick": 6000, "thorough": 150000}, "shards": {"quick": 4, "thorough": 16}}],
  "rule": "in-memory balancer and stableswap pools (2-8 assets; reserves 1..10^30 balanced / strongly unbalanced / tiny; user weights 1..2^20-1, "
          "ratios up to 1:10^6; scaling factors 1..10^9 with reserves that are not multiples of them; spread and exit fees 0, a few ulps, 0.001..0.99); "
          "trade sizes from 1 unit over 1e-6, <1%, <30%, 30-50%, exactly 50%, 50-99%, reserve-1, up to 100x the reserve (balancer has no MaxInRatio) "
          "and the stableswap solver limit (input >= reserve); single-asset and all-asset joins, proportional exits, single-asset share formulas, raw "
          "kernels (solveConstantFunctionInvariant, cfmm/targetK/iterK, the solver with its post-condition, DivIntByU64ToBigDec), degenerate pools "
          "(zero reserves, zero scaling factor, shares >= total) and 3-7-op sequences on one pool (random, and exit/re-join round trips) tracking an actor; "
          "every op line carries the whole pool and is replayed by the Lean model; non-trivial = the real call succeeded; distinct = distinct op lines",
  "trusted_base": ["700-bit big.Float references (harness/cmd/pure/bigfloat.go) for the weighted product and the exact constant-weighted-product formula",
                   "osmomath arithmetic / Pow / binary searches as modelled and proved in C12/C13",
                   "sdk.Coins invariants (sorted, unique, positive) of every coins argument and pool assets sorted by denom (the constructors' invariants) are preconditions of the model"],
  "assumptions": ["PARTIAL: the real-valued clauses (stableswap invariant non-decreasing on the integer post-swap reserves; weighted product of reserves per share and "
                  "swap/join/exit results within the documented power precision |Pow(b,e)-b^e| <= 1e-8(1+b^e) (+1e-10(1+b^e) for the Dec roundings); no profitable "
                  "sequence at the pool's INITIAL spot prices) are NOT theorems in general: decided by the engine's oracle (exact rationals / 700-bit floats) on the explored inputs; "
                  "for balancer swap / single-asset join / exit whose trade size keeps the Pow base in [0.5,1.99] (token in <= in-reserve, 199*out <= 99*out-reserve, ...: MaxInRatio-style "
                  "conditions this tree does not enforce) the comparison with the exact formulas and the weighted-product bounds ARE theorems (Props/C04Mid, via Props/C13Pow)",
                  "proved for all inputs: proportional join and exit bounds, solver post-condition (RoundUp side, 1e-12, non-empty bounds, output below reserve), "
                  "final Int roundings given the Pow value, exactness and place of the spread factor, domain guards",
                  "this tree declares no MaxInRatio/MaxOutRatio (translator fact Gen.GammMath.MaxRatioGuardDeclared = false): Pow bases below 0.5 are reachable through balancer"],
  "explanation": "theorems over the bit-exact model for every discrete clause; model tied to the real pool-model packages by a differential run of stateless op lines "
                 "(calc and mutating variants, post-state included); the oracle evaluates the continuum clauses with tolerances derived from powPrecision",
 },
 "C11": {
  "modules": ["OsmoVerif.Props.C11", "OsmoVerif.Props.C11Refresh", "OsmoVerif.Props.TieGenSuperfluid", "OsmoVerif.Props.TieGenSuperfluidOps"],
  "min_theorems": 105,
  "fingerprints": [],
  "engines": [{"name": "superfluid", "kind": "app", "n": {"quick": 20000, "thorough": 200000}, "shards": {"quick": 4, "thorough": 16}, "env": NO_EXPORT_IMPORT}],
  "rule": "history 0 of every shard is the scripted witness of the recorded findings; then histories of five classes (random 25%, dust 20%, slash 25%, "
          "mixed 10%, fault 20%): 2-3 bonded validators (+1 address that is no validator), 3 owners, 1-2 superfluid-enabled share denoms (classic gamm pools; a "
          "concentrated pool's full-range shares in about a third of the histories) + 1 pool that is not enabled, risk factor in {0, .05, .25, 1/3, .5, "
          ".999..., 1}, multipliers k/2, k/3, tiny, large, integer, random; 40-160 ops: lock (1 .. 2e19 shares, durations = / > / < unbonding time, "
          "multi-coin), add-to-lock, delegate, undelegate, unbond, undelegate-and-unbond (full / partial / too much / zero), begin-unlock (full / partial), "
          "withdraw, lockup EndBlocker, time advances around the unbonding time, epochs preceded by 0-2 swaps / joins / exits in the real pools; wrong "
          "senders, missing lock ids, unknown validator.  Directed macros, interleaved with the random ops (1 in 6 steps is a random op): 'dust and "
          "recover' (1-3 locks worth 1-3 uosmo each on ONE intermediary account, refresh, a price fall by >= 4x - usually large enough that the value "
          "of all of them rounds to 0 -, refresh [everything force-undelegated, delegation record gone], optionally a dust / large top-up, a new "
          "delegation, an undelegation or a second refresh at the low price, price recovery by f/2, f or 2f, refresh, undelegate); 'slashed validator' "
          "(real StakingKeeper.Slash at the current height with fractions 1/3, 1/7, .01, .5, .05, 1e-6, .1, .25 and power = current / half / 1 / "
          "current+1, before and after delegations, then undelegate / partial undelegate-and-unbond / top-up, a refresh after a 2-10x fall [burn path], "
          "one after a 2-10x rise [mint path], more slashes); classes slash and mixed also slash at random points (7% of the ops).  Random slashes that would "
          "burn more than 60% of a validator's tokens are skipped.  FAULT class (and 1 in 5 macros of class mixed) - an INNER step of superfluid's all-or-nothing "
          "branches fails while the outer transaction survives: 'power overflow' (a delegated lock is topped up by shares worth exactly what takes the "
          "validator to 2^63 power units / one less / far more: staking's power index panics inside Delegate after mint+offset+send, ApplyFuncIfNoError "
          "recovers; then refreshes, price moves, further top-ups, undelegations, a second lock on the validator) and 'validator without tokens' (the REAL "
          "StakingKeeper.Slash with fraction 1 and power above the validator's: without a marked lock an ordinary slash line; with 1-3 delegated / one "
          "undelegating lock the composite op `slashrefill` = the slash that empties every marked lock + AddTokensToLockByID of every emptied lock by its "
          "owner in the same engine op [the hooks' mints are refused: ErrDelegatorShareExRateInvalid]; then top-ups of the delegated locks, refreshes after "
          "2-10x price moves, undelegations, undelegate-and-unbond, new locks delegated to the dead validator and to a healthy one, further slashes).  After "
          "1 op in 8 a FAULT PROBE on a discarded cache context (no op line): the branch itself (overlay export) with zero / negative / overflowing / "
          "at-the-limit amounts; the real 100% slash followed by top-up, IncreaseSuperfluidDelegation, refresh, undelegate; an overflowing top-up and its "
          "refresh; the bonded pool drained (InstantUndelegate fails after Unbond) under the burn branch, SuperfluidUndelegate and a refresh after a forced "
          "multiplier fall; the REAL StakingKeeper.Jail followed by mint, burn, an (overflowing) top-up and a refresh on the jailed validator.  Atomicity oracle: snapshots (bank supply, offset, reported supply, module / intermediary / staking-pool balances, every validator, "
          "every delegation record, markers, connections) right before every top-up, epoch, delegation and undelegation and around every probe call. "
          "An evaluation is one op with the full state compared (incl. every validator's tokens/shares and every intermediary account's delegation "
          "shares); non-trivial = every op except `advance`/`reset`; distinct = distinct op lines",
  "trusted_base": ["cosmos-sdk x/staking share arithmetic is MODELLED (Validator.Tokens/DelegatorShares, Delegate/AddTokensFromDel, ValidateUnbondAmount, "
                   "Unbond/RemoveDelShares incl. last-delegator rule, InstantUndelegate, Slash/RemoveValidatorTokens) and compared with the real keeper on every "
                   "op; trusted below that: bank module-account transfers of the bonded pool, distribution hooks (no rewards are allocated)",
                   "cosmos-sdk x/bank supply + supply offset (compared on every op)",
                   "x/gamm, x/concentrated-liquidity pools: the epoch's pool readings (OSMO backing, share supply / full-range liquidity) are inputs of the model; "
                   "so are the order in which GetAllIntermediaryAccounts iterates (by account address) and, for a slash, which concentrated-share locks the "
                   "concentrated-liquidity module refuses to prepare for slashing (observed on a discarded branch)",
                   "message-server atomicity is reproduced by the engine with a cache context written back on success only",
                   "cosmos-sdk DefaultPowerReduction (10^6) is a constant of the model (SuperfluidStaking.powerReduction); every reset line carries the real "
                   "keeper's PowerReduction and the driver refuses a history in which it differs"],
  "assumptions": ["PARTIAL by construction: jailed/unbonding validators and the staking EndBlocker's validator-set update, a lock left WITHOUT coins by a 100% slash "
                  "and not topped up (the 100% slash is modelled together with the top-ups of the locks it empties: composite op slashrefill / OpS.slashRefill, "
                  "whose lock parts are taken with the slash and whose hooks run after the validator update - disjoint state components), staking rewards and gauge distribution, asset removal by governance, UnbondConvertAndStake / unpool / "
                  "migration / position-level concentrated wrappers are outside the model; the generator stays inside the modelled regime",
                  "the epoch is SuperfluidKeeper.AfterEpochStartBeginBlock called directly and the lockup EndBlocker is its two keeper calls (no mint / "
                  "distribution BeginBlocker runs, so the OSMO supply is touched by superfluid and by slashes only)",
                  "the first part of Props/C11.lean (28 theorems) is over the rate-one ledger model Model/Superfluid.lean, the second part (23 theorems) over "
                  "Model/SuperfluidStaking.lean, which is the model the driver runs; that the two agree at exchange rate one is proved for the re-created "
                  "delegation (refresh_recreates_missing_delegation_rate_one) and otherwise only observed (the rate-one histories of the engine)",
                  "drift_le_locks_between_epochs is FALSE on the code (witness theorem + scripted history, F24): what is proved instead "
                  "(drift_between_epochs_partial, rate one) is exactness after the refresh and a distance of at most 1 + (number of stake adjustments since the refresh) base units",
                  "at an exchange rate != 1 'exactly after the refresh' is FALSE on the code (witnesses refresh_exact_at_rate_ne_one_witness, "
                  "refresh_burn_rejected_witness, stake_after_slash_witness; observations outside the property's quantifier (slashing), see DESIGN.md C11); proved instead: refresh_recreates_missing_delegation with its "
                  "explicit bounds; the general refresh bound at rate != 1 (|stake - expected| <= 1/2 + one token per force-undelegation on the validator) is "
                  "decided by the oracle only",
                  "the module's own invariant fails on the unchanged tree (F25)",
                  "fault-injection regimes (validator without tokens, validator at 2^63 power units): the stake clauses are recorded as observations "
                  "(outside-quantifier.stake:mint-blocked:*: the missing stake cannot be minted), the supply, marker and atomicity clauses are checked and proved; "
                  "the burn branch's inner steps cannot be made to fail through messages - they are reached by probes on discarded contexts with a drained bonded pool"],
  "explanation": "state invariant (per lock: plain / delegated with exactly one staking marker and a connection to the same account / undelegating with "
                 "exactly one unstaking marker ending no later than the lock can; staking accumulation store = sum over connected locks) proved preserved by "
                 "every entry point and so along every history (induction over the op list) - in the second part over the staking model with share "
                 "arithmetic, validator slashes (which cut lock amounts and accumulation stores but no marker) and epochs in any account order; from it: one "
                 "marker per delegated lock and conversely, unstaking marker ends exactly one unbonding time after the undelegation and survives every call "
                 "and every slash until matured, BeginUnlocking fails on delegated and undelegating locks, withdraw / EndBlocker cannot pay out a lock whose "
                 "unstaking marker has not matured, failed calls are no-ops; reported supply: mint offsets the minted amount, burn offsets the amount actually "
                 "paid out by RemoveDelShares, so supply + offset is constant along every slash-free history and falls by exactly the burnt amount at a slash "
                 "(reported_supply_invariant); refresh: sets every stake to the expected value exactly at rate one (first part), re-creates a missing "
                 "delegation with floor(S*e/T) shares worth (e - T/S', e] (second part). Failing inner steps: mintS returns an error and no state when Delegate "
                 "refuses a validator without tokens (mint_refused_without_tokens) or the power index would overflow (mint_refused_at_power_limit, threshold "
                 "powerOverflows_iff); the callers that swallow the error continue from the state they had: failed_mint_leaves_no_trace / failed_mint_is_swallowed "
                 "(top-up hook), topup_without_tokens_leaves_no_trace (whole AddTokensToLockByID), failed_refresh_branch_leaves_no_trace / "
                 "refresh_without_tokens_leaves_no_trace (epoch), burn_refused_without_tokens; reported_supply_invariant covers OpS.slashRefill and every such "
                 "history (reported_supply_invariant_with_failed_branches; failed_mint_history_example, power_overflow_history_example). Model tied to the real "
                 "keepers by differential run of the complete state after every op.",
 },
 "C19": {
  # Props.C19 imports the per-module genesis models and proofs added for the export/import half:
  # Model/{Lockup,Incentives,Twap,Superfluid,CLPool}Genesis, Proofs/{LockupGenesisSim,LockupGenesisOps,LockupGenesis,
  # IncentivesGenesisWF,IncentivesGenesis,IncentivesGenesisRun,TwapGenesis,SuperfluidGenesis,SuperfluidGenesisAccs,CLPoolGenesis}
  # Props.C19{TokenFactory,PoolManager,Gamm,MintEpochs,CL}: Model/{TokenFactory,PoolManager,Gamm,CLFull}Genesis and
  # Proofs/{TokenFactoryGenesis,PoolManagerGenesis,GammGenesis,DetEpochsReach,AccumGenesisReach,CLFullGenesis*}
  "modules": ["OsmoVerif.Props.C19", "OsmoVerif.Props.C19TokenFactory", "OsmoVerif.Props.C19PoolManager", "OsmoVerif.Props.C19Gamm", "OsmoVerif.Props.C19MintEpochs", "OsmoVerif.Props.C19CL"],
  "min_theorems": 132,
  "fingerprints": [],
  "engines": [{"name": "det", "kind": "app", "n": {"quick": 200, "thorough": 1600}, "shards": {"quick": 4, "thorough": 16}},
              # the module engines of C06/C09/C10/C11/C07 run the op `exportimport` (REAL ExportGenesis -> module store wiped -> REAL
              # InitGenesis, history continues) at random points and compare every later state line with initGenesis (exportGenesis s)
              {"name": "lockup", "kind": "app", "n": {"quick": 1500, "thorough": 20000}, "shards": {"quick": 2, "thorough": 8}, "env": EXPORT_IMPORT_ONLY},
              {"name": "incentives", "kind": "app", "n": {"quick": 8000, "thorough": 150000}, "shards": {"quick": 2, "thorough": 8}, "env": EXPORT_IMPORT_ONLY},
              {"name": "twap", "kind": "app", "n": {"quick": 2500, "thorough": 20000}, "shards": {"quick": 2, "thorough": 8}, "env": EXPORT_IMPORT_ONLY},
              {"name": "superfluid", "kind": "app", "n": {"quick": 8000, "thorough": 100000}, "shards": {"quick": 2, "thorough": 8}, "env": EXPORT_IMPORT_ONLY},
              {"name": "cl", "kind": "app", "n": {"quick": 1000, "thorough": 15000}, "shards": {"quick": 2, "thorough": 8}, "env": EXPORT_IMPORT_ONLY},
              # extension round: the engines of C20/C05/C02/C18/C17 borrowed the same way (tf.exportimport, router / gamm / mint / epochs
              # exportimport) and the two whole-store engines pm (x/poolmanager) and gammg (x/gamm incl. the total-liquidity store)
              {"name": "auth", "kind": "app", "n": {"quick": 2500, "thorough": 40000}, "shards": {"quick": 2, "thorough": 8}, "env": EXPORT_IMPORT_ONLY_TF},
              {"name": "router", "kind": "app", "n": {"quick": 250, "thorough": 5000}, "shards": {"quick": 2, "thorough": 8}, "env": EXPORT_IMPORT_ONLY},
              {"name": "pm", "kind": "app", "n": {"quick": 1200, "thorough": 30000}, "shards": {"quick": 2, "thorough": 8}},
              {"name": "gamm", "kind": "app", "n": {"quick": 600, "thorough": 12000}, "shards": {"quick": 2, "thorough": 8}, "env": EXPORT_IMPORT_ONLY},
              {"name": "gammg", "kind": "app", "n": {"quick": 600, "thorough": 12000}, "shards": {"quick": 2, "thorough": 8}, "env": EXPORT_IMPORT_ONLY},
              {"name": "mint", "kind": "app", "n": {"quick": 1200, "thorough": 20000}, "shards": {"quick": 2, "thorough": 8}, "env": EXPORT_IMPORT_ONLY},
              {"name": "epochs", "kind": "pure", "n": {"quick": 8000, "thorough": 100000}, "shards": {"quick": 2, "thorough": 8}, "env": EXPORT_IMPORT_ONLY}],
  "rule": "one evaluation = one compared observation: a block (node A vs node B in-process; vs a second OS process with GOMAXPROCS=2/GOGC=25), "
          "a module's exported genesis / a keeper query after export->import, a block of the imported+store-synchronised node. Histories of 40 blocks "
          "(n = blocks per shard) through the real ABCI surface (InitChain/FinalizeBlock with signed txs/Commit): 0-9 txs per block from 12 accounts over "
          "29 message kinds (bank, lockup, gamm balancer+stableswap, poolmanager swaps/split routes, CL pools/positions, tokenfactory, incentives gauges, "
          "staking/distribution, txfees fee tokens, protorev base denoms), ~8% low-gas txs (out of gas in ante / in the message), bogus and unauthorised "
          "messages; block gaps 1ns..3 days so hour/day/week epochs tick (mint with reduction period 2, incentives distribution, twap pruning, protorev); "
          "export after a random block. Extension: 32 message kinds incl. tokenfactory MsgForceTransfer / MsgBurn(from) / MsgMint(to) naming users, module accounts that exist and module accounts "
          "NOT created yet (the app creates most lazily; counters state.module-accounts-not-created-yet.*); before a block is delivered EVERY transaction of it is executed 8 more times "
          "on fresh throw-away branches of node A's committed state through the real message handlers: error, gas consumed (also at an out-of-gas abort), ordered events and the complete "
          "write set (recording multistore; x/auth account numbers included) must agree (nondeterminism:gas|result|events|raw-store:<msg kind>, nondeterminism:account-numbers); the same 8 "
          "executions for the keeper entry points behind sorted map ranges that no message reaches (gamm UpdateMigrationRecords, pool-incentives UpdateDistrRecords, lockup InitGenesis "
          "with > fan-out durations per denomination AND per synthetic denomination) and 16 calls of the pure ones (DisjointArrays, partialord TotalOrdering, IsJsonSuperset). At every "
          "export/import point every raw KV store of the imported node is compared with the exporting node key class by key class (export-import:derived-store-differs:<store>:<class>:<kind>; "
          "the classes the unchanged tree rebuilds differently are listed with their finding in derived_store_test.go and counted), the x/lockup accumulation store by meaning (decoded "
          "leaves of every denomination incl. synthetic ones against a from-scratch sum over the imported lock records, against the exporting chain, keeper answers against leaves); module "
          "engines: lockup (keeper tail with CLUSTERS of >=2 synthetic locks of one synthetic denomination at one synthetic duration on locks of other durations, then exportimport), "
          "superfluid (exportimport also runs x/lockup through export -> wipe -> import), incentives (reference stores and by-denom index compared as membership), twap/cl/superfluid (raw store byte for byte). "
          "Protorev round: the chain's genesis has two protorev base denoms (uosmo, usdc); blocks 2-3 of every history create balancer / stableswap / concentrated pools on both (two balancer pools of "
          "different depth on one pair), a first position in every concentrated pool and, in half of the histories, MsgSetBaseDenoms by the admin, so that the derived index (base denom, denom) -> "
          "highest-liquidity pool (store prefix KeyPrefixDenomPairToPool, not exported) is NON-EMPTY at every export (counters state.protorev.denom-pair-index-nonempty-at-export, "
          "...-has-non-osmo-base-at-export, ...-has-gamm-pool-entry-at-export, state.protorev.update-pools-ran-before-export). The index of the imported node is compared entry by entry with a from-scratch "
          "recomputation over the imported node's pools and with the exporting node (export-import:derived-store-differs:protorev:denom-pair-to-pool:<missing|extra|changed>[:<class of a recorded finding, computed "
          "from both nodes' pools>]); right after the import, before the imported node executes a block, both nodes are asked every lookup InitGenesis rebuilds (export-import:query:<module>.<lookup>): protorev "
          "GetPoolForDenomPair / NoOrder for every pair of denominations, poolmanager pool routes, pool-incentives pool->gauge / gauge->pool for every pool type and duration (+ no-lock gauges at their own duration), "
          "incentives gauge by id / upcoming-active-finished membership / per-denomination queries, twap most-recent records, CL full-range liquidity, tokenfactory creator index, txfees base denom and fee tokens, "
          "superfluid intermediary accounts and valset-pref preferences (the last two are not in this workload: compared but empty). "
          "non-trivial = block with >=1 tx / non-empty document; distinct = distinct op lines",
          "Module engines of the extension round: the histories of the owning property with the op exportimport at random points (auth: tokenfactory phase only, two in three histories with "
          "the no100 contract as before-send hook; router: directed setfee x / setdefault x / export / setdefault y / fee, share agreements and skim accumulators before exports; pm: the whole "
          "poolmanager store with a dump after every op; gamm/gammg: every C02 message with the total-liquidity store, gamm params and migration records; mint; epochs). "
  "trusted_base": ["cosmos-sdk baseapp/IAVL/cachekv (cachekv flushes in sorted key order: the committed hash depends on the set of writes of a block, not their order)",
                   "T1 map-range classifier tools/extract/gen_det.go: syntactic type resolution (cross-checked once against go/types: 37 of 582 range statements are over maps, "
                   "identical sets) and syntactic body classes sorted/commutative/readonly; everything else must be in the hand-audited table of Props/C19",
                   "the digest protocol: the Lean side of engine det is the identity on digests (the property compares two executions of the implementation)"],
  "assumptions": ["PARTIAL. Proved (all inputs, over the models): sorted-keys / lookup / commutative-fold / distinct-slot-scatter invariance under permutation of a Go map's "
                  "iteration order, instantiated for x/incentives distributionInfo, distributeSyntheticInternal and x/poolmanager TakerFeeSkim; export/import of the modelled "
                  "modules: sum tree (abstraction + all queries preserved, shape may differ), accumulator store (identity), epochs (identity up to CurrentEpochStartHeight, "
                  "bisimilar afterwards), mint (identity IFF no reduction happened: InitGenesis resets the provisions); "
                  "x/lockup (import is Sim-equivalent to the export on every reachable state, Sim is a bisimulation for all 9 operations and all 13 queries; the "
                  "accumulation tree of denom \"\" is dropped; InitGenesis swallows the error of InitializeAllLocks), x/incentives (import = activate the due upcoming "
                  "gauges + forget the finished ones, exactly; the imported chain follows the exporter through every later history except top-ups of gauges finished "
                  "at export time), x/twap (identity, or a PANIC when Validate rejects a record the chain itself wrote: witness), x/superfluid (identity), one "
                  "concentrated pool (identity). New reachable-state invariants proved for this: incentives RefsWF + coverage, superfluid unique intermediary "
                  "accounts, CL positions id-sorted. "
                  "x/tokenfactory (import = same authority metadata for every denom incl. renounced / foreign admins, possibly other record order, NO before-send "
                  "hooks; bisimulation over all 27 messages of the auth model), x/poolmanager (store restored by lookup except overrides equal to the default taker "
                  "fee, share agreements / alloyed pools / skim accumulators; FeeEq makes every router function equal; bisimulation except across a change of the "
                  "default taker fee), x/gamm (only the total-liquidity store changes: it becomes the sum over the pool records, which it already is on every clean "
                  "reachable state; constant-offset bisimulation), x/epochs and accumulator store on reachable states, x/mint reduction schedule, "
                  "x/concentrated-liquidity layered state (pool + spread-reward + uptime accumulators + incentive records + full-range record): on every reachable "
                  "state import = export minus the uptime records of dead positions, which no message or query can observe; full-range record recomputed (F41).",
                  "NOT proved, OBSERVED by engine det on the sampled histories only: independence of Go map iteration seeds, goroutine schedules, GC and wall clock "
                  "(two executions in one process + one in another OS process), and export/import of the whole app.",
                  "Tied by T1: every range over a map in app/, x/, osmoutils/, ante/, wasmbinding/ (non-test) is enumerated from the current source; a range whose body is not "
                  "recognisably order-insensitive must appear in Props.C19.auditedEffectful (14 sites audited by reading; 1 ORDER-DEPENDENT = finding F27; the two protorev UpdatePools sites were repaired, fix 94fb3c8).",
                  "export/import excludes module 08-wasm (ibc-go keeps its store service/VM in package globals: only the most recently constructed app of a process can export it; "
                  "a failing export panics inside a goroutine of ExportGenesisForModules). Superfluid, gov, authz, IBC transfers and wasm contracts are not in the workload "
                  "(their genesis documents are still exported/imported and compared, mostly empty).",
                  "imported nodes are started with x-crisis-skip-assert-invariants (F19d); every registered invariant is evaluated after InitChain instead.",
                  "app hashes are not compared across an import (IAVL versions differ); the imported node whose raw KV stores were synchronised with the exporter must reproduce "
                  "every tx result, gas, event, module export, query and raw store (staking HistoricalInfo, which embeds the app hash, excepted)."],
  "explanation": "65 theorems (mechanisms, distributionInfo/TakerFeeSkim instances, export/import of mint/epochs/sum-tree/accumulator/lockup/incentives/twap/superfluid/"
                 "CL pool incl. negative witnesses, the T1 obligations; extension round: tokenfactory, poolmanager, gamm, mint/epochs on reachable states, layered CL) "
                 "+ the module engines lockup/incentives/twap/superfluid/cl and auth (tokenfactory)/router/gamm/mint/epochs plus the whole-store engines pm and gammg running the op exportimport (REAL "
                 "ExportGenesis -> module store wiped -> REAL InitGenesis, history continues, every later state line compared with the Lean model) + engine det: per block app hash, "
                 "tx code/codespace/data/log/gas and ordered events of two in-process executions and a second process; export -> import -> per-module genesis, keeper queries, "
                 "invariants, remaining history; probes for the audited order-dependent sites.",
 },
 "C01": {
  "modules": ["OsmoVerif.Props.C01", "OsmoVerif.Props.C08IncHist", "OsmoVerif.Props.TieGenCL", "OsmoVerif.Props.TieGenCLOps", "OsmoVerif.Props.TieGenCLTick"],
  "min_theorems": 134,
  "fingerprints": ["CL.*"],
  "engines": [{"name": "cl", "kind": "app", "n": {"quick": 2000, "thorough": 30000}, "shards": {"quick": 4, "thorough": 16}, "env": NO_EXPORT_IMPORT},
              {"name": "clmath", "kind": "pure", "n": {"quick": 20000, "thorough": 300000}, "shards": {"quick": 2, "thorough": 16}}],
  "rule": "cl: histories on one concentrated pool through the real keeper by three accounts (create/add/partial+full withdraw/swaps of both kinds and directions from 1 unit to "
          "draining/collects/incentive creation on a random subset of the six uptimes authorised per history/time advances incl. age-relative ones/transfers); the solvency oracle (everybody claims and withdraws everything on a discarded branch; claimable sums <= "
          "balances) runs every few ops, after every directed sequence (landing exactly on a tick, records running dry, draining to the price limit) and at the end of every history; the "
          "incentive address must cover claimable + forfeited + the records' remaining amounts with zero tolerance after every op (incl. records that run dry between two accumulator "
          "updates, liquidity 1 .. >= 1e24, both sides of the incentive scaling migration); distinct = distinct op lines",
  "trusted_base": ["C03 rounding theorems", "C07 bookkeeping invariant", "cosmos-sdk bank"],
  "assumptions": ["theorems cover the PRINCIPAL balances of the pool address and the spread-fee transfers over the pool state machine (bit-exact with the keeper); the spread-reward "
                  "balance covering what is claimable is C08.spread_reward_solvency, the incentive address balance covering every claim and every record's remaining amount is "
                  "C08IncHist.incentive_solvency / total_claimable_incentives_le_balance (both over the layered models CLFees / CLInc, compared with the keeper after every op), plus the engine oracle",
                  "a withdrawal is shown never to be blocked by FUNDS; bit-length overflow of the amount arithmetic is excluded only by the engine's ranges",
                  "positions bound by a lock are outside the model"],
  "explanation": "potential argument in rationals: V0/V1 = sum over positions of the exact curve amounts at the current sqrt price; every op keeps bal >= V (deposits round up, "
                 "withdrawals round down, every swap step's in-amount is a whole number of tokens >= the exact amount and its out-amount <= exact, tick crossings change active "
                 "liquidity by the tick's net liquidity and V is continuous there)",
 },
}
