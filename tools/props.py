# Per-property configuration of ./check (engines, op counts, Lean modules, fingerprints).
PROPS = {
 "C12": {
  "modules": ["OsmoVerif.Props.C12"],
  "min_theorems": 40,
  "fingerprints": ["Osmomath.chop*", "Osmomath.incBasedOnRem*", "Osmomath.assertMaxBitLen", "Osmomath.BigDec_*", "Osmomath.NewBigDecFromStr"],
  "engines": [{"name": "num", "kind": "pure", "n": {"quick": 60000, "thorough": 600000}, "shards": {"quick": 4, "thorough": 16}}],
  "rule": "stratified operand pairs (magnitude class x sign x remainder/tie class) for every modelled BigDec/Dec method; "
          "a case is non-trivial when both operands are non-zero; distinct = distinct op lines",
  "trusted_base": ["Go math/big (modelled by Int.tdiv/tmod)", "aliasing/mutation of operands is a heap fact: checked by the engine on the implementation, not by a theorem"],
  "assumptions": ["string/JSON round-trip is decided by correspondence + oracle only (no Lean theorem over String); binary round-trip has a theorem",
                  "LegacyDec lives in the module cache (cosmossdk.io/math, version pinned in Gen.Osmomath.sdkMathVersion)"],
  "explanation": "40+ theorems: each BigDec/Dec arithmetic method of the model returns the uniquely determined value of its rounding spec "
                 "(IsTrunc/IsCeil/IsHalfEven) for all operands of either sign, overflow fails iff the rounded result exceeds the bit bound; "
                 "model tied to the Go code by bit-exact differential run.",
 },
 "C13": {
  "modules": ["OsmoVerif.Props.C13"],
  "min_theorems": 20,
  "fingerprints": ["Osmomath.MonotonicSqrt*", "Osmomath.SigFigRound", "Osmomath.Exp2", "Osmomath.exp2ChebyshevRationalApprox",
                   "Osmomath.BigDec_LogBase2", "Osmomath.Pow", "Osmomath.PowApprox", "Osmomath.AbsDifferenceWithSign",
                   "Osmomath.BinarySearch*", "Osmomath.ErrTolerance_*"],
  "engines": [{"name": "math", "kind": "pure", "n": {"quick": 12000, "thorough": 150000}, "shards": {"quick": 4, "thorough": 16}}],
  "rule": "edge values (0, 1 ulp, 1, 2, 2-ulp, 512, 512+ulp, powers of two +-1 ulp, perfect squares +-1, sig-fig ties) and "
          "log-uniform random points per function; non-trivial = positive argument; distinct = distinct op lines",
  "trusted_base": ["700-bit big.Float reference series (harness/cmd/pure/bigfloat.go) for the analytic error bounds",
                   "cosmossdk.io/math LegacyDec.Power/ApproxSqrt (modelled)"],
  "assumptions": ["PARTIAL: the continuum error bounds of Exp2 (rel 1e-18), LogBase2 (abs 1e-32), Pow (powPrecision) and the SigFigRound half-unit bound "
                  "are NOT theorems; they are decided by the engine's oracle against 700-bit references on the sampled points only",
                  "proved for all inputs: monotone sqrt least-ness + monotonicity, domain guards, Exp2 integer exactness/split, binary-search postconditions"],
  "explanation": "theorems over the bit-exact model for the discrete clauses; the model is tied to the Go code by differential run (incl. 300-iteration log and 150000-iteration power series)",
 },
 "C14": {
  "modules": ["OsmoVerif.Props.C14", "OsmoVerif.Props.C14Mono"],
  "min_theorems": 25,
  "fingerprints": ["CL.*"],
  "engines": [{"name": "tick", "kind": "pure", "n": {"quick": 60000, "thorough": 400000}, "shards": {"quick": 4, "thorough": 4},
               "env": {"thorough": {"VERIF_TICK_SWEEP": "1", "VERIF_TICK_SWEEP_STRIDE": "61"}}}],
  "rule": "ticks on decade boundaries +-2, range edges +-3, uniform over the swap-reachable and the extended range, out of range; sqrt prices on / "
          "one ulp around / strictly inside tick buckets; all four authorised spacings plus random ones; distinct = distinct op lines",
  "trusted_base": ["osmomath arithmetic as proved in C12/C13"],
  "assumptions": ["thorough tier additionally sweeps every 61st tick of the whole range per shard with the per-tick clauses (formula, strict monotonicity, "
                  "round trip, bucket edges); VERIF_TICK_SWEEP_STRIDE=1 enumerates all 6.1e8 ticks (about 40 min on 16 cores)"],
  "explanation": "theorems: closed formula of tick->price on the whole range, strict monotonicity of price AND sqrt price, bounds, out-of-range rejection, "
                 "spacing rounding spec, bucket containment of the sqrt-price search; model tied by differential run. Round-trip totality (sp(t) maps back to t) is tested (sweep), not proved.",
 },
 "C18": {
  "modules": ["OsmoVerif.Props.C18"],
  "min_theorems": 9,
  "fingerprints": [],
  "engines": [{"name": "mint", "kind": "app", "n": {"quick": 3000, "thorough": 60000}, "shards": {"quick": 4, "thorough": 16}}],
  "rule": "histories = random valid parameter set (proportions summing to 1 with 1..18 decimals, reduction factor/period, start epoch, 0..4 weighted "
          "receivers incl. empty addresses, drained vesting account) followed by consecutive epoch numbers fed to the real AfterEpochEnd; "
          "an evaluation is one epoch call; non-trivial = epoch at/after the start epoch; distinct = distinct (history, epoch) op lines",
  "trusted_base": ["cosmos-sdk bank/distribution keepers (modelled as ledgers)", "epoch hook wrapper's cache-context atomicity (reproduced by the engine)"],
  "assumptions": ["pool-incentives AllocateAsset runs with an empty distribution table in the engine (everything forwarded to the community pool)"],
  "explanation": "theorems: allocation sums to the minted amount with truncated proportions and an empty mint account, reported-supply delta formula, "
                 "reduction exactly once per period over any number of consecutive epochs (induction), no mint before start; tied by differential run through the real keepers",
 },
}
