# Per-property configuration of ./check (engines, op counts, Lean modules, fingerprints).
PROPS = {
 "C12": {
  "modules": ["OsmoVerif.Props.C12"],
  "min_theorems": 40,
  "fingerprints": ["Osmomath.chop*", "Osmomath.incBasedOnRem*", "Osmomath.assertMaxBitLen", "Osmomath.BigDec_*", "Osmomath.NewBigDecFromStr"],
  "engines": [{"name": "num", "kind": "pure", "n": {"quick": 60000, "thorough": 600000}, "shards": {"quick": 4, "thorough": 16}}],
  "rule": "stratified operand pairs (magnitude class x sign x remainder/tie class) for every modelled BigDec/Dec method; "
          "a case is non-trivial when both operands are non-zero; distinct = distinct op lines",
  "trusted_base": ["Go math/big (modelled by Int.tdiv/tmod)", "aliasing/mutation of operands is a heap fact: checked by the engine on the implementation, not by a theorem"],
  "assumptions": ["string/JSON round-trip is decided by correspondence + oracle only (no Lean theorem over String); binary round-trip has a theorem",
                  "LegacyDec lives in the module cache (cosmossdk.io/math, version pinned in Gen.Osmomath.sdkMathVersion)"],
  "explanation": "40+ theorems: each BigDec/Dec arithmetic method of the model returns the uniquely determined value of its rounding spec "
                 "(IsTrunc/IsCeil/IsHalfEven) for all operands of either sign, overflow fails iff the rounded result exceeds the bit bound; "
                 "model tied to the Go code by bit-exact differential run.",
 },
}
