#!/usr/bin/env python3
"""tools/mkseedws.py <Cnn> <wave>: scratch git worktree /tmp/seed<wave>_<Cnn> of /repo for an independent sub-agent that
writes seeded changes.  Contains ONLY the repository, the property text (PROPERTY.txt) and the build overlay (out/): nothing from /verif."""
import json, os, subprocess, sys
pid, wave = sys.argv[1], sys.argv[2]
wt = "/tmp/seed%s_%s" % (wave, pid)
subprocess.check_call(["git", "-C", "/repo", "worktree", "add", "-q", "--detach", wt, "HEAD"])
os.makedirs(wt + "/out/statik", exist_ok=True); os.makedirs(wt + "/out/tmp", exist_ok=True)
open(wt + "/out/statik/statik.go", "w").write("package statik\n")
os.symlink(wt, wt + "/out/osmosis")
json.dump({"Replace": {wt + "/client/docs/statik/statik.go": wt + "/out/statik/statik.go",
                       wt + "/out/osmosis/client/docs/statik/statik.go": wt + "/out/statik/statik.go"}}, open(wt + "/out/overlay.json", "w"), indent=1)
for l in open(os.path.join(os.path.dirname(os.path.dirname(os.path.abspath(__file__))), "properties.jsonl")):
    p = json.loads(l)
    if p["id"] == pid:
        with open(wt + "/PROPERTY.txt", "w") as f:
            f.write("%s — %s\n\nSTATEMENT\n%s\n\nQUANTIFIER\n%s\n\nANCHORS (where the behaviour lives)\n%s\n" % (
                p["id"], p["title"], p["statement"], p["quantifier"]["text"], json.dumps(p.get("anchors"), indent=1)))
# keep out/ and PROPERTY.txt out of `git status`
with open(subprocess.check_output(["git", "-C", wt, "rev-parse", "--git-path", "info/exclude"], text=True).strip(), "a") as f:
    f.write("\nout/\nPROPERTY.txt\n")
print(wt)
