#!/usr/bin/env python3
"""Rewrites the results table of DESIGN.md §8 (between the SEEDED-TABLE markers) from seeded/RESULTS.json."""
import os, subprocess, sys
ROOT = os.path.dirname(os.path.dirname(os.path.abspath(__file__)))
tab = subprocess.run([sys.executable, os.path.join(ROOT, "tools/seeded_table.py")], stdout=subprocess.PIPE, text=True, check=True).stdout
p = os.path.join(ROOT, "DESIGN.md"); s = open(p).read()
b, e = "<!-- SEEDED-TABLE-BEGIN -->", "<!-- SEEDED-TABLE-END -->"
i, j = s.index(b) + len(b), s.index(e)
open(p, "w").write(s[:i] + "\n" + tab + s[j:])
print("table rows:", tab.count("\n") - 2)
