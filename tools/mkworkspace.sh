#!/bin/sh
# tools/mkworkspace.sh <name> [norepo]
# Isolated scratch workspace for trying things in parallel without touching /verif or /repo:
#   /tmp/ws/<name>/verif  git worktree of /verif (branch ws-<name>) with the build outputs (.lake, .bin) copied
#   /tmp/ws/<name>/repo   git worktree of /repo at HEAD (detached)      [unless norepo]
# Use:  cd /tmp/ws/<name>/verif && VERIF_REPO=/tmp/ws/<name>/repo ./check Cnn quick
# Remove with tools/rmworkspace.sh <name>.
set -e
n="$1"; [ -n "$n" ] || { echo "usage: $0 <name> [norepo]"; exit 2; }
W=/tmp/ws/$n
mkdir -p /tmp/ws
git -C /verif worktree add -q -B "ws-$n" "$W/verif" HEAD
mkdir -p "$W/verif/lean" "$W/verif/.scratch"
cp -r /verif/lean/.lake "$W/verif/lean/.lake"
cp -r /verif/.bin "$W/verif/.bin"
cp -r /verif/lean/OsmoVerif/Gen "$W/verif/lean/OsmoVerif/" 2>/dev/null || true
if [ "$2" != "norepo" ]; then
  git -C /repo worktree add -q --detach "$W/repo" HEAD
fi
echo "$W"
