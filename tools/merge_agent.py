#!/usr/bin/env python3
"""merge_agent.py <agent verif dir> <Cnn> <engine> <pure|app> <runFunc> <StateField> <StateType> <InitExpr> <StepFunc> [importModule]
Copies the agent's NEW files into /verif and patches the dispatch files."""
import os, sys, shutil, filecmp, re
A, pid, eng, kind, runf, field, stype, init, stepf = sys.argv[1:10]
imp = sys.argv[10] if len(sys.argv) > 10 else None
R = "/verif"
def copy_new(sub, pat=None):
    src = os.path.join(A, sub)
    if not os.path.isdir(src): return
    for f in sorted(os.listdir(src)):
        s, d = os.path.join(src, f), os.path.join(R, sub, f)
        if os.path.isdir(s): continue
        if pat and not re.search(pat, f): continue
        if not os.path.exists(d):
            os.makedirs(os.path.dirname(d), exist_ok=True); shutil.copy(s, d); print("new", os.path.join(sub, f))
for sub in ["lean/OsmoVerif/Model", "lean/OsmoVerif/Spec", "lean/OsmoVerif/Proofs", "lean/OsmoVerif/Props", "harness/cmd/pure", "harness/engines/app", "tools/extract"]:
    copy_new(sub)
for dp, dn, fns in os.walk(os.path.join(A, "harness/overlays")):
    for f in fns:
        s = os.path.join(dp, f); d = os.path.join(R, os.path.relpath(s, A))
        if not os.path.exists(d) and "_statik" not in s:
            os.makedirs(os.path.dirname(d), exist_ok=True); shutil.copy(s, d); print("new overlay", d)
# props block
src = open(os.path.join(A, "tools/props.py")).read()
i = src.index(' "%s": {' % pid); j = src.index('\n },', i) + 4
p = os.path.join(R, "tools/props.py"); s = open(p).read()
if ' "%s": {' % pid not in s:
    s = s.rstrip().rstrip('}') + src[i:j] + '\n}\n'; open(p, "w").write(s)
# Main.lean
p = os.path.join(R, "lean/Driver/Main.lean"); s = open(p).read()
if imp and ("import " + imp) not in s:
    s = s.replace("import OsmoVerif.Model.DrvMint", "import OsmoVerif.Model.DrvMint\nimport " + imp)
if field + " :" not in s:
    s = s.replace("  mint : Mint.DrvState := Mint.initMint", "  mint : Mint.DrvState := Mint.initMint\n  %s : %s := %s" % (field, stype, init))
    s = s.replace('  | "mint" :: op :: args =>', '  | "%s" :: op :: args => let (x, o) := %s st.%s op args; ({ st with %s := x }, o)\n  | "mint" :: op :: args =>' % (eng, stepf, field, field))
open(p, "w").write(s)
# go dispatch
if kind == "pure":
    p = os.path.join(R, "harness/cmd/pure/main.go"); s = open(p).read()
    if 'case "%s"' % eng not in s:
        s = s.replace('\tcase "sumtree":', '\tcase "%s":\n\t\t%s(*seed, *n, *dir)\n\tcase "sumtree":' % (eng, runf))
else:
    p = os.path.join(R, "harness/engines/app/engine_test.go"); s = open(p).read()
    if 'case "%s"' % eng not in s:
        s = s.replace('\tcase "cl":', '\tcase "%s":\n\t\t%s(t, seed, n, dir)\n\tcase "cl":' % (eng, runf))
open(p, "w").write(s)
p = os.path.join(R, "lean/OsmoVerif.lean"); s = open(p).read()
if "Props.%s\n" % pid not in s:
    open(p, "a").write("import OsmoVerif.Props.%s\n" % pid)
print("merged", pid)
