# Human-written manifest texts per claimed property.
META = {
 "C12": {
  "text": "Lean 4 theorems (Props/C12.lean, 43): every modelled 36- and 18-decimal operation returns the value uniquely determined by its rounding spec (IsTrunc/IsCeil/IsHalfEven) for all operands of either sign; overflow fails iff the rounded result exceeds the bit bound; the model is tied to the Go code by a bit-exact differential run and to its constants by the regenerated Gen files.",
  "note": "Trusted: Lean kernel (+propext, Classical.choice, Quot.sound), translator, correspondence engine `num`, Go math/big. String/JSON round-trip and operand aliasing are checked on the implementation by the engine's big.Rat oracle, not proved. Known findings F2 (decoder bound), F8 (SDK LegacyDec.QuoRoundUp mixed sign); F1 repaired by a fix: commit.",
 },
 "C13": {
  "text": "Lean 4 theorems (Props/C13.lean, 23) for the discrete clauses: least-ness and monotonicity of both monotone square roots for every input, loud failure outside every function's domain, Exp2 exact on integers and its integer/fraction split, post-condition and bounds of both binary searches. PARTIAL: the continuum error bounds (Exp2 rel 1e-18, LogBase2 abs 1e-32, Pow precision, SigFigRound half unit) are not theorems; they are decided on sampled points by a 700-bit reference oracle.",
  "note": "Trusted: Lean kernel, engine `math` (bit-exact model/code agreement incl. the 300-iteration log and the 150000-iteration power series), big.Float reference series. Known findings F9/F10 (Pow precision / non-convergence for bases far from 1).",
 },
 "C14": {
  "text": "Lean 4 theorems (Props/C14.lean): out-of-range ticks and prices are rejected, RoundDownTickToSpacing equals t - (t mod spacing) with the stated bounds, and whenever the sqrt-price search returns a tick its bucket contains the sqrt price (lower edge inclusive, upper exclusive). Monotonicity/closed-formula theorems are being added (Props/C14Mono.lean); until then those clauses are decided by the engine's per-tick oracle (thorough tier sweeps the tick range).",
  "note": "Trusted: Lean kernel, engine `tick` (bit-exact model/code agreement), big.Rat closed formula in the oracle. PARTIAL until C14Mono lands: strict monotonicity and the round trip are tested (incl. strided/exhaustive sweeps), not proved.",
 },
}
NOT_APPLICABLE_REASONS = {}
ENGINES = [
 {"name": "num", "path": "harness/cmd/pure/num.go", "serves_properties": ["C12"], "kind_free_text": "in-process Go driver of osmomath.BigDec/Dec with big.Rat oracle; op stream replayed through the Lean model"},
 {"name": "math", "path": "harness/cmd/pure/math.go", "serves_properties": ["C13"], "kind_free_text": "in-process driver of osmomath approximate math with 700-bit reference oracle; replayed through the Lean model"},
 {"name": "tick", "path": "harness/cmd/pure/tick.go", "serves_properties": ["C14"], "kind_free_text": "in-process driver of CL tick/price conversions with closed-formula oracle and full-range sweep; replayed through the Lean model"},
]
