# Human-written manifest texts per claimed property.
META = {
 "C12": {
  "text": "Lean 4 theorems (Props/C12.lean, 43): every modelled 36- and 18-decimal operation returns the value uniquely determined by its rounding spec (IsTrunc/IsCeil/IsHalfEven) for all operands of either sign; overflow fails iff the rounded result exceeds the bit bound; the model is tied to the Go code by a bit-exact differential run and to its constants by the regenerated Gen files.",
  "note": "Trusted: Lean kernel (+propext, Classical.choice, Quot.sound), translator, correspondence engine `num`, Go math/big. String/JSON round-trip and operand aliasing are checked on the implementation by the engine's big.Rat oracle, not proved. Known findings F2 (decoder bound), F8 (SDK LegacyDec.QuoRoundUp mixed sign); F1 repaired by a fix: commit.",
 },
 "C13": {
  "text": "Lean 4 theorems (Props/C13.lean, 23) for the discrete clauses: least-ness and monotonicity of both monotone square roots for every input, loud failure outside every function's domain, Exp2 exact on integers and its integer/fraction split, post-condition and bounds of both binary searches. PARTIAL: the continuum error bounds (Exp2 rel 1e-18, LogBase2 abs 1e-32, Pow precision, SigFigRound half unit) are not theorems; they are decided on sampled points by a 700-bit reference oracle.",
  "note": "Trusted: Lean kernel, engine `math` (bit-exact model/code agreement incl. the 300-iteration log and the 150000-iteration power series), big.Float reference series. Known findings F9/F10 (Pow precision / non-convergence for bases far from 1).",
 },
 "C14": {
  "text": "Lean 4 theorems (Props/C14.lean, Props/C14Mono.lean, 27): tick->price equals the documented geometric/additive closed form on the whole supported range, is strictly increasing and in bounds; tick->sqrt-price is total, in bounds and strictly increasing (both precision regimes and their boundary); out-of-range ticks/prices are rejected; RoundDownTickToSpacing = t - (t mod spacing) with the stated bounds; whenever the sqrt-price search returns a tick, that tick's bucket contains the sqrt price (lower edge inclusive, upper exclusive). PARTIAL: totality of the round trip sp(t) -> t (that the +-1 correction always suffices) is not a theorem; it is decided by the engine (thorough: strided sweep of the whole tick range; VERIF_TICK_SWEEP_STRIDE=1 enumerates all 6.1e8 ticks).",
  "note": "Trusted: Lean kernel, engine `tick` (bit-exact model/code agreement), big.Rat closed formula in the oracle.",
 },
 "C18": {
  "text": "Lean 4 theorems (Props/C18.lean): every epoch's allocation sums to the minted amount with each share the truncated proportion, the community pool takes the remainder and the mint account ends empty; exactly the integer part of the provision is minted; the provision is reduced exactly once per reduction period over ANY number of consecutive epochs (induction) and never before the start epoch; the reported-supply delta is characterised exactly (equal to the minted amount iff the receivers' truncated portions add up to the developer reward). Model tied to x/mint through the real app keepers.",
  "note": "Trusted: Lean kernel, engine `mint` (real keeper, bank, distribution through apptesting), SDK bank semantics. Known finding F7 (reported supply short by the receivers' truncation dust).",
 },
}
NOT_APPLICABLE_REASONS = {}
ENGINES = [
 {"name": "mint", "path": "harness/engines/app/mint_test.go", "serves_properties": ["C18"], "kind_free_text": "Go test binary embedding apptesting.KeeperTestHelper: real x/mint keeper driven epoch by epoch, balances/supply observed; replayed through the Lean model"},
 {"name": "num", "path": "harness/cmd/pure/num.go", "serves_properties": ["C12"], "kind_free_text": "in-process Go driver of osmomath.BigDec/Dec with big.Rat oracle; op stream replayed through the Lean model"},
 {"name": "math", "path": "harness/cmd/pure/math.go", "serves_properties": ["C13"], "kind_free_text": "in-process driver of osmomath approximate math with 700-bit reference oracle; replayed through the Lean model"},
 {"name": "tick", "path": "harness/cmd/pure/tick.go", "serves_properties": ["C14"], "kind_free_text": "in-process driver of CL tick/price conversions with closed-formula oracle and full-range sweep; replayed through the Lean model"},
]
