# Human-written manifest texts per claimed property.
META = {
 "C12": {
  "text": "Lean 4 theorems (Props/C12.lean, 43): every modelled 36- and 18-decimal operation returns the value uniquely determined by its rounding spec (IsTrunc/IsCeil/IsHalfEven) for all operands of either sign; overflow fails iff the rounded result exceeds the bit bound; the model is tied to the Go code by a bit-exact differential run and to its constants by the regenerated Gen files.",
  "note": "Trusted: Lean kernel (+propext, Classical.choice, Quot.sound), translator, correspondence engine `num`, Go math/big. String/JSON round-trip and operand aliasing are checked on the implementation by the engine's big.Rat oracle, not proved. Known findings F2 (decoder bound), F8 (SDK LegacyDec.QuoRoundUp mixed sign); F1 repaired by a fix: commit.",
 },
 "C13": {
  "text": "Lean 4 theorems (Props/C13.lean, 23) for the discrete clauses: least-ness and monotonicity of both monotone square roots for every input, loud failure outside every function's domain, Exp2 exact on integers and its integer/fraction split, post-condition and bounds of both binary searches. PARTIAL: the continuum error bounds (Exp2 rel 1e-18, LogBase2 abs 1e-32, Pow precision, SigFigRound half unit) are not theorems; they are decided on sampled points by a 700-bit reference oracle.",
  "note": "Trusted: Lean kernel, engine `math` (bit-exact model/code agreement incl. the 300-iteration log and the 150000-iteration power series), big.Float reference series. Known findings F9/F10 (Pow precision / non-convergence for bases far from 1).",
 },
 "C14": {
  "text": "Lean 4 theorems (Props/C14.lean, Props/C14Mono.lean, 27): tick->price equals the documented geometric/additive closed form on the whole supported range, is strictly increasing and in bounds; tick->sqrt-price is total, in bounds and strictly increasing (both precision regimes and their boundary); out-of-range ticks/prices are rejected; RoundDownTickToSpacing = t - (t mod spacing) with the stated bounds; whenever the sqrt-price search returns a tick, that tick's bucket contains the sqrt price (lower edge inclusive, upper exclusive). PARTIAL: totality of the round trip sp(t) -> t (that the +-1 correction always suffices) is not a theorem; it is decided by the engine (thorough: strided sweep of the whole tick range; VERIF_TICK_SWEEP_STRIDE=1 enumerates all 6.1e8 ticks).",
  "note": "Trusted: Lean kernel, engine `tick` (bit-exact model/code agreement), big.Rat closed formula in the oracle.",
 },
 "C18": {
  "text": "Lean 4 theorems (Props/C18.lean): every epoch's allocation sums to the minted amount with each share the truncated proportion, the community pool takes the remainder and the mint account ends empty; exactly the integer part of the provision is minted; the provision is reduced exactly once per reduction period over ANY number of consecutive epochs (induction) and never before the start epoch; the reported-supply delta is characterised exactly (equal to the minted amount iff the receivers' truncated portions add up to the developer reward). Model tied to x/mint through the real app keepers.",
  "note": "Trusted: Lean kernel, engine `mint` (real keeper, bank, distribution through apptesting), SDK bank semantics. Known finding F7 (reported supply short by the receivers' truncation dust).",
 },
 "C16": {
  "text": "Lean 4 theorems (Props/C16.lean, 23): on every well-formed tree (any height, any fan-out m >= 2) Get, SplitAcc, SubsetAccumulation (all bound combinations), PrefixSum, TotalAccumulatedValue and ordered iteration equal the sorted-map answers; Set/Increase/Decrease never panic, preserve well-formedness (internal aggregates = leaves) and act as insert on the abstract map, hence every query is right after ANY finite insert-only history from NewTree(m) (induction) - the fragment production (x/lockup) uses. PARTIAL: Remove - only the leaf level (Get, iteration) is proved correct; range sums after Remove are wrong in the real code (known findings F4, F5, F11 with machine-checked witnesses).",
  "note": "Trusted: Lean kernel, engine `sumtree` (bit-exact store dumps incl. internal nodes), sdk Int overflow not modelled. F3 (TotalAccumulatedValue) repaired by a fix: commit; F4/F5/F11 are keyed known findings on histories containing Remove.",
 },
 "C17": {
  "text": "Lean 4 theorems (Props/C17.lean, 30), all for unbounded histories: a timer never ticks before its start, the first tick sets the epoch start to the start time, at most one tick per block, tick iff block time is strictly after the epoch end, epoch starts stay on the grid start + n*duration for every reachable state, the signal history of a timer is exactly the canonical sequence start 1, end 1, start 2, ... (each once, in order), every subscriber is invoked once per signal in registration order and its store equals the fold of exactly its successful invocations' writes whatever the other subscribers do, an out-of-gas panic (value types only) propagates and the block commits nothing.",
  "note": "Trusted: Lean kernel, engine `epochs` (real keeper on a real multistore with scripted subscriber hooks incl. runtime panics and gas exhaustion; partial states of panicking blocks compared too). Not modelled: int64 wrap of epoch counters, time.Time overflow, subscribers writing the epochs store.",
 },
 "C15": {
  "text": "Lean 4 theorems (Props/C15.lean, 13), by induction over ALL finite operation lists under the property's discipline (a decidable predicate: names created only while absent, sorted coin arguments, each op through a freshly fetched handle): recorded total shares = sum of position shares; a claim returns the per-denomination truncation of unclaimed + growth*shares and leaves the stated dust, changes only the claimer's record, and a deleted or zero-share-claimed position disappears; the claimable amount refines a ghost ledger of sum over growth events of growth*sharesThen within (number of inexact settlements)*1/2*10^-18 per denomination and is EXACT when every product is representable; operations on unknown positions, non-positive share changes and every error leave the store unchanged.",
  "note": "Trusted: Lean kernel, engine `accum` (real osmoutils/accum on a MemDB store, full decoded store compared after every op), SDK DecCoins semantics (modelled with the proved LegacyDec operations). The one-long-lived-handle discipline is covered by the engine only.",
 },
}
NOT_APPLICABLE_REASONS = {}
ENGINES = [
 {"name": "accum", "path": "harness/cmd/pure/accum.go", "serves_properties": ["C15"], "kind_free_text": "real osmoutils/accum on a MemDB store with big.Rat ghost-ledger oracle; replayed through the Lean model"},
 {"name": "sumtree", "path": "harness/cmd/pure/sumtree.go", "serves_properties": ["C16"], "kind_free_text": "real osmoutils/sumtree on a MemDB store, raw node dumps + sorted-map oracle; replayed through the Lean model"},
 {"name": "epochs", "path": "harness/cmd/pure/epochs.go", "serves_properties": ["C17"], "kind_free_text": "real x/epochs keeper with scripted subscriber hooks (ok/err/panic/out-of-gas with partial writes); replayed through the Lean model"},
 {"name": "mint", "path": "harness/engines/app/mint_test.go", "serves_properties": ["C18"], "kind_free_text": "Go test binary embedding apptesting.KeeperTestHelper: real x/mint keeper driven epoch by epoch, balances/supply observed; replayed through the Lean model"},
 {"name": "num", "path": "harness/cmd/pure/num.go", "serves_properties": ["C12"], "kind_free_text": "in-process Go driver of osmomath.BigDec/Dec with big.Rat oracle; op stream replayed through the Lean model"},
 {"name": "math", "path": "harness/cmd/pure/math.go", "serves_properties": ["C13"], "kind_free_text": "in-process driver of osmomath approximate math with 700-bit reference oracle; replayed through the Lean model"},
 {"name": "tick", "path": "harness/cmd/pure/tick.go", "serves_properties": ["C14"], "kind_free_text": "in-process driver of CL tick/price conversions with closed-formula oracle and full-range sweep; replayed through the Lean model"},
]
