#!/usr/bin/env python3
"""Regenerates /verif/MANIFEST.json from tools/props.py + tools/manifest_meta.py (keeps it valid at all times)."""
import json, os, sys
ROOT = os.path.dirname(os.path.dirname(os.path.abspath(__file__)))
sys.path.insert(0, os.path.join(ROOT, "tools"))
from props import PROPS
from manifest_meta import META, NOT_APPLICABLE_REASONS, ENGINES
props = [json.loads(l) for l in open(os.path.join(ROOT, "properties.jsonl"))]
checks = []
for p in props:
    pid = p["id"]
    if pid not in PROPS or pid not in META:
        continue
    m = META[pid]
    checks.append({
        "property_id": pid,
        "quick_cmd": "./check %s quick" % pid,
        "thorough_cmd": "./check %s thorough" % pid,
        "evidence_file": "evidence/%s.json" % pid,
        "replay_cmd_template": "./check %s --replay {path}" % pid,
        "engine": ",".join(e["name"] for e in PROPS[pid]["engines"]),
        "level_claimed": {"category": "proof", "text": m["text"], "design_ref": m.get("design_ref", "DESIGN.md §5 " + pid)},
        "level_note": m["note"],
        "technique": m.get("technique", "Lean 4 proof over an executable model + differential correspondence with the Go code and independent property oracle"),
    })
claimed = {c["property_id"] for c in checks}
na = [{"property_id": p["id"], "reason": NOT_APPLICABLE_REASONS.get(p["id"], "not yet built in this round: model/engine still in progress (DESIGN.md §8 build order); no other technique is substituted")}
      for p in props if p["id"] not in claimed]
man = {
    "version": 1,
    "setup_cmd": "./setup.sh",
    "hooks": {"guard": "verif",
              "enable": "go build/test -tags verif -overlay /verif/harness/overlay.json: files under harness/overlays/<repo path> are ADDED to /repo packages at build time; nothing under /repo is edited for hooks",
              "baseline_off_cmd": json.load(open("/root/.vp/BASELINE.json"))["cmd"] if os.path.exists("/root/.vp/BASELINE.json") else "",
              "source_commits": [], "add_only": True},
    "engines": ENGINES,
    "checks": checks,
    "notes": "Every check is `./check <id> <tier>` (translator -> lake build of the property theorems -> axiom audit -> engine + Lean driver correspondence -> oracle -> evidence). Known findings: known_findings.json. See DESIGN.md.",
    "not_applicable": na,
}
json.dump(man, open(os.path.join(ROOT, "MANIFEST.json"), "w"), indent=1)
print("claimed:", sorted(claimed))
