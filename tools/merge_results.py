#!/usr/bin/env python3
"""tools/merge_results.py <branch> <property prefix>...: resolves a merge conflict in seeded/RESULTS.json by taking
HEAD's file and overriding the entries of the named properties with those of <branch>."""
import json, subprocess, sys
br, pre = sys.argv[1], tuple(sys.argv[2:])
ours = json.loads(subprocess.check_output(["git", "-C", "/verif", "show", "HEAD:seeded/RESULTS.json"]))
theirs = json.loads(subprocess.check_output(["git", "-C", "/verif", "show", br + ":seeded/RESULTS.json"]))
for k, v in theirs.items():
    if k.startswith(pre):
        ours[k] = v
json.dump(ours, open("/verif/seeded/RESULTS.json", "w"), indent=1)
