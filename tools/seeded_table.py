#!/usr/bin/env python3
"""Prints the markdown table of DESIGN.md §8 from seeded/RESULTS.json and the seeds' meta.json."""
import json, os, re
ROOT = os.path.dirname(os.path.dirname(os.path.abspath(__file__)))
res = json.load(open(os.path.join(ROOT, "seeded", "RESULTS.json")))
print("| seed | change (author's summary, shortened) | check | verdict | what fired |")
print("|---|---|---|---|---|")
for sid in sorted(res):
    r = res[sid]
    try:
        meta = json.load(open(os.path.join(ROOT, "seeded", sid, "meta.json")))
    except Exception:
        meta = {}
    summ = re.sub(r"\s+", " ", str(meta.get("summary", "")))[:150].replace("|", "/")
    if "retired" in r or meta.get("retired"):
        print("| %s | %s | - | retired | %s |" % (sid, summ, re.sub(r"\s+", " ", str(meta.get("retired") or r.get("retired")))[:160].replace("|", "/")))
        continue
    if "error" in r:
        print("| %s | %s | - | %s | |" % (sid, summ, r["error"][:60]))
        continue
    for p, c in r["checks"].items():
        fired = ""
        keys = []
        for m in re.finditer(r"^(?:key=|FAIL key=)(\S+)", c.get("replay_excerpt", ""), re.M):
            if m.group(1) not in keys:
                keys.append(m.group(1))
        if keys:
            fired = "oracle: " + ", ".join("`%s`" % k for k in keys[:3])
        if re.search(r"diverge|model .* impl|line \d+", c.get("replay_excerpt", "")[:400]) and not keys:
            fired = "model/implementation divergence"
        if c.get("broken"):
            fired += ("; " if fired else "") + re.sub(r"\s+", " ", c["broken"][0])[:120].replace("|", "/")
        if not fired and c.get("replay_excerpt"):
            fired = re.sub(r"\s+", " ", c["replay_excerpt"][:120]).replace("|", "/")
        print("| %s | %s | %s %s | %s | %s |" % (sid, summ, p, r.get("tier", ""), c["verdict"].replace("detected:", ""), fired))
