#!/usr/bin/env python3
"""Runs every engine twice with the same seed and compares the op streams: a seed must replay exactly
(every random choice from the one PRNG; no dependence on Go map order or the clock)."""
import os, subprocess, sys, shutil, filecmp
ROOT = os.path.dirname(os.path.dirname(os.path.abspath(__file__)))
sys.path.insert(0, os.path.join(ROOT, "tools"))
from props import PROPS
seen, bad = set(), []
only = set(sys.argv[1:])
for pid, cfg in sorted(PROPS.items()):
    for e in cfg["engines"]:
        key = (e["name"], e["kind"], tuple(sorted(e.get("env", {}).get("quick", {}).items())))
        if key in seen or (only and e["name"] not in only):
            continue
        seen.add(key)
        n = max(200, e["n"]["quick"] // 3)
        outs = []
        for i in (1, 2):
            d = os.path.join(ROOT, ".scratch", "dst_%s_%d" % (e["name"], i))
            shutil.rmtree(d, ignore_errors=True); os.makedirs(d)
            env = dict(os.environ); env.update(e.get("env", {}).get("quick", {}))
            if e["kind"] == "pure":
                cmd = [os.path.join(ROOT, ".bin/pure"), "-engine", e["name"], "-seed", "1000", "-n", str(n), "-out", d]
            else:
                cmd = [os.path.join(ROOT, ".bin/%s.test" % e["kind"]), "-test.run", "TestEngine", "-test.count=1", "-test.timeout=0"]
                env.update(VERIF_ENGINE=e["name"], VERIF_SEED="1000", VERIF_OPS=str(n), VERIF_OUT=d)
            subprocess.run(cmd, env=env, stdout=subprocess.DEVNULL, stderr=subprocess.DEVNULL)
            outs.append(d)
        same = all(os.path.exists(os.path.join(o, "ops.txt")) for o in outs) and filecmp.cmp(outs[0] + "/ops.txt", outs[1] + "/ops.txt", shallow=False) \
            and filecmp.cmp(outs[0] + "/impl.txt", outs[1] + "/impl.txt", shallow=False)
        print("%-12s %-5s %s %s" % (e["name"], pid, "same" if same else "DIFFERENT", dict(key[2]) or ""), flush=True)
        if not same:
            bad.append(e["name"])
        for o in outs:
            shutil.rmtree(o, ignore_errors=True)
sys.exit(1 if bad else 0)
