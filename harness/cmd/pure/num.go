package main

// Engine `num` (property C12): drives osmomath.BigDec / Dec with stratified
// operands, writes the op stream for the Lean model, and evaluates the property
// itself (exact rounding in the named direction, Mut == non-Mut, operands
// untouched, overflow fails, encodings round-trip) with big.Rat oracles that
// share no code with the model.

import (
	"fmt"
	"math/big"
	"math/rand"
	"sort"

	"github.com/osmosis-labs/osmosis/osmomath"
)

var (
	p36 = pow10(36)
	p18 = pow10(18)
	p72 = pow10(72)
)

func bd(raw *big.Int) osmomath.BigDec { return osmomath.NewBigDecFromBigIntWithPrec(raw, 36) }
func sd(raw *big.Int) osmomath.Dec    { return osmomath.NewDecFromBigIntWithPrec(raw, 18) }

// genRaw draws a raw value from magnitude classes. maxBits bounds the size.
func (g *Gen) genRaw(maxBits int, o *Out, tag string) *big.Int {
	var v *big.Int
	c := g.Intn(12)
	switch c {
	case 0:
		v = big.NewInt(0)
	case 1:
		v = big.NewInt(1)
	case 2:
		v = big.NewInt(int64(g.Intn(1000000)))
	case 3, 4: // 10^k + {-1,0,1}
		k := g.Intn(maxBits * 3 / 10)
		v = pow10(k)
		v.Add(v, big.NewInt(int64(g.Intn(3)-1)))
	case 5: // m * 10^k, small m
		k := g.Intn(maxBits*3/10 - 3)
		v = new(big.Int).Mul(pow10(k), big.NewInt(int64(1+g.Intn(999))))
	case 6, 7: // random bits, random length
		v = g.randBits(1 + g.Intn(maxBits))
	case 8: // moderate "realistic" amounts: up to 10^30 units with 36 decimals
		v = g.randBits(1 + g.Intn(220))
	case 9: // near the top of the range
		v = new(big.Int).Sub(pow2(maxBits), g.randBits(1+g.Intn(64)))
	case 10: // around 2^k
		k := g.Intn(maxBits)
		v = pow2(k)
		v.Add(v, big.NewInt(int64(g.Intn(3)-1)))
	default: // integer values (whole numbers) scaled
		v = new(big.Int).Mul(g.randBits(1+g.Intn(120)), p36)
		if v.BitLen() > maxBits {
			v = g.randBits(maxBits)
		}
	}
	if v.Sign() < 0 {
		v.SetInt64(0)
	}
	if g.Intn(2) == 0 {
		v.Neg(v)
	}
	o.Count(fmt.Sprintf("%s.class%d", tag, c))
	return v
}

// tieOperand returns q*P + r with r on / next to a rounding boundary.
func (g *Gen) tieOperand(P *big.Int, bits int) *big.Int {
	q := g.randBits(1 + g.Intn(bits))
	half := new(big.Int).Quo(P, big.NewInt(2))
	var r *big.Int
	switch g.Intn(7) {
	case 0:
		r = big.NewInt(0)
	case 1:
		r = big.NewInt(1)
	case 2:
		r = new(big.Int).Sub(half, big.NewInt(1))
	case 3, 4:
		r = new(big.Int).Set(half)
	case 5:
		r = new(big.Int).Add(half, big.NewInt(1))
	default:
		r = new(big.Int).Sub(P, big.NewInt(1))
	}
	v := q.Mul(q, P)
	v.Add(v, r)
	if g.Intn(2) == 0 {
		v.Neg(v)
	}
	return v
}

type numOp struct {
	name   string
	bScale string // "bd" (BigDec raw), "sd" (Dec raw), "int", "i64", "none", "nat"
	run    func(a, b *big.Int) *big.Int
	// exact returns the exact rational result and the rounding rule.
	exact func(a, b *big.Int) (*big.Rat, string)
	// outScale: overflow bound kind for the *result*: "bd" (1144 bits), "none"
	bound string
	mut   func(a, b *big.Int) *big.Int // mutating twin (nil if none)
}

func ratOf(n, d *big.Int) *big.Rat { return new(big.Rat).SetFrac(n, d) }

func numOps() []numOp {
	mulExact := func(scale *big.Int) func(a, b *big.Int) *big.Rat {
		return func(a, b *big.Int) *big.Rat { return ratOf(new(big.Int).Mul(a, b), scale) }
	}
	quoExact := func(scale *big.Int) func(a, b *big.Int) *big.Rat {
		return func(a, b *big.Int) *big.Rat {
			if b.Sign() == 0 {
				return nil
			}
			return ratOf(new(big.Int).Mul(a, scale), b)
		}
	}
	ex := func(f func(a, b *big.Int) *big.Rat, rule string) func(a, b *big.Int) (*big.Rat, string) {
		return func(a, b *big.Int) (*big.Rat, string) { return f(a, b), rule }
	}
	return []numOp{
		{"add", "bd", func(a, b *big.Int) *big.Int { return bd(a).Add(bd(b)).BigInt() },
			ex(func(a, b *big.Int) *big.Rat { return new(big.Rat).SetInt(new(big.Int).Add(a, b)) }, "exact"), "bd",
			func(a, b *big.Int) *big.Int { return bd(a).AddMut(bd(b)).BigInt() }},
		{"sub", "bd", func(a, b *big.Int) *big.Int { return bd(a).Sub(bd(b)).BigInt() },
			ex(func(a, b *big.Int) *big.Rat { return new(big.Rat).SetInt(new(big.Int).Sub(a, b)) }, "exact"), "bd",
			func(a, b *big.Int) *big.Int { return bd(a).SubMut(bd(b)).BigInt() }},
		{"mul", "bd", func(a, b *big.Int) *big.Int { return bd(a).Mul(bd(b)).BigInt() }, ex(mulExact(p36), "halfeven"), "bd",
			func(a, b *big.Int) *big.Int { return bd(a).MulMut(bd(b)).BigInt() }},
		{"mulDec", "sd", func(a, b *big.Int) *big.Int { return bd(a).MulDec(sd(b)).BigInt() }, ex(mulExact(p18), "halfeven"), "bd",
			func(a, b *big.Int) *big.Int { return bd(a).MulDecMut(sd(b)).BigInt() }},
		{"mulTruncate", "bd", func(a, b *big.Int) *big.Int { return bd(a).MulTruncate(bd(b)).BigInt() }, ex(mulExact(p36), "trunc"), "bd", nil},
		{"mulTruncateDec", "sd", func(a, b *big.Int) *big.Int { return bd(a).MulTruncateDec(sd(b)).BigInt() }, ex(mulExact(p18), "trunc"), "bd", nil},
		{"mulRoundUp", "bd", func(a, b *big.Int) *big.Int { return bd(a).MulRoundUp(bd(b)).BigInt() }, ex(mulExact(p36), "ceil"), "bd", nil},
		{"mulRoundUpDec", "sd", func(a, b *big.Int) *big.Int { return bd(a).MulRoundUpDec(sd(b)).BigInt() }, ex(mulExact(p18), "ceil"), "bd", nil},
		{"mulInt", "int", func(a, b *big.Int) *big.Int { return bd(a).MulInt(osmomath.NewBigIntFromBigInt(b)).BigInt() },
			ex(func(a, b *big.Int) *big.Rat { return new(big.Rat).SetInt(new(big.Int).Mul(a, b)) }, "exact"), "bd", nil},
		{"mulInt64", "i64", func(a, b *big.Int) *big.Int { return bd(a).MulInt64(b.Int64()).BigInt() },
			ex(func(a, b *big.Int) *big.Rat { return new(big.Rat).SetInt(new(big.Int).Mul(a, b)) }, "exact"), "bd", nil},
		{"quo", "bd", func(a, b *big.Int) *big.Int { return bd(a).Quo(bd(b)).BigInt() }, ex(quoExact(p36), "halfeven72"), "bd",
			func(a, b *big.Int) *big.Int { return bd(a).QuoMut(bd(b)).BigInt() }},
		{"quoRaw", "i64", func(a, b *big.Int) *big.Int { return bd(a).QuoRaw(b.Int64()).BigInt() },
			ex(func(a, b *big.Int) *big.Rat {
				if b.Sign() == 0 {
					return nil
				}
				return ratOf(a, b)
			}, "halfeven36"), "bd", nil},
		{"quoTruncate", "bd", func(a, b *big.Int) *big.Int { return bd(a).QuoTruncate(bd(b)).BigInt() }, ex(quoExact(p36), "trunc"), "bd",
			func(a, b *big.Int) *big.Int { return bd(a).QuoTruncateMut(bd(b)).BigInt() }},
		{"quoTruncateDec", "sd", func(a, b *big.Int) *big.Int { return bd(a).QuoTruncateDec(sd(b)).BigInt() }, ex(quoExact(p18), "trunc"), "bd",
			func(a, b *big.Int) *big.Int { return bd(a).QuoTruncateDecMut(sd(b)).BigInt() }},
		{"quoRoundUp", "bd", func(a, b *big.Int) *big.Int { return bd(a).QuoRoundUp(bd(b)).BigInt() }, ex(quoExact(p36), "ceil"), "bd", nil},
		{"quoByDecRoundUp", "sd", func(a, b *big.Int) *big.Int { return bd(a).QuoByDecRoundUp(sd(b)).BigInt() }, ex(quoExact(p18), "ceil"), "bd", nil},
		{"quoRoundUpMut", "bd", func(a, b *big.Int) *big.Int { return bd(a).QuoRoundUpMut(bd(b)).BigInt() }, ex(quoExact(p36), "ceil"), "bd", nil},
		{"quoRoundUpNextIntMut", "bd", func(a, b *big.Int) *big.Int { return bd(a).QuoRoundUpNextIntMut(bd(b)).BigInt() },
			ex(func(a, b *big.Int) *big.Rat {
				if b.Sign() == 0 {
					return nil
				}
				// next integer >= a/b, as a BigDec raw: ceil(a/b) * 10^36
				return ratOf(a, b)
			}, "ceilInt36"), "bd", nil},
		{"quoInt", "int", func(a, b *big.Int) *big.Int { return bd(a).QuoInt(osmomath.NewBigIntFromBigInt(b)).BigInt() },
			ex(func(a, b *big.Int) *big.Rat {
				if b.Sign() == 0 {
					return nil
				}
				return ratOf(a, b)
			}, "trunc"), "none", nil},
		{"quoInt64", "i64", func(a, b *big.Int) *big.Int { return bd(a).QuoInt64(b.Int64()).BigInt() },
			ex(func(a, b *big.Int) *big.Rat {
				if b.Sign() == 0 {
					return nil
				}
				return ratOf(a, b)
			}, "trunc"), "none", nil},
	}
}

type unOp struct {
	name  string
	run   func(a *big.Int) *big.Int
	exact func(a *big.Int) (*big.Rat, string)
	bound string // "bigint" (1024 bits) / "none"
	mut   func(a *big.Int) *big.Int
}

func unOps() []unOp {
	return []unOp{
		{"ceil", func(a *big.Int) *big.Int { return bd(a).Ceil().BigInt() },
			func(a *big.Int) (*big.Rat, string) {
				c := ratCeil(ratOf(a, p36))
				return new(big.Rat).SetInt(c.Mul(c, p36)), "exact"
			}, "none", func(a *big.Int) *big.Int { return bd(a).CeilMut().BigInt() }},
		{"truncateInt", func(a *big.Int) *big.Int { return bd(a).TruncateInt().BigInt() },
			func(a *big.Int) (*big.Rat, string) { return ratOf(a, p36), "trunc" }, "bigint", nil},
		{"truncateDec", func(a *big.Int) *big.Int { return bd(a).TruncateDec().BigInt() },
			func(a *big.Int) (*big.Rat, string) {
				c := ratTrunc(ratOf(a, p36))
				return new(big.Rat).SetInt(c.Mul(c, p36)), "exact"
			}, "none", nil},
		{"roundInt", func(a *big.Int) *big.Int { return bd(a).RoundInt().BigInt() },
			func(a *big.Int) (*big.Rat, string) { return ratOf(a, p36), "halfeven" }, "bigint", nil},
		{"dec", func(a *big.Int) *big.Int { return bd(a).Dec().BigInt() },
			func(a *big.Int) (*big.Rat, string) { return ratOf(a, p18), "trunc" }, "none", nil},
		{"decRoundUp", func(a *big.Int) *big.Int { return bd(a).DecRoundUp().BigInt() },
			func(a *big.Int) (*big.Rat, string) { return ratOf(a, p18), "ceil" }, "none", nil},
		{"fromDec", func(a *big.Int) *big.Int { return osmomath.BigDecFromDec(sd(a)).BigInt() },
			func(a *big.Int) (*big.Rat, string) { return new(big.Rat).SetInt(new(big.Int).Mul(a, p18)), "exact" }, "none", nil},
	}
}

func applyRule(x *big.Rat, rule string) *big.Int {
	switch rule {
	case "exact":
		if !x.IsInt() {
			panic("oracle: exact rule on non-integer")
		}
		return new(big.Int).Set(x.Num())
	case "trunc":
		return ratTrunc(x)
	case "ceil":
		return ratCeil(x)
	case "ceilInt36":
		c := ratCeil(x)
		return c.Mul(c, p36)
	case "halfeven", "halfeven36":
		return ratHalfEven(x)
	case "halfeven72":
		// nearest-even of the quotient truncated at 72 decimals: x is value*10^36;
		// truncate x*10^36 toward zero, then half-even /10^36.
		t := ratTrunc(new(big.Rat).Mul(x, new(big.Rat).SetInt(p36)))
		return ratHalfEven(ratOf(t, p36))
	}
	panic("rule")
}

func signClass(a, b *big.Int) string {
	s := func(x *big.Int) string {
		switch x.Sign() {
		case -1:
			return "neg"
		case 0:
			return "zero"
		}
		return "pos"
	}
	return s(a) + "/" + s(b)
}

func runNum(seed int64, n int, dir string) {
	g := &Gen{rand.New(rand.NewSource(seed))}
	o := NewOut(dir)
	bops := numOps()
	uops := unOps()
	const maxBits = 1144

	doBin := func(op numOp, a, b *big.Int) {
		a0, b0 := new(big.Int).Set(a), new(big.Int).Set(b)
		// operands as live objects, to check they are untouched by the non-Mut form
		var res *big.Int
		ok := catch(func() { res = op.run(a, b) })
		line := fmt.Sprintf("num %s %s %s", op.name, a0, b0)
		o.Emit(line, obsInt(ok, res), a0.Sign() != 0 && b0.Sign() != 0)
		o.Count("op." + op.name)
		o.Count("signs." + signClass(a0, b0))
		if !ok {
			o.Count("outcome.panic")
		}
		if a.Cmp(a0) != 0 || b.Cmp(b0) != 0 {
			o.Fail(op.name+":operand-mutated", line)
		}
		// --- property oracle ---
		x, rule := op.exact(a0, b0)
		if x == nil { // division by zero
			if ok {
				o.Fail(op.name+":div-by-zero-returned", line)
			}
			return
		}
		want := applyRule(x, rule)
		over := op.bound == "bd" && want.BitLen() > maxBits
		inexact := !x.IsInt()
		key := op.name + ":"
		if a0.Sign() < 0 || b0.Sign() < 0 {
			key += "neg-operand"
		} else {
			key += "nonneg"
		}
		if inexact {
			key += "-inexact"
		} else {
			key += "-exact"
		}
		switch {
		case over && ok:
			o.Fail(key+"-overflow-not-rejected", line+" got "+res.String())
		case !over && !ok:
			o.Fail(key+"-spurious-panic", line)
		case !over && ok && res.Cmp(want) != 0:
			o.Fail(key, fmt.Sprintf("%s got %s want(%s) %s", line, res, rule, want))
		}
		if rule != "exact" && inexact {
			o.Count("rounding.inexact")
			if rule == "halfeven" || rule == "halfeven72" {
				fl := ratFloor(x)
				d := new(big.Rat).Sub(x, new(big.Rat).SetInt(fl))
				if d.Cmp(big.NewRat(1, 2)) == 0 {
					o.Count("rounding.tie")
				}
			}
		}
		// --- Mut twin: same value ---
		if op.mut != nil {
			var mres *big.Int
			a1, b1 := new(big.Int).Set(a0), new(big.Int).Set(b0)
			mok := catch(func() { mres = op.mut(a1, b1) })
			if mok != ok || (ok && mres.Cmp(res) != 0) {
				o.Fail(op.name+":mut-differs", line)
			}
		}
	}

	doUn := func(op unOp, a *big.Int) {
		a0 := new(big.Int).Set(a)
		var res *big.Int
		ok := catch(func() { res = op.run(a) })
		line := fmt.Sprintf("num %s %s", op.name, a0)
		o.Emit(line, obsInt(ok, res), a0.Sign() != 0)
		o.Count("op." + op.name)
		if a.Cmp(a0) != 0 {
			o.Fail(op.name+":operand-mutated", line)
		}
		x, rule := op.exact(a0)
		want := applyRule(x, rule)
		over := op.bound == "bigint" && want.BitLen() > 1024
		key := op.name + ":"
		if a0.Sign() < 0 {
			key += "neg-operand"
		} else {
			key += "nonneg"
		}
		if !x.IsInt() {
			key += "-inexact"
		} else {
			key += "-exact"
		}
		switch {
		case over && ok:
			o.Fail(key+"-overflow-not-rejected", line)
		case !over && !ok:
			o.Fail(key+"-spurious-panic", line)
		case !over && ok && res.Cmp(want) != 0:
			o.Fail(key, fmt.Sprintf("%s got %s want(%s) %s", line, res, rule, want))
		}
		if op.mut != nil {
			var mres *big.Int
			mok := catch(func() { mres = op.mut(new(big.Int).Set(a0)) })
			if mok != ok || (ok && mres.Cmp(res) != 0) {
				o.Fail(op.name+":mut-differs", line)
			}
		}
	}

	// aliasing / mutation discipline on live objects (numalias.go): one systematic sweep over
	// method x operand class, then random cases and alias chains interleaved with the value cases
	al := newAliasEng(g, o, bops, doBin)
	al.uops, al.doUn = map[string]unOp{}, doUn
	for _, op := range uops {
		al.uops[op.name] = op
	}
	al.dops, al.doDec = newDecRunner(o)
	ie := newNumIntEng(g, o)
	al.ival = ie.value
	cops := chainOps()
	al.sweep()
	for i := 0; i < n; i++ {
		switch k := g.Intn(114); {
		case k >= 107:
			al.chain(cops)
		case k >= 100:
			al.random()
		case k < 62: // binary op, stratified operands
			op := bops[g.Intn(len(bops))]
			a := g.genRaw(maxBits, o, "a")
			var b *big.Int
			switch op.bScale {
			case "bd":
				b = g.genRaw(maxBits, o, "b")
			case "sd":
				b = g.genRaw(315, o, "b")
			case "int":
				b = g.genRaw(1024, o, "b")
				if b.BitLen() > 1024 { // NewBigIntFromBigInt itself rejects these: not an operand
					b = g.genRaw(1000, o, "b")
				}
			case "i64": // powers of two of either sign, their neighbours, powers of ten, the int64 extremes, random
				b = big.NewInt(g.genI64(o))
			}
			// shrink a so that products usually fit
			if g.Intn(3) != 0 && a.BitLen()+b.BitLen() > maxBits+118 {
				a = g.genRaw(maxBits+118-b.BitLen()+1, o, "a")
			}
			doBin(op, a, b)
		case k < 80: // tie-directed: b is 1 ulp / value 1 so the chop sees `a` directly
			op := bops[g.Intn(len(bops))]
			var a, b *big.Int
			switch op.name {
			case "mul", "mulTruncate", "mulRoundUp":
				a, b = g.tieOperand(p36, 600), big.NewInt(1)
			case "mulDec", "mulTruncateDec", "mulRoundUpDec":
				a, b = g.tieOperand(p18, 600), big.NewInt(1)
			case "quo": // a*10^72/b with b = 10^72 raw
				a, b = g.tieOperand(p36, 600), new(big.Int).Set(p72)
				if g.Intn(2) == 0 {
					// quotient whose digits 37..72 are exactly 5000…0 followed by non-zero digits: a = odd·5·10^35·10^j, b = 10^36 ± k
					// (a/b = a·(1 ∓ k·10^-36 + k²·10^-72 …): the truncated-at-72 quotient is an exact tie, the exact quotient is not)
					odd := new(big.Int).Add(new(big.Int).Lsh(g.randBits(1+g.Intn(40)), 1), big.NewInt(1))
					a = new(big.Int).Mul(odd, new(big.Int).Mul(big.NewInt(5), pow10(35)))
					k := int64(1 + 2*g.Intn(5))
					b = new(big.Int).Sub(p36, big.NewInt(k))
					if g.Intn(3) == 0 {
						b = new(big.Int).Add(p36, big.NewInt(k))
					}
					if g.Intn(2) == 0 {
						a.Neg(a)
					}
					o.Count("directed.quo-tie-beyond-72")
				}
			case "quoRaw":
				a, b = g.tieOperand(p36, 600), big.NewInt(1)
				a.Quo(a, p36) // a*10^36/1 then chop: use small a with remainder classes via b
				b = big.NewInt(int64(2 + g.Intn(7)))
			case "quoTruncate", "quoRoundUp", "quoRoundUpMut":
				// a*10^36 / b: choose b = m*10^36 so remainder classes are those of a mod m
				m := big.NewInt(int64(2 + g.Intn(9)))
				a, b = g.tieOperand(m, 500), new(big.Int).Mul(m, p36)
			case "quoTruncateDec", "quoByDecRoundUp":
				m := big.NewInt(int64(2 + g.Intn(9)))
				a, b = g.tieOperand(m, 500), new(big.Int).Mul(m, p18)
			case "quoRoundUpNextIntMut", "quoInt":
				m := g.randBits(1 + g.Intn(200))
				m.Add(m, big.NewInt(2))
				if op.name == "quoInt" && g.Intn(2) == 0 { // power-of-two divisor
					m = pow2(1 + g.Intn(200))
					o.Count("directed.quoInt-pow2-divisor")
				}
				a, b = g.tieOperand(m, 300), m
			case "quoInt64", "mulInt64": // dividend q*m + r, r on / next to 0, m/2, m; m a power of two or any int64 >= 2
				m := pow2(1 + g.Intn(62))
				if g.Intn(3) == 0 {
					m = big.NewInt(2 + g.r.Int63n(1<<62))
				} else {
					o.Count("directed.quoInt64-pow2-divisor")
				}
				a, b = g.tieOperand(m, 300), m
			default:
				a, b = g.genRaw(600, o, "a"), g.genRaw(500, o, "b")
			}
			if g.Intn(2) == 0 {
				b = new(big.Int).Neg(b)
			}
			o.Count("directed.tie")
			doBin(op, a, b)
		case k < 92: // unary
			op := uops[g.Intn(len(uops))]
			var a *big.Int
			if g.Intn(2) == 0 {
				P := p36
				if op.name == "dec" || op.name == "decRoundUp" {
					P = p18
				}
				a = g.tieOperand(P, 900)
			} else {
				a = g.genRaw(maxBits, o, "a")
			}
			if op.name == "fromDec" && a.BitLen() > 315 {
				a = g.genRaw(315, o, "a")
			}
			doUn(op, a)
		case k < 96: // encodings
			a := g.genRaw(maxBits, o, "a")
			x := bd(a)
			s := x.String()
			back, err := osmomath.NewBigDecFromStr(s)
			ok := err == nil
			var res *big.Int
			if ok {
				res = back.BigInt()
			}
			line := fmt.Sprintf("num strRoundtrip %s", a)
			obs := "panic"
			if ok {
				obs = "ok " + res.String()
			}
			o.Emit(line, obs, true)
			o.Count("op.strRoundtrip")
			o.Emit(fmt.Sprintf("num toStr %s", a), "ok "+s, true)
			cls := "bits<=1024"
			if a.BitLen() > 1024 {
				cls = "1024<bits<=1144"
			}
			if !ok || res.Cmp(a) != 0 {
				o.Fail("strRoundtrip:"+cls, line)
			}
			// binary (proto custom type) and JSON
			bz, _ := x.Marshal()
			y := osmomath.ZeroBigDec()
			err = y.Unmarshal(bz)
			mline := fmt.Sprintf("num marshalRoundtrip %s", a)
			if err == nil {
				o.Emit(mline, "ok "+y.BigInt().String(), true)
			} else {
				o.Emit(mline, "panic", true)
			}
			if err != nil || y.BigInt().Cmp(a) != 0 {
				o.Fail("marshalRoundtrip:"+cls, mline)
			}
			buf := make([]byte, (&x).Size()+4)
			if nn, terr := (&x).MarshalTo(buf); terr != nil || nn != (&x).Size() || string(buf[:nn]) != string(bz) {
				o.Fail("marshalTo:differs-from-marshal:"+cls, mline)
			} else {
				y2 := osmomath.ZeroBigDec()
				if aerr := (&y2).UnmarshalAmino(buf[:nn]); (aerr == nil) != (err == nil) || (aerr == nil && y2.BigInt().Cmp(a) != 0) {
					o.Fail("aminoRoundtrip:differs-from-unmarshal:"+cls, mline)
				}
			}
			if abz, aerr := x.MarshalAmino(); aerr != nil || string(abz) != string(bz) {
				o.Fail("marshalAmino:differs-from-marshal:"+cls, mline)
			}
			jz, _ := x.MarshalJSON()
			z := osmomath.ZeroBigDec()
			if err := z.UnmarshalJSON(jz); err != nil || z.BigInt().Cmp(a) != 0 {
				o.Fail("jsonRoundtrip:"+cls, mline)
			}
			o.Count("enc." + cls)
		default: // decWithPrecision / chopPrecision / powerInteger
			a := g.genRaw(700, o, "a")
			p := uint64(g.Intn(40))
			switch g.Intn(3) {
			case 0:
				var res *big.Int
				ok := catch(func() { res = bd(a).DecWithPrecision(p).BigInt() })
				o.Emit(fmt.Sprintf("num decWithPrecision %s %d", a, p), obsInt(ok, res), true)
				if p <= 18 {
					f := pow10(int(36 - p))
					want := ratTrunc(ratOf(a, f))
					want.Mul(want, pow10(int(18-p)))
					if !ok || res.Cmp(want) != 0 {
						o.Fail("decWithPrecision", fmt.Sprint(a, p))
					}
				} else if ok {
					o.Fail("decWithPrecision:bad-precision-accepted", fmt.Sprint(a, p))
				}
			case 1:
				var res *big.Int
				x := bd(a)
				ok := catch(func() { res = x.ChopPrecision(p).BigInt() })
				o.Emit(fmt.Sprintf("num chopPrecision %s %d", a, p), obsInt(ok, res), true)
				if x.BigInt().Cmp(a) != 0 {
					o.Fail("chopPrecision:operand-mutated", fmt.Sprint(a, p))
				}
				if p <= 36 {
					f := pow10(int(36 - p))
					want := ratTrunc(ratOf(a, f))
					want.Mul(want, f)
					if !ok || res.Cmp(want) != 0 {
						o.Fail("chopPrecision", fmt.Sprint(a, p))
					}
				} else if ok {
					o.Fail("chopPrecision:bad-precision-accepted", fmt.Sprint(a, p))
				}
			default:
				a = g.genRaw(160, o, "a")
				pw := uint64(g.Intn(12))
				if g.Intn(4) == 0 {
					pw = uint64(g.Intn(200))
				}
				var res, mres *big.Int
				x := bd(a)
				ok := catch(func() { res = x.PowerInteger(pw).BigInt() })
				o.Emit(fmt.Sprintf("num powerInteger %s %d", a, pw), obsInt(ok, res), true)
				if x.BigInt().Cmp(a) != 0 {
					o.Fail("powerInteger:operand-mutated", fmt.Sprint(a, pw))
				}
				mok := catch(func() { mres = bd(a).PowerIntegerMut(pw).BigInt() })
				if mok != ok || (ok && mres.Cmp(res) != 0) {
					o.Fail("powerInteger:mut-differs", fmt.Sprint(a, pw))
				}
			}
			o.Count("op.misc")
		}
	}
	runDecOps(g, o, n/5)
	runNumInt(g, o, ie, n/3)
	o.Close(nil)
}

// the 18-decimal type (cosmossdk.io/math LegacyDec, aliased osmomath.Dec)
type decOp struct {
	name  string
	run   func(a, b *big.Int) *big.Int
	exact func(a, b *big.Int) (*big.Rat, string)
}

var decUpper = new(big.Int).Sub(new(big.Int).Mul(pow2(256), pow10(18)), big.NewInt(1))

func decInRange(v *big.Int) bool { return new(big.Int).Abs(v).Cmp(decUpper) <= 0 }

// newDecRunner: the table of LegacyDec methods and the value oracle + model line of one operand pair.
func newDecRunner(o *Out) (map[string]decOp, func(op decOp, a, b *big.Int)) {
	q := func(scale *big.Int) func(a, b *big.Int) *big.Rat {
		return func(a, b *big.Int) *big.Rat {
			if b.Sign() == 0 {
				return nil
			}
			return ratOf(new(big.Int).Mul(a, scale), b)
		}
	}
	ops := []decOp{
		{"d.add", func(a, b *big.Int) *big.Int { return sd(a).Add(sd(b)).BigInt() }, func(a, b *big.Int) (*big.Rat, string) {
			return new(big.Rat).SetInt(new(big.Int).Add(a, b)), "exact"
		}},
		{"d.sub", func(a, b *big.Int) *big.Int { return sd(a).Sub(sd(b)).BigInt() }, func(a, b *big.Int) (*big.Rat, string) {
			return new(big.Rat).SetInt(new(big.Int).Sub(a, b)), "exact"
		}},
		{"d.mul", func(a, b *big.Int) *big.Int { return sd(a).Mul(sd(b)).BigInt() }, func(a, b *big.Int) (*big.Rat, string) {
			return ratOf(new(big.Int).Mul(a, b), p18), "halfeven"
		}},
		{"d.mulTruncate", func(a, b *big.Int) *big.Int { return sd(a).MulTruncate(sd(b)).BigInt() }, func(a, b *big.Int) (*big.Rat, string) {
			return ratOf(new(big.Int).Mul(a, b), p18), "trunc"
		}},
		{"d.mulRoundUp", func(a, b *big.Int) *big.Int { return sd(a).MulRoundUp(sd(b)).BigInt() }, func(a, b *big.Int) (*big.Rat, string) {
			return ratOf(new(big.Int).Mul(a, b), p18), "ceil"
		}},
		{"d.quo", func(a, b *big.Int) *big.Int { return sd(a).Quo(sd(b)).BigInt() }, func(a, b *big.Int) (*big.Rat, string) {
			return q(p18)(a, b), "halfeven36of18"
		}},
		{"d.quoTruncate", func(a, b *big.Int) *big.Int { return sd(a).QuoTruncate(sd(b)).BigInt() }, func(a, b *big.Int) (*big.Rat, string) {
			return q(p18)(a, b), "trunc"
		}},
		{"d.quoRoundUp", func(a, b *big.Int) *big.Int { return sd(a).QuoRoundUp(sd(b)).BigInt() }, func(a, b *big.Int) (*big.Rat, string) {
			return q(p18)(a, b), "ceil"
		}},
	}
	tbl := map[string]decOp{}
	for _, op := range ops {
		tbl[op.name] = op
	}
	do := func(op decOp, a, b *big.Int) {
		if !decInRange(a) || !decInRange(b) {
			return
		}
		a0, b0 := new(big.Int).Set(a), new(big.Int).Set(b)
		var res *big.Int
		ok := catch(func() { res = op.run(a, b) })
		line := fmt.Sprintf("num %s %s %s", op.name, a0, b0)
		o.Emit(line, obsInt(ok, res), a0.Sign() != 0 && b0.Sign() != 0)
		o.Count("op." + op.name)
		x, rule := op.exact(a0, b0)
		if x == nil {
			if ok {
				o.Fail(op.name+":div-by-zero-returned", line)
			}
			return
		}
		var want *big.Int
		if rule == "halfeven36of18" {
			t := ratTrunc(new(big.Rat).Mul(x, new(big.Rat).SetInt(p18)))
			want = ratHalfEven(ratOf(t, p18))
		} else {
			want = applyRule(x, rule)
		}
		key := op.name + ":"
		if a0.Sign() < 0 || b0.Sign() < 0 {
			key += "neg-operand"
		} else {
			key += "nonneg"
		}
		if !x.IsInt() {
			key += "-inexact"
		} else {
			key += "-exact"
		}
		over := !decInRange(want)
		switch {
		case over && ok:
			o.Fail(key+"-overflow-not-rejected", line)
		case !over && !ok:
			o.Fail(key+"-spurious-panic", line)
		case !over && ok && res.Cmp(want) != 0:
			o.Fail(key, fmt.Sprintf("%s got %s want(%s) %s", line, res, rule, want))
		}
	}
	return tbl, do
}

// runDecOps: stratified and tie-directed operand pairs for every LegacyDec method of the table.
func runDecOps(g *Gen, o *Out, n int) {
	tbl, do := newDecRunner(o)
	var names []string
	for k := range tbl {
		names = append(names, k)
	}
	sort.Strings(names)
	for i := 0; i < n; i++ {
		op := tbl[names[g.Intn(len(names))]]
		var a, b *big.Int
		if g.Intn(3) == 0 {
			m := big.NewInt(int64(2 + g.Intn(9)))
			switch op.name {
			case "d.mul", "d.mulTruncate", "d.mulRoundUp":
				a, b = g.tieOperand(p18, 200), big.NewInt(1)
			case "d.quo":
				a, b = g.tieOperand(p18, 200), new(big.Int).Mul(p18, p18)
			default:
				a, b = g.tieOperand(m, 200), new(big.Int).Mul(m, p18)
			}
			if g.Intn(2) == 0 {
				b.Neg(b)
			}
		} else {
			a, b = g.genRaw(315, o, "da"), g.genRaw(315, o, "db")
			if g.Intn(3) != 0 && a.BitLen()+b.BitLen() > 370 {
				a = g.genRaw(370-b.BitLen()+1, o, "da")
			}
		}
		do(op, a, b)
	}
}
