package main

// Aliasing / mutation discipline of osmomath.BigDec and osmomath.Dec (property C12: "mutating and
// non-mutating forms return the same value and non-mutating forms leave operands untouched").
//
// The arithmetic oracles of num.go work on raw integers: every call builds fresh objects, so an
// operand that is changed LATER, through storage it shares with a returned value, is invisible to them.
// This file keeps the operands and results alive as Go OBJECTS and observes them behaviourally:
//
//  (a) non-mutating method: receiver and arguments are bit-identical after the call (also when the call
//      panics); the result shares no storage with them: a mutating operation chosen at random is applied
//      to the RESULT and the operands are read again, then the operands are mutated and the result is
//      read again;
//  (b) ...Mut method: changes exactly its receiver, returns the receiver (result and receiver stay one
//      object), leaves a distinct argument untouched, and gives the value of the non-mutating twin on
//      clones - also when receiver and argument are the SAME object (x.MulMut(x), x.QuoMut(x));
//  (c) every method meets the special operand classes (zero, one, minus one, one ulp, powers of ten,
//      extreme magnitudes, equal operands, the same object) in a systematic sweep and at random;
//  (d) alias chains: 3-6 mixed Mut / non-Mut operations over a small pool of shared variables, replayed
//      by the value-semantic Lean model (`num chain ...`) and by an independent big.Rat reference.
//
// Keys: alias:<what>:<method>:<receiver class>/<argument class>.

import (
	"fmt"
	"math/big"
	"strings"

	"github.com/osmosis-labs/osmosis/osmomath"
)

type aKind byte

const (
	kB aKind = 'B' // osmomath.BigDec
	kD aKind = 'D' // osmomath.Dec (LegacyDec)
	kI aKind = 'I' // osmomath.BigInt
	kS aKind = 'S' // osmomath.Int (sdk Int)
	ki aKind = 'i' // int64 scalar
	ku aKind = 'u' // uint64 scalar (precision / power)
	kN aKind = 'N' // no argument
)

// aVal is one live operand or result object.
type aVal struct {
	k  aKind
	B  osmomath.BigDec
	D  osmomath.Dec
	I  osmomath.BigInt
	S  osmomath.Int
	ip *big.Int // the big.Int an osmomath.BigInt was built around (NewBigIntFromBigInt keeps the pointer)
	n  int64    // scalar
}

func aNew(k aKind, raw *big.Int) *aVal {
	switch k {
	case kB:
		return &aVal{k: kB, B: bd(raw)}
	case kD:
		return &aVal{k: kD, D: sd(raw)}
	case kI:
		p := new(big.Int).Set(raw)
		return &aVal{k: kI, I: osmomath.NewBigIntFromBigInt(p), ip: p}
	case kS:
		return &aVal{k: kS, S: osmomath.NewIntFromBigInt(raw)}
	case ki, ku:
		return &aVal{k: k, n: raw.Int64()}
	}
	return &aVal{k: kN}
}

// read returns a copy of the object's current value through its public accessor.
func (v *aVal) read() *big.Int {
	switch v.k {
	case kB:
		return v.B.BigInt()
	case kD:
		return v.D.BigInt()
	case kI:
		return v.I.BigInt()
	case kS:
		return v.S.BigInt()
	case ki, ku:
		return big.NewInt(v.n)
	}
	return new(big.Int)
}

// inner returns the object's own big.Int (identity), nil when it has none.
func (v *aVal) inner() *big.Int {
	switch v.k {
	case kB:
		return v.B.BigIntMut()
	case kD:
		return v.D.BigIntMut()
	case kI:
		return v.ip
	case kS:
		return v.S.BigIntMut()
	}
	return nil
}

func (v *aVal) clone() *aVal {
	if v.k == ki || v.k == ku || v.k == kN {
		c := *v
		return &c
	}
	return aNew(v.k, v.read())
}

type aMeth struct {
	name           string // op name of the num tables; mutating forms end in "Mut"
	recv, arg, res aKind
	mut            bool
	twin           string // Mut only: the non-mutating method with the same value
	call           func(x, y *aVal) *aVal
}

func aliasMethods() []aMeth {
	B := func(v osmomath.BigDec) *aVal { return &aVal{k: kB, B: v} }
	D := func(v osmomath.Dec) *aVal { return &aVal{k: kD, D: v} }
	var ms []aMeth
	bb := func(name string, mut bool, twin string, f func(x, y osmomath.BigDec) osmomath.BigDec) {
		ms = append(ms, aMeth{name, kB, kB, kB, mut, twin, func(x, y *aVal) *aVal { return B(f(x.B, y.B)) }})
	}
	bdd := func(name string, mut bool, twin string, f func(x osmomath.BigDec, y osmomath.Dec) osmomath.BigDec) {
		ms = append(ms, aMeth{name, kB, kD, kB, mut, twin, func(x, y *aVal) *aVal { return B(f(x.B, y.D)) }})
	}
	bu := func(name string, argk aKind, mut bool, twin string, f func(x *aVal, n int64) osmomath.BigDec) {
		ms = append(ms, aMeth{name, kB, argk, kB, mut, twin, func(x, y *aVal) *aVal { return B(f(x, y.n)) }})
	}
	b1 := func(name string, mut bool, twin string, f func(x osmomath.BigDec) osmomath.BigDec) {
		ms = append(ms, aMeth{name, kB, kN, kB, mut, twin, func(x, y *aVal) *aVal { return B(f(x.B)) }})
	}
	dd := func(name string, mut bool, twin string, f func(x, y osmomath.Dec) osmomath.Dec) {
		ms = append(ms, aMeth{name, kD, kD, kD, mut, twin, func(x, y *aVal) *aVal { return D(f(x.D, y.D)) }})
	}
	d1 := func(name string, mut bool, twin string, f func(x osmomath.Dec) osmomath.Dec) {
		ms = append(ms, aMeth{name, kD, kN, kD, mut, twin, func(x, y *aVal) *aVal { return D(f(x.D)) }})
	}
	type BD = osmomath.BigDec
	type SD = osmomath.Dec
	// ---- BigDec x BigDec
	bb("add", false, "", BD.Add)
	bb("sub", false, "", BD.Sub)
	bb("mul", false, "", BD.Mul)
	bb("mulTruncate", false, "", BD.MulTruncate)
	bb("mulRoundUp", false, "", BD.MulRoundUp)
	bb("quo", false, "", BD.Quo)
	bb("quoTruncate", false, "", BD.QuoTruncate)
	bb("quoRoundUp", false, "", BD.QuoRoundUp)
	bb("addMut", true, "add", BD.AddMut)
	bb("subMut", true, "sub", BD.SubMut)
	bb("mulMut", true, "mul", BD.MulMut)
	bb("quoMut", true, "quo", BD.QuoMut)
	bb("quoTruncateMut", true, "quoTruncate", BD.QuoTruncateMut)
	bb("quoRoundUpMut", true, "quoRoundUp", BD.QuoRoundUpMut)
	bb("quoRoundUpNextIntMut", true, "", BD.QuoRoundUpNextIntMut) // no non-mutating twin in the API
	// ---- BigDec x Dec
	bdd("mulDec", false, "", BD.MulDec)
	bdd("mulTruncateDec", false, "", BD.MulTruncateDec)
	bdd("mulRoundUpDec", false, "", BD.MulRoundUpDec)
	bdd("quoTruncateDec", false, "", BD.QuoTruncateDec)
	bdd("quoByDecRoundUp", false, "", BD.QuoByDecRoundUp)
	bdd("mulDecMut", true, "mulDec", BD.MulDecMut)
	bdd("quoTruncateDecMut", true, "quoTruncateDec", BD.QuoTruncateDecMut)
	// ---- BigDec x BigInt / int64
	ms = append(ms, aMeth{"mulInt", kB, kI, kB, false, "", func(x, y *aVal) *aVal { return B(x.B.MulInt(y.I)) }})
	ms = append(ms, aMeth{"quoInt", kB, kI, kB, false, "", func(x, y *aVal) *aVal { return B(x.B.QuoInt(y.I)) }})
	bu("mulInt64", ki, false, "", func(x *aVal, n int64) BD { return x.B.MulInt64(n) })
	bu("quoInt64", ki, false, "", func(x *aVal, n int64) BD { return x.B.QuoInt64(n) })
	bu("quoRaw", ki, false, "", func(x *aVal, n int64) BD { return x.B.QuoRaw(n) })
	// ---- BigDec unary / scalar
	b1("neg", false, "", BD.Neg)
	b1("abs", false, "", BD.Abs)
	b1("clone", false, "", BD.Clone)
	b1("ceil", false, "", BD.Ceil)
	b1("truncateDec", false, "", BD.TruncateDec)
	b1("negMut", true, "neg", BD.NegMut)
	b1("absMut", true, "abs", BD.AbsMut)
	b1("ceilMut", true, "ceil", BD.CeilMut)
	bu("chopPrecision", ku, false, "", func(x *aVal, n int64) BD { return (&x.B).ChopPrecision(uint64(n)) })
	bu("chopPrecisionMut", ku, true, "chopPrecision", func(x *aVal, n int64) BD { return (&x.B).ChopPrecisionMut(uint64(n)) })
	bu("powerInteger", ku, false, "", func(x *aVal, n int64) BD { return x.B.PowerInteger(uint64(n)) })
	bu("powerIntegerMut", ku, true, "powerInteger", func(x *aVal, n int64) BD { return x.B.PowerIntegerMut(uint64(n)) })
	// ---- BigDec -> Dec / BigInt, Dec -> BigDec
	ms = append(ms, aMeth{"dec", kB, kN, kD, false, "", func(x, y *aVal) *aVal { return D(x.B.Dec()) }})
	ms = append(ms, aMeth{"decRoundUp", kB, kN, kD, false, "", func(x, y *aVal) *aVal { return D(x.B.DecRoundUp()) }})
	ms = append(ms, aMeth{"decWithPrecision", kB, ku, kD, false, "", func(x, y *aVal) *aVal { return D(x.B.DecWithPrecision(uint64(y.n))) }})
	ms = append(ms, aMeth{"truncateInt", kB, kN, kI, false, "", func(x, y *aVal) *aVal { return &aVal{k: kI, I: x.B.TruncateInt()} }})
	ms = append(ms, aMeth{"roundInt", kB, kN, kI, false, "", func(x, y *aVal) *aVal { return &aVal{k: kI, I: x.B.RoundInt()} }})
	ms = append(ms, aMeth{"fromDec", kD, kN, kB, false, "", func(x, y *aVal) *aVal { return B(osmomath.BigDecFromDec(x.D)) }})
	// ---- Dec x Dec (cosmossdk.io/math LegacyDec)
	dd("d.add", false, "", SD.Add)
	dd("d.sub", false, "", SD.Sub)
	dd("d.mul", false, "", SD.Mul)
	dd("d.mulTruncate", false, "", SD.MulTruncate)
	dd("d.mulRoundUp", false, "", SD.MulRoundUp)
	dd("d.quo", false, "", SD.Quo)
	dd("d.quoTruncate", false, "", SD.QuoTruncate)
	dd("d.quoRoundUp", false, "", SD.QuoRoundUp)
	dd("d.addMut", true, "d.add", SD.AddMut)
	dd("d.subMut", true, "d.sub", SD.SubMut)
	dd("d.mulMut", true, "d.mul", SD.MulMut)
	dd("d.mulTruncateMut", true, "d.mulTruncate", SD.MulTruncateMut)
	dd("d.mulRoundUpMut", true, "d.mulRoundUp", SD.MulRoundUpMut)
	dd("d.quoMut", true, "d.quo", SD.QuoMut)
	dd("d.quoTruncateMut", true, "d.quoTruncate", SD.QuoTruncateMut)
	dd("d.quoRoundUpMut", true, "d.quoRoundUp", SD.QuoRoundupMut)
	ms = append(ms, aMeth{"d.mulInt", kD, kS, kD, false, "", func(x, y *aVal) *aVal { return D(x.D.MulInt(y.S)) }})
	ms = append(ms, aMeth{"d.quoInt", kD, kS, kD, false, "", func(x, y *aVal) *aVal { return D(x.D.QuoInt(y.S)) }})
	ms = append(ms, aMeth{"d.mulIntMut", kD, kS, kD, true, "d.mulInt", func(x, y *aVal) *aVal { return D(x.D.MulIntMut(y.S)) }})
	ms = append(ms, aMeth{"d.quoIntMut", kD, kS, kD, true, "d.quoInt", func(x, y *aVal) *aVal { return D(x.D.QuoIntMut(y.S)) }})
	d1("d.neg", false, "", SD.Neg)
	d1("d.abs", false, "", SD.Abs)
	d1("d.clone", false, "", SD.Clone)
	d1("d.ceil", false, "", SD.Ceil)
	d1("d.truncateDec", false, "", SD.TruncateDec)
	d1("d.negMut", true, "d.neg", SD.NegMut)
	d1("d.absMut", true, "d.abs", SD.AbsMut)
	ms = append(ms, aMeth{"d.truncateInt", kD, kN, kS, false, "", func(x, y *aVal) *aVal { return &aVal{k: kS, S: x.D.TruncateInt()} }})
	ms = append(ms, aMeth{"d.roundInt", kD, kN, kS, false, "", func(x, y *aVal) *aVal { return &aVal{k: kS, S: x.D.RoundInt()} }})
	ms = append(ms, aMeth{"d.mulInt64", kD, ki, kD, false, "", func(x, y *aVal) *aVal { return D(x.D.MulInt64(y.n)) }})
	ms = append(ms, aMeth{"d.quoInt64", kD, ki, kD, false, "", func(x, y *aVal) *aVal { return D(x.D.QuoInt64(y.n)) }})
	ms = append(ms, aMeth{"d.mulInt64Mut", kD, ki, kD, true, "d.mulInt64", func(x, y *aVal) *aVal { return D(x.D.MulInt64Mut(y.n)) }})
	ms = append(ms, aMeth{"d.quoInt64Mut", kD, ki, kD, true, "d.quoInt64", func(x, y *aVal) *aVal { return D(x.D.QuoInt64Mut(y.n)) }})
	// ---- osmomath.BigInt (int.go): every method is non-mutating
	type BI = osmomath.BigInt
	I := func(v BI) *aVal { return &aVal{k: kI, I: v} }
	ii := func(name string, f func(x, y BI) BI) {
		ms = append(ms, aMeth{name, kI, kI, kI, false, "", func(x, y *aVal) *aVal { return I(f(x.I, y.I)) }})
	}
	ir := func(name string, f func(x BI, n int64) BI) {
		ms = append(ms, aMeth{name, kI, ki, kI, false, "", func(x, y *aVal) *aVal { return I(f(x.I, y.n)) }})
	}
	ii("bi.add", BI.Add)
	ii("bi.sub", BI.Sub)
	ii("bi.mul", BI.Mul)
	ii("bi.quo", BI.Quo)
	ii("bi.mod", BI.Mod)
	ii("bi.min", osmomath.MinBigInt)
	ii("bi.max", osmomath.MaxBigInt)
	ir("bi.addRaw", BI.AddRaw)
	ir("bi.subRaw", BI.SubRaw)
	ir("bi.mulRaw", BI.MulRaw)
	ir("bi.quoRaw", BI.QuoRaw)
	ir("bi.modRaw", BI.ModRaw)
	ms = append(ms, aMeth{"bi.neg", kI, kN, kI, false, "", func(x, y *aVal) *aVal { return I(x.I.Neg()) }})
	ms = append(ms, aMeth{"bi.abs", kI, kN, kI, false, "", func(x, y *aVal) *aVal { return I(x.I.Abs()) }})
	ms = append(ms, aMeth{"bi.toDec", kI, kN, kB, false, "", func(x, y *aVal) *aVal { return B(x.I.ToDec()) }})
	ms = append(ms, aMeth{"newFromIntWithPrec", kI, ku, kB, false, "", func(x, y *aVal) *aVal { return B(osmomath.NewBigDecFromIntWithPrec(x.I, y.n)) }})
	// ---- sdk Int (cosmossdk.io/math)
	type SI = osmomath.Int
	S := func(v SI) *aVal { return &aVal{k: kS, S: v} }
	ss := func(name string, f func(x, y SI) SI) {
		ms = append(ms, aMeth{name, kS, kS, kS, false, "", func(x, y *aVal) *aVal { return S(f(x.S, y.S)) }})
	}
	sr := func(name string, f func(x SI, n int64) SI) {
		ms = append(ms, aMeth{name, kS, ki, kS, false, "", func(x, y *aVal) *aVal { return S(f(x.S, y.n)) }})
	}
	ss("si.add", SI.Add)
	ss("si.sub", SI.Sub)
	ss("si.mul", SI.Mul)
	ss("si.quo", SI.Quo)
	ss("si.mod", SI.Mod)
	ss("si.min", osmomath.MinInt)
	ss("si.max", osmomath.MaxInt)
	sr("si.addRaw", SI.AddRaw)
	sr("si.subRaw", SI.SubRaw)
	sr("si.mulRaw", SI.MulRaw)
	sr("si.quoRaw", SI.QuoRaw)
	sr("si.modRaw", SI.ModRaw)
	ms = append(ms, aMeth{"si.neg", kS, kN, kS, false, "", func(x, y *aVal) *aVal { return S(x.S.Neg()) }})
	ms = append(ms, aMeth{"si.abs", kS, kN, kS, false, "", func(x, y *aVal) *aVal { return S(x.S.Abs()) }})
	ms = append(ms, aMeth{"si.toLegacyDec", kS, kN, kD, false, "", func(x, y *aVal) *aVal { return D(x.S.ToLegacyDec()) }})
	ms = append(ms, aMeth{"fromSDKInt", kS, kN, kB, false, "", func(x, y *aVal) *aVal { return B(osmomath.BigDecFromSDKInt(x.S)) }})
	// ---- selection helpers of decimal.go
	bb("minBigDec", false, "", osmomath.MinBigDec)
	bb("maxBigDec", false, "", osmomath.MaxBigDec)
	return ms
}

// ---------------------------------------------------------------- operand classes

var aClasses = []string{"zero", "one", "minus-one", "ulp", "minus-ulp", "pow10", "int", "mid", "max", "min"}

var (
	aMaxB = new(big.Int).Sub(pow2(1144), big.NewInt(1))
	aMaxD = new(big.Int).Sub(new(big.Int).Mul(pow2(256), pow10(18)), big.NewInt(1))
	aMaxI = new(big.Int).Sub(pow2(1024), big.NewInt(1))
	aMaxS = new(big.Int).Sub(pow2(256), big.NewInt(1))
)

// aClassRaw draws the raw value of class `cls` for an object of kind k.
func (g *Gen) aClassRaw(cls string, k aKind) *big.Int {
	unit, max := big.NewInt(1), aMaxS
	digits := 60
	switch k {
	case kB:
		unit, max, digits = p36, aMaxB, 300
	case kD:
		unit, max, digits = p18, aMaxD, 90
	case kI:
		max, digits = aMaxI, 280
	}
	var v *big.Int
	switch cls {
	case "zero":
		v = new(big.Int)
	case "one":
		v = new(big.Int).Set(unit)
	case "minus-one":
		v = new(big.Int).Neg(unit)
	case "ulp":
		v = big.NewInt(1)
	case "minus-ulp":
		v = big.NewInt(-1)
	case "pow10":
		v = pow10(g.Intn(digits))
		if g.Intn(3) == 0 {
			v.Neg(v)
		}
	case "int":
		v = new(big.Int).Mul(big.NewInt(int64(2+g.Intn(1000))), unit)
		if g.Intn(3) == 0 {
			v.Neg(v)
		}
	case "max":
		v = new(big.Int).Set(max)
	case "min":
		v = new(big.Int).Neg(max)
	default: // mid: a moderate non-special value with fractional digits
		v = g.randBits(20 + g.Intn(140))
		v.Add(v, big.NewInt(2))
		if g.Intn(3) == 0 {
			v.Neg(v)
		}
	}
	return v
}

// aScalar draws an int64 / uint64 argument and its class.
func (g *Gen) aScalar(m *aMeth) (int64, string) {
	switch m.name {
	case "chopPrecision", "chopPrecisionMut":
		p := []int64{0, 1, 18, 35, 36, 37, 6}[g.Intn(7)]
		return p, fmt.Sprintf("p=%d", p)
	case "decWithPrecision":
		p := []int64{0, 1, 17, 18, 19, 6}[g.Intn(6)]
		return p, fmt.Sprintf("p=%d", p)
	case "powerInteger", "powerIntegerMut":
		p := []int64{0, 1, 2, 3, 4, 7, 10}[g.Intn(7)]
		return p, fmt.Sprintf("power=%d", p)
	case "newFromIntWithPrec":
		p := []int64{0, 1, 18, 35, 36, 37}[g.Intn(6)]
		return p, fmt.Sprintf("p=%d", p)
	}
	n := []int64{0, 1, -1, 10, -3, 1 << 40, 1<<63 - 1, -1 << 63}[g.Intn(8)]
	switch {
	case n == 0:
		return n, "zero"
	case n == 1:
		return n, "one"
	case n == -1:
		return n, "minus-one"
	case n == 1<<63-1:
		return n, "max"
	case n == -1<<63:
		return n, "min"
	}
	return n, "mid"
}

// ---------------------------------------------------------------- the oracle

type aliasEng struct {
	g    *Gen
	o    *Out
	ms   []aMeth
	byN  map[string]*aMeth
	bops map[string]numOp
	do   func(op numOp, a, b *big.Int) // the value oracle + model line of num.go
	// ... of the unary BigDec methods and of the LegacyDec methods
	uops  map[string]unOp
	doUn  func(op unOp, a *big.Int)
	dops  map[string]decOp
	doDec func(op decOp, a, b *big.Int)
	// ... of the integer types (numint.go): name "bi.<op>" / "si.<op>"
	ival func(name string, a, b *big.Int) bool
}

func newAliasEng(g *Gen, o *Out, bops []numOp, do func(op numOp, a, b *big.Int)) *aliasEng {
	e := &aliasEng{g: g, o: o, ms: aliasMethods(), byN: map[string]*aMeth{}, bops: map[string]numOp{}, do: do}
	for i := range e.ms {
		e.byN[e.ms[i].name] = &e.ms[i]
	}
	for _, op := range bops {
		e.bops[op.name] = op
	}
	return e
}

// mutate applies a mutating operation chosen at random to v and makes sure its value changes
// (returns the mutator's name; "" when the object cannot be mutated from outside).
func (e *aliasEng) mutate(v *aVal) string {
	g := e.g
	before := v.read()
	name := ""
	switch v.k {
	case kB:
		k := bd(big.NewInt(int64(3 + g.Intn(1000))))
		k7 := bd(new(big.Int).Mul(big.NewInt(7), p36))
		ms := []struct {
			n string
			f func()
		}{
			{"AddMut", func() { v.B.AddMut(k7) }},
			{"SubMut", func() { v.B.SubMut(k) }},
			{"MulMut", func() { v.B.MulMut(k7) }},
			{"NegMut", func() { v.B.NegMut() }},
			{"QuoMut", func() { v.B.QuoMut(k7) }},
			{"QuoTruncateMut", func() { v.B.QuoTruncateMut(k7) }},
			{"QuoRoundUpMut", func() { v.B.QuoRoundUpMut(k7) }},
			{"ChopPrecisionMut", func() { (&v.B).ChopPrecisionMut(uint64(g.Intn(36))) }},
			{"AbsMut", func() { v.B.AbsMut() }},
			{"CeilMut", func() { v.B.CeilMut() }},
			{"MulDecMut", func() { v.B.MulDecMut(sd(new(big.Int).Mul(big.NewInt(3), p18))) }},
			{"PowerIntegerMut", func() { v.B.PowerIntegerMut(2) }},
		}
		m := ms[g.Intn(len(ms))]
		name = m.n
		catch(m.f)
	case kD:
		k := sd(big.NewInt(int64(3 + g.Intn(1000))))
		k7 := sd(new(big.Int).Mul(big.NewInt(7), p18))
		ms := []struct {
			n string
			f func()
		}{
			{"d.AddMut", func() { v.D.AddMut(k7) }},
			{"d.SubMut", func() { v.D.SubMut(k) }},
			{"d.MulMut", func() { v.D.MulMut(k7) }},
			{"d.NegMut", func() { v.D.NegMut() }},
			{"d.QuoMut", func() { v.D.QuoMut(k7) }},
			{"d.AbsMut", func() { v.D.AbsMut() }},
			{"d.MulInt64Mut", func() { v.D.MulInt64Mut(3) }},
		}
		m := ms[g.Intn(len(ms))]
		name = m.n
		catch(m.f)
	case kS, kI:
		name = "BigIntMut.Add"
	default:
		return ""
	}
	if v.read().Cmp(before) == 0 { // e.g. NegMut / MulMut on zero: force a change
		p := v.inner()
		if p == nil {
			return ""
		}
		p.Add(p, big.NewInt(int64(1+g.Intn(9))))
		name += "+BigIntMut.Add"
	}
	e.o.Count("alias.mutator." + strings.SplitN(name, "+", 2)[0])
	return name
}

// check runs the discipline for one method and one operand pair; same = the argument IS the receiver object.
func (e *aliasEng) check(m *aMeth, x, y *aVal, cx, cy string) {
	o := e.o
	same := y == x
	cls := cx + "/" + cy
	if m.arg == kN {
		cls = cx
	}
	desc := func() string { return fmt.Sprintf("method=%s recv=%s arg=%s", m.name, x.read(), y.read()) }
	line := desc()
	x0, y0 := x.read(), y.read()
	o.Count("alias.method." + m.name)
	o.Count("alias.class.recv." + cx)
	if m.arg != kN {
		o.Count("alias.class.arg." + cy)
	}
	if !m.mut {
		o.Count("alias.case.nonmut")
		var r *aVal
		ok := catch(func() { r = m.call(x, y) })
		if x.read().Cmp(x0) != 0 {
			o.Fail("alias:receiver-mutated-by-nonmut:"+m.name+":"+cls, line+fmt.Sprintf(" receiver-now=%s panicked=%v", x.read(), !ok))
			return
		}
		if y.read().Cmp(y0) != 0 {
			o.Fail("alias:argument-mutated-by-nonmut:"+m.name+":"+cls, line+fmt.Sprintf(" argument-now=%s panicked=%v", y.read(), !ok))
			return
		}
		if !ok {
			o.Count("alias.case.nonmut.panicked")
			return
		}
		r0 := r.read()
		// the result, mutated in place, must not write through to an operand
		if mu := e.mutate(r); mu != "" {
			o.Count("alias.step.mutate-result")
			if x.read().Cmp(x0) != 0 {
				o.Fail("alias:result-shares-storage-with-receiver:"+m.name+":"+cls,
					fmt.Sprintf("%s result=%s; then result.%s -> receiver reads %s", line, r0, mu, x.read()))
				return
			}
			if y.read().Cmp(y0) != 0 {
				o.Fail("alias:result-shares-storage-with-argument:"+m.name+":"+cls,
					fmt.Sprintf("%s result=%s; then result.%s -> argument reads %s", line, r0, mu, y.read()))
				return
			}
		}
		r1 := r.read()
		// the operands, mutated in place, must not change the result
		if mu := e.mutate(x); mu != "" {
			o.Count("alias.step.mutate-receiver")
			if r.read().Cmp(r1) != 0 {
				o.Fail("alias:result-shares-storage-with-receiver:"+m.name+":"+cls,
					fmt.Sprintf("%s result=%s; then receiver.%s -> result reads %s", line, r1, mu, r.read()))
				return
			}
			if !same && y.read().Cmp(y0) != 0 {
				o.Fail("alias:argument-shares-storage-with-receiver:"+m.name+":"+cls, line)
				return
			}
		}
		if !same {
			if mu := e.mutate(y); mu != "" {
				o.Count("alias.step.mutate-argument")
				if r.read().Cmp(r1) != 0 {
					o.Fail("alias:result-shares-storage-with-argument:"+m.name+":"+cls,
						fmt.Sprintf("%s result=%s; then argument.%s -> result reads %s", line, r1, mu, r.read()))
				}
			}
		}
		return
	}
	// ---- mutating method
	o.Count("alias.case.mut")
	if same {
		o.Count("alias.case.mut.same-object")
	}
	var want *aVal
	wok := false
	if tw := e.byN[m.twin]; tw != nil {
		cx2 := x.clone()
		cy2 := y.clone()
		wok = catch(func() { want = tw.call(cx2, cy2) })
	}
	var r *aVal
	ok := catch(func() { r = m.call(x, y) })
	selfKey := ""
	if same {
		selfKey = "self-aliased-"
	}
	if !same && y.read().Cmp(y0) != 0 {
		o.Fail("alias:argument-mutated-by-mut:"+m.name+":"+cls, line+fmt.Sprintf(" argument-now=%s panicked=%v", y.read(), !ok))
		return
	}
	if m.twin != "" {
		if ok != wok {
			o.Fail("alias:"+selfKey+"mut-differs-from-nonmut:"+m.name+":"+cls, fmt.Sprintf("%s mut-ok=%v nonmut-on-clones-ok=%v", line, ok, wok))
			return
		}
		if ok && r.read().Cmp(want.read()) != 0 {
			o.Fail("alias:"+selfKey+"mut-differs-from-nonmut:"+m.name+":"+cls, fmt.Sprintf("%s mut=%s nonmut-on-clones=%s", line, r.read(), want.read()))
			return
		}
	}
	if !ok {
		o.Count("alias.case.mut.panicked")
		return
	}
	if x.read().Cmp(r.read()) != 0 {
		o.Fail("alias:mut-receiver-not-updated:"+m.name+":"+cls, fmt.Sprintf("%s returned=%s receiver-now=%s", line, r.read(), x.read()))
		return
	}
	// the returned value IS the receiver: a change of one shows in the other
	if mu := e.mutate(r); mu != "" {
		o.Count("alias.step.mutate-mut-result")
		if x.read().Cmp(r.read()) != 0 {
			o.Fail("alias:mut-result-is-not-the-receiver:"+m.name+":"+cls, fmt.Sprintf("%s; then result.%s -> result=%s receiver=%s", line, mu, r.read(), x.read()))
			return
		}
		if !same && y.read().Cmp(y0) != 0 {
			o.Fail("alias:mut-result-shares-storage-with-argument:"+m.name+":"+cls, line)
		}
	}
}

// operands builds the two live objects of one case; cy "same-object" / "equal" are relative to the receiver.
func (e *aliasEng) operands(m *aMeth, cx, cy string) (x, y *aVal, cyOut string) {
	g := e.g
	x = aNew(m.recv, g.aClassRaw(cx, m.recv))
	switch m.arg {
	case kN:
		return x, &aVal{k: kN}, ""
	case ki, ku:
		n, c := g.aScalar(m)
		return x, &aVal{k: m.arg, n: n}, c
	}
	switch cy {
	case "same-object":
		if m.arg == m.recv {
			return x, x, cy
		}
		cy = "equal"
		fallthrough
	case "equal":
		v := x.read()
		if m.arg != m.recv {
			cy = "equal-raw"
		}
		lim := map[aKind]*big.Int{kB: aMaxB, kD: aMaxD, kI: aMaxI, kS: aMaxS}[m.arg]
		if v.CmpAbs(lim) > 0 {
			v = g.aClassRaw("mid", m.arg)
			cy = "mid"
		}
		return x, aNew(m.arg, v), cy
	}
	return x, aNew(m.arg, g.aClassRaw(cy, m.arg)), cy
}

// valueLine also sends the operand pair through the value oracle and the model (binary methods of the num table).
func (e *aliasEng) valueLine(m *aMeth, x, y *aVal) {
	name := strings.TrimSuffix(m.name, "Mut")
	if m.name == "quoRoundUpMut" || m.name == "quoRoundUpNextIntMut" {
		name = m.name
	}
	if e.ival != nil && (m.recv == kI || m.recv == kS) && e.ival(m.name, x.read(), y.read()) {
		return
	}
	if op, ok := e.bops[name]; ok && (m.arg == kB || m.arg == kD || m.arg == kI || m.arg == ki) {
		e.do(op, x.read(), y.read())
		return
	}
	if op, ok := e.uops[name]; ok && m.arg == kN {
		e.doUn(op, x.read())
		return
	}
	if op, ok := e.dops[strings.Replace(name, "d.quoRoundUpMut", "d.quoRoundUp", 1)]; ok && m.arg == kD {
		e.doDec(op, x.read(), y.read())
	}
}

func (e *aliasEng) one(m *aMeth, cx, cy string) {
	x, y, cy2 := e.operands(m, cx, cy)
	e.valueLine(m, x, y)
	e.check(m, x, y, cx, cy2)
}

// sweep: every method x every receiver class x every argument class (plus equal / same object), once.
func (e *aliasEng) sweep() {
	for i := range e.ms {
		m := &e.ms[i]
		for _, cx := range aClasses {
			switch m.arg {
			case kN:
				e.one(m, cx, "")
			case ki, ku:
				for j := 0; j < 6; j++ {
					e.one(m, cx, "")
				}
			default:
				for _, cy := range append(append([]string{}, aClasses...), "equal", "same-object") {
					e.one(m, cx, cy)
				}
			}
		}
	}
	e.o.Count("alias.sweeps")
}

func (e *aliasEng) random() {
	g := e.g
	m := &e.ms[g.Intn(len(e.ms))]
	cys := append(append([]string{}, aClasses...), "equal", "same-object", "same-object", "zero", "zero")
	cxs := append(append([]string{}, aClasses...), "zero", "zero", "mid", "mid")
	e.one(m, cxs[g.Intn(len(cxs))], cys[g.Intn(len(cys))])
}

// ---------------------------------------------------------------- (d) alias chains

type chainOp struct {
	name   string
	mut    bool
	binary bool // the argument is a pool variable (else a scalar / nothing)
	scalar bool
	// run on the live pool objects: non-mutating forms return the new object for pool[dst]
	run func(x, y *osmomath.BigDec, n uint64) osmomath.BigDec
}

func chainOps() []chainOp {
	type BD = osmomath.BigDec
	bin := func(name string, mut bool, f func(x, y BD) BD) chainOp {
		return chainOp{name, mut, true, false, func(x, y *BD, n uint64) BD { return f(*x, *y) }}
	}
	un := func(name string, mut bool, f func(x BD) BD) chainOp {
		return chainOp{name, mut, false, false, func(x, y *BD, n uint64) BD { return f(*x) }}
	}
	sc := func(name string, mut bool, f func(x *BD, n uint64) BD) chainOp {
		return chainOp{name, mut, false, true, func(x, y *BD, n uint64) BD { return f(x, n) }}
	}
	return []chainOp{
		bin("add", false, BD.Add), bin("sub", false, BD.Sub), bin("mul", false, BD.Mul), bin("quo", false, BD.Quo),
		bin("mulTruncate", false, BD.MulTruncate), bin("mulRoundUp", false, BD.MulRoundUp),
		bin("quoTruncate", false, BD.QuoTruncate), bin("quoRoundUp", false, BD.QuoRoundUp),
		un("neg", false, BD.Neg), un("abs", false, BD.Abs), un("ceil", false, BD.Ceil), un("clone", false, BD.Clone),
		un("truncateDec", false, BD.TruncateDec),
		sc("chopPrecision", false, func(x *BD, n uint64) BD { return x.ChopPrecision(n) }),
		sc("powerInteger", false, func(x *BD, n uint64) BD { return x.PowerInteger(n) }),
		bin("addMut", true, BD.AddMut), bin("subMut", true, BD.SubMut), bin("mulMut", true, BD.MulMut), bin("quoMut", true, BD.QuoMut),
		bin("quoTruncateMut", true, BD.QuoTruncateMut), bin("quoRoundUpMut", true, BD.QuoRoundUpMut),
		bin("quoRoundUpNextIntMut", true, BD.QuoRoundUpNextIntMut),
		un("negMut", true, BD.NegMut), un("absMut", true, BD.AbsMut), un("ceilMut", true, BD.CeilMut),
		sc("chopPrecisionMut", true, func(x *BD, n uint64) BD { return x.ChopPrecisionMut(n) }),
		sc("powerIntegerMut", true, func(x *BD, n uint64) BD { return x.PowerIntegerMut(n) }),
	}
}

// chainRef: the value a step gives under value semantics (big.Rat rules of the num table; shares no code with
// the model).  ok=false = the call panics (overflow, division by zero, bad precision).
func (e *aliasEng) chainRef(name string, x, y *big.Int, n uint64) (*big.Int, bool) {
	base := strings.TrimSuffix(name, "Mut")
	fits := func(v *big.Int) (*big.Int, bool) { return v, v.BitLen() <= 1144 }
	switch base {
	case "neg":
		return new(big.Int).Neg(x), true
	case "abs":
		return new(big.Int).Abs(x), true
	case "clone":
		return new(big.Int).Set(x), true
	case "ceil":
		c := ratCeil(ratOf(x, p36))
		return c.Mul(c, p36), true
	case "truncateDec":
		c := ratTrunc(ratOf(x, p36))
		return c.Mul(c, p36), true
	case "chopPrecision":
		if n > 36 {
			return nil, false
		}
		f := pow10(int(36 - n))
		c := ratTrunc(ratOf(x, f))
		return c.Mul(c, f), true
	case "powerInteger":
		mul := func(a, b *big.Int) (*big.Int, bool) {
			return fits(ratHalfEven(ratOf(new(big.Int).Mul(a, b), p36)))
		}
		switch n {
		case 0:
			if name == "powerIntegerMut" { // the receiver is left alone (a fresh one is returned)
				return new(big.Int).Set(x), true
			}
			return new(big.Int).Set(p36), true
		case 1:
			return new(big.Int).Set(x), true
		case 2:
			return mul(x, x)
		}
		d, tmp := new(big.Int).Set(x), new(big.Int).Set(p36)
		ok := true
		for i := n; i > 1; {
			if i%2 != 0 {
				if tmp, ok = mul(tmp, d); !ok {
					return nil, false
				}
			}
			i /= 2
			if d, ok = mul(d, d); !ok {
				return nil, false
			}
		}
		return mul(d, tmp)
	}
	tbl := base
	if name == "quoRoundUpMut" || name == "quoRoundUpNextIntMut" {
		tbl = name
	}
	op, found := e.bops[tbl]
	if !found {
		panic("alias chain: no reference for " + name)
	}
	q, rule := op.exact(x, y)
	if q == nil {
		return nil, false
	}
	return fits(applyRule(q, rule))
}

func aValClass(v *big.Int) string {
	switch {
	case v.Sign() == 0:
		return "zero"
	case v.Cmp(p36) == 0:
		return "one"
	case v.CmpAbs(p36) == 0:
		return "minus-one"
	case v.CmpAbs(big.NewInt(1)) == 0:
		return "ulp"
	case new(big.Int).Rem(v, p36).Sign() == 0:
		return "int"
	}
	return "other"
}

// chain runs one alias chain on live objects, emits the `num chain` line and judges it against value semantics.
func (e *aliasEng) chain(ops []chainOp) {
	g, o := e.g, e.o
	k := 2 + g.Intn(3)
	pool := make([]osmomath.BigDec, k)
	ref := make([]*big.Int, k)
	origin := make([]string, k) // the method that produced the object a variable currently holds
	var sb strings.Builder
	fmt.Fprintf(&sb, "num chain %d", k)
	for i := range pool {
		cls := []string{"zero", "zero", "one", "minus-one", "ulp", "pow10", "int", "mid", "mid", "mid"}[g.Intn(10)]
		v := g.aClassRaw(cls, kB)
		if cls == "pow10" && v.BitLen() > 260 {
			v = pow10(g.Intn(70))
		}
		pool[i], ref[i], origin[i] = bd(v), v, "init"
		fmt.Fprintf(&sb, " %s", v)
	}
	nSteps := 3 + g.Intn(4)
	type step struct {
		op        *chainOp
		dst, r, a int
		n         uint64
	}
	var steps []step
	sawNonMut := false
	for s := 0; s < nSteps; s++ {
		op := &ops[g.Intn(len(ops))]
		if s == nSteps-1 && !sawNonMut { // a chain of Mut ops only cannot show a shared result
			for op.mut {
				op = &ops[g.Intn(len(ops))]
			}
		}
		// after a non-mutating step prefer to mutate its RESULT next, then read the operands again
		st := step{op: op, r: g.Intn(k), a: g.Intn(k), dst: g.Intn(k)}
		if len(steps) > 0 && !steps[len(steps)-1].op.mut && op.mut && g.Intn(4) != 0 {
			st.r = steps[len(steps)-1].dst
		}
		if op.mut {
			st.dst = st.r
		} else {
			sawNonMut = true
		}
		if op.binary && op.mut && st.a == st.r && strings.HasPrefix(op.name, "quo") {
			// x.QuoMut(x) and friends divide the already scaled receiver by itself (finding F57, judged by the
			// same-object cases of the discipline oracle); a chain must stay value-semantic on the unchanged code
			st.a = (st.r + 1) % k
		}
		if op.scalar {
			if strings.HasPrefix(op.name, "chop") {
				st.n = uint64([]int{0, 1, 6, 18, 35, 36}[g.Intn(6)])
			} else {
				st.n = uint64(g.Intn(5))
			}
		}
		steps = append(steps, st)
		arg := fmt.Sprint(st.a)
		if !op.binary {
			arg = fmt.Sprint(st.n)
		}
		fmt.Fprintf(&sb, " %s %d %d %s", op.name, st.dst, st.r, arg)
	}
	line := sb.String()
	o.Count("alias.chain")
	o.Count(fmt.Sprintf("alias.chain.len%d", nSteps))
	obs := ""
	failed := false
	for i, st := range steps {
		o.Count("alias.chain.op." + st.op.name)
		// reference (value semantics)
		want, wok := e.chainRef(st.op.name, ref[st.r], ref[st.a], st.n)
		// implementation, on the live objects
		before := make([]*big.Int, k)
		for j := range pool {
			before[j] = pool[j].BigInt()
		}
		var res osmomath.BigDec
		ok := catch(func() { res = st.op.run(&pool[st.r], &pool[st.a], st.n) })
		if ok != wok {
			if !failed {
				o.Fail("alias:chain:panic-differs:"+st.op.name, fmt.Sprintf("%s step=%d impl-ok=%v value-semantics-ok=%v", line, i, ok, wok))
				failed = true
			}
		}
		if !ok {
			obs = fmt.Sprintf("panic %d", i)
			o.Count("alias.chain.panicked")
			break
		}
		if !st.op.mut {
			pool[st.dst] = res
			origin[st.dst] = st.op.name
		}
		if wok {
			ref[st.dst] = want
		}
		// every variable must read what value semantics says
		for j := range pool {
			got := pool[j].BigInt()
			if got.Cmp(ref[j]) == 0 || failed {
				continue
			}
			failed = true
			if j != st.dst {
				// a variable that is not the target of this step changed: the object mutated in place is
				// shared with it.  Blame the method that produced the mutated object.
				blame := origin[st.r] // the two variables share one object: one of them is a method's result
				if blame == "init" || (origin[j] != "init" && origin[j] != blame) {
					if blame == "init" {
						blame = origin[j]
					} else {
						blame += "|" + origin[j]
					}
				}
				o.Fail("alias:chain:result-shares-storage:"+blame+":"+aValClass(before[j]),
					fmt.Sprintf("%s step=%d (%s v%d) changed v%d from %s to %s; v%d holds the result of %s, v%d of %s", line, i, st.op.name, st.r, j, before[j], got, st.r, origin[st.r], j, origin[j]))
			} else {
				o.Fail("alias:chain:value:"+st.op.name, fmt.Sprintf("%s step=%d v%d=%s value-semantics=%s", line, i, j, got, ref[j]))
			}
		}
	}
	if obs == "" {
		var ob strings.Builder
		ob.WriteString("ok")
		for j := range pool {
			ob.WriteByte(' ')
			ob.WriteString(pool[j].BigInt().String())
		}
		obs = ob.String()
	}
	o.Emit(line, obs, true)
}
