package main

import (
	"flag"
	"fmt"
	"os"
)

func main() {
	engine := flag.String("engine", "", "engine name")
	seed := flag.Int64("seed", 1, "PRNG seed")
	n := flag.Int("n", 1000, "number of cases / ops")
	dir := flag.String("out", "", "output directory")
	flag.Parse()
	if *dir == "" {
		fmt.Fprintln(os.Stderr, "need -out")
		os.Exit(2)
	}
	switch *engine {
	case "num":
		runNum(*seed, *n, *dir)
	case "math":
		runMath(*seed, *n, *dir)
	case "tick":
		runTick(*seed, *n, *dir)
	case "epochs":
		runEpochs(*seed, *n, *dir)
	case "accum":
		runAccum(*seed, *n, *dir)
	case "clmath":
		runCLMath(*seed, *n, *dir)
	case "gammmath":
		runGammMath(*seed, *n, *dir)
	case "sumtree":
		runSumTree(*seed, *n, *dir)
	default:
		fmt.Fprintln(os.Stderr, "unknown engine", *engine)
		os.Exit(2)
	}
}
