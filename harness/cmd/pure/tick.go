package main

// Engine `tick` (property C14): tick <-> price <-> sqrt-price conversions of
// x/concentrated-liquidity/math against the Lean model and against the
// property's own clauses (closed formula, strict/weak monotonicity, bounds,
// round-trip on the swap-reachable range, bucket containment, spacing rounding,
// rejection outside the range).  The thorough tier sweeps EVERY tick.

import (
	"fmt"
	"math/big"
	"math/rand"
	"os"
	"sync"

	"github.com/osmosis-labs/osmosis/osmomath"
	clmath "github.com/osmosis-labs/osmosis/v31/x/concentrated-liquidity/math"
	cltypes "github.com/osmosis-labs/osmosis/v31/x/concentrated-liquidity/types"
)

func obsErr(err error, v *big.Int) string {
	if err != nil {
		return "panic"
	}
	return "ok " + v.String()
}

// formulaPrice: the documented geometric/additive formula, computed independently with big.Rat:
// price(t) = 10^g · (1 + a·10^(expAtPriceOne))   for t >= 0 with t = g·D + a  (D = 9·10^6)
// for t < 0:  t = -(g'·D + a'),  price = 10^(-g') − a'·10^(expAtPriceOne − g' − 1)   [a' > 0 borrows from the next decade]
func formulaPrice(t int64) *big.Rat {
	const D = 9000000
	ten := func(e int) *big.Rat {
		if e >= 0 {
			return new(big.Rat).SetInt(pow10(e))
		}
		return new(big.Rat).SetFrac(big.NewInt(1), pow10(-e))
	}
	if t >= 0 {
		g, a := t/D, t%D
		r := new(big.Rat).Mul(ten(int(g)-6), new(big.Rat).SetInt64(a))
		return r.Add(r, ten(int(g)))
	}
	u := -t
	g, a := u/D, u%D
	// price = 10^(-g) - a*10^(-6-g-1)
	r := new(big.Rat).Mul(ten(-6-int(g)-1), new(big.Rat).SetInt64(a))
	return new(big.Rat).Sub(ten(-int(g)), r)
}

type tickFacts struct {
	minInitV2, minCurV2, minInit, maxTick int64
}

var tf = tickFacts{cltypes.MinInitializedTickV2, cltypes.MinCurrentTickV2, cltypes.MinInitializedTick, cltypes.MaxTick}

func t2sp(t int64) (*big.Int, error) {
	r, err := clmath.TickToSqrtPrice(t)
	if err != nil {
		return nil, err
	}
	return r.BigInt(), nil
}

// checkTick evaluates the per-tick clauses of C14 on the implementation; returns failure keys.
func checkTick(t int64, fail func(key, detail string)) {
	p, err := clmath.TickToPrice(t)
	if err != nil {
		fail("t2p:in-range-rejected", fmt.Sprint(t))
		return
	}
	// closed formula (the two V2 floor ticks share the floor price by documentation)
	if t != tf.minInitV2 && t != tf.minCurV2 {
		want := formulaPrice(t)
		got := new(big.Rat).SetFrac(p.BigInt(), p36)
		if want.Cmp(got) != 0 {
			fail("t2p:formula", fmt.Sprint(t))
		}
	}
	if t < tf.maxTick {
		p2, err2 := clmath.TickToPrice(t + 1)
		if err2 != nil {
			fail("t2p:in-range-rejected", fmt.Sprint(t+1))
			return
		}
		if t != tf.minCurV2 && !p.LT(p2) {
			fail("t2p:not-strictly-increasing", fmt.Sprint(t))
		}
	}
	if t == tf.minCurV2 {
		return
	}
	s, err := clmath.TickToSqrtPrice(t)
	if err != nil {
		fail("t2sp:in-range-rejected", fmt.Sprint(t))
		return
	}
	if s.GT(cltypes.MaxSqrtPriceBigDec) || s.BigInt().Sign() <= 0 {
		fail("t2sp:out-of-bounds", fmt.Sprint(t))
	}
	if t < tf.maxTick {
		s2, _ := clmath.TickToSqrtPrice(t + 1)
		if s2.LT(s) {
			fail("t2sp:decreasing", fmt.Sprint(t))
		}
		if t >= tf.minInit {
			// swap-reachable range: round trip and bucket containment
			back, err := clmath.CalculateSqrtPriceToTick(s)
			if err != nil || back != t {
				fail("roundtrip:sp(t)", fmt.Sprintf("%d -> %d %v", t, back, err))
			}
			if s2.GT(s) {
				below := osmomath.NewBigDecFromBigInt(new(big.Int).Sub(s2.BigInt(), big.NewInt(1)))
				_ = below
				sb := bd(new(big.Int).Sub(s2.BigInt(), big.NewInt(1)))
				b2, err := clmath.CalculateSqrtPriceToTick(sb)
				if err != nil || b2 != t {
					fail("bucket:upper-edge-exclusive", fmt.Sprintf("%d -> %d %v", t, b2, err))
				}
			} else {
				fail("t2sp:not-strictly-increasing-on-reachable-range", fmt.Sprint(t))
			}
		}
	}
}

func runTick(seed int64, n int, dir string) {
	g := &Gen{rand.New(rand.NewSource(seed))}
	o := NewOut(dir)
	const D = 9000000
	randTick := func() int64 {
		switch g.Intn(8) {
		case 0: // decade boundaries +-2
			k := int64(g.Intn(69) - 30)
			return k*D + int64(g.Intn(5)-2)
		case 1: // range edges
			e := []int64{tf.minCurV2, tf.minInitV2, tf.minInit - 1, tf.minInit, tf.maxTick, 0}[g.Intn(6)]
			return e + int64(g.Intn(7)-3)
		case 2: // swap-reachable
			return tf.minInit + g.r.Int63n(tf.maxTick-tf.minInit+1)
		case 3: // extended low range
			return tf.minInitV2 + g.r.Int63n(tf.minInit-tf.minInitV2)
		case 4:
			return int64(g.Intn(2001) - 1000)
		case 5: // out of range
			if g.Intn(5) == 0 { // the int64 / int32 boundaries
				o.Count("class.tick.int-boundary")
				return []int64{1<<63 - 1, -1 << 63, 1<<63 - 2, -1<<63 + 1, 1 << 31, -1 << 31, 1<<31 - 1, 1 << 32, -1<<32 - 1, 1 << 53}[g.Intn(10)]
			}
			if g.Intn(2) == 0 {
				return tf.maxTick + 1 + g.r.Int63n(1000000)
			}
			return tf.minCurV2 - 1 - g.r.Int63n(1000000)
		default:
			return tf.minInitV2 + g.r.Int63n(tf.maxTick-tf.minInitV2+1)
		}
	}
	fail := func(key, detail string) { o.Fail(key, detail) }
	for i := 0; i < n; i++ {
		switch k := g.Intn(100); {
		case k < 25:
			t := randTick()
			p, err := clmath.TickToPrice(t)
			var v *big.Int
			if err == nil {
				v = p.BigInt()
			}
			o.Emit(fmt.Sprintf("tick t2p %d", t), obsErr(err, v), true)
			o.Count("op.t2p")
			inRange := t >= tf.minCurV2 && t <= tf.maxTick
			if !inRange && err == nil {
				o.Fail("t2p:out-of-range-accepted", fmt.Sprint(t))
			}
			if inRange {
				checkTick(t, fail)
			}
		case k < 45:
			t := randTick()
			s, err := t2sp(t)
			o.Emit(fmt.Sprintf("tick t2sp %d", t), obsErr(err, s), true)
			o.Count("op.t2sp")
			inRange := t >= tf.minCurV2 && t <= tf.maxTick
			if !inRange && err == nil {
				o.Fail("t2sp:out-of-range-accepted", fmt.Sprint(t))
			}
		case k < 75: // sqrt price -> tick: on, just below, just above tick boundaries; random; out of range
			var sp *big.Int
			t := randTick()
			base, err := t2sp(t)
			switch {
			case err != nil || g.Intn(10) == 0:
				sp = g.randBits(1 + g.Intn(200))
				if g.Intn(4) == 0 { // up to (and beyond) the 1024 bits of BigDec
					sp = g.randBits(1 + g.Intn(1100))
					o.Count("class.sp2t.huge")
				}
			default:
				sp = new(big.Int).Add(base, big.NewInt(int64(g.Intn(5)-2)))
				if g.Intn(3) == 0 { // strictly inside the bucket
					if nx, err2 := t2sp(t + 1); err2 == nil && nx.Cmp(base) > 0 {
						sp = new(big.Int).Add(base, new(big.Int).Rand(g.r, new(big.Int).Sub(nx, base)))
					}
				}
			}
			negative := false
			if g.Intn(12) == 0 { // negative and zero sqrt prices: their square is a perfectly valid price
				if g.Intn(6) == 0 {
					sp = big.NewInt(0)
				} else {
					sp = new(big.Int).Neg(sp)
				}
				negative = true
				o.Count("class.sp2t.non-positive")
			}
			var tk int64
			var e2 error
			ok := catch(func() { tk, e2 = clmath.CalculateSqrtPriceToTick(bd(sp)) })
			obs := "panic"
			if ok && e2 == nil {
				obs = fmt.Sprintf("ok %d", tk)
			}
			line := fmt.Sprintf("tick sp2t %s", sp)
			o.Emit(line, obs, true)
			o.Count("op.sp2t")
			if ok && e2 == nil && negative {
				// no bucket contains a non-positive sqrt price
				o.Fail("sp2t:non-positive-accepted", line+fmt.Sprintf(" -> %d", tk))
			} else if ok && e2 == nil {
				// square-root prices below the swap-reachable range are rejected: the candidate tick is checked against
				// MinCurrentTick and corrected by at most one (Props/C14RoundTrip: below_range_witness is the one-tick band)
				if tk < tf.minInit-2 {
					o.Fail("sp2t:below-swap-reachable-range-accepted", line+fmt.Sprintf(" -> %d", tk))
				}
				// bucket containment: sp(tk) <= sp and (sp < sp(tk+1) or tk == MaxTick)
				lo, err := t2sp(tk)
				if err != nil || lo.Cmp(sp) > 0 {
					o.Fail("bucket:lower-edge", line)
				}
				if tk < tf.maxTick {
					hi, err := t2sp(tk + 1)
					if err != nil || hi.Cmp(sp) <= 0 {
						// the two V2 floor ticks and plateaus of the 36-digit regime may share a sqrt price: only flag on the reachable range
						if tk >= tf.minInit {
							o.Fail("bucket:upper-edge", line)
						} else {
							o.Count("bucket.plateau-below-launch-range")
						}
					}
				}
				if tk < tf.minCurV2 || tk > tf.maxTick {
					o.Fail("sp2t:result-out-of-range", line)
				}
			}
		case k < 85: // price -> tick
			var p *big.Int
			if g.Intn(4) == 0 {
				p = g.randBits(1 + g.Intn(260))
			} else {
				t := randTick()
				pp, err := clmath.TickToPrice(t)
				if err != nil {
					p = g.randBits(1 + g.Intn(260))
				} else {
					p = new(big.Int).Add(pp.BigInt(), big.NewInt(int64(g.Intn(5)-2)))
				}
			}
			if g.Intn(40) == 0 {
				p = g.randBits(1 + g.Intn(1100))
				o.Count("class.p2t.huge")
			}
			if g.Intn(15) == 0 {
				p.Neg(p)
			}
			var tk int64
			var e2 error
			ok := catch(func() { tk, e2 = clmath.CalculatePriceToTick(bd(p)) })
			obs := "panic"
			if ok && e2 == nil {
				obs = fmt.Sprintf("ok %d", tk)
			}
			o.Emit(fmt.Sprintf("tick p2t %s", p), obs, true)
			o.Count("op.p2t")
			if ok && e2 == nil && (p.Cmp(cltypes.MaxSpotPriceBigDec.BigInt()) > 0 || p.Cmp(cltypes.MinSpotPriceV2.BigInt()) < 0) {
				o.Fail("p2t:out-of-range-accepted", p.String())
			}
		default: // spacing rounding
			t := randTick()
			sp := []int64{1, 10, 100, 1000}[g.Intn(4)]
			if g.Intn(10) == 0 {
				sp = int64(1 + g.Intn(5000))
			}
			weird := false
			if g.Intn(12) == 0 { // spacing boundaries: zero (division by zero), negative, beyond every tick, int32/int64 limits
				sp = []int64{0, -1, -10, 1 << 31, 1 << 32, 1 << 62, 1<<63 - 1, tf.maxTick, tf.maxTick + 1, -tf.minInitV2, -tf.minInitV2 + 1}[g.Intn(11)]
				weird = sp <= 0 || sp > 1<<62
				if t > 1<<40 || t < -(1<<40) { // keep |t| + |spacing| inside int64: Go wraps around there (e.g. (MinInt64, MaxInt64) -> 2), the model's Int does not
					t = tf.minInitV2 + g.r.Int63n(tf.maxTick-tf.minInitV2+1)
				}
				o.Count("class.spacing.boundary")
			}
			var r int64
			var err error
			if !catch(func() { r, err = clmath.RoundDownTickToSpacing(t, sp) }) {
				err = fmt.Errorf("panic")
				if sp != 0 {
					o.Fail("round:panic:nonzero-spacing", fmt.Sprint(t, sp))
				}
			}
			o.Emit(fmt.Sprintf("tick round %d %d", t, sp), obsErr(err, big.NewInt(r)), true)
			o.Count("op.round")
			if weird {
				// outside the documented domain (spacing is a positive pool parameter): model comparison only
			} else if err == nil {
				if r > t || r <= t-sp || r%sp != 0 || r > tf.maxTick || r < tf.minInitV2 {
					o.Fail("round:spec", fmt.Sprint(t, sp, r))
				}
			} else {
				// must only fail when the rounded tick leaves the range
				m := ((t % sp) + sp) % sp
				if rt := t - m; rt <= tf.maxTick && rt >= tf.minInitV2 {
					o.Fail("round:spurious-error", fmt.Sprint(t, sp))
				}
			}
		}
	}
	extra := map[string]any{}
	if os.Getenv("VERIF_TICK_SWEEP") != "" {
		extra["sweep"] = sweepAllTicks(o, envInt("VERIF_TICK_SWEEP_STRIDE", 1), seed)
	}
	o.Close(extra)
}

// sweepAllTicks enumerates the finite tick domain of the implementation completely (16 shards).
func sweepAllTicks(o *Out, stride int, seed int64) map[string]any {
	lo, hi := tf.minCurV2, tf.maxTick
	if stride > 1 { // a different residue class per seed
		lo += ((seed % int64(stride)) + int64(stride)) % int64(stride)
	}
	shards := 16
	var mu sync.Mutex
	var wg sync.WaitGroup
	count := int64(0)
	per := (hi - lo + int64(shards)) / int64(shards)
	for s := 0; s < shards; s++ {
		a := lo + int64(s)*per
		b := a + per - 1
		if b > hi {
			b = hi
		}
		wg.Add(1)
		go func(a, b int64) {
			defer wg.Done()
			local := int64(0)
			for t := a; t <= b; t += int64(stride) {
				checkTick(t, func(key, detail string) {
					mu.Lock()
					o.Fail(key, "sweep "+detail)
					mu.Unlock()
				})
				local++
			}
			mu.Lock()
			count += local
			mu.Unlock()
		}(a, b)
	}
	wg.Wait()
	return map[string]any{"ticks_checked": count, "from": lo, "to": hi, "stride": stride, "exhaustive": stride == 1}
}
