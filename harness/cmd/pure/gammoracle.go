package main

// Property oracles of engine `gammmath` (C04).  They share no code with the Lean model:
// exact rationals (big.Rat) for everything discrete and for the stableswap invariant, 700-bit
// floats (bigfloat.go) for the weighted product and the exact constant-weighted-product formula.
//
// PRECISION CONTRACT used for the balancer clauses.  osmomath documents: "all fractional
// exponentiation is expected to be accurate up to powPrecision" (= 1e-8, GetPowPrecision), i.e. an
// ABSOLUTE error of 1e-8 on the fractional-power factor; Pow multiplies it with the (exactly rounded)
// integer-power factor, which is <= b^e for base >= 1 and <= 1 for base < 1.  Hence, for p = b^e,
//        |Pow(b,e) - p| <= 1e-8 * (1 + p)                       (same bound as the C13 oracle)
// to which 1e-10 * (1 + p) is added for the at most ~60 half-even 18-decimal roundings of the
// surrounding Dec arithmetic (quotients, repeated squaring with exponents <= 2^20 * 8).
//        powEps(p) = 1.01e-8 * (1 + p)
// Every balancer tolerance below is DERIVED from powEps by pushing p +- powEps through the exact
// formula; when p <= powEps(p) the documented precision does not constrain the result at all and the
// case is counted as vacuous instead of judged.

import (
	"fmt"
	"math/big"
	"strings"

	"github.com/osmosis-labs/osmosis/osmomath"
	"github.com/osmosis-labs/osmosis/v31/x/gamm/pool-models/stableswap"
)

func fI(x *big.Int) *big.Float        { return bfInt(x) }
func fI64(x int64) *big.Float         { return bfInt(big.NewInt(x)) }
func fR(r *big.Rat) *big.Float        { return bfRat(r.Num(), r.Denom()) }
func fNew() *big.Float                { return new(big.Float).SetPrec(refPrec) }
func fAdd(a, b *big.Float) *big.Float { return fNew().Add(a, b) }
func fSub(a, b *big.Float) *big.Float { return fNew().Sub(a, b) }
func fMul(a, b *big.Float) *big.Float { return fNew().Mul(a, b) }
func fQuo(a, b *big.Float) *big.Float { return fNew().Quo(a, b) }
func fNeg(a *big.Float) *big.Float    { return fNew().Neg(a) }

var fTiny = func() *big.Float { e := bf(1); return e.SetMantExp(e, -500) }()

func powEps(p *big.Float) *big.Float {
	return fMul(bfRat(big.NewInt(101), pow10(10)), fAdd(bf(1), p))
}

// class of a Pow base by its distance from 1 (the convergence class of the series; compare the keys of
// the C13 findings F9/F10): "base<1:|x|<=0.5", "base<1:0.5<|x|<=0.9", "base<1:|x|>0.9", "base>=1:…".
func powClassF(b *big.Float) string {
	x := fSub(b, bf(1))
	c := "base>=1"
	if x.Sign() < 0 {
		c = "base<1"
		x.Neg(x)
	}
	switch {
	case x.Cmp(bf(0.5)) <= 0:
		return c + ":|x|<=0.5"
	case x.Cmp(bf(0.9)) <= 0:
		return c + ":0.5<|x|<=0.9"
	default:
		return c + ":|x|>0.9"
	}
}

func powClassRank(c string) int {
	switch {
	case c == "":
		return 0
	case strings.HasSuffix(c, ":|x|<=0.5"):
		return 1
	case strings.HasSuffix(c, ":0.5<|x|<=0.9"):
		return 2
	default:
		return 3
	}
}

// 1 - spread as an exact rational of the raw Dec
func oneMinusRat(spread *big.Int) *big.Rat {
	return new(big.Rat).SetFrac(new(big.Int).Sub(p18, spread), p18)
}

type balCtx struct {
	ok        bool
	Bin, Bout *big.Float
	wIn, wOut *big.Float
	W         *big.Float
	S         *big.Float
	b, p, eps *big.Float
	cls       string
	vacuous   bool
}

// exact-in swap: b = Bin/(Bin + in(1-spread)), e = wIn/wOut
func ctxSwapOut(p *gPool, dIn, dOut string, amt, spread *big.Int) balCtx {
	i, j := p.idx(dIn), p.idx(dOut)
	if i < 0 || j < 0 || i == j || amt.Sign() <= 0 || p.assets[i].r.Sign() <= 0 || p.assets[j].r.Sign() <= 0 {
		return balCtx{}
	}
	c := balCtx{ok: true, Bin: fI(p.assets[i].r), Bout: fI(p.assets[j].r), wIn: fI64(p.assets[i].w), wOut: fI64(p.assets[j].w), W: fI64(p.totalW()), S: fI(p.total)}
	inFee := fMul(fI(amt), fR(oneMinusRat(spread)))
	c.b = fQuo(c.Bin, fAdd(c.Bin, inFee))
	c.p = powRef(c.b, fQuo(c.wIn, c.wOut))
	c.eps = powEps(c.p)
	c.cls = powClassF(c.b)
	c.vacuous = c.p.Cmp(c.eps) <= 0
	return c
}

func tolBalSwapOut(p *gPool, dIn, dOut string, amt, spread *big.Int) (*big.Float, string) {
	c := ctxSwapOut(p, dIn, dOut, amt, spread)
	if !c.ok {
		return bf(0), ""
	}
	if c.vacuous {
		return nil, c.cls
	}
	// worst admissible Pow = p - eps: the out-reserve keeps the fraction (p-eps) instead of p
	return fNeg(fMul(fQuo(c.wOut, c.W), lnRef(fSub(bf(1), fQuo(c.eps, c.p))))), c.cls
}

// exact-out swap: b = Bout/(Bout - out), e = wOut/wIn
func ctxSwapIn(p *gPool, dOut, dIn string, amt *big.Int) balCtx {
	i, j := p.idx(dIn), p.idx(dOut)
	if i < 0 || j < 0 || i == j || amt.Sign() <= 0 || p.assets[j].r.Cmp(amt) <= 0 || p.assets[i].r.Sign() <= 0 {
		return balCtx{}
	}
	c := balCtx{ok: true, Bin: fI(p.assets[i].r), Bout: fI(p.assets[j].r), wIn: fI64(p.assets[i].w), wOut: fI64(p.assets[j].w), W: fI64(p.totalW()), S: fI(p.total)}
	c.b = fQuo(c.Bout, fSub(c.Bout, fI(amt)))
	if c.b.Cmp(bf(2)) >= 0 {
		return balCtx{}
	}
	c.p = powRef(c.b, fQuo(c.wOut, c.wIn))
	c.eps = powEps(c.p)
	c.cls = powClassF(c.b)
	c.vacuous = c.p.Cmp(c.eps) <= 0
	return c
}

func tolBalSwapIn(p *gPool, dOut, dIn string, amt, spread *big.Int) (*big.Float, string) {
	c := ctxSwapIn(p, dOut, dIn, amt)
	if !c.ok {
		return bf(0), ""
	}
	if c.vacuous {
		return nil, c.cls
	}
	return fNeg(fMul(fQuo(c.wIn, c.W), lnRef(fSub(bf(1), fQuo(c.eps, c.p))))), c.cls
}

func oracleBalSwap(o *Out, p *gPool, dIn, dOut string, amt, spread *big.Int, exactOut bool, r balRes, line string) {
	if r.obs != "ok" {
		return
	}
	if amt.Sign() <= 0 {
		o.Fail("balancer:non-positive-amount-accepted", line)
		return
	}
	if !exactOut {
		c := ctxSwapOut(p, dIn, dOut, amt, spread)
		if !c.ok {
			return
		}
		o.Count("bal.swapOut.pow." + c.cls)
		out := fI(r.val)
		exact := fMul(c.Bout, fSub(bf(1), c.p))
		limit := fAdd(exact, fMul(c.Bout, c.eps))
		if out.Cmp(limit) > 0 {
			o.Fail("balancer:out-above-exact:"+c.cls, fmt.Sprintf("%s => out %s exact %s", line, r.val, exact.Text('f', 3)))
		}
		// the other side of "agrees with the exact formula": not a value leak, but beyond the documented precision
		if fSub(exact, fMul(c.Bout, c.eps)).Cmp(fAdd(out, bf(1))) > 0 {
			o.Fail("balancer:beyond-precision-pool-side:swapOut:"+c.cls, fmt.Sprintf("%s => out %s exact %s", line, r.val, exact.Text('f', 3)))
		}
		post := p.clone()
		post.assets[p.idx(dIn)].r.Add(post.assets[p.idx(dIn)].r, amt)
		post.assets[p.idx(dOut)].r.Sub(post.assets[p.idx(dOut)].r, r.val)
		tol, _ := tolBalSwapOut(p, dIn, dOut, amt, spread)
		oracleBalProduct(o, "swapOut", c.cls, p, post, tol, line)
		return
	}
	c := ctxSwapIn(p, dOut, dIn, amt)
	if !c.ok {
		return
	}
	o.Count("bal.swapIn.pow." + c.cls)
	in := fI(r.val)
	om := fR(oneMinusRat(spread))
	limit := fQuo(fMul(c.Bin, fSub(fSub(c.p, c.eps), bf(1))), om)
	if in.Cmp(limit) < 0 {
		exact := fQuo(fMul(c.Bin, fSub(c.p, bf(1))), om)
		o.Fail("balancer:in-below-exact:"+c.cls, fmt.Sprintf("%s => in %s exact %s", line, r.val, exact.Text('f', 3)))
	}
	if in.Cmp(fAdd(fQuo(fMul(c.Bin, fSub(fAdd(c.p, c.eps), bf(1))), om), bf(2))) > 0 {
		o.Fail("balancer:beyond-precision-pool-side:swapIn:"+c.cls, fmt.Sprintf("%s => in %s", line, r.val))
	}
	post := p.clone()
	post.assets[p.idx(dIn)].r.Add(post.assets[p.idx(dIn)].r, r.val)
	post.assets[p.idx(dOut)].r.Sub(post.assets[p.idx(dOut)].r, amt)
	tol, _ := tolBalSwapIn(p, dOut, dIn, amt, spread)
	oracleBalProduct(o, "swapIn", c.cls, p, post, tol, line)
}

// ln of (weighted product of reserves)/shares changes by  sum_i (w_i/W) ln(r'_i/r_i) - ln(S'/S);
// it must not fall by more than tol (nil = the documented precision does not constrain this case).
func oracleBalProduct(o *Out, op, cls string, pre, post *gPool, tol *big.Float, line string) {
	if tol == nil {
		o.Count("bal.product.vacuous." + op)
		return
	}
	W := fI64(pre.totalW())
	d := bf(0)
	for i, a := range pre.assets {
		if a.r.Sign() <= 0 || post.assets[i].r.Sign() <= 0 {
			return
		}
		if a.r.Cmp(post.assets[i].r) == 0 {
			continue
		}
		d = fAdd(d, fMul(fQuo(fI64(a.w), W), lnRef(fQuo(fI(post.assets[i].r), fI(a.r)))))
	}
	if pre.total.Sign() <= 0 || post.total.Sign() <= 0 {
		return
	}
	if pre.total.Cmp(post.total) != 0 {
		d = fSub(d, lnRef(fQuo(fI(post.total), fI(pre.total))))
	}
	o.Count("bal.product.checked." + op)
	if fAdd(d, fAdd(tol, fTiny)).Sign() < 0 {
		key := "balancer:product-per-share-dropped:" + op
		if cls != "" {
			key += ":" + cls
		}
		o.Fail(key, fmt.Sprintf("%s => dln %s tol %s", line, d.Text('e', 6), tol.Text('e', 6)))
	}
}

type joinCtx struct {
	ok           bool
	B, S, nw, fr *big.Float
	b, p, eps    *big.Float
	cls          string
}

// single-asset join: b = (B + in*feeRatio)/B, e = w/W
func ctxSingleJoin(p *gPool, d string, amt, spread *big.Int) joinCtx {
	i := p.idx(d)
	if i < 0 || amt.Sign() <= 0 || p.assets[i].r.Sign() <= 0 || p.total.Sign() <= 0 {
		return joinCtx{}
	}
	c := joinCtx{ok: true, B: fI(p.assets[i].r), S: fI(p.total)}
	c.nw = fQuo(fI64(p.assets[i].w), fI64(p.totalW()))
	c.fr = fSub(bf(1), fMul(fSub(bf(1), c.nw), fR(new(big.Rat).SetFrac(spread, p18))))
	c.b = fQuo(fAdd(c.B, fMul(fI(amt), c.fr)), c.B)
	if c.b.Cmp(bf(2)) >= 0 {
		return joinCtx{}
	}
	c.p = powRef(c.b, c.nw)
	c.eps = powEps(c.p)
	c.cls = powClassF(c.b)
	return c
}

func tolBalSingleJoin(p *gPool, d string, amt, spread *big.Int) (*big.Float, string) {
	c := ctxSingleJoin(p, d, amt, spread)
	if !c.ok {
		return bf(0), ""
	}
	return lnRef(fAdd(bf(1), fQuo(c.eps, c.p))), c.cls
}

// every remaining coin of a multi-asset join is one single-asset join with p >= 1: tol <= ln(1 + 2.02e-8) each
func tolBalMultiJoin(k int) *big.Float {
	return fMul(fI64(int64(k)), bfRat(big.NewInt(203), pow10(10)))
}

func oracleProportionalJoin(o *Out, kind string, p *gPool, cs []gCoin, used map[string]*big.Int, shares *big.Int, line string) {
	if len(cs) > 1 && len(cs) < len(p.assets) && shares != nil && shares.Sign() > 0 {
		// a join offering several but not all of the pool's assets has a zero ratio on the missing ones: any share
		// minted for it is above proportional (the exit then pays out assets that were never deposited)
		o.Fail("join:subset-of-assets-minted-shares:"+kind, line+" => shares "+shares.String())
	}
	if len(cs) != len(p.assets) {
		return
	}
	for i, a := range p.assets {
		in := cs[i].a
		u := used[a.d]
		if u == nil {
			u = big.NewInt(0)
		}
		// shares <= totalShares * in_i / res_i
		if new(big.Int).Mul(shares, a.r).Cmp(new(big.Int).Mul(p.total, in)) > 0 {
			o.Fail("join:shares-above-proportional:"+kind, line)
		}
		// tokens used >= the proportional need res_i * shares / totalShares
		if new(big.Int).Mul(u, p.total).Cmp(new(big.Int).Mul(shares, a.r)) < 0 {
			o.Fail("join:tokens-below-proportional:"+kind, line)
		}
		if u.Cmp(in) > 0 {
			o.Fail("join:used-above-offered:"+kind, line)
		}
	}
	o.Count("join.proportional.checked." + kind)
}

func oracleBalJoin(o *Out, p *gPool, cs []gCoin, used map[string]*big.Int, spread *big.Int, noSwap bool, r balRes, line string) {
	switch {
	case noSwap:
		oracleProportionalJoin(o, "balancer", p, cs, used, r.val, line)
		oracleBalProduct(o, "joinNoSwap", "", p, r.post, bf(0), line)
	case len(cs) == 1:
		c := ctxSingleJoin(p, cs[0].d, cs[0].a, spread)
		if !c.ok {
			return
		}
		o.Count("bal.join1.pow." + c.cls)
		limit := fMul(c.S, fSub(fAdd(c.p, c.eps), bf(1)))
		if fI(r.val).Cmp(limit) > 0 {
			o.Fail("balancer:join-shares-above-exact:"+c.cls, fmt.Sprintf("%s => shares %s exact %s", line, r.val, fMul(c.S, fSub(c.p, bf(1))).Text('f', 3)))
		}
		if fI(r.val).Cmp(fSub(fMul(c.S, fSub(fSub(c.p, c.eps), bf(1))), bf(1))) < 0 {
			o.Fail("balancer:beyond-precision-pool-side:join1:"+c.cls, fmt.Sprintf("%s => shares %s", line, r.val))
		}
		if u := used[cs[0].d]; u == nil || u.Cmp(cs[0].a) != 0 {
			o.Fail("balancer:single-join-used-differs-from-offered", line)
		}
		tol, _ := tolBalSingleJoin(p, cs[0].d, cs[0].a, spread)
		oracleBalProduct(o, "join1", c.cls, p, r.post, tol, line)
	default:
		for _, c := range cs {
			if u := used[c.d]; u == nil || u.Cmp(c.a) != 0 {
				o.Fail("balancer:multi-join-used-differs-from-offered", line)
			}
		}
		oracleBalProduct(o, "joinMulti", "", p, r.post, tolBalMultiJoin(len(cs)), line)
	}
}

// exits: each amount * total <= reserve * shares * (1 - fee), amount < reserve, error iff shares >= total.
func oracleExit(o *Out, kind string, p *gPool, shares, fee *big.Int, r balRes, line string) {
	if shares.Cmp(p.total) >= 0 {
		if r.obs != "err" {
			o.Fail("exit:shares>=total-not-rejected:"+kind, line)
		}
		return
	}
	if r.obs != "ok" {
		if kind == "balancer" && shares.Sign() > 0 {
			o.Fail("exit:valid-shares-rejected:"+kind, line+" => "+r.obs)
		}
		return
	}
	om := new(big.Int).Sub(p18, fee)
	for _, c := range r.cs {
		i := p.idx(c.Denom)
		if i < 0 {
			o.Fail("exit:foreign-denom:"+kind, line)
			continue
		}
		x := c.Amount.BigInt()
		lhs := new(big.Int).Mul(new(big.Int).Mul(x, p.total), p18)
		rhs := new(big.Int).Mul(new(big.Int).Mul(p.assets[i].r, shares), om)
		if lhs.Cmp(rhs) > 0 || x.Cmp(p.assets[i].r) >= 0 {
			o.Fail("exit:above-proportional:"+kind, line+" => "+c.String())
		}
		if x.Sign() <= 0 {
			o.Fail("exit:non-positive-coin:"+kind, line)
		}
	}
	o.Count("exit.proportional.checked." + kind)
}

// CalcTokenInShareAmountOut: b = (S + sh)/S, e = W/w, tokenIn = B (p - 1) / feeRatio
func oracleBalTokenInShareOut(o *Out, p *gPool, d string, sh, spread *big.Int, r balRes, line string) {
	i := p.idx(d)
	if r.obs != "ok" || i < 0 || sh.Sign() <= 0 {
		return
	}
	B, S := fI(p.assets[i].r), fI(p.total)
	nw := fQuo(fI64(p.assets[i].w), fI64(p.totalW()))
	fr := fSub(bf(1), fMul(fSub(bf(1), nw), fR(new(big.Rat).SetFrac(spread, p18))))
	b := fQuo(fAdd(S, fI(sh)), S)
	pp := powRef(b, fQuo(bf(1), nw))
	eps := powEps(pp)
	cls := powClassF(b)
	o.Count("bal.tokenInShareOut.pow." + cls)
	limit := fQuo(fMul(B, fSub(fSub(pp, eps), bf(1))), fr)
	if fI(r.val).Cmp(limit) < 0 {
		o.Fail("balancer:join-tokens-below-exact:"+cls, fmt.Sprintf("%s => in %s exact %s", line, r.val, fQuo(fMul(B, fSub(pp, bf(1))), fr).Text('f', 3)))
	}
	if fI(r.val).Cmp(fAdd(fQuo(fMul(B, fSub(fAdd(pp, eps), bf(1))), fr), bf(2))) > 0 {
		o.Fail("balancer:beyond-precision-pool-side:joinSwapShareOut:"+cls, fmt.Sprintf("%s => in %s", line, r.val))
	}
	post := p.clone()
	post.assets[i].r.Add(post.assets[i].r, r.val)
	post.total.Add(post.total, sh)
	var tol *big.Float
	if pp.Cmp(eps) > 0 {
		tol = fNeg(fMul(nw, lnRef(fSub(bf(1), fQuo(eps, pp)))))
	}
	oracleBalProduct(o, "joinSwapShareOut", cls, p, post, tol, line)
}

type exitSwapCtx struct {
	ok           bool
	B, S, nw, om *big.Float
	b, p, eps    *big.Float
	cls          string
}

// ExitSwapExactAmountOut: b = (B - out/feeRatio)/B, e = w/W, sharesIn = S (1 - p) / (1 - exitFee)
func ctxExitSwapOut(p *gPool, d string, amt *big.Int) exitSwapCtx {
	i := p.idx(d)
	if i < 0 || amt.Sign() <= 0 || p.assets[i].r.Sign() <= 0 || p.total.Sign() <= 0 {
		return exitSwapCtx{}
	}
	c := exitSwapCtx{ok: true, B: fI(p.assets[i].r), S: fI(p.total)}
	c.nw = fQuo(fI64(p.assets[i].w), fI64(p.totalW()))
	fr := fSub(bf(1), fMul(fSub(bf(1), c.nw), fR(new(big.Rat).SetFrac(p.swapFee, p18))))
	c.om = fR(oneMinusRat(p.exitFee))
	c.b = fQuo(fSub(c.B, fQuo(fI(amt), fr)), c.B)
	if c.b.Sign() <= 0 {
		return exitSwapCtx{}
	}
	c.p = powRef(c.b, c.nw)
	c.eps = powEps(c.p)
	c.cls = powClassF(c.b)
	return c
}

func tolBalExitSwapOut(p *gPool, d string, amt *big.Int) (*big.Float, string) {
	c := ctxExitSwapOut(p, d, amt)
	if !c.ok {
		return bf(0), ""
	}
	// shares left <= S (p + eps) + 1 (the share amount is truncated in the exiting LP's favour by < 1 unit)
	return lnRef(fAdd(bf(1), fQuo(fAdd(c.eps, fQuo(bf(1), c.S)), c.p))), c.cls
}

func oracleBalExitSwapOut(o *Out, p *gPool, d string, amt *big.Int, r balRes, line string) {
	if r.obs != "ok" {
		return
	}
	c := ctxExitSwapOut(p, d, amt)
	if !c.ok {
		o.Fail("balancer:exit-swap-out-of-domain-accepted", line)
		return
	}
	o.Count("bal.exitSwapOut.pow." + c.cls)
	limit := fSub(fQuo(fMul(c.S, fSub(fSub(bf(1), c.p), c.eps)), c.om), bf(1))
	if fI(r.val).Cmp(limit) < 0 {
		exact := fQuo(fMul(c.S, fSub(bf(1), c.p)), c.om)
		o.Fail("balancer:exit-shares-below-exact:"+c.cls, fmt.Sprintf("%s => shares %s exact %s", line, r.val, exact.Text('f', 3)))
	}
	if fI(r.val).Cmp(fAdd(fQuo(fMul(c.S, fAdd(fSub(bf(1), c.p), c.eps)), c.om), bf(2))) > 0 {
		o.Fail("balancer:beyond-precision-pool-side:exitSwapOut:"+c.cls, fmt.Sprintf("%s => shares %s", line, r.val))
	}
	tol, _ := tolBalExitSwapOut(p, d, amt)
	oracleBalProduct(o, "exitSwapOut", c.cls, p, r.post, tol, line)
}

// The actor's holdings are tracked as deltas against the pool, so token conservation is exact and
//
//	actor value = sum_i tok_i pi_i + shares_actor / S * sum_i r_i pi_i     (zero at the start).
//
// Reference prices pi_i = w_i / r0_i are the pool's INITIAL spot prices (up to a common factor): by the
// weighted AM-GM inequality the value of the passive LPs' shares at these prices is
//
//	>= W * (V/S) / (V0/S0),   V = prod r_i^(w_i/W),
//
// so if no op lowers V/S by more than its tolerance the actor's gain is <= W * (1 - exp(-sum tol)).
// (Prices taken AFTER the sequence would count every honest arbitrage as a gain.)
func oracleBalSequence(o *Out, p0, p *gPool, act *actor, tolSum *big.Float, vacuous bool, exitCls string, roundtrip bool, lines []string) {
	if len(lines) == 0 {
		return
	}
	if vacuous {
		o.Count("bal.seq.vacuous")
		return
	}
	gain := new(big.Rat)
	poolVal := new(big.Rat)
	for i, a := range p0.assets {
		if a.r.Sign() <= 0 {
			return
		}
		pi := new(big.Rat).SetFrac(big.NewInt(a.w), a.r)
		gain.Add(gain, new(big.Rat).Mul(new(big.Rat).SetInt(act.tok[a.d]), pi))
		poolVal.Add(poolVal, new(big.Rat).Mul(new(big.Rat).SetInt(p.assets[i].r), pi))
	}
	if p.total.Sign() <= 0 {
		return
	}
	gain.Add(gain, poolVal.Mul(poolVal, new(big.Rat).SetFrac(act.shares, p.total)))
	o.Count("bal.seq.checked")
	if gain.Sign() > 0 {
		o.Count("bal.seq.gain>0")
	}
	allowed := fMul(fI64(p0.totalW()), fSub(bf(1), expRef(fNeg(tolSum))))
	if fR(gain).Cmp(fAdd(allowed, fTiny)) > 0 {
		key := "sequence:actor-gained:balancer"
		if roundtrip {
			key += ":roundtrip"
		}
		// predicate on the failing input: the convergence class of the worst single-asset exit in the sequence
		if exitCls != "" {
			key += ":single-exit:" + exitCls
		} else {
			key += ":no-single-exit"
		}
		rel := fQuo(fR(gain), fI64(p0.totalW()))
		o.Fail(key, fmt.Sprintf("gain/LPvalue %s allowed %s :: %s", rel.Text('e', 4), fQuo(allowed, fI64(p0.totalW())).Text('e', 4), strings.Join(lines, " ;; ")))
	}
}

// ---------------------------------------------------------------- stableswap

// K * prod(sf_i) = prod(r_i) * sum_i (r_i/sf_i)^2 : exact, on the unscaled integer reserves.
func ssK(p *gPool) *big.Rat {
	prod := big.NewInt(1)
	sum := new(big.Rat)
	for _, a := range p.assets {
		prod.Mul(prod, a.r)
		x := new(big.Rat).SetFrac(a.r, new(big.Int).SetUint64(a.sf))
		sum.Add(sum, x.Mul(x, x))
	}
	return sum.Mul(sum, new(big.Rat).SetInt(prod))
}

func ssShape(p *gPool) string {
	sf1 := true
	for _, a := range p.assets {
		if a.sf != 1 {
			sf1 = false
		}
	}
	s := fmt.Sprintf("n=%d", len(p.assets))
	if len(p.assets) > 2 {
		s = "n>2"
	}
	if sf1 {
		return s + ":sf=1"
	}
	return s + ":sf>1"
}

func oracleSSInvariant(o *Out, op string, pre, post *gPool, line string) {
	for _, a := range pre.assets {
		if a.sf == 0 || a.r.Sign() <= 0 {
			return
		}
	}
	for _, a := range post.assets {
		if a.r.Sign() <= 0 {
			o.Fail("stableswap:reserve-drained:"+op, line)
			return
		}
	}
	o.Count("ss.invariant.checked." + op)
	if kPre, kPost := ssK(pre), ssK(post); kPost.Cmp(kPre) < 0 {
		// the solver's acceptance test runs on half-even 36-decimal products: a fall of less than 18e-36 relative is the
		// machine-checked finding F45 (Props/C04Stable: K' >= K(1-18e-36) for every swap); anything larger is a violation
		lim := new(big.Rat).SetFrac(big.NewInt(18), pow10(36))
		drop := new(big.Rat).Sub(kPre, kPost)
		drop.Quo(drop, kPre)
		if drop.Cmp(lim) < 0 {
			o.Fail("stableswap:invariant-decreased:within-36-decimal-rounding:"+op+":"+ssShape(pre), line)
		} else {
			o.Fail("stableswap:invariant-decreased:"+op+":"+ssShape(pre), line)
		}
	}
}

// K is homogeneous of degree n+2: K^(1/(n+2)) per share must not fall  <=>  K' S^(n+2) >= K S'^(n+2)
func ssPerShareCmp(pre, post *gPool) int {
	d := int64(len(pre.assets) + 2)
	l := new(big.Rat).Mul(ssK(post), new(big.Rat).SetInt(new(big.Int).Exp(pre.total, big.NewInt(d), nil)))
	r := new(big.Rat).Mul(ssK(pre), new(big.Rat).SetInt(new(big.Int).Exp(post.total, big.NewInt(d), nil)))
	return l.Cmp(r)
}

// relative fall of K^(1/(n+2))/S (positive = fell), as a float
func ssPerShareDrop(pre, post *gPool) *big.Float {
	d := fI64(int64(len(pre.assets) + 2))
	lnK := fQuo(lnRef(fQuo(fR(ssK(post)), fR(ssK(pre)))), d)
	lnS := lnRef(fQuo(fI(post.total), fI(pre.total)))
	return fSub(bf(1), expRef(fSub(lnK, lnS)))
}

// Single-asset join: shares come from a 300-step search over "exit the new shares and swap everything
// back" with an additive tolerance of one token unit, rounding down.  Every integer truncation inside that
// estimate (n exit amounts, n-1 swap outputs) lowers the estimate by less than one unit of some token and
// every swap by the solver's 1e-12, and the exit inside the estimate uses CalcExitPool's share ratio, which is
// truncated to 18 decimals (relative error 1e-18 * totalShares/shares of every exit amount, i.e. 1e-18 of the
// POOL's value whatever the size of the join), so the search may accept a share count whose exact round trip
// returns up to  D = 1 + (n-1) + sum_j (value of one unit of token j in units of the joined token)
//   - n * 1e-12 * in + 1e-18 * (pool value in units of the joined token)
//
// more than was paid.  That dust is the stated precision of this operation; it is counted, and the
// invariant per share may fall by at most the corresponding relative amount  D / in * (in's share of the pool).
func oracleSSSingleJoin(o *Out, pre, post *gPool, c gCoin, line string) {
	for _, a := range pre.assets {
		if a.sf == 0 || a.r.Sign() <= 0 {
			return
		}
	}
	if pre.total.Sign() <= 0 || post.total.Sign() <= 0 {
		return
	}
	o.Count("ss.join1.checked")
	if ssPerShareCmp(pre, post) >= 0 {
		return
	}
	o.Count("ss.join1.per-share-fell")
	drop := ssPerShareDrop(pre, post)
	// allowed: the dust D (in units of the joined token), relative to the pool's size in that token
	allowed := fQuo(ssDustUnits(pre, c.d, c.a), ssPoolSizeIn(pre, c.d))
	if drop.Cmp(allowed) > 0 {
		o.Fail("stableswap:invariant-per-share-decreased:join1:"+ssShape(pre), fmt.Sprintf("%s => drop %s allowed %s", line, drop.Text('e', 4), allowed.Text('e', 4)))
	}
}

// gradient of K at the pool state (exact): dK/dr_i = (1/sf_i) (K/x_i + 2 x_i prod x)
func ssGrad(p *gPool) []*big.Rat {
	n := len(p.assets)
	xs := make([]*big.Rat, n)
	prod := new(big.Rat).SetInt64(1)
	sum := new(big.Rat)
	for i, a := range p.assets {
		xs[i] = new(big.Rat).SetFrac(a.r, new(big.Int).SetUint64(a.sf))
		prod.Mul(prod, xs[i])
		sum.Add(sum, new(big.Rat).Mul(xs[i], xs[i]))
	}
	K := new(big.Rat).Mul(prod, sum)
	g := make([]*big.Rat, n)
	for i, a := range p.assets {
		t := new(big.Rat).Quo(K, xs[i])
		u := new(big.Rat).Mul(xs[i], prod)
		u.Mul(u, big.NewRat(2, 1))
		t.Add(t, u)
		g[i] = t.Quo(t, new(big.Rat).SetInt(new(big.Int).SetUint64(a.sf)))
	}
	return g
}

// D of the comment above, in units of token d, priced with the marginal prices of `p`
func ssDustUnits(p *gPool, d string, in *big.Int) *big.Float {
	g := ssGrad(p)
	k := p.idx(d)
	n := len(p.assets)
	D := fI64(int64(1 + (n - 1)))
	for j := range p.assets {
		if j != k {
			D = fAdd(D, fR(new(big.Rat).Quo(g[j], g[k])))
		}
	}
	D = fAdd(D, fMul(fI(in), bfRat(big.NewInt(int64(n)), pow10(12))))
	D = fAdd(D, fMul(ssPoolSizeIn(p, d), bfRat(big.NewInt(1), pow10(18))))
	return fMul(D, bf(2)) // marginal prices move along the round trip: factor 2 of head-room
}

// the pool's size expressed in token d at marginal prices
func ssPoolSizeIn(p *gPool, d string) *big.Float {
	g := ssGrad(p)
	k := p.idx(d)
	v := new(big.Rat)
	for j, a := range p.assets {
		v.Add(v, new(big.Rat).Mul(new(big.Rat).SetInt(a.r), new(big.Rat).Quo(g[j], g[k])))
	}
	return fR(v)
}

// dust allowance of one single-asset join inside a sequence, valued with the reference prices of p0
func ssSingleJoinDust(pre *gPool, d string, in *big.Int, p0 *gPool) *big.Rat {
	g0 := ssGrad(p0)
	units := ssDustUnits(pre, d, in)
	r, _ := units.Rat(nil)
	// value of `units` of token d at the reference prices; marginal prices of `pre` may differ from p0's:
	// take the dearest token's reference price to stay on the safe side
	max := new(big.Rat)
	for _, x := range g0 {
		if x.Cmp(max) > 0 {
			max = x
		}
	}
	return r.Mul(r, max)
}

// stableswap sequences: the actor's value at the gradient of K in the initial state (the initial marginal
// prices) must not exceed the dust allowance of its single-asset joins; swaps, all-asset joins and exits
// carry no allowance at all.
func oracleSSSequence(o *Out, p0, p *gPool, act *actor, dust *big.Rat, lines []string) {
	if len(lines) == 0 || p.total.Sign() <= 0 {
		return
	}
	for _, a := range p0.assets {
		if a.sf == 0 || a.r.Sign() <= 0 {
			return
		}
	}
	g0 := ssGrad(p0)
	gain := new(big.Rat)
	poolVal := new(big.Rat)
	for i, a := range p0.assets {
		gain.Add(gain, new(big.Rat).Mul(new(big.Rat).SetInt(act.tok[a.d]), g0[i]))
		poolVal.Add(poolVal, new(big.Rat).Mul(new(big.Rat).SetInt(p.assets[i].r), g0[i]))
	}
	gain.Add(gain, poolVal.Mul(poolVal, new(big.Rat).SetFrac(act.shares, p.total)))
	o.Count("ss.seq.checked")
	if gain.Sign() > 0 {
		o.Count("ss.seq.gain>0")
	}
	if gain.Cmp(dust) > 0 {
		lp := new(big.Rat)
		for i, a := range p0.assets {
			lp.Add(lp, new(big.Rat).Mul(new(big.Rat).SetInt(a.r), g0[i]))
		}
		rel := fQuo(fR(gain), fR(lp))
		key := "sequence:actor-gained:stableswap:" + ssShape(p0)
		if dust.Sign() > 0 {
			key += ":with-single-join"
		}
		o.Fail(key, fmt.Sprintf("gain/LPvalue %s :: %s", rel.Text('e', 4), strings.Join(lines, " ;; ")))
	}
}

// post-condition of the solver on the REAL kernels: targetK <= iterK(xEst) and CompareBigDec = 0;
// and, independently, in exact rationals: the point (xEst, yFinal) is on or above the curve through (x, y).
func oracleSolverPost(o *Out, x, y, w, yIn, xOut *big.Int, line string) {
	xEst := new(big.Int).Sub(x, xOut)
	yf := new(big.Int).Add(y, yIn)
	var t, v *big.Int
	if !catch(func() {
		t = stableswap.VerifTargetK(bd(x), bd(y), bd(w), bd(yf)).BigInt()
		v = stableswap.VerifIterK(bd(x), bd(w), bd(yf), bd(xEst)).BigInt()
	}) {
		o.Fail("stableswap:solver-kernels-panic-on-result", line)
		return
	}
	tol := osmomath.ErrTolerance{AdditiveTolerance: osmomath.Dec{}, MultiplicativeTolerance: osmomath.NewDecWithPrec(1, 12), RoundingDir: osmomath.RoundUp}
	if t.Cmp(v) > 0 || tol.CompareBigDec(bd(t), bd(v)) != 0 {
		o.Fail("stableswap:solver-postcondition", line)
	}
	// |target - iter| <= 1e-12 * min(|target|, |iter|) + 1 ulp (half-even Quo), in exact integers
	diff := new(big.Int).Sub(v, t)
	min := new(big.Int).Abs(t)
	if a := new(big.Int).Abs(v); a.Cmp(min) < 0 {
		min = a
	}
	if min.Sign() != 0 {
		lhs := new(big.Int).Mul(diff, pow10(12))
		rhs := new(big.Int).Add(min, new(big.Int).Mul(min, big.NewInt(0)))
		rhs.Add(rhs, new(big.Int).Quo(min, pow10(20))) // half an ulp of the 36-decimal quotient, generously
		rhs.Add(rhs, pow10(13))
		if lhs.Cmp(rhs) > 0 {
			o.Fail("stableswap:solver-tolerance", line)
		}
	}
	k := func(a, b *big.Int) *big.Rat { // a b (a^2 + b^2 + w), raw/10^36
		ra, rb, rw := new(big.Rat).SetFrac(a, p36), new(big.Rat).SetFrac(b, p36), new(big.Rat).SetFrac(w, p36)
		s := new(big.Rat).Add(new(big.Rat).Mul(ra, ra), new(big.Rat).Mul(rb, rb))
		s.Add(s, rw)
		return s.Mul(s, new(big.Rat).Mul(ra, rb))
	}
	if k(xEst, yf).Cmp(k(x, y)) < 0 {
		o.Fail("stableswap:solver-estimate-below-curve", line)
	}
	o.Count("ss.solver.post.checked")
}
