package main

// Engine `accum` (property C15): drives the real osmoutils/accum package on an
// in-memory KV store with generated op histories, writes the op stream for the
// Lean model, and evaluates the property itself with an independent ghost
// ledger (big.Rat + plain Go maps, recomputed from the RAW store contents).
//
// Line protocol: see the engine task description; every op line starts with
// "accum", one observation line per op line.

import (
	"fmt"
	"math/big"
	"math/rand"
	"sort"
	"strings"

	"cosmossdk.io/store/dbadapter"
	dbm "github.com/cosmos/cosmos-db"
	sdk "github.com/cosmos/cosmos-sdk/types"
	"github.com/cosmos/gogoproto/proto"

	"github.com/osmosis-labs/osmosis/osmomath"
	"github.com/osmosis-labs/osmosis/osmoutils/accum"
)

var (
	acDenoms   = []string{"uatom", "uosmo", "usdc"}
	acDenomIdx = map[string]int{"uatom": 0, "uosmo": 1, "usdc": 2}
	acP18      = pow10(18)
	// LegacyDec valid range: |raw| <= 2^256 * 10^18 - 1
	acLimit = new(big.Int).Sub(new(big.Int).Mul(pow2(256), pow10(18)), big.NewInt(1))
	// half a unit in the last place: 1/(2*10^18)
	acHalfUlp = new(big.Rat).SetFrac(big.NewInt(1), new(big.Int).Mul(big.NewInt(2), pow10(18)))
	acRatP18  = new(big.Rat).SetInt(pow10(18))
	acRatHalf = big.NewRat(1, 2)
)

const (
	acAccPrefix = "accum||acc||"
	acPosPrefix = "accum||pos||"
	acNSlots    = 8 // live *AccumulatorObject handles h0..h7
)

// acTok renders a position / accumulator name on an op line (the line protocol splits on blanks, so the
// empty name is written `""`; no generated name contains a blank).
func acTok(n string) string {
	if n == "" {
		return `""`
	}
	return n
}

// acWorld: the names one history draws from.  Prefix relations between position names (numeric ids "7","70",
// "700"; "a","ab"), names next to / containing the key separator characters, the empty and very long names,
// and accumulators whose names are prefixes of each other in the same store.  No accumulator name ends in "|"
// and no position name starts with "|": with those two the key layout `acc||pos` is ambiguous (finding F60,
// shown by the separate probe acProbeKeyCollision), and the engine would judge two positions as one record.
type acWorld struct {
	name string
	accs []string
	pos  []string
	bad  []string
}

var acLong = strings.Repeat("L", 180)

var acWorlds = []acWorld{
	{"classic", []string{"a0", "a1", "a2"}, []string{"p0", "p1", "p2", "p3", "p4", "p5"}, []string{"x||y"}},
	{"numeric-prefix", []string{"acc", "acc1", "acc10"}, []string{"7", "70", "71", "700", "8", "17"}, []string{"acc||pos", "acc||"}},
	{"alpha-prefix", []string{"a", "ab", "a0"}, []string{"a", "ab", "abc", "b", "ab0", "a0"}, []string{"a||b"}},
	{"separator", []string{"s", "s|t", "su"}, []string{"x", "x|", "x||", "x||y", "x|y", "x||y||z"}, []string{"s||", "||", "s||t"}},
	{"empty-and-long", []string{"e", "e" + acLong[:40], "e" + acLong[:41]}, []string{"", "0", acLong, acLong + "1", acLong[:179], "00"}, []string{"e||" + acLong}},
	{"acc-prefix-of-pos-key", []string{"acc", "acc1", "ac"}, []string{"1", "1||7", "7", "acc", "acc1||7", "70"}, []string{"acc1||7"}},
}


// ---------------------------------------------------------------- encodings

type acCoin struct {
	d string
	a *big.Int
}

func acDec(raw *big.Int) osmomath.Dec {
	return osmomath.NewDecFromBigIntWithPrec(new(big.Int).Set(raw), 18)
}

func acRawStr(d osmomath.Dec) string {
	b := d.BigInt()
	if b == nil {
		return "<nil>"
	}
	return b.String()
}

func acFmt(cs []acCoin) string {
	if len(cs) == 0 {
		return "-"
	}
	var sb strings.Builder
	for i, c := range cs {
		if i > 0 {
			sb.WriteByte(',')
		}
		sb.WriteString(c.d)
		sb.WriteByte(':')
		sb.WriteString(c.a.String())
	}
	return sb.String()
}

func acFromDC(dc sdk.DecCoins) []acCoin {
	if len(dc) == 0 {
		return nil
	}
	out := make([]acCoin, 0, len(dc))
	for _, c := range dc {
		b := c.Amount.BigInt()
		if b == nil {
			b = big.NewInt(0)
		}
		out = append(out, acCoin{c.Denom, b})
	}
	return out
}

func acFromCoins(cs sdk.Coins) []acCoin {
	if len(cs) == 0 {
		return nil
	}
	out := make([]acCoin, 0, len(cs))
	for _, c := range cs {
		b := c.Amount.BigInt()
		if b == nil {
			b = big.NewInt(0)
		}
		out = append(out, acCoin{c.Denom, b})
	}
	return out
}

func acFmtDC(dc sdk.DecCoins) string { return acFmt(acFromDC(dc)) }

func acToDC(cs []acCoin) sdk.DecCoins {
	out := sdk.DecCoins{}
	for _, c := range cs {
		out = append(out, sdk.DecCoin{Denom: c.d, Amount: acDec(c.a)})
	}
	return out
}

func acCoinsEq(a, b []acCoin) bool {
	if len(a) != len(b) {
		return false
	}
	for i := range a {
		if a[i].d != b[i].d || a[i].a.Cmp(b[i].a) != 0 {
			return false
		}
	}
	return true
}

// ---------------------------------------------------------------- decoded raw state

type acPosRec struct {
	acc, pos   string
	shares     *big.Int
	snap, uncl []acCoin
	opt        bool
}

func (p *acPosRec) fmt() string {
	o := "0"
	if p.opt {
		o = "1"
	}
	return p.shares.String() + "/" + acFmt(p.snap) + "/" + acFmt(p.uncl) + "/" + o
}

type acAccRec struct {
	name  string
	val   []acCoin
	total *big.Int
}

type acState struct {
	raw map[string]string
	acc map[string]*acAccRec // by raw key
	pos map[string]*acPosRec // by raw key
}

func acRawEq(a, b map[string]string) bool {
	if len(a) != len(b) {
		return false
	}
	for k, v := range a {
		if w, ok := b[k]; !ok || w != v {
			return false
		}
	}
	return true
}

func acBig(d osmomath.Dec) *big.Int {
	b := d.BigInt()
	if b == nil {
		return big.NewInt(0)
	}
	return b
}

// ---------------------------------------------------------------- oracle ledger (big.Rat)

type acVec [3]*big.Rat

func acZeroVec() acVec {
	return acVec{new(big.Rat), new(big.Rat), new(big.Rat)}
}

func acRat(raw *big.Int) *big.Rat { return new(big.Rat).SetFrac(raw, acP18) }

func acVecOf(cs []acCoin) acVec {
	v := acZeroVec()
	for _, c := range cs {
		i, ok := acDenomIdx[c.d]
		if !ok {
			continue
		}
		v[i] = new(big.Rat).Add(v[i], acRat(c.a))
	}
	return v
}

func (v acVec) add(w acVec) acVec {
	var r acVec
	for i := range v {
		r[i] = new(big.Rat).Add(v[i], w[i])
	}
	return r
}

func (v acVec) sub(w acVec) acVec {
	var r acVec
	for i := range v {
		r[i] = new(big.Rat).Sub(v[i], w[i])
	}
	return r
}

func (v acVec) scale(s *big.Rat) acVec {
	var r acVec
	for i := range v {
		r[i] = new(big.Rat).Mul(v[i], s)
	}
	return r
}

type acPosLed struct {
	shares            *big.Rat
	ref, earned, paid acVec
	inexact           int
}

type acAccLed struct {
	V   acVec
	pos map[string]*acPosLed
}

// ---------------------------------------------------------------- ops

type acOp struct {
	kind   string
	h      int
	name   string // accumulator name (make/get)
	pos    string
	shares *big.Int
	coins  []acCoin
	opt    int
	T      []acCoin // GetTotalRewards obtained immediately before (claim/delete)
	hasT   bool
}

func (op *acOp) line() string {
	hs := fmt.Sprintf("h%d", op.h)
	switch op.kind {
	case "make":
		return "accum make " + op.name
	case "get":
		return "accum get " + hs + " " + op.name
	case "grow":
		return "accum grow " + hs + " " + acFmt(op.coins)
	case "newpos":
		return fmt.Sprintf("accum newpos %s %s %s %d", hs, acTok(op.pos), op.shares, op.opt)
	case "newposint":
		return fmt.Sprintf("accum newposint %s %s %s %s %d", hs, acTok(op.pos), op.shares, acFmt(op.coins), op.opt)
	case "addpos", "rempos", "updpos":
		return fmt.Sprintf("accum %s %s %s %s", op.kind, hs, acTok(op.pos), op.shares)
	case "addposint", "remposint", "updposint":
		return fmt.Sprintf("accum %s %s %s %s %s", op.kind, hs, acTok(op.pos), op.shares, acFmt(op.coins))
	case "setint", "addunclaimed":
		return fmt.Sprintf("accum %s %s %s %s", op.kind, hs, acTok(op.pos), acFmt(op.coins))
	case "claim", "delete", "getpos", "possize", "haspos", "rewards":
		return fmt.Sprintf("accum %s %s %s", op.kind, hs, acTok(op.pos))
	case "value", "total":
		return fmt.Sprintf("accum %s %s", op.kind, hs)
	}
	panic("accum engine: unknown op kind " + op.kind)
}

// acHasPos: op kinds that carry a position name.
func acHasPos(k string) bool {
	switch k {
	case "newpos", "newposint", "haspos":
		return true
	}
	return acIsPosOp(k)
}

func acIsGetter(k string) bool {
	switch k {
	case "getpos", "possize", "haspos", "rewards", "value", "total", "get":
		return true
	}
	return false
}

// position ops that must fail on an unknown position
func acIsPosOp(k string) bool {
	switch k {
	case "addpos", "addposint", "rempos", "remposint", "updpos", "updposint", "setint",
		"addunclaimed", "claim", "delete", "getpos", "possize", "rewards":
		return true
	}
	return false
}

type acRes struct {
	res string // ok | err | panic
	obs string
	dc  []acCoin
	ic  []acCoin
}

func acCall(f func() error) string {
	var err error
	if !catch(func() { err = f() }) {
		return "panic"
	}
	if err != nil {
		return "err"
	}
	return "ok"
}

// ---------------------------------------------------------------- engine

type acEng struct {
	g      *Gen
	o      *Out
	target int

	db    dbadapter.Store
	slots [acNSlots]*accum.AccumulatorObject
	st    *acState
	hs    [acNSlots]string
	// poison[h]: a panicking call left handle h mutated (DeletePosition's in-place SubMut before its
	// range check). Persisting such a handle (AddToAccumulator writes the cached total back unchecked)
	// makes the stored accumulator undecodable = corrupted data, out of scope: the handle is re-fetched
	// before its next use.
	poison [acNSlots]bool

	// naming world of the history (see acWorlds): candidate accumulator names, position names, rejected
	// accumulator names; universe = every raw key the generated ops of this history can touch
	world    string
	accNames []string
	posNames []string
	badNames []string
	universe []string
	slotOf   map[string]int // mode `one`: the long-lived handle of an accumulator

	// shadow: the engine's own plain map acc -> position -> shares, updated from the op ARGUMENTS of
	// successful calls only (never read back from the store or the model)
	shadow   map[string]map[string]*big.Int
	shadowOn bool
	// stale-handle facts of the op being run (set by run before the call)
	curStaleTotal, curStaleValue bool

	mode, base string
	judged     bool
	profile    string
	ovf        bool
	nPos, nDen int
	accs       []string // made accumulators, in creation order
	led        map[string]*acAccLed

	sinceDump, nextDump int
	holdDump            bool
	judgedHist          int
	unjudgedAt          int
}

func acOptPtr(o int) *accum.Options {
	if o == 1 {
		return &accum.Options{}
	}
	return nil
}

func acHS(h *accum.AccumulatorObject) string {
	if h == nil {
		return ""
	}
	return h.GetName() + "/" + acFmtDC(h.GetValue()) + "/" + acRawStr(h.GetTotalShares())
}

// setWorld fixes the names of the history and the key universe: every raw key the generated ops can touch
// (the iterator of the in-memory DB is expensive, so per-op snapshots read these keys directly; every dump does a
// full store.Iterator(nil,nil) pass and cross-checks the snapshot, so a key outside the universe is noticed).
func (e *acEng) setWorld(w acWorld) {
	e.world, e.accNames, e.posNames, e.badNames = w.name, w.accs, w.pos, w.bad
	seen := map[string]bool{}
	var ks []string
	add := func(k string) {
		if !seen[k] {
			seen[k] = true
			ks = append(ks, k)
		}
	}
	for _, a := range append(append([]string{}, w.accs...), w.bad...) {
		add(acAccPrefix + a)
	}
	for _, a := range w.accs {
		for _, p := range w.pos {
			add(acPosPrefix + a + "||" + p)
		}
	}
	sort.Strings(ks)
	e.universe = ks
}

// readRaw returns the raw key/value snapshot, by full iteration or by direct reads.
func (e *acEng) readRaw(full bool) map[string]string {
	raw := map[string]string{}
	if full {
		it := e.db.Iterator(nil, nil)
		for ; it.Valid(); it.Next() {
			raw[string(it.Key())] = string(it.Value())
		}
		it.Close()
		return raw
	}
	for _, k := range e.universe {
		if v := e.db.Get([]byte(k)); v != nil {
			raw[k] = string(v)
		}
	}
	return raw
}

// refresh re-reads the raw store (decoding only changed entries) and the handle fields.
func (e *acEng) refresh(full bool) {
	old := e.st
	ns := &acState{raw: e.readRaw(full), acc: map[string]*acAccRec{}, pos: map[string]*acPosRec{}}
	for k, v := range ns.raw {
		same := false
		if old != nil {
			if ov, ok := old.raw[k]; ok && ov == v {
				same = true
			}
		}
		switch {
		case strings.HasPrefix(k, acAccPrefix):
			if same && old.acc[k] != nil {
				ns.acc[k] = old.acc[k]
				continue
			}
			var c accum.AccumulatorContent
			if err := proto.Unmarshal([]byte(v), &c); err != nil {
				e.o.Fail("raw-decode:acc", fmt.Sprintf("line#%d key=%q err=%v", e.o.n, k, err))
				continue
			}
			ns.acc[k] = &acAccRec{name: k[len(acAccPrefix):], val: acFromDC(c.AccumValue), total: acBig(c.TotalShares)}
		case strings.HasPrefix(k, acPosPrefix):
			if same && old.pos[k] != nil {
				ns.pos[k] = old.pos[k]
				continue
			}
			var r accum.Record
			if err := proto.Unmarshal([]byte(v), &r); err != nil {
				e.o.Fail("raw-decode:pos", fmt.Sprintf("line#%d key=%q err=%v", e.o.n, k, err))
				continue
			}
			rest := k[len(acPosPrefix):]
			a, p := rest, ""
			if i := strings.Index(rest, "||"); i >= 0 {
				a, p = rest[:i], rest[i+2:]
			}
			ns.pos[k] = &acPosRec{acc: a, pos: p, shares: acBig(r.NumShares), snap: acFromDC(r.AccumValuePerShare),
				uncl: acFromDC(r.UnclaimedRewardsTotal), opt: r.Options != nil}
		default:
			e.o.Fail("raw-foreign-key", fmt.Sprintf("line#%d key=%q", e.o.n, k))
		}
	}
	e.st = ns
	for i := range e.slots {
		e.hs[i] = acHS(e.slots[i])
	}
}

func (e *acEng) emit(line, obs string, nontrivial bool) {
	e.o.Emit(line, obs, nontrivial)
	e.sinceDump++
}

func (e *acEng) reset() {
	e.db = dbadapter.Store{DB: dbm.NewMemDB()}
	e.slots = [acNSlots]*accum.AccumulatorObject{}
	e.poison = [acNSlots]bool{}
	e.shadow = map[string]map[string]*big.Int{}
	e.shadowOn = true
	e.st = nil
	e.refresh(true)
	e.led = map[string]*acAccLed{}
	e.accs = nil
	e.o.Emit("accum reset", "ok", false)
	e.sinceDump = 0
	e.nextDump = 4 + e.g.Intn(5)
}

func (e *acEng) dumpLine() string {
	var A, P, H []string
	var ak, pk []string
	for k := range e.st.acc {
		ak = append(ak, k)
	}
	sort.Slice(ak, func(i, j int) bool { return e.st.acc[ak[i]].name < e.st.acc[ak[j]].name })
	for _, k := range ak {
		a := e.st.acc[k]
		A = append(A, a.name+"="+acFmt(a.val)+"/"+a.total.String())
	}
	for k := range e.st.pos {
		pk = append(pk, k)
	}
	sort.Slice(pk, func(i, j int) bool {
		a, b := e.st.pos[pk[i]], e.st.pos[pk[j]]
		if a.acc != b.acc {
			return a.acc < b.acc
		}
		return a.pos < b.pos
	})
	for _, k := range pk {
		p := e.st.pos[k]
		P = append(P, p.acc+"|"+p.pos+"="+p.fmt())
	}
	for i, h := range e.slots {
		if h != nil {
			H = append(H, fmt.Sprintf("h%d=%s", i, acHS(h)))
		}
	}
	return "ok A[" + strings.Join(A, ";") + "] P[" + strings.Join(P, ";") + "] H[" + strings.Join(H, ";") + "]"
}

func (e *acEng) dump() {
	// full iteration of the raw store; must agree with the per-op snapshot
	if full := e.readRaw(true); !acRawEq(full, e.st.raw) {
		e.o.Fail("raw-foreign-key", fmt.Sprintf("line#%d iteration and direct reads disagree", e.o.n))
		e.refresh(true)
	}
	e.o.Emit("accum dump", e.dumpLine(), false)
	e.o.Count("op.dump")
	e.sinceDump = 0
	e.nextDump = 4 + e.g.Intn(5)
}

func (e *acEng) dumpIfStale() {
	if e.sinceDump > 0 {
		e.dump()
	}
}

// exec performs the call on the real code.
func (e *acEng) exec(op *acOp) acRes {
	var r acRes
	if op.kind == "make" {
		r.res = acCall(func() error { return accum.MakeAccumulator(e.db, op.name) })
		r.obs = r.res
		return r
	}
	if op.kind == "get" {
		var hnd *accum.AccumulatorObject
		r.res = acCall(func() error {
			var err error
			hnd, err = accum.GetAccumulator(e.db, op.name)
			return err
		})
		r.obs = r.res
		if r.res == "ok" {
			e.slots[op.h] = hnd
			r.dc = acFromDC(hnd.GetValue())
			r.obs = "ok " + acFmt(r.dc) + " " + acRawStr(hnd.GetTotalShares())
		}
		return r
	}
	h := e.slots[op.h]
	if h == nil {
		panic("accum engine: op on empty slot: " + op.line())
	}
	switch op.kind {
	case "grow":
		r.res = acCall(func() error { h.AddToAccumulator(acToDC(op.coins)); return nil })
	case "newpos":
		r.res = acCall(func() error { return h.NewPosition(op.pos, acDec(op.shares), acOptPtr(op.opt)) })
	case "newposint":
		r.res = acCall(func() error {
			return h.NewPositionIntervalAccumulation(op.pos, acDec(op.shares), acToDC(op.coins), acOptPtr(op.opt))
		})
	case "addpos":
		r.res = acCall(func() error { return h.AddToPosition(op.pos, acDec(op.shares)) })
	case "addposint":
		r.res = acCall(func() error { return h.AddToPositionIntervalAccumulation(op.pos, acDec(op.shares), acToDC(op.coins)) })
	case "rempos":
		r.res = acCall(func() error { return h.RemoveFromPosition(op.pos, acDec(op.shares)) })
	case "remposint":
		r.res = acCall(func() error {
			return h.RemoveFromPositionIntervalAccumulation(op.pos, acDec(op.shares), acToDC(op.coins))
		})
	case "updpos":
		r.res = acCall(func() error { return h.UpdatePosition(op.pos, acDec(op.shares)) })
	case "updposint":
		r.res = acCall(func() error { return h.UpdatePositionIntervalAccumulation(op.pos, acDec(op.shares), acToDC(op.coins)) })
	case "setint":
		r.res = acCall(func() error { return h.SetPositionIntervalAccumulation(op.pos, acToDC(op.coins)) })
	case "addunclaimed":
		r.res = acCall(func() error { return h.AddToUnclaimedRewards(op.pos, acToDC(op.coins)) })
	case "claim":
		var c sdk.Coins
		var d sdk.DecCoins
		r.res = acCall(func() error {
			var err error
			c, d, err = h.ClaimRewards(op.pos)
			return err
		})
		if r.res == "ok" {
			r.ic, r.dc = acFromCoins(c), acFromDC(d)
			r.obs = "ok " + acFmt(r.ic) + " " + acFmt(r.dc)
		}
	case "delete":
		var d sdk.DecCoins
		r.res = acCall(func() error {
			var err error
			d, err = h.DeletePosition(op.pos)
			return err
		})
		if r.res == "ok" {
			r.dc = acFromDC(d)
			r.obs = "ok " + acFmt(r.dc)
		}
	case "getpos":
		var rec accum.Record
		r.res = acCall(func() error {
			var err error
			rec, err = h.GetPosition(op.pos)
			return err
		})
		if r.res == "ok" {
			o := "0"
			if rec.Options != nil {
				o = "1"
			}
			r.obs = "ok " + acRawStr(rec.NumShares) + " " + acFmtDC(rec.AccumValuePerShare) + " " + acFmtDC(rec.UnclaimedRewardsTotal) + " " + o
		}
	case "possize":
		var s osmomath.Dec
		r.res = acCall(func() error {
			var err error
			s, err = h.GetPositionSize(op.pos)
			return err
		})
		if r.res == "ok" {
			r.obs = "ok " + acRawStr(s)
		}
	case "haspos":
		var b bool
		r.res = acCall(func() error { b = h.HasPosition(op.pos); return nil })
		if r.res == "ok" {
			if b {
				r.obs = "ok 1"
			} else {
				r.obs = "ok 0"
			}
		}
	case "value":
		var d sdk.DecCoins
		r.res = acCall(func() error { d = h.GetValue(); return nil })
		if r.res == "ok" {
			r.dc = acFromDC(d)
			r.obs = "ok " + acFmt(r.dc)
		}
	case "total":
		var s osmomath.Dec
		r.res = acCall(func() error { s = h.GetTotalShares(); return nil })
		if r.res == "ok" {
			r.obs = "ok " + acRawStr(s)
		}
	case "rewards":
		var rec accum.Record
		r.res = acCall(func() error {
			var err error
			rec, err = accum.GetPosition(h, op.pos)
			return err
		})
		if r.res == "ok" {
			var d sdk.DecCoins
			if catch(func() { d = accum.GetTotalRewards(h, rec) }) {
				r.dc = acFromDC(d)
				r.obs = "ok " + acFmt(r.dc)
			} else {
				r.res = "panic"
			}
		}
	default:
		panic("accum engine: exec unknown kind " + op.kind)
	}
	if r.obs == "" {
		r.obs = r.res
	}
	return r
}

func acAnyNeg(cs []acCoin) bool {
	for _, c := range cs {
		if c.a.Sign() < 0 {
			return true
		}
	}
	return false
}

func acClamp(v *big.Int) {
	if v.CmpAbs(acLimit) > 0 {
		if v.Sign() < 0 {
			v.Neg(acLimit)
		} else {
			v.Set(acLimit)
		}
	}
}

// run executes one op line, emits it, and evaluates the oracle.
func (e *acEng) run(op *acOp) acRes {
	if op.kind != "make" && op.kind != "get" && e.poison[op.h] {
		e.o.Count("handle-poisoned.refetch")
		e.run(&acOp{kind: "get", h: op.h, name: e.slots[op.h].GetName()})
	}
	before, hb := e.st, e.hs
	hname, pkey := "", ""
	var prec *acPosRec
	e.curStaleTotal, e.curStaleValue = false, false
	if op.kind != "make" && op.kind != "get" {
		hname = e.slots[op.h].GetName()
		if acHasPos(op.kind) { // NB the empty string is a position name like any other
			pkey = acPosPrefix + hname + "||" + op.pos
			prec = before.pos[pkey]
		}
		if a := before.acc[acAccPrefix+hname]; a != nil {
			hd := e.slots[op.h]
			e.curStaleTotal = acBig(hd.GetTotalShares()).Cmp(a.total) != 0
			e.curStaleValue = !acCoinsEq(acFromDC(hd.GetValue()), a.val)
		}
	}
	// keep every argument inside the LegacyDec range (a larger value would be stored
	// unchecked and make the record undecodable: corrupted data is out of scope)
	if op.shares != nil {
		acClamp(op.shares)
	}
	for _, c := range op.coins {
		acClamp(c.a)
	}
	line := op.line()
	r := e.exec(op)
	e.refresh(false)
	if op.kind == "get" {
		if r.res == "ok" {
			e.poison[op.h] = false
		}
	} else if op.kind != "make" && r.res == "panic" && hb[op.h] != e.hs[op.h] {
		e.poison[op.h] = true
		e.o.Count("handle-poisoned:" + op.kind)
	}
	e.emit(line, r.obs, !acIsGetter(op.kind))
	e.o.Count("op." + op.kind)
	e.o.Count("res." + op.kind + "." + r.res)
	e.o.Count("mode-ops." + e.mode)
	if e.judged {
		e.o.Count("ops.judged")
	} else {
		e.o.Count("ops.unjudged")
	}
	e.oracle(op, r, before, hb, hname, pkey, prec)
	if r.res == "panic" {
		e.dump()
	} else if e.sinceDump >= e.nextDump && !e.holdDump {
		e.dump()
	}
	return r
}

// fail reports an oracle failure; a judged history stops being judged afterwards so
// that one root cause is reported once instead of on every following op.
func (e *acEng) fail(key string, op *acOp, r acRes, extra string) {
	if e.judged {
		e.judged = false
		e.o.Count("history.unjudged-after-failure")
	}
	e.shadowOn = false
	e.o.Fail(key, fmt.Sprintf("mode=%s world=%s line#%d op=%q obs=%q %s", e.mode, e.world, e.o.n, op.line(), r.obs, extra))
}

func (e *acEng) oracle(op *acOp, r acRes, before *acState, hb [acNSlots]string, hname, pkey string, prec *acPosRec) {
	k := op.kind
	after := e.st
	sameRaw := acRawEq(before.raw, after.raw)
	sameH := hb == e.hs

	// (6) an error must have no effect -- all histories
	if r.res == "err" && (!sameRaw || !sameH) {
		e.fail("err-effect:"+k, op, r, fmt.Sprintf("sameRaw=%v sameHandles=%v", sameRaw, sameH))
	}

	// (7) expected failures -- all histories
	if acIsPosOp(k) {
		cls := ""
		s := op.shares
		switch {
		case (k == "addpos" || k == "addposint" || k == "rempos" || k == "remposint") && s.Sign() <= 0:
			cls = "nonpositive"
		case (k == "updpos" || k == "updposint") && s.Sign() == 0:
			cls = "zero"
		case prec == nil:
			cls = "unknown"
		case k == "addunclaimed" && acAnyNeg(op.coins):
			cls = "negative"
		case (k == "rempos" || k == "remposint") && s.Cmp(prec.shares) > 0:
			cls = "too-many"
		case (k == "updpos" || k == "updposint") && s.Sign() < 0 && new(big.Int).Neg(s).Cmp(prec.shares) > 0:
			cls = "too-many"
		}
		if cls != "" {
			e.o.Count("expect-fail." + k + "." + cls)
			if r.res != "err" {
				e.fail("should-fail:"+k+":"+cls, op, r, "")
			}
		}
	}

	// store-reading getters must agree with the raw store -- all histories
	switch k {
	case "getpos":
		if prec != nil {
			o := "0"
			if prec.opt {
				o = "1"
			}
			want := "ok " + prec.shares.String() + " " + acFmt(prec.snap) + " " + acFmt(prec.uncl) + " " + o
			if r.obs != want {
				e.fail("getter-mismatch:getpos", op, r, "want="+want)
			}
		}
	case "possize":
		if prec != nil && r.obs != "ok "+prec.shares.String() {
			e.fail("getter-mismatch:possize", op, r, "want="+prec.shares.String())
		}
	case "haspos":
		want := "ok 0"
		if prec != nil {
			want = "ok 1"
		}
		if r.obs != want {
			e.fail("getter-mismatch:haspos", op, r, "want="+want)
		}
	case "get":
		if a, ok := after.acc[acAccPrefix+op.name]; ok {
			want := "ok " + acFmt(a.val) + " " + a.total.String()
			if r.obs != want {
				e.fail("getter-mismatch:get", op, r, "want="+want)
			}
		} else if r.res != "err" {
			e.fail("should-fail:get:unknown", op, r, "")
		}
	}

	// whole-store oracle against the engine's own shadow map: every history that keeps the discipline
	e.storeOracle(op, r, before, hb, hname, pkey)

	if !e.judged {
		return
	}

	// ---- judged histories only
	if r.res == "panic" {
		if !sameRaw || !sameH {
			e.judged = false
			e.o.Count("panic-with-effect:" + k)
		} else {
			e.o.Count("panic-no-effect:" + k)
		}
		return
	}
	if r.res == "err" {
		return
	}

	accKey := acAccPrefix + hname
	allowed := map[string]bool{}
	handleMayChange := false
	L := e.led[hname]
	if k != "make" && k != "get" && L == nil {
		e.fail("ledger-missing-acc:"+k, op, r, "acc="+hname)
		return
	}

	switch k {
	case "make":
		allowed[acAccPrefix+op.name] = true
		e.led[op.name] = &acAccLed{V: acZeroVec(), pos: map[string]*acPosLed{}}
	case "get":
		handleMayChange = true
	case "grow":
		allowed[accKey] = true
		handleMayChange = true
		gv := acVecOf(op.coins)
		for _, p := range L.pos {
			p.earned = p.earned.add(gv.scale(p.shares))
		}
		L.V = L.V.add(gv)
	case "newpos", "newposint":
		allowed[accKey], allowed[pkey] = true, true
		handleMayChange = true
		s := acRat(op.shares)
		p := &acPosLed{shares: s, ref: L.V, earned: acZeroVec(), paid: acZeroVec()}
		if k == "newposint" {
			p.ref = acVecOf(op.coins)
			p.earned = L.V.sub(p.ref).scale(s)
		}
		if _, dup := L.pos[op.pos]; dup {
			e.fail("posset:"+k, op, r, "judged newpos on a ledger-live position")
		}
		L.pos[op.pos] = p
	case "addpos", "addposint", "rempos", "remposint", "updpos", "updposint":
		allowed[accKey], allowed[pkey] = true, true
		handleMayChange = true
		p := L.pos[op.pos]
		if p == nil {
			e.fail("posset:"+k, op, r, "ok on a position the ledger does not hold")
			break
		}
		if e.settleInexact(L, p) {
			p.inexact++
		}
		d := acRat(op.shares)
		if k == "rempos" || k == "remposint" {
			d.Neg(d)
		}
		p.shares = new(big.Rat).Add(p.shares, d)
		iv := L.V
		if strings.HasSuffix(k, "int") {
			iv = acVecOf(op.coins)
		}
		p.earned = p.earned.add(L.V.sub(iv).scale(p.shares))
		p.ref = iv
	case "setint":
		allowed[pkey] = true
		p := L.pos[op.pos]
		if p == nil {
			e.fail("posset:"+k, op, r, "ok on a position the ledger does not hold")
			break
		}
		iv := acVecOf(op.coins)
		p.earned = p.earned.add(p.ref.sub(iv).scale(p.shares))
		p.ref = iv
	case "addunclaimed":
		allowed[pkey] = true
		p := L.pos[op.pos]
		if p == nil {
			e.fail("posset:"+k, op, r, "ok on a position the ledger does not hold")
			break
		}
		p.earned = p.earned.add(acVecOf(op.coins))
	case "rewards":
		p := L.pos[op.pos]
		if p == nil {
			e.fail("posset:"+k, op, r, "ok on a position the ledger does not hold")
			break
		}
		got := acVecOf(r.dc)
		tol := new(big.Rat).Mul(acHalfUlp, big.NewRat(int64(p.inexact+1), 1))
		for i := range acDenoms {
			want := new(big.Rat).Sub(p.earned[i], p.paid[i])
			diff := new(big.Rat).Sub(got[i], want)
			if diff.Abs(diff).Cmp(tol) > 0 {
				e.fail("rewards-bound", op, r, fmt.Sprintf("denom=%s want=%s inexact=%d", acDenoms[i], want.FloatString(24), p.inexact))
			}
		}
	case "claim":
		allowed[pkey] = true
		p := L.pos[op.pos]
		if p == nil {
			e.fail("posset:"+k, op, r, "ok on a position the ledger does not hold")
			break
		}
		zero := p.shares.Sign() == 0
		cls := "pos-shares"
		if zero {
			cls = "zero-shares"
		}
		e.o.Count("claim." + cls)
		if !op.hasT {
			e.fail("claim-trunc:"+cls, op, r, "no GetTotalRewards value available before the claim")
			break
		}
		// expected truncation, recomputed with rationals
		var wantC, wantD []acCoin
		ts := append([]acCoin(nil), op.T...)
		sort.Slice(ts, func(i, j int) bool { return ts[i].d < ts[j].d })
		for _, c := range ts {
			fl := ratFloor(acRat(c.a))
			if fl.Sign() != 0 {
				wantC = append(wantC, acCoin{c.d, fl})
			}
			rest := new(big.Int).Sub(c.a, new(big.Int).Mul(fl, acP18))
			if rest.Sign() != 0 {
				wantD = append(wantD, acCoin{c.d, rest})
			}
		}
		if !acCoinsEq(wantC, r.ic) || !acCoinsEq(wantD, r.dc) {
			e.fail("claim-trunc:"+cls, op, r, "T="+acFmt(op.T)+" want="+acFmt(wantC)+" "+acFmt(wantD))
		}
		if len(r.dc) > 0 {
			e.o.Count("claim.dust-nonzero")
		}
		if len(r.ic) > 0 {
			e.o.Count("claim.coins-nonzero")
		}
		if len(op.T) == 0 {
			e.o.Count("claim.nothing")
		}
		now := after.pos[pkey]
		if zero {
			if now != nil || e.slots[op.h].HasPosition(op.pos) {
				e.fail("disappear:claim-zero-shares", op, r, "position still present")
			}
			delete(L.pos, op.pos)
		} else {
			hv := acFromDC(e.slots[op.h].GetValue())
			if now == nil || prec == nil || now.shares.Cmp(prec.shares) != 0 || !acCoinsEq(now.snap, hv) || len(now.uncl) != 0 || now.opt != prec.opt {
				got := "<absent>"
				if now != nil {
					got = now.fmt()
				}
				e.fail("claim-record", op, r, "record="+got+" handleValue="+acFmt(hv))
			}
			if e.settleInexact(L, p) {
				p.inexact++
			}
			p.paid = p.paid.add(acVecOf(op.T))
			p.ref = L.V
		}
	case "delete":
		allowed[accKey], allowed[pkey] = true, true
		handleMayChange = true
		p := L.pos[op.pos]
		if p == nil {
			e.fail("posset:"+k, op, r, "ok on a position the ledger does not hold")
			break
		}
		if !op.hasT {
			e.fail("delete-amount", op, r, "no GetTotalRewards value available before the delete")
		} else {
			ts := append([]acCoin(nil), op.T...)
			sort.Slice(ts, func(i, j int) bool { return ts[i].d < ts[j].d })
			if !acCoinsEq(ts, r.dc) {
				e.fail("delete-amount", op, r, "T="+acFmt(op.T))
			}
		}
		if after.pos[pkey] != nil || e.slots[op.h].HasPosition(op.pos) {
			e.fail("disappear:delete", op, r, "position still present")
		}
		delete(L.pos, op.pos)
	}

	// the options of an existing record never change
	switch k {
	case "addpos", "addposint", "rempos", "remposint", "updpos", "updposint", "setint", "addunclaimed":
		if now := after.pos[pkey]; prec != nil && now != nil && now.opt != prec.opt {
			e.fail("opt-changed:"+k, op, r, "")
		}
	}

	// (5) frame
	frameBad := ""
	for key, v := range before.raw {
		if allowed[key] {
			continue
		}
		if w, ok := after.raw[key]; !ok || w != v {
			frameBad = key
		}
	}
	for key := range after.raw {
		if allowed[key] {
			continue
		}
		if _, ok := before.raw[key]; !ok {
			frameBad = key
		}
	}
	if frameBad == "" && allowed[accKey] && k != "grow" && k != "make" {
		// position ops never change the accumulator value
		a, b := before.acc[accKey], after.acc[accKey]
		if a == nil || b == nil || !acCoinsEq(a.val, b.val) {
			frameBad = accKey + " (value)"
		}
	}
	if frameBad == "" {
		for i := range hb {
			if hb[i] != e.hs[i] && !(handleMayChange && i == op.h) {
				frameBad = fmt.Sprintf("handle h%d", i)
			}
		}
	}
	if frameBad != "" {
		e.fail("frame:"+k, op, r, "changed="+frameBad)
	}

	if sameRaw && (k == "get" || acIsGetter(k)) {
		return // nothing changed: invariants hold as before
	}
	e.checkInvariants(op, r, hname)
}

// relOf: how the record under raw key `key` relates to the op's accumulator `hname` and position `pos`.
func (e *acEng) relOf(hname, pos string, hasPos bool, key string) string {
	if strings.HasPrefix(key, acAccPrefix) {
		if key == acAccPrefix+hname {
			return "own-accumulator-record"
		}
		return "other-accumulator-record"
	}
	own := acPosPrefix + hname + "||"
	if !strings.HasPrefix(key, own) {
		return "position-of-other-accumulator"
	}
	if !hasPos {
		return "position-of-own-accumulator"
	}
	other := key[len(own):]
	switch {
	case other == pos:
		return "own-position"
	case strings.HasPrefix(other, pos):
		return "other-position-whose-name-extends-the-ops-position-name"
	case strings.HasPrefix(pos, other):
		return "other-position-whose-name-is-a-prefix-of-the-ops-position-name"
	}
	return "other-position"
}

// storeOracle: after EVERY op of a history that keeps the property's discipline (modes fresh, one, stale):
//   * for every position of the engine's shadow map (plain Go map fed by the op arguments of successful calls)
//     the record exists with the expected shares, and no other record exists;
//   * every made accumulator still has its record;
//   * mode stale (ops routed through possibly stale handles; the reward ledger is not judged there because the
//     code writes a handle's cached VALUE back): no record other than the op's own accumulator / position record
//     changed, and the op did not change `recorded total shares - sum of position shares` of ANY accumulator.
// The first failure ends the shadow's judgement of the history (one root cause, one report).
func (e *acEng) storeOracle(op *acOp, r acRes, before *acState, hb [acNSlots]string, hname, pkey string) {
	if e.mode == "wild" || !e.shadowOn {
		return
	}
	k := op.kind
	after := e.st
	if r.res == "panic" {
		if !acRawEq(before.raw, after.raw) { // callers revert a panicking call; the engine's store keeps the partial write
			e.shadowOn = false
			e.o.Count("shadow.stopped-by-panic-with-effect")
		}
		return
	}
	if r.res != "ok" {
		return
	}
	stale := e.mode == "stale"
	bad := func(key, extra string) {
		e.shadowOn = false
		e.o.Fail(key, fmt.Sprintf("mode=%s world=%s line#%d op=%q obs=%q stale-total=%v stale-value=%v %s",
			e.mode, e.world, e.o.n, op.line(), r.obs, e.curStaleTotal, e.curStaleValue, extra))
	}
	// ---- 1. the shadow follows the op
	hasPos := acHasPos(k)
	sh := e.shadow[hname]
	if k != "make" && k != "get" && sh == nil {
		bad("store:ok-on-unknown-accumulator:"+k, "acc="+hname)
		return
	}
	switch k {
	case "make":
		e.shadow[op.name] = map[string]*big.Int{}
	case "newpos", "newposint":
		sh[op.pos] = new(big.Int).Set(op.shares)
	case "addpos", "addposint", "rempos", "remposint", "updpos", "updposint":
		cur := sh[op.pos]
		if cur == nil {
			bad("store:ok-on-unknown-position:"+k, "")
			return
		}
		d := new(big.Int).Set(op.shares)
		if k == "rempos" || k == "remposint" {
			d.Neg(d)
		}
		sh[op.pos] = new(big.Int).Add(cur, d)
	case "claim":
		cur := sh[op.pos]
		if cur == nil {
			bad("store:ok-on-unknown-position:"+k, "")
			return
		}
		if cur.Sign() == 0 {
			delete(sh, op.pos)
			// does another live position's name extend the claimer's name?
			ext := "no-other-name-extends-claimer"
			for pn := range sh {
				if strings.HasPrefix(pn, op.pos) {
					ext = "another-name-extends-claimer"
					break
				}
			}
			e.o.Count("claim.zero-shares." + ext)
		}
	case "delete":
		if sh[op.pos] == nil {
			bad("store:ok-on-unknown-position:"+k, "")
			return
		}
		delete(sh, op.pos)
		for pn := range sh {
			if strings.HasPrefix(pn, op.pos) {
				e.o.Count("delete.another-name-extends-deleted")
				break
			}
		}
	case "setint", "addunclaimed", "getpos", "possize", "rewards":
		if sh[op.pos] == nil {
			bad("store:ok-on-unknown-position:"+k, "")
			return
		}
	}
	e.o.Count("shadow.ops")
	if acRawEq(before.raw, after.raw) {
		return // nothing written: the store is as judged before
	}
	// ---- 2. whole store == shadow
	n := 0
	for an, ps := range e.shadow {
		if after.acc[acAccPrefix+an] == nil {
			bad("store:accumulator-record-missing:"+k+":"+e.relOf(hname, op.pos, hasPos, acAccPrefix+an), "acc="+an)
			return
		}
		for pn, want := range ps {
			n++
			key := acPosPrefix + an + "||" + pn
			rec := after.pos[key]
			if rec == nil {
				bad("store:position-missing:"+k+":"+e.relOf(hname, op.pos, hasPos, key), fmt.Sprintf("acc=%q pos=%q expected-shares=%s", an, pn, want))
				return
			}
			if rec.shares.Cmp(want) != 0 {
				bad("store:shares:"+k+":"+e.relOf(hname, op.pos, hasPos, key), fmt.Sprintf("acc=%q pos=%q stored=%s expected=%s", an, pn, rec.shares, want))
				return
			}
		}
	}
	if n != len(after.pos) {
		for key := range after.pos {
			p := after.pos[key]
			if ps := e.shadow[p.acc]; ps == nil || ps[p.pos] == nil {
				bad("store:unexpected-position:"+k+":"+e.relOf(hname, op.pos, hasPos, key), fmt.Sprintf("key=%q", key))
				return
			}
		}
	}
	if !stale {
		return // fresh / one: frame, totals and the reward ledger are judged by the ledger oracle below
	}
	e.o.Count("stale.judged-ops")
	if e.curStaleTotal {
		e.o.Count("stale.op-through-handle-with-stale-total." + k)
	}
	if e.curStaleValue {
		e.o.Count("stale.op-through-handle-with-stale-value")
	}
	// ---- 3. frame: only the op's own accumulator / position record may change
	allowed := map[string]bool{}
	switch k {
	case "make":
		allowed[acAccPrefix+op.name] = true
	case "grow":
		allowed[acAccPrefix+hname] = true
	case "newpos", "newposint", "addpos", "addposint", "rempos", "remposint", "updpos", "updposint", "delete":
		allowed[acAccPrefix+hname], allowed[pkey] = true, true
	case "setint", "addunclaimed", "claim":
		allowed[pkey] = true
	}
	for key, v := range before.raw {
		if w, ok := after.raw[key]; !allowed[key] && (!ok || w != v) {
			bad("frame:"+k+":"+e.relOf(hname, op.pos, hasPos, key), fmt.Sprintf("changed=%q", key))
			return
		}
	}
	for key := range after.raw {
		if _, ok := before.raw[key]; !ok && !allowed[key] {
			bad("frame:"+k+":"+e.relOf(hname, op.pos, hasPos, key), fmt.Sprintf("created=%q", key))
			return
		}
	}
	for i := range hb {
		if hb[i] != e.hs[i] && i != op.h {
			bad("frame:"+k+":other-handle", fmt.Sprintf("handle h%d", i))
			return
		}
	}
	// ---- 4. recorded total shares - sum of position shares: unchanged by the op, for every accumulator
	disc := func(st *acState) map[string]*big.Int {
		d := map[string]*big.Int{}
		for _, a := range st.acc {
			d[a.name] = new(big.Int).Set(a.total)
		}
		for _, p := range st.pos {
			if x := d[p.acc]; x != nil {
				x.Sub(x, p.shares)
			}
		}
		return d
	}
	db, da := disc(before), disc(after)
	for an, x := range da {
		y := db[an]
		if y == nil {
			y = new(big.Int)
		}
		if x.Cmp(y) != 0 {
			cls := "cached-total-current"
			if e.curStaleTotal {
				cls = "cached-total-differs-from-store"
			}
			if an != hname && k != "make" {
				cls += ":other-accumulator"
			}
			// NB no early end of the judgement: after a (known) stale write the discrepancy stays and every
			// later op is still judged on the CHANGE it makes
			e.o.Fail("total-ne-sum:stale-handle:"+k+":"+cls, fmt.Sprintf("mode=%s world=%s line#%d op=%q obs=%q acc=%q total-minus-sum before=%s after=%s handle-before=%s",
				e.mode, e.world, e.o.n, op.line(), r.obs, an, y, x, hb[op.h]))
		}
	}
}

// settleInexact: does the code's half-even rounding of (V-ref)_d * shares lose anything?
func (e *acEng) settleInexact(L *acAccLed, p *acPosLed) bool {
	inexact := false
	for i := range acDenoms {
		x := new(big.Rat).Sub(L.V[i], p.ref[i])
		x.Mul(x, p.shares)
		x.Mul(x, acRatP18)
		if x.IsInt() {
			continue
		}
		inexact = true
		fr := new(big.Rat).Sub(x, new(big.Rat).SetInt(ratFloor(x)))
		if fr.Cmp(acRatHalf) == 0 {
			e.o.Count("round.tie")
		}
	}
	if inexact {
		e.o.Count("round.inexact")
	} else {
		e.o.Count("round.exact")
	}
	return inexact
}

// checkInvariants: (1) total == sum of shares, (2) ledger bound, position sets.
func (e *acEng) checkInvariants(op *acOp, r acRes, hname string) {
	k := op.kind
	st := e.st
	sums := map[string]*big.Int{}
	var live []string
	for _, p := range st.pos {
		s := sums[p.acc]
		if s == nil {
			s = new(big.Int)
			sums[p.acc] = s
		}
		s.Add(s, p.shares)
		live = append(live, p.acc+"|"+p.pos)
	}
	for _, a := range st.acc {
		s := sums[a.name]
		if s == nil {
			s = new(big.Int)
		}
		if s.Cmp(a.total) != 0 {
			e.fail("total-ne-sum:"+k, op, r, fmt.Sprintf("acc=%s total=%s sum=%s", a.name, a.total, s))
		}
	}
	var led []string
	for an, L := range e.led {
		for pn := range L.pos {
			led = append(led, an+"|"+pn)
		}
	}
	sort.Strings(live)
	sort.Strings(led)
	if strings.Join(live, ";") != strings.Join(led, ";") {
		e.fail("posset:"+k, op, r, "store="+strings.Join(live, ";")+" ledger="+strings.Join(led, ";"))
		return
	}
	target := hname
	if k == "make" {
		target = op.name
	}
	L := e.led[target]
	a := st.acc[acAccPrefix+target]
	if L == nil || a == nil {
		if L != nil || a != nil {
			e.fail("posset:"+k, op, r, "accumulator set differs: "+target)
		}
		return
	}
	V := acVecOf(a.val)
	for pn, p := range L.pos {
		rec := st.pos[acPosPrefix+target+"||"+pn]
		if rec == nil {
			continue // reported by posset
		}
		sh := acRat(rec.shares)
		if sh.Cmp(p.shares) != 0 {
			e.fail("ledger-shares:"+k, op, r, fmt.Sprintf("pos=%s stored=%s ledger=%s", pn, rec.shares, p.shares.FloatString(18)))
		}
		C := acVecOf(rec.uncl).add(V.sub(acVecOf(rec.snap)).scale(sh))
		tol := new(big.Rat).Mul(acHalfUlp, big.NewRat(int64(p.inexact), 1))
		cls := "inexactN"
		if p.inexact == 0 {
			cls = "inexact0"
		}
		for i := range acDenoms {
			want := new(big.Rat).Sub(p.earned[i], p.paid[i])
			diff := new(big.Rat).Sub(C[i], want)
			if diff.Abs(diff).Cmp(tol) > 0 {
				e.fail("ledger-bound:"+k+":"+cls, op, r, fmt.Sprintf("pos=%s denom=%s claimable=%s ledger=%s inexact=%d",
					pn, acDenoms[i], C[i].FloatString(40), want.FloatString(40), p.inexact))
			}
		}
	}
}

// ---------------------------------------------------------------- generator

func (e *acEng) randBelow(m *big.Int) *big.Int {
	if m.Sign() <= 0 {
		return big.NewInt(0)
	}
	return new(big.Int).Rand(e.g.r, m)
}

// amt draws a positive raw amount from the magnitude/shape classes.
func (e *acEng) amt(tag string) *big.Int {
	g := e.g
	cls := ""
	if e.ovf && g.Intn(6) == 0 {
		cls = "limit"
	} else {
		switch e.profile {
		case "ints":
			cls = "int"
		case "smalldec":
			if g.Intn(3) == 0 {
				cls = "int"
			} else {
				cls = "dec3"
			}
		case "tie":
			switch tag {
			case "shares":
				if g.Intn(10) < 7 {
					cls = "half"
				} else {
					cls = "int"
				}
			case "grow", "interval":
				if g.Intn(10) < 7 {
					cls = "odd"
				} else {
					cls = "tiny"
				}
			}
		}
	}
	if cls == "" {
		x := g.Intn(100)
		switch {
		case x < 20:
			cls = "int"
		case x < 32:
			cls = "dec3"
		case x < 45:
			cls = "dec"
		case x < 65:
			cls = "full"
		case x < 75:
			cls = "tiny"
		case x < 82:
			cls = "huge"
		case x < 85:
			cls = "pow2"
		case x < 93:
			cls = "half"
		default:
			cls = "odd"
		}
	}
	var v *big.Int
	switch cls {
	case "int":
		kk := int64(1 + g.Intn(20))
		if g.Intn(8) == 0 {
			kk = int64(1 + g.Intn(1000000))
		}
		v = new(big.Int).Mul(big.NewInt(kk), acP18)
	case "dec3":
		j := 1 + g.Intn(3)
		m := e.randBelow(new(big.Int).Mul(big.NewInt(20), pow10(j)))
		v = m.Add(m, big.NewInt(1))
		v.Mul(v, pow10(18-j))
	case "dec":
		j := 4 + g.Intn(14)
		m := e.randBelow(new(big.Int).Mul(big.NewInt(20), pow10(j)))
		v = m.Add(m, big.NewInt(1))
		v.Mul(v, pow10(18-j))
	case "full":
		v = e.randBelow(pow10(18 + g.Intn(7)))
		v.Add(v, big.NewInt(1))
	case "tiny":
		v = big.NewInt(int64(1 + g.Intn(1000)))
	case "huge":
		v = e.randBelow(pow10(22 + g.Intn(19)))
		v.Add(v, big.NewInt(1))
	case "pow2": // whole or raw amounts exactly around 2^63, 2^64, 2^127..2^129, 2^255
		b := []int{63, 64, 127, 128, 129, 255}[g.Intn(6)]
		v = new(big.Int).Add(pow2(b), big.NewInt(int64(g.Intn(3)-1)))
		if g.Intn(3) != 0 {
			v.Mul(v, acP18)
			if g.Intn(3) == 0 {
				v.Add(v, big.NewInt(int64(g.Intn(3)-1)))
			}
		}
	case "half":
		v = new(big.Int).Mul(big.NewInt(int64(2*g.Intn(6)+1)), new(big.Int).Mul(big.NewInt(5), pow10(17)))
	case "odd":
		v = big.NewInt(int64(2*g.Intn(500) + 1))
	case "limit":
		switch g.Intn(3) {
		case 0:
			v = new(big.Int).Sub(acLimit, g.randBits(1+g.Intn(64)))
		case 1:
			v = g.randBits(280 + g.Intn(36))
			v.Add(v, big.NewInt(1))
			if v.Cmp(acLimit) > 0 {
				v.Set(acLimit)
			}
		default:
			v = new(big.Int).Quo(acLimit, big.NewInt(2))
			v.Add(v, g.randBits(1+g.Intn(200)))
		}
	}
	e.o.Count("amt." + tag + "." + cls)
	return v
}

// coins builds a DecCoins argument in sdk normal form (sorted, no duplicates, no zeros).
func (e *acEng) coins(tag string, negProb int) []acCoin {
	g := e.g
	x := g.Intn(100)
	nd := 1
	switch {
	case x < 4:
		nd = 0
	case x < 55:
		nd = 1
	case x < 85:
		nd = 2
	default:
		nd = 3
	}
	if nd > e.nDen {
		nd = e.nDen
	}
	idx := g.r.Perm(e.nDen)[:nd]
	sort.Ints(idx)
	var cs []acCoin
	for _, i := range idx {
		a := e.amt(tag)
		if negProb > 0 && g.Intn(100) < negProb {
			a.Neg(a)
		}
		cs = append(cs, acCoin{acDenoms[i], a})
	}
	return cs
}

func acAmountOf(cs []acCoin, d string) *big.Int {
	for _, c := range cs {
		if c.d == d {
			return c.a
		}
	}
	return new(big.Int)
}

func acNormal(m map[string]*big.Int) []acCoin {
	var cs []acCoin
	for _, d := range acDenoms {
		if a, ok := m[d]; ok && a.Sign() != 0 {
			cs = append(cs, acCoin{d, a})
		}
	}
	return cs
}

// interval builds an interval-accumulation argument relative to the accumulator value / snapshot.
func (e *acEng) interval(name, pos string) []acCoin {
	g := e.g
	var V, snap []acCoin
	if a := e.st.acc[acAccPrefix+name]; a != nil {
		V = a.val
	}
	hasSnap := false
	if p := e.st.pos[acPosPrefix+name+"||"+pos]; p != nil {
		snap, hasSnap = p.snap, true
	}
	m := map[string]*big.Int{}
	x := g.Intn(100)
	cls := ""
	switch {
	case x < 35:
		cls = "eq-value"
		for _, c := range V {
			m[c.d] = new(big.Int).Set(c.a)
		}
	case x < 60:
		cls = "between"
		for _, c := range V {
			lo := acAmountOf(snap, c.d)
			if !hasSnap || lo.Cmp(c.a) > 0 {
				m[c.d] = new(big.Int).Set(c.a)
				continue
			}
			span := new(big.Int).Sub(c.a, lo)
			span.Add(span, big.NewInt(1))
			var off *big.Int
			switch g.Intn(3) {
			case 0:
				off = new(big.Int)
			case 1:
				off = new(big.Int).Sub(span, big.NewInt(1))
			default:
				off = e.randBelow(span)
			}
			m[c.d] = off.Add(off, lo)
		}
		// keep snapshot-only denoms (e.g. negative ones)
		for _, c := range snap {
			if _, ok := m[c.d]; !ok {
				m[c.d] = new(big.Int).Set(c.a)
			}
		}
	case x < 72:
		cls = "below-snapshot"
		base := snap
		if !hasSnap {
			base = V
		}
		for _, c := range base {
			m[c.d] = new(big.Int).Set(c.a)
		}
		d := acDenoms[g.Intn(e.nDen)]
		if cur, ok := m[d]; ok && g.Intn(4) == 0 {
			_ = cur
			delete(m, d) // drop the denom entirely (reads as zero)
		} else {
			cur := m[d]
			if cur == nil {
				cur = new(big.Int)
			}
			m[d] = new(big.Int).Sub(cur, e.amt("interval"))
		}
	case x < 82:
		cls = "above-value"
		for _, c := range V {
			m[c.d] = new(big.Int).Set(c.a)
		}
		d := acDenoms[g.Intn(e.nDen)]
		cur := m[d]
		if cur == nil {
			cur = new(big.Int)
		}
		m[d] = new(big.Int).Add(cur, e.amt("interval"))
	case x < 95:
		cls = "random"
		for _, c := range e.coins("interval", 20) {
			m[c.d] = c.a
		}
	default:
		cls = "empty"
	}
	e.o.Count("interval." + cls)
	return acNormal(m)
}

func (e *acEng) livePos(name string) []string {
	var out []string
	for _, p := range e.st.pos {
		if p.acc == name {
			out = append(out, p.pos)
		}
	}
	sort.Strings(out)
	return out
}

func (e *acEng) deadPos(name string) []string {
	var out []string
	for _, pn := range e.posNames[:e.nPos] {
		if e.st.pos[acPosPrefix+name+"||"+pn] == nil {
			out = append(out, pn)
		}
	}
	return out
}

// pickPos: an existing position with probability pExisting%, else an unknown one.
func (e *acEng) pickPos(name string, pExisting int) (string, bool) {
	g := e.g
	live, dead := e.livePos(name), e.deadPos(name)
	wantLive := g.Intn(100) < pExisting
	if (wantLive && len(live) > 0) || len(dead) == 0 {
		if len(live) == 0 {
			return e.posNames[0], false
		}
		return live[g.Intn(len(live))], true
	}
	return dead[g.Intn(len(dead))], false
}

func (e *acEng) held(name, pos string) *big.Int {
	if p := e.st.pos[acPosPrefix+name+"||"+pos]; p != nil {
		return new(big.Int).Set(p.shares)
	}
	return new(big.Int)
}

// remShares: how much to remove from a position holding `held`.
func (e *acEng) remShares(held *big.Int) *big.Int {
	g := e.g
	x := g.Intn(100)
	switch {
	case x < 35 && held.Sign() > 0:
		e.o.Count("rem.all")
		return new(big.Int).Set(held)
	case x < 55 && held.Cmp(big.NewInt(1)) > 0:
		e.o.Count("rem.half")
		return new(big.Int).Quo(held, big.NewInt(2))
	case x < 75 && held.Sign() > 0:
		e.o.Count("rem.part")
		v := e.randBelow(held)
		return v.Add(v, big.NewInt(1))
	case x < 85:
		e.o.Count("rem.too-many")
		return new(big.Int).Add(held, e.amt("shares"))
	default:
		e.o.Count("rem.random")
		return e.amt("shares")
	}
}

func (e *acEng) nonPositive() *big.Int {
	if e.g.Intn(2) == 0 {
		return new(big.Int)
	}
	v := e.amt("shares")
	return v.Neg(v)
}

// pickSlot chooses the slot/accumulator for the next handle op.
func (e *acEng) pickSlot() (h int, name string, needGet bool) {
	g := e.g
	switch e.base {
	case "fresh":
		return g.Intn(3), e.accs[g.Intn(len(e.accs))], true
	case "one":
		name = e.accs[g.Intn(len(e.accs))]
		return e.slotOf[name], name, false
	default: // stale
		var filled []int
		for i, s := range e.slots {
			if s != nil {
				filled = append(filled, i)
			}
		}
		h = filled[g.Intn(len(filled))]
		if g.Intn(12) == 0 {
			e.o.Count("stale.refresh")
			if g.Intn(3) == 0 {
				return h, e.accs[g.Intn(len(e.accs))], true
			}
			return h, e.slots[h].GetName(), true
		}
		return h, e.slots[h].GetName(), false
	}
}

func (e *acEng) get(h int, name string) acRes {
	return e.run(&acOp{kind: "get", h: h, name: name})
}

// handleOp runs op through slot h (fetching first where the mode demands it).
func (e *acEng) handleOp(h int, name string, needGet bool, op *acOp) acRes {
	if needGet {
		e.get(h, name)
	}
	op.h = h
	return e.run(op)
}

func (e *acEng) makeAcc(name string) {
	g := e.g
	if g.Intn(10) == 0 { // fetching an accumulator that does not exist yet: err, slot untouched
		e.o.Count("malformed.get-unknown")
		e.get(g.Intn(3), name)
	}
	r := e.run(&acOp{kind: "make", name: name})
	if r.res == "ok" {
		e.accs = append(e.accs, name)
	}
	if g.Intn(10) == 0 {
		e.o.Count("malformed.make-duplicate")
		e.run(&acOp{kind: "make", name: name})
	}
	if g.Intn(25) == 0 {
		e.o.Count("malformed.make-badname")
		e.run(&acOp{kind: "make", name: e.badNames[g.Intn(len(e.badNames))]})
	}
	if e.base == "one" && r.res == "ok" {
		if _, ok := e.slotOf[name]; !ok {
			e.slotOf[name] = len(e.slotOf)
		}
		e.get(e.slotOf[name], name)
	}
}

func (e *acEng) unmadeAcc() string {
	for _, i := range e.g.r.Perm(len(e.accNames)) {
		n := e.accNames[i]
		found := false
		for _, a := range e.accs {
			if a == n {
				found = true
			}
		}
		if !found {
			return n
		}
	}
	return ""
}

func (e *acEng) history() {
	g := e.g
	e.reset()
	x := g.Intn(100)
	switch {
	case x < 40:
		e.mode = "fresh"
	case x < 75:
		e.mode = "one"
	case x < 90:
		e.mode = "stale"
	default:
		e.mode = "wild"
	}
	e.base = e.mode
	if e.mode == "wild" {
		if g.Intn(2) == 0 {
			e.base = "fresh"
		} else {
			e.base = "one"
		}
	}
	e.judged = e.mode == "fresh" || e.mode == "one"
	startJudged := e.judged
	x = g.Intn(100)
	switch {
	case x < 50:
		e.profile = "mixed"
	case x < 65:
		e.profile = "ints"
	case x < 82:
		e.profile = "tie"
	default:
		e.profile = "smalldec"
	}
	e.ovf = g.Intn(1000) < 8 || (e.mode == "wild" && g.Intn(4) == 0)
	// naming world: the classic names keep a third of the histories
	wi := 0
	if g.Intn(3) != 0 {
		wi = 1 + g.Intn(len(acWorlds)-1)
	}
	e.setWorld(acWorlds[wi])
	e.slotOf = map[string]int{}
	e.o.Count("world." + e.world)
	e.nPos = 2 + g.Intn(len(e.posNames)-1)
	e.nDen = 1 + g.Intn(3)
	e.o.Count("mode." + e.mode)
	e.o.Count("profile." + e.profile)
	if e.ovf {
		e.o.Count("history.overflow-amounts")
	}

	nAcc := 1 + g.Intn(len(e.accNames))
	perm := g.r.Perm(len(e.accNames))
	for i := 0; i < nAcc; i++ {
		e.makeAcc(e.accNames[perm[i]])
	}
	if e.base == "stale" {
		// 2-4 live handles on one accumulator, the remaining slots (if any) on the others; the handles drift
		// apart in time through the refreshes of pickSlot and the ops routed through the others
		a := e.accs[g.Intn(len(e.accs))]
		ns := 2 + g.Intn(3)
		sl := g.r.Perm(acNSlots)
		for _, s := range sl[:ns] {
			e.get(s, a)
		}
		extra := g.Intn(acNSlots - ns)
		for _, s := range sl[ns : ns+extra] {
			e.get(s, e.accs[g.Intn(len(e.accs))])
		}
		e.o.Count(fmt.Sprintf("stale.handles-on-one-accumulator=%d", ns))
	}
	e.dump()

	nOps := 20 + g.Intn(231)
	for i := 0; i < nOps && e.o.n < e.target; i++ {
		e.step()
	}
	e.dumpIfStale()
	if startJudged {
		if e.judged {
			e.o.Count("history.judged-to-end")
		} else {
			e.o.Count("history.judged-then-dropped")
		}
	}
}

func (e *acEng) sharesArg() *big.Int { return e.amt("shares") }

func (e *acEng) step() {
	g := e.g
	if e.mode == "wild" && g.Intn(4) == 0 {
		e.wildStep()
		return
	}
	if g.Intn(25) == 0 {
		e.stepDirected()
		return
	}
	x := g.Intn(100)
	switch {
	case x < 25:
		e.stepGrow()
	case x < 37:
		e.stepNewPos()
	case x < 62:
		e.stepChange()
	case x < 66:
		e.stepSetInt()
	case x < 69:
		e.stepAddUnclaimed(false)
	case x < 77:
		e.stepClaim("claim", 80)
	case x < 82:
		e.stepClaim("delete", 80)
	case x < 92:
		e.stepGetter()
	default:
		e.stepMalformed()
	}
}

// stepDirected: the paths on which a position DISAPPEARS, aimed at positions whose name is a prefix of another
// live name when there is one: remove-all then claim (zero-share claim path), delete, claim right after the
// position was created with zero shares.
func (e *acEng) stepDirected() {
	g := e.g
	h, name, ng := e.pickSlot()
	live := e.livePos(name)
	if len(live) == 0 {
		e.stepNewPos()
		return
	}
	// prefer a name that some other live name extends
	pos := live[g.Intn(len(live))]
	var pre []string
	for _, a := range live {
		for _, b := range live {
			if a != b && strings.HasPrefix(b, a) {
				pre = append(pre, a)
				break
			}
		}
	}
	if len(pre) > 0 && g.Intn(4) != 0 {
		pos = pre[g.Intn(len(pre))]
		e.o.Count("directed.target-name-is-prefix-of-live-name")
	}
	switch g.Intn(3) {
	case 0, 1:
		e.o.Count("directed.remove-all-then-claim." + e.world)
		if held := e.held(name, pos); held.Sign() > 0 {
			kind := "rempos"
			op := &acOp{kind: kind, pos: pos, shares: held}
			switch g.Intn(3) {
			case 0:
				op.kind, op.coins = "remposint", e.interval(name, pos)
			case 1:
				op.kind, op.shares = "updpos", new(big.Int).Neg(held)
			}
			if r := e.handleOp(h, name, ng, op); r.res != "ok" {
				return
			}
			ng = e.base == "fresh"
		}
		e.claimOn(h, name, ng, "claim", pos)
	default:
		e.o.Count("directed.delete." + e.world)
		e.claimOn(h, name, ng, "delete", pos)
	}
}

func (e *acEng) stepGrow() {
	h, name, ng := e.pickSlot()
	e.handleOp(h, name, ng, &acOp{kind: "grow", coins: e.coins("grow", 0)})
}

func (e *acEng) stepNewPos() {
	g := e.g
	h, name, ng := e.pickSlot()
	dead := e.deadPos(name)
	if len(dead) == 0 {
		// every name is taken: free one instead (or do something else)
		if g.Intn(2) == 0 {
			e.claimOn(h, name, ng, "delete", e.livePos(name)[g.Intn(e.nPos)])
		} else {
			e.stepChange()
		}
		return
	}
	pos := dead[g.Intn(len(dead))]
	s := e.sharesArg()
	if g.Intn(10) == 0 {
		s = new(big.Int)
		e.o.Count("newpos.zero-shares")
	}
	op := &acOp{kind: "newpos", pos: pos, shares: s, opt: g.Intn(2)}
	if g.Intn(2) == 0 {
		op.kind = "newposint"
		op.coins = e.interval(name, pos)
	}
	e.handleOp(h, name, ng, op)
}

func (e *acEng) stepChange() {
	g := e.g
	h, name, ng := e.pickSlot()
	if len(e.livePos(name)) == 0 && g.Intn(10) < 6 {
		e.stepNewPos()
		return
	}
	pos, _ := e.pickPos(name, 80)
	x := g.Intn(25)
	var kind string
	switch {
	case x < 5:
		kind = "addpos"
	case x < 8:
		kind = "addposint"
	case x < 13:
		kind = "rempos"
	case x < 16:
		kind = "remposint"
	case x < 22:
		kind = "updpos"
	default:
		kind = "updposint"
	}
	op := &acOp{kind: kind, pos: pos}
	switch kind {
	case "addpos", "addposint":
		op.shares = e.sharesArg()
	case "rempos", "remposint":
		op.shares = e.remShares(e.held(name, pos))
	default:
		y := g.Intn(10)
		switch {
		case y < 5:
			op.shares = e.sharesArg()
		case y < 9:
			op.shares = e.remShares(e.held(name, pos))
			op.shares.Neg(op.shares)
		default:
			op.shares = new(big.Int)
		}
	}
	if strings.HasSuffix(kind, "int") {
		op.coins = e.interval(name, pos)
	}
	e.handleOp(h, name, ng, op)
}

func (e *acEng) stepSetInt() {
	h, name, ng := e.pickSlot()
	pos, _ := e.pickPos(name, 85)
	e.handleOp(h, name, ng, &acOp{kind: "setint", pos: pos, coins: e.interval(name, pos)})
}

func (e *acEng) stepAddUnclaimed(forceNeg bool) {
	g := e.g
	h, name, ng := e.pickSlot()
	pos, _ := e.pickPos(name, 85)
	neg := 0
	if forceNeg || g.Intn(8) == 0 {
		neg = 60
	}
	cs := e.coins("unclaimed", neg)
	if forceNeg && len(cs) > 0 {
		hasNeg := false
		for _, c := range cs {
			if c.a.Sign() < 0 {
				hasNeg = true
			}
		}
		if !hasNeg {
			cs[0].a.Neg(cs[0].a)
		}
	}
	for _, c := range cs {
		if c.a.Sign() < 0 {
			e.o.Count("addunclaimed.negative-coin")
			break
		}
	}
	e.handleOp(h, name, ng, &acOp{kind: "addunclaimed", pos: pos, coins: cs})
}

func (e *acEng) stepClaim(kind string, pExisting int) {
	h, name, ng := e.pickSlot()
	pos, _ := e.pickPos(name, pExisting)
	e.claimOn(h, name, ng, kind, pos)
}

// claimOn: rewards getter, dump, claim/delete, dump (the getter makes T part of the op stream).
func (e *acEng) claimOn(h int, name string, ng bool, kind, pos string) {
	e.holdDump = true // the dump comes right before the claim/delete line
	rr := e.handleOp(h, name, ng, &acOp{kind: "rewards", pos: pos})
	op := &acOp{kind: kind, pos: pos, h: h}
	if rr.res == "ok" {
		op.T, op.hasT = rr.dc, true
	}
	if e.base == "fresh" {
		e.get(h, name)
	}
	e.holdDump = false
	e.dumpIfStale()
	r := e.run(op)
	if r.res != "panic" { // a panic already dumped
		e.dumpIfStale()
	}
}

func (e *acEng) stepGetter() {
	g := e.g
	h, name, ng := e.pickSlot()
	pos, _ := e.pickPos(name, 75)
	kinds := []string{"getpos", "possize", "haspos", "value", "total", "rewards"}
	e.handleOp(h, name, ng, &acOp{kind: kinds[g.Intn(len(kinds))], pos: pos})
}

func (e *acEng) stepMalformed() {
	g := e.g
	x := g.Intn(9)
	switch x {
	case 0: // add with non-positive shares
		h, name, ng := e.pickSlot()
		pos, _ := e.pickPos(name, 80)
		op := &acOp{kind: "addpos", pos: pos, shares: e.nonPositive()}
		if g.Intn(2) == 0 {
			op.kind, op.coins = "addposint", e.interval(name, pos)
		}
		e.o.Count("malformed.add-nonpositive")
		e.handleOp(h, name, ng, op)
	case 1: // remove with non-positive shares
		h, name, ng := e.pickSlot()
		pos, _ := e.pickPos(name, 80)
		op := &acOp{kind: "rempos", pos: pos, shares: e.nonPositive()}
		if g.Intn(2) == 0 {
			op.kind, op.coins = "remposint", e.interval(name, pos)
		}
		e.o.Count("malformed.rem-nonpositive")
		e.handleOp(h, name, ng, op)
	case 2: // update by zero
		h, name, ng := e.pickSlot()
		pos, _ := e.pickPos(name, 80)
		op := &acOp{kind: "updpos", pos: pos, shares: new(big.Int)}
		if g.Intn(2) == 0 {
			op.kind, op.coins = "updposint", e.interval(name, pos)
		}
		e.o.Count("malformed.upd-zero")
		e.handleOp(h, name, ng, op)
	case 3, 4: // op on an unknown position
		h, name, ng := e.pickSlot()
		pos, live := e.pickPos(name, 0)
		if live {
			e.stepGetter()
			return
		}
		kinds := []string{"addpos", "addposint", "rempos", "remposint", "updpos", "updposint", "setint", "addunclaimed", "claim", "delete", "getpos", "possize", "rewards", "haspos"}
		kind := kinds[g.Intn(len(kinds))]
		e.o.Count("malformed.unknown-position")
		if kind == "claim" || kind == "delete" {
			e.claimOn(h, name, ng, kind, pos)
			return
		}
		op := &acOp{kind: kind, pos: pos}
		switch kind {
		case "addpos", "addposint", "rempos", "remposint":
			op.shares = e.sharesArg()
		case "updpos", "updposint":
			op.shares = e.sharesArg()
			if g.Intn(2) == 0 {
				op.shares.Neg(op.shares)
			}
		}
		if strings.HasSuffix(kind, "int") {
			op.coins = e.interval(name, pos)
		}
		if kind == "addunclaimed" {
			op.coins = e.coins("unclaimed", 20)
		}
		e.handleOp(h, name, ng, op)
	case 5: // remove more than held
		h, name, ng := e.pickSlot()
		pos, live := e.pickPos(name, 100)
		if !live {
			e.stepNewPos()
			return
		}
		s := new(big.Int).Add(e.held(name, pos), e.amt("shares"))
		kinds := []string{"rempos", "remposint", "updpos", "updposint"}
		op := &acOp{kind: kinds[g.Intn(4)], pos: pos, shares: s}
		if strings.HasPrefix(op.kind, "upd") {
			op.shares.Neg(op.shares)
		}
		if strings.HasSuffix(op.kind, "int") {
			op.coins = e.interval(name, pos)
		}
		e.o.Count("malformed.rem-too-many")
		e.handleOp(h, name, ng, op)
	case 6: // negative unclaimed rewards
		e.o.Count("malformed.addunclaimed-negative")
		e.stepAddUnclaimed(true)
	case 7: // accumulator-level error paths
		switch g.Intn(3) {
		case 0:
			e.o.Count("malformed.make-duplicate")
			e.run(&acOp{kind: "make", name: e.accs[g.Intn(len(e.accs))]})
		case 1:
			e.o.Count("malformed.make-badname")
			e.run(&acOp{kind: "make", name: e.badNames[g.Intn(len(e.badNames))]})
		default:
			if n := e.unmadeAcc(); n != "" {
				e.o.Count("malformed.get-unknown")
				e.get(g.Intn(3), n)
			} else {
				e.o.Count("malformed.make-duplicate")
				e.run(&acOp{kind: "make", name: e.accs[g.Intn(len(e.accs))]})
			}
		}
	default: // a late accumulator
		if n := e.unmadeAcc(); n != "" {
			e.o.Count("make.late")
			e.makeAcc(n)
			e.dump()
		} else {
			e.stepGetter()
		}
	}
}

// wildStep: discipline-breaking ops (history is unjudged as a whole).
func (e *acEng) wildStep() {
	g := e.g
	h, name, ng := e.pickSlot()
	switch g.Intn(5) {
	case 0, 1: // overwrite an existing position
		pos, live := e.pickPos(name, 100)
		if !live {
			e.stepNewPos()
			return
		}
		op := &acOp{kind: "newpos", pos: pos, shares: e.sharesArg(), opt: g.Intn(2)}
		if g.Intn(2) == 0 {
			op.kind, op.coins = "newposint", e.interval(name, pos)
		}
		e.o.Count("wild.overwrite")
		e.handleOp(h, name, ng, op)
	case 2: // negative shares in a new position
		pos, _ := e.pickPos(name, 30)
		s := e.sharesArg()
		s.Neg(s)
		op := &acOp{kind: "newpos", pos: pos, shares: s, opt: g.Intn(2)}
		if g.Intn(2) == 0 {
			op.kind, op.coins = "newposint", e.interval(name, pos)
		}
		e.o.Count("wild.negative-shares")
		e.handleOp(h, name, ng, op)
	case 3: // negative growth
		e.o.Count("wild.negative-growth")
		e.handleOp(h, name, ng, &acOp{kind: "grow", coins: e.coins("grow", 60)})
	default: // overflow-size amounts
		save := e.ovf
		e.ovf = true
		e.o.Count("wild.overflow-amount")
		if g.Intn(2) == 0 {
			e.handleOp(h, name, ng, &acOp{kind: "grow", coins: e.coins("grow", 0)})
		} else {
			pos, _ := e.pickPos(name, 50)
			e.handleOp(h, name, ng, &acOp{kind: "newpos", pos: pos, shares: e.sharesArg(), opt: g.Intn(2)})
		}
		e.ovf = save
	}
}

// acProbeKeyCollision: the position key is `accum||pos||<acc>||<pos>` with no escaping.  An accumulator name
// may end in "|" and a position name may start with "|" (only "||" INSIDE an accumulator name is rejected), so
// ("k|", "p") and ("k", "|p") are one store key.  Oracle-only probe on its own store (the model keys records by
// the pair and the histories avoid such names): two positions of two accumulators must be two records.
func acProbeKeyCollision(o *Out) {
	db := dbadapter.Store{DB: dbm.NewMemDB()}
	o.Count("probe.key-collision")
	for _, c := range [][4]string{{"k", "|p", "k|", "p"}, {"k", "p", "k1", "p"}, {"k", "|", "k|", ""}} {
		ok := catch(func() {
			for _, a := range []string{c[0], c[2]} {
				if !db.Has([]byte(acAccPrefix + a)) {
					if err := accum.MakeAccumulator(db, a); err != nil {
						panic(err)
					}
				}
			}
			ha, _ := accum.GetAccumulator(db, c[0])
			hb, _ := accum.GetAccumulator(db, c[2])
			if err := ha.NewPosition(c[1], acDec(pow10(18)), nil); err != nil {
				panic(err)
			}
			if err := hb.NewPosition(c[3], acDec(new(big.Int).Mul(big.NewInt(5), pow10(18))), nil); err != nil {
				panic(err)
			}
			sa, ea := ha.GetPositionSize(c[1])
			sb, eb := hb.GetPositionSize(c[3])
			if ea != nil || eb != nil || acBig(sa).Cmp(pow10(18)) != 0 || acBig(sb).Cmp(new(big.Int).Mul(big.NewInt(5), pow10(18))) != 0 {
				cls := "other-names"
				if strings.HasSuffix(c[2], "|") && strings.HasPrefix(c[1], "|") {
					cls = "accumulator-name-ends-and-position-name-starts-with-separator-char"
				}
				o.Fail("key-collision:"+cls, fmt.Sprintf("NewPosition(acc=%q,pos=%q,1) then NewPosition(acc=%q,pos=%q,5): sizes read back %s / %s (errors %v / %v)",
					c[0], c[1], c[2], c[3], acRawStr(sa), acRawStr(sb), ea, eb))
			}
			// leave the store clean for the next pair
			ha.DeletePosition(c[1])
			hb2, _ := accum.GetAccumulator(db, c[2])
			hb2.DeletePosition(c[3])
		})
		if !ok {
			o.Fail("key-collision:probe-panicked", fmt.Sprint(c))
		}
	}
}

func runAccum(seed int64, n int, dir string) {
	o := NewOut(dir)
	g := &Gen{r: rand.New(rand.NewSource(seed))}
	e := &acEng{g: g, o: o, target: n}
	acProbeKeyCollision(o)
	nHist := 0
	for o.n < n {
		e.history()
		nHist++
	}
	o.Close(map[string]any{"engine": "accum", "seed": seed, "histories": nHist})
}
