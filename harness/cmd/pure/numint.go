package main

// Integer side of property C12 (engine `num`): the whole osmomath.BigInt type (osmomath/int.go, 1024 bits), the
// sdk Int it mirrors (cosmossdk.io/math, 256 bits, aliased osmomath.Int), the BigDec <-> integer operations of
// osmomath/decimal.go (MulInt64, QuoInt64, TruncateInt64, RoundInt64, the NewBigDecFrom...(WithPrec) constructors,
// BigDecFromSDKInt, NewBigDecFromDecMulDec, ToDec) and DivIntByU64ToBigDec (osmomath/rounding_direction.go) with
// every RoundingDirection, the invalid ones included.
//
// Operand classes of the integer types: 0, +-1, 2^k + {-1,0,1} for every k around 63/64/255/256/511/512/1023/1024,
// powers of ten, the int64 / uint64 extremes, random magnitudes, values next to the bound, values of an exact bit
// length; for Mul pairs whose bit lengths sum to bound-1 .. bound+2 (where the cheap pre-check and the exact check
// disagree or meet); for Quo / Mod negative dividends with power-of-two and other divisors, exact and inexact.
//
// Oracle (math/big reference, no code shared with the model): the exact result under the NAMED rule (exact for
// Add/Sub/Mul, toward zero for Quo/QuoInt/QuoInt64, Euclidean for Mod, the direction given for DivIntByU64ToBigDec);
// representable => returned exactly; not representable => the call fails; Raw form = non-Raw form; operands untouched;
// String / Marshal / MarshalTo / Size / JSON / amino round trips; the text decoder accepts exactly Go's base-0 integer
// literals within the bit bound (reference: a regular expression + Horner evaluation).
// Keys: <type>.<op>:<class of the failing input>.

import (
	"encoding/hex"
	"fmt"
	"math/big"
	"regexp"
	"strings"

	sdkmath "cosmossdk.io/math"
	sdk "github.com/cosmos/cosmos-sdk/types"

	"github.com/osmosis-labs/osmosis/osmomath"
)

// ---------------------------------------------------------------- operand classes

var intBoundaryK = []int{63, 64, 255, 256, 511, 512, 1023, 1024}

// withBitLen: a magnitude with exactly l bits (lowest, highest, next to them, random).
func (g *Gen) withBitLen(l int) *big.Int {
	if l <= 0 {
		return new(big.Int)
	}
	lo := pow2(l - 1)
	hi := new(big.Int).Sub(pow2(l), big.NewInt(1))
	switch g.Intn(5) {
	case 0:
		return lo
	case 1:
		return hi
	case 2:
		if l > 2 {
			return lo.Add(lo, big.NewInt(1))
		}
		return lo
	case 3:
		if l > 2 {
			return hi.Sub(hi, big.NewInt(1))
		}
		return hi
	}
	v := g.randBits(l - 1)
	return v.Or(v, lo)
}

// genInt draws an integer with |v| < 2^maxBits from the classes above.
func (g *Gen) genInt(maxBits int, o *Out, tag string) *big.Int {
	var v *big.Int
	c := g.Intn(13)
	switch c {
	case 0:
		v = new(big.Int)
	case 1:
		v = big.NewInt(1)
	case 2:
		v = big.NewInt(int64(g.Intn(1000000)))
	case 3, 4: // 2^k + {-1,0,1}, k next to a bit-length boundary (those of this type: up to its own bound)
		nb := 0
		for nb < len(intBoundaryK) && intBoundaryK[nb] <= maxBits {
			nb++
		}
		k := 1 + g.Intn(maxBits)
		if nb > 0 {
			k = intBoundaryK[g.Intn(nb)] + g.Intn(5) - 2
		}
		v = pow2(k)
		v.Add(v, big.NewInt(int64(g.Intn(3)-1)))
	case 5: // 10^k + {-1,0,1}
		v = pow10(g.Intn(maxBits*3/10 + 1))
		v.Add(v, big.NewInt(int64(g.Intn(3)-1)))
	case 6: // int64 / uint64 extremes
		v = new(big.Int).Set([]*big.Int{pow2(63), new(big.Int).Sub(pow2(63), big.NewInt(1)), new(big.Int).Add(pow2(63), big.NewInt(1)),
			pow2(64), new(big.Int).Sub(pow2(64), big.NewInt(1)), pow2(31), pow2(32), new(big.Int).Sub(pow2(32), big.NewInt(1))}[g.Intn(8)])
	case 7, 8:
		v = g.randBits(1 + g.Intn(maxBits))
	case 9: // next to the bound
		v = new(big.Int).Sub(pow2(maxBits), g.randBits(1+g.Intn(17)))
	case 10: // exact bit length
		v = g.withBitLen(1 + g.Intn(maxBits))
	case 11: // any power of two
		v = pow2(g.Intn(maxBits))
	default: // "realistic" token amounts
		v = g.randBits(1 + g.Intn(130))
	}
	if v.Sign() < 0 {
		v.SetInt64(0)
	}
	if v.BitLen() > maxBits {
		v = new(big.Int).Sub(pow2(maxBits), big.NewInt(1))
		o.Count("int.class." + tag + ".clamped")
	}
	if g.Intn(2) == 0 {
		v.Neg(v)
	}
	o.Count(fmt.Sprintf("int.class.%s.c%d", tag, c))
	return v
}

// genI64: int64 operand classes (powers of two of either sign, their neighbours, powers of ten, extremes, random).
func (g *Gen) genI64(o *Out) int64 {
	c := g.Intn(10)
	var v int64
	switch c {
	case 0:
		v = []int64{0, 1, -1, 1<<63 - 1, -1 << 63, 1<<63 - 2, -1<<63 + 1, 1 << 31, 1 << 32, -1 << 31, -1<<32 - 1}[g.Intn(11)]
		o.Count("class.i64-boundary")
	case 1, 2:
		v = int64(1) << uint(g.Intn(63))
		o.Count("class.i64-pow2")
		if g.Intn(3) == 0 {
			v = -v
		}
	case 3:
		v = int64(1)<<uint(1+g.Intn(62)) + int64(2*g.Intn(2)-1)
		if g.Intn(3) == 0 {
			v = -v
		}
	case 4:
		v = pow10(g.Intn(19)).Int64()
		if g.Intn(3) == 0 {
			v = -v
		}
	case 5:
		v = int64(2 + g.Intn(1000))
		if g.Intn(3) == 0 {
			v = -v
		}
	case 6, 7:
		v = g.r.Int63n(1<<40) - 1<<39
	default:
		v = g.r.Int63() - 1<<62
	}
	o.Count(fmt.Sprintf("class.i64.c%d", c))
	return v
}

// genU64: uint64 operand classes.
func (g *Gen) genU64(o *Out) uint64 {
	c := g.Intn(10)
	var v uint64
	switch c {
	case 0:
		v = 0
	case 1:
		v = 1
	case 2, 3:
		v = uint64(1) << uint(g.Intn(64))
	case 4:
		v = uint64(1)<<uint(1+g.Intn(63)) + uint64(2*g.Intn(2)) - 1
	case 5:
		v = pow10(g.Intn(20)).Uint64()
	case 6:
		v = []uint64{1<<63 - 1, 1 << 63, 1<<63 + 1, 1<<64 - 1, 1<<64 - 2, 1<<32 - 1, 1 << 32}[g.Intn(7)]
	case 7:
		v = uint64(2 + g.Intn(1000))
	default:
		v = g.r.Uint64() >> uint(g.Intn(64))
	}
	o.Count(fmt.Sprintf("class.u64.c%d", c))
	return v
}

func sgn1(x *big.Int) string {
	switch x.Sign() {
	case -1:
		return "neg"
	case 0:
		return "zero"
	}
	return "pos"
}

func isPow2(x *big.Int) bool {
	a := new(big.Int).Abs(x)
	return a.Sign() > 0 && new(big.Int).And(a, new(big.Int).Sub(a, big.NewInt(1))).Sign() == 0
}

// ---------------------------------------------------------------- generic bounded integer type

type intLike[T any] interface {
	Add(T) T
	Sub(T) T
	Mul(T) T
	Quo(T) T
	Mod(T) T
	AddRaw(int64) T
	SubRaw(int64) T
	MulRaw(int64) T
	QuoRaw(int64) T
	ModRaw(int64) T
	Neg() T
	Abs() T
	BigInt() *big.Int
	Int64() int64
	Uint64() uint64
	IsInt64() bool
	IsUint64() bool
	IsZero() bool
	IsNegative() bool
	IsPositive() bool
	Sign() int
	Equal(T) bool
	GT(T) bool
	GTE(T) bool
	LT(T) bool
	LTE(T) bool
	String() string
	Marshal() ([]byte, error)
	MarshalJSON() ([]byte, error)
	MarshalAmino() ([]byte, error)
	MarshalYAML() (interface{}, error)
}

type intEng[T intLike[T]] struct {
	pfx  string // "bi" (osmomath.BigInt) / "si" (sdk Int)
	bits int
	g    *Gen
	o    *Out
	// constructors; mk wraps a COPY of v (v within the bound)
	mk          func(v *big.Int) T
	fromBig     func(v *big.Int) T // the public constructor on a live *big.Int (panics beyond the bound)
	fromI64     func(int64) T
	fromU64     func(uint64) T
	fromStr     func(string) (T, bool)
	withDecimal func(int64, int) T
	min, max    func(T, T) T
	// pointer-receiver codec methods on a fresh zero value
	unmarshal      func([]byte) (T, error)
	unmarshalAmino func([]byte) (T, error)
	unmarshalJSON  func([]byte) (T, error)
	marshalTo      func(T, []byte) (int, error)
	size           func(T) int
	// conversion to the decimal type: raw value of the result
	toDecName string
	toDec     func(T) *big.Int
	decScale  *big.Int
	decBits   int
}

func (e *intEng[T]) fits(v *big.Int) bool { return v.BitLen() <= e.bits }

func (e *intEng[T]) top() *big.Int { return new(big.Int).Sub(pow2(e.bits), big.NewInt(1)) }

// bin: one binary operation on operands within the bound: model line + property oracle.
func (e *intEng[T]) bin(name string, a, b *big.Int) {
	o := e.o
	a0, b0 := new(big.Int).Set(a), new(big.Int).Set(b)
	x, y := e.mk(a0), e.mk(b0)
	var res *big.Int
	call := func(x, y T) T {
		switch name {
		case "add":
			return x.Add(y)
		case "sub":
			return x.Sub(y)
		case "mul":
			return x.Mul(y)
		case "quo":
			return x.Quo(y)
		case "mod":
			return x.Mod(y)
		case "min":
			return e.min(x, y)
		case "max":
			return e.max(x, y)
		}
		panic("intEng.bin: " + name)
	}
	ok := catch(func() { res = call(x, y).BigInt() })
	op := e.pfx + "." + name
	line := fmt.Sprintf("num %s %s %s", op, a0, b0)
	o.Emit(line, obsInt(ok, res), a0.Sign() != 0 && b0.Sign() != 0)
	o.Count("int.op." + op)
	o.Count("int.signs." + sgn1(a0) + "/" + sgn1(b0))
	if x.BigInt().Cmp(a0) != 0 || y.BigInt().Cmp(b0) != 0 {
		o.Fail(op+":operand-mutated", line)
	}
	// ---- reference
	var want *big.Int
	cls := sgn1(a0) + "/" + sgn1(b0)
	switch name {
	case "add":
		want = new(big.Int).Add(a0, b0)
	case "sub":
		want = new(big.Int).Sub(a0, b0)
	case "mul":
		want = new(big.Int).Mul(a0, b0)
		sum := a0.BitLen() + b0.BitLen()
		if d := sum - e.bits; d >= -1 && d <= 2 {
			cls += fmt.Sprintf(":bitlen-sum=bound%+d", d)
			o.Count(fmt.Sprintf("int.%s.mul.bitlen-sum=bound%+d", e.pfx, d))
			if want.BitLen() <= e.bits {
				o.Count(fmt.Sprintf("int.%s.mul.bitlen-sum=bound%+d.representable", e.pfx, d))
			}
		}
	case "quo", "mod":
		if b0.Sign() == 0 {
			if ok {
				o.Fail(op+":div-by-zero-returned", line)
			}
			o.Count("int.div-by-zero")
			return
		}
		q := ratOf(a0, b0)
		if name == "quo" {
			want = ratTrunc(q) // toward zero
		} else { // Euclidean: a - |b|*floor(a/|b|), in [0,|b|)
			ab := new(big.Int).Abs(b0)
			f := ratFloor(ratOf(a0, ab))
			want = new(big.Int).Sub(a0, f.Mul(f, ab))
		}
		if !q.IsInt() {
			cls += "-inexact"
			o.Count("int.quo.inexact")
			if a0.Sign() < 0 {
				o.Count("int.quo.neg-dividend-inexact")
			}
		} else {
			cls += "-exact"
		}
		if isPow2(b0) {
			cls += "-pow2-divisor"
			o.Count("int.quo.divisor-pow2")
		}
	case "min":
		want = new(big.Int).Set(a0)
		if b0.Cmp(a0) < 0 {
			want.Set(b0)
		}
	case "max":
		want = new(big.Int).Set(a0)
		if b0.Cmp(a0) > 0 {
			want.Set(b0)
		}
	}
	representable := e.fits(want)
	switch {
	case representable && !ok:
		o.Fail(op+":representable-result-rejected:"+cls, fmt.Sprintf("%s want %s (%d bits <= %d)", line, want, want.BitLen(), e.bits))
	case !representable && ok:
		o.Fail(op+":overflow-not-rejected:"+cls, fmt.Sprintf("%s got %s (%d bits > %d)", line, res, res.BitLen(), e.bits))
	case representable && ok && res.Cmp(want) != 0:
		o.Fail(op+":wrong-value:"+cls, fmt.Sprintf("%s got %s want %s", line, res, want))
	}
	if !representable {
		o.Count("int.outcome.overflow")
	}
	// ---- Raw form (int64 argument) = non-Raw form
	if b0.IsInt64() && name != "min" && name != "max" {
		var rres *big.Int
		x2 := e.mk(a0)
		rok := catch(func() {
			switch name {
			case "add":
				rres = x2.AddRaw(b0.Int64()).BigInt()
			case "sub":
				rres = x2.SubRaw(b0.Int64()).BigInt()
			case "mul":
				rres = x2.MulRaw(b0.Int64()).BigInt()
			case "quo":
				rres = x2.QuoRaw(b0.Int64()).BigInt()
			case "mod":
				rres = x2.ModRaw(b0.Int64()).BigInt()
			}
		})
		o.Count("int.raw-form")
		if rok != ok || (ok && rres.Cmp(res) != 0) || x2.BigInt().Cmp(a0) != 0 {
			o.Fail(op+"Raw:differs-from-"+name+":"+cls, fmt.Sprintf("%s raw-ok=%v raw=%v", line, rok, rres))
		}
	}
}

// un: unary operations, conversions and predicates of one value within the bound.
func (e *intEng[T]) un(a *big.Int) {
	o := e.o
	a0 := new(big.Int).Set(a)
	x := e.mk(a0)
	emit := func(name string, ok bool, res *big.Int) string {
		line := fmt.Sprintf("num %s.%s %s", e.pfx, name, a0)
		o.Emit(line, obsInt(ok, res), a0.Sign() != 0)
		o.Count("int.op." + e.pfx + "." + name)
		return line
	}
	switch k := e.g.Intn(7); k {
	case 0: // Neg
		var r *big.Int
		ok := catch(func() { r = x.Neg().BigInt() })
		line := emit("neg", ok, r)
		if !ok || r.Cmp(new(big.Int).Neg(a0)) != 0 {
			o.Fail(e.pfx+".neg:wrong-value:"+sgn1(a0), line)
		}
	case 1: // Abs
		var r *big.Int
		ok := catch(func() { r = x.Abs().BigInt() })
		line := emit("abs", ok, r)
		if !ok || r.Cmp(new(big.Int).Abs(a0)) != 0 {
			o.Fail(e.pfx+".abs:wrong-value:"+sgn1(a0), line)
		}
	case 2: // Int64 / IsInt64
		var r int64
		ok := catch(func() { r = x.Int64() })
		line := emit("int64", ok, big.NewInt(r))
		in := a0.Cmp(big.NewInt(-1<<63)) >= 0 && a0.Cmp(big.NewInt(1<<63-1)) <= 0
		if ok != in || x.IsInt64() != in || (ok && big.NewInt(r).Cmp(a0) != 0) {
			o.Fail(fmt.Sprintf("%s.int64:in-range=%v:%s", e.pfx, in, sgn1(a0)), line)
		}
	case 3: // Uint64 / IsUint64
		var r uint64
		ok := catch(func() { r = x.Uint64() })
		line := emit("uint64", ok, new(big.Int).SetUint64(r))
		in := a0.Sign() >= 0 && a0.BitLen() <= 64
		if ok != in || x.IsUint64() != in || (ok && new(big.Int).SetUint64(r).Cmp(a0) != 0) {
			o.Fail(fmt.Sprintf("%s.uint64:in-range=%v:%s", e.pfx, in, sgn1(a0)), line)
		}
	case 4: // conversion to the decimal type: exact, always representable
		var r *big.Int
		ok := catch(func() { r = e.toDec(x) })
		line := emit(e.toDecName, ok, r)
		want := new(big.Int).Mul(a0, e.decScale)
		if !ok || r.Cmp(want) != 0 || r.BitLen() > e.decBits {
			o.Fail(e.pfx+"."+e.toDecName+":wrong-value:"+sgn1(a0), line)
		}
	case 5: // sign predicates (oracle only)
		s := a0.Sign()
		if x.Sign() != s || x.IsZero() != (s == 0) || x.IsNegative() != (s < 0) || x.IsPositive() != (s > 0) {
			o.Fail(e.pfx+".sign:"+sgn1(a0), a0.String())
		}
		o.Count("int.op." + e.pfx + ".sign")
	default: // constructors from native integers
		if a0.IsInt64() {
			if e.fromI64(a0.Int64()).BigInt().Cmp(a0) != 0 {
				o.Fail(e.pfx+".newFromInt64:wrong-value", a0.String())
			}
		}
		if a0.IsUint64() {
			if e.fromU64(a0.Uint64()).BigInt().Cmp(a0) != 0 {
				o.Fail(e.pfx+".newFromUint64:wrong-value", a0.String())
			}
		}
		o.Count("int.op." + e.pfx + ".newNative")
	}
	if x.BigInt().Cmp(a0) != 0 {
		o.Fail(e.pfx+".unary:operand-mutated", a0.String())
	}
}

// cmp: Equal / GT / GTE / LT / LTE are the projections of Cmp.
func (e *intEng[T]) cmp(a, b *big.Int) {
	x, y := e.mk(a), e.mk(b)
	c := a.Cmp(b)
	line := fmt.Sprintf("num %s.cmp %s %s", e.pfx, a, b)
	got := 0
	switch {
	case x.LT(y):
		got = -1
	case x.GT(y):
		got = 1
	}
	e.o.Emit(line, fmt.Sprintf("ok %d", got), true)
	e.o.Count("int.op." + e.pfx + ".cmp")
	if got != c || x.Equal(y) != (c == 0) || x.GTE(y) != (c >= 0) || x.LTE(y) != (c <= 0) || x.GT(y) != (c > 0) || x.LT(y) != (c < 0) {
		e.o.Fail(e.pfx+".cmp:"+sgn1(a)+"/"+sgn1(b), line)
	}
}

// construct: the constructor from *big.Int (bound check, storage) and WithDecimal.
func (e *intEng[T]) construct() {
	g, o := e.g, e.o
	if g.Intn(2) == 0 {
		v := g.genInt(e.bits+40, o, e.pfx+".new")
		p := new(big.Int).Set(v)
		var r *big.Int
		ok := catch(func() { r = e.fromBig(p).BigInt() })
		line := fmt.Sprintf("num %s.new %s", e.pfx, v)
		o.Emit(line, obsInt(ok, r), true)
		o.Count("int.op." + e.pfx + ".new")
		in := e.fits(v)
		switch {
		case in && (!ok || r.Cmp(v) != 0):
			o.Fail(e.pfx+".new:representable-value-rejected", line)
		case !in && ok:
			o.Fail(e.pfx+".new:overflow-not-rejected", line)
		}
		if p.Cmp(v) != 0 {
			o.Fail(e.pfx+".new:argument-mutated", line)
		}
		return
	}
	n := g.genI64(o)
	dec := []int{0, 1, 2, 6, 18, 36, 60, 77, 78, 100, 289, 290, 308, 309, 400, -1, -5}[g.Intn(17)]
	var r *big.Int
	ok := catch(func() { r = e.withDecimal(n, dec).BigInt() })
	line := fmt.Sprintf("num %s.withDecimal %d %d", e.pfx, n, dec)
	o.Emit(line, obsInt(ok, r), n != 0)
	o.Count("int.op." + e.pfx + ".withDecimal")
	if dec < 0 {
		if ok {
			o.Fail(e.pfx+".withDecimal:negative-exponent-accepted", line)
		}
		return
	}
	want := new(big.Int).Mul(big.NewInt(n), pow10(dec))
	switch {
	case e.fits(want) && (!ok || r.Cmp(want) != 0):
		o.Fail(e.pfx+".withDecimal:representable-result-rejected", line)
	case !e.fits(want) && ok:
		o.Fail(e.pfx+".withDecimal:overflow-not-rejected", line)
	}
}

// ---------------------------------------------------------------- text: Go's base-0 integer literals

var base0Re = regexp.MustCompile(`^[+-]?(0[bB]_?[01](_?[01])*|0[oO]_?[0-7](_?[0-7])*|0[xX]_?[0-9a-fA-F](_?[0-9a-fA-F])*|0(_?[0-7])*|[1-9](_?[0-9])*)$`)

// refParseBase0: reference for big.Int.SetString(s, 0): the literal grammar as a regular expression, the value by Horner.
func refParseBase0(s string) (*big.Int, bool) {
	if !base0Re.MatchString(s) {
		return nil, false
	}
	neg := false
	if s[0] == '+' || s[0] == '-' {
		neg = s[0] == '-'
		s = s[1:]
	}
	base := int64(10)
	if len(s) > 1 && s[0] == '0' {
		switch s[1] {
		case 'b', 'B':
			base, s = 2, s[2:]
		case 'o', 'O':
			base, s = 8, s[2:]
		case 'x', 'X':
			base, s = 16, s[2:]
		default:
			base, s = 8, s[1:]
		}
	}
	v := new(big.Int)
	bb := big.NewInt(base)
	for i := 0; i < len(s); i++ {
		c := s[i]
		var d int64
		switch {
		case c == '_':
			continue
		case c >= '0' && c <= '9':
			d = int64(c - '0')
		case c >= 'a' && c <= 'f':
			d = int64(c-'a') + 10
		default:
			d = int64(c-'A') + 10
		}
		v.Mul(v, bb).Add(v, big.NewInt(d))
	}
	if neg {
		v.Neg(v)
	}
	return v, true
}

// genIntText: canonical decimal text of a value around / within / beyond the bound, or a malformed / exotic neighbour.
func (g *Gen) genIntText(bits int, o *Out) (string, string) {
	v := g.genInt(bits+30, o, "text")
	if g.Intn(3) == 0 { // on the bound itself
		v = new(big.Int).Add(pow2(bits), big.NewInt(int64(g.Intn(3)-1)))
		if g.Intn(2) == 0 {
			v.Neg(v)
		}
	}
	s := v.String()
	abs := strings.TrimPrefix(s, "-")
	sign := s[:len(s)-len(abs)]
	switch c := g.Intn(22); c {
	case 0, 1, 2, 3, 4, 5:
		return s, "canonical"
	case 6:
		return "+" + abs, "plus-sign"
	case 7:
		return sign + "0x" + new(big.Int).Abs(v).Text(16), "hex"
	case 8:
		return sign + "0X" + strings.ToUpper(new(big.Int).Abs(v).Text(16)), "hex-upper"
	case 9:
		return sign + "0b" + new(big.Int).Abs(v).Text(2), "binary"
	case 10:
		return sign + "0o" + new(big.Int).Abs(v).Text(8), "octal-0o"
	case 11:
		return sign + "0" + abs, "leading-zero" // octal if all digits < 8, otherwise rejected
	case 12: // underscores between digits
		if len(abs) > 2 {
			i := 1 + g.Intn(len(abs)-1)
			return sign + abs[:i] + "_" + abs[i:], "underscore"
		}
		return sign + abs + "_", "underscore-trailing"
	case 13:
		return sign + "_" + abs, "underscore-leading"
	case 14:
		i := g.Intn(len(abs) + 1)
		return sign + abs[:i] + "__" + abs[i:], "underscore-double"
	case 15:
		i := g.Intn(len(s) + 1)
		bad := []string{" ", "a", ".", "e", "-", "+", "/", ":", "\t", "\n", "x", "\x00", "\xff", ","}[g.Intn(14)]
		return s[:i] + bad + s[i:], "bad-char"
	case 16:
		return []string{"", "-", "+", "0x", "0b", "0o", "_", "0_", "-0", "+0", "00", "0_0", "08", "09", "0b2", "0o8", "0xg", "0x_f", "0_7", "--1", "+-1", "1e3", "0.5", "٣"}[g.Intn(24)], "tiny"
	case 17:
		return s + ".0", "decimal-point"
	case 18:
		return " " + s, "leading-space"
	case 19:
		return s + "\n", "trailing-newline"
	case 20:
		return sign + "0x_" + new(big.Int).Abs(v).Text(16), "hex-underscore"
	default:
		return sign + strings.Repeat("0", 1+g.Intn(3)) + new(big.Int).Abs(v).Text(8), "octal-zeros"
	}
}

// text: the decoders on arbitrary text (model line: hex-encoded bytes) and the encoders' round trips.
func (e *intEng[T]) text() {
	g, o := e.g, e.o
	if g.Intn(3) != 0 {
		s, cls := g.genIntText(e.bits, o)
		o.Count("int.text.class." + cls)
		want, lit := refParseBase0(s)
		accept := lit && e.fits(want)
		judge := func(name string, ok bool, got *big.Int, line string) {
			switch {
			case accept && !ok:
				o.Fail(fmt.Sprintf("%s.%s:literal-within-bound-rejected:%s", e.pfx, name, cls), line)
			case !accept && ok && !lit:
				o.Fail(fmt.Sprintf("%s.%s:malformed-accepted:%s", e.pfx, name, cls), line+" got "+got.String())
			case !accept && ok:
				o.Fail(fmt.Sprintf("%s.%s:beyond-bound-accepted:%s", e.pfx, name, cls), line)
			case accept && got.Cmp(want) != 0:
				o.Fail(fmt.Sprintf("%s.%s:wrong-value:%s", e.pfx, name, cls), line+" got "+got.String())
			}
		}
		hx := hex.EncodeToString([]byte(s))
		// NewBigIntFromString / NewIntFromString
		{
			var r *big.Int
			var ok bool
			if !catch(func() {
				var v T
				if v, ok = e.fromStr(s); ok {
					r = v.BigInt()
				}
			}) {
				o.Fail(e.pfx+".fromStr:panic:"+cls, hx)
			}
			line := strings.TrimRight(fmt.Sprintf("num %s.fromStr %s", e.pfx, hx), " ")
			obs := "err"
			if ok {
				obs = "ok " + r.String()
			}
			o.Emit(line, obs, true)
			o.Count("int.op." + e.pfx + ".fromStr")
			judge("fromStr", ok, r, line)
		}
		// Unmarshal (binary / proto custom type): same text; the empty input is accepted and leaves the value alone
		if s != "" {
			var r *big.Int
			var err error
			if !catch(func() {
				var v T
				if v, err = e.unmarshal([]byte(s)); err == nil {
					r = v.BigInt()
				}
			}) {
				o.Fail(e.pfx+".unmarshal:panic:"+cls, hx)
				return
			}
			line := fmt.Sprintf("num %s.unmarshal %s", e.pfx, hx)
			obs := "err"
			if err == nil {
				obs = "ok " + r.String()
			}
			o.Emit(line, obs, true)
			o.Count("int.op." + e.pfx + ".unmarshal")
			judge("unmarshal", err == nil, r, line)
			// JSON: the same text in quotes (only when the text needs no escaping)
			if !strings.ContainsAny(s, "\"\\") && strings.IndexFunc(s, func(r rune) bool { return r < 0x20 || r > 0x7e }) < 0 {
				var jr *big.Int
				v, jerr := e.unmarshalJSON([]byte(`"` + s + `"`))
				if jerr == nil {
					jr = v.BigInt()
				}
				judge("unmarshalJSON", jerr == nil, jr, line)
				o.Count("int.op." + e.pfx + ".unmarshalJSON")
			}
		} else {
			v, err := e.unmarshal(nil)
			if err != nil || v.BigInt() != nil && v.BigInt().Sign() != 0 {
				o.Fail(e.pfx+".unmarshal:empty-input", "")
			}
		}
		return
	}
	// ---- encoders: every value of the type round-trips through every encoding
	a := g.genInt(e.bits, o, e.pfx+".enc")
	x := e.mk(a)
	s := x.String()
	cls := sgn1(a)
	if a.BitLen() == e.bits {
		cls += "-top-bit-length"
		o.Count("int.enc.top-bit-length")
	}
	line := fmt.Sprintf("num %s.strRoundtrip %s", e.pfx, a)
	back, ok := e.fromStr(s)
	obs := "err"
	if ok {
		obs = "ok " + back.BigInt().String()
	}
	o.Emit(line, obs, true)
	o.Count("int.op." + e.pfx + ".strRoundtrip")
	if s != a.String() {
		o.Fail(e.pfx+".string:not-canonical-decimal:"+cls, line+" "+s)
	}
	if !ok || back.BigInt().Cmp(a) != 0 {
		o.Fail(e.pfx+".strRoundtrip:"+cls, line)
	}
	if e.pfx == "bi" {
		o.Emit(fmt.Sprintf("num bi.toStr %s", a), "ok "+s, true)
		o.Emit(fmt.Sprintf("num bi.size %s", a), fmt.Sprintf("ok %d", e.size(x)), true)
	}
	bz, err := x.Marshal()
	mline := fmt.Sprintf("num %s.marshalRoundtrip %s", e.pfx, a)
	y, uerr := e.unmarshal(bz)
	obs = "err"
	if uerr == nil {
		obs = "ok " + y.BigInt().String()
	}
	o.Emit(mline, obs, true)
	o.Count("int.op." + e.pfx + ".marshalRoundtrip")
	if err != nil || uerr != nil || y.BigInt().Cmp(a) != 0 {
		o.Fail(e.pfx+".marshalRoundtrip:"+cls, mline)
	}
	if string(bz) != s {
		o.Fail(e.pfx+".marshal:differs-from-string:"+cls, mline)
	}
	// MarshalTo into a buffer of Size() bytes, amino, YAML
	buf := make([]byte, e.size(x)+4)
	n, terr := e.marshalTo(x, buf)
	if terr != nil || n != e.size(x) || string(buf[:n]) != string(bz) {
		o.Fail(e.pfx+".marshalTo:differs-from-marshal:"+cls, mline)
	}
	if y2, err := e.unmarshalAmino(buf[:n]); err != nil || y2.BigInt().Cmp(a) != 0 {
		o.Fail(e.pfx+".aminoRoundtrip:"+cls, mline)
	}
	if abz, err := x.MarshalAmino(); err != nil || string(abz) != string(bz) {
		o.Fail(e.pfx+".marshalAmino:differs-from-marshal:"+cls, mline)
	}
	if yv, err := x.MarshalYAML(); err != nil || yv.(string) != s {
		o.Fail(e.pfx+".marshalYAML:differs-from-string:"+cls, mline)
	}
	jz, jerr := x.MarshalJSON()
	z, zerr := e.unmarshalJSON(jz)
	if jerr != nil || zerr != nil || z.BigInt().Cmp(a) != 0 || string(jz) != `"`+s+`"` {
		o.Fail(e.pfx+".jsonRoundtrip:"+cls, mline)
	}
	if x.BigInt().Cmp(a) != 0 {
		o.Fail(e.pfx+".encode:operand-mutated", mline)
	}
}

// ---------------------------------------------------------------- operand pairs

// mulPair: operands whose bit lengths sum to bound-1 .. bound+2.
func (e *intEng[T]) mulPair() (a, b *big.Int) {
	g := e.g
	sum := e.bits + []int{-1, 0, 1, 1, 1, 1, 2, 2}[g.Intn(8)]
	var la int
	switch g.Intn(4) {
	case 0:
		la = []int{1, 2, 3, e.bits, e.bits - 1, e.bits / 2, e.bits/2 + 1, e.bits/2 - 1, 64, 63}[g.Intn(10)]
	default:
		la = 1 + g.Intn(e.bits)
	}
	lb := sum - la
	if lb < 1 {
		la, lb = sum-1, 1
	}
	if lb > e.bits {
		lb = e.bits
		la = sum - lb
	}
	a, b = g.withBitLen(la), g.withBitLen(lb)
	if g.Intn(2) == 0 {
		a, b = b, a
	}
	if g.Intn(2) == 0 {
		a.Neg(a)
	}
	if g.Intn(2) == 0 {
		b.Neg(b)
	}
	return
}

// addPair: sums / differences on and next to +-2^bits.
func (e *intEng[T]) addPair() (a, b *big.Int) {
	g := e.g
	t := new(big.Int).Add(pow2(e.bits), big.NewInt(int64(g.Intn(4)-2))) // target magnitude 2^bits-2 .. 2^bits+1
	a = g.withBitLen(e.bits - g.Intn(3))
	if g.Intn(3) == 0 {
		a = g.randBits(1 + g.Intn(e.bits))
	}
	b = new(big.Int).Sub(t, a) // a + b = t
	if b.BitLen() > e.bits {
		b = e.top()
	}
	if g.Intn(2) == 0 {
		a.Neg(a)
		b.Neg(b)
	}
	return
}

// quoPair: dividend q*m + r with r in {0, 1, m/2-1, m/2, m/2+1, m-1}, divisor a power of two or not, either sign.
func (e *intEng[T]) quoPair() (a, b *big.Int) {
	g := e.g
	var m *big.Int
	switch g.Intn(4) {
	case 0, 1:
		m = pow2(1 + g.Intn(e.bits-2))
	case 2:
		m = g.randBits(2 + g.Intn(e.bits/2))
		m.Add(m, big.NewInt(3))
	default:
		m = big.NewInt(int64(2 + g.Intn(1000)))
	}
	qb := e.bits - m.BitLen() - 1
	if qb < 1 {
		qb = 1
	}
	a = g.tieOperand(m, qb)
	b = m
	if a.BitLen() > e.bits {
		a = e.top()
	}
	if g.Intn(2) == 0 {
		b = new(big.Int).Neg(b)
	}
	return
}

func (e *intEng[T]) one() {
	g, o := e.g, e.o
	switch k := g.Intn(100); {
	case k < 14:
		a, b := e.mulPair()
		e.bin("mul", a, b)
	case k < 22:
		a, b := e.addPair()
		if g.Intn(2) == 0 {
			e.bin("add", a, b)
		} else {
			e.bin("sub", a, new(big.Int).Neg(b))
		}
	case k < 36:
		a, b := e.quoPair()
		e.bin([]string{"quo", "mod"}[g.Intn(2)], a, b)
	case k < 62: // stratified pairs, every operation
		name := []string{"add", "sub", "mul", "quo", "mod", "min", "max"}[g.Intn(7)]
		a, b := g.genInt(e.bits, o, e.pfx+".a"), g.genInt(e.bits, o, e.pfx+".b")
		if name == "mul" && g.Intn(3) != 0 && a.BitLen()+b.BitLen() > e.bits+1 {
			a = g.genInt(e.bits+2-b.BitLen(), o, e.pfx+".a")
		}
		if g.Intn(6) == 0 {
			b = big.NewInt(g.genI64(o))
		}
		e.bin(name, a, b)
	case k < 72:
		e.un(g.genInt(e.bits, o, e.pfx+".u"))
	case k < 76:
		a := g.genInt(e.bits, o, e.pfx+".a")
		b := g.genInt(e.bits, o, e.pfx+".b")
		if g.Intn(4) == 0 {
			b = new(big.Int).Set(a)
		}
		e.cmp(a, b)
	case k < 82:
		e.construct()
	default:
		e.text()
	}
}

func newBigIntEng(g *Gen, o *Out) *intEng[osmomath.BigInt] {
	type T = osmomath.BigInt
	return &intEng[T]{
		pfx: "bi", bits: 1024, g: g, o: o,
		mk:          func(v *big.Int) T { return osmomath.NewBigIntFromBigInt(new(big.Int).Set(v)) },
		fromBig:     osmomath.NewBigIntFromBigInt,
		fromI64:     osmomath.NewBigInt,
		fromU64:     osmomath.NewBigIntFromUint64,
		fromStr:     osmomath.NewBigIntFromString,
		withDecimal: osmomath.NewBigIntWithDecimal,
		min:         osmomath.MinBigInt,
		max:         osmomath.MaxBigInt,
		unmarshal: func(bz []byte) (T, error) {
			v := osmomath.ZeroBigInt()
			err := (&v).Unmarshal(bz)
			return v, err
		},
		unmarshalAmino: func(bz []byte) (T, error) {
			var v T
			err := (&v).UnmarshalAmino(bz)
			return v, err
		},
		unmarshalJSON: func(bz []byte) (T, error) {
			var v T
			err := (&v).UnmarshalJSON(bz)
			return v, err
		},
		marshalTo: func(x T, buf []byte) (int, error) { return (&x).MarshalTo(buf) },
		size:      func(x T) int { return (&x).Size() },
		toDecName: "toDec", toDec: func(x T) *big.Int { return x.ToDec().BigInt() }, decScale: p36, decBits: 1144,
	}
}

func newSdkIntEng(g *Gen, o *Out) *intEng[sdkmath.Int] {
	type T = sdkmath.Int
	return &intEng[T]{
		pfx: "si", bits: 256, g: g, o: o,
		mk:          func(v *big.Int) T { return osmomath.NewIntFromBigInt(v) },
		fromBig:     osmomath.NewIntFromBigInt,
		fromI64:     osmomath.NewInt,
		fromU64:     osmomath.NewIntFromUint64,
		fromStr:     osmomath.NewIntFromString,
		withDecimal: osmomath.NewIntWithDecimal,
		min:         osmomath.MinInt,
		max:         osmomath.MaxInt,
		unmarshal: func(bz []byte) (T, error) {
			v := osmomath.ZeroInt()
			err := (&v).Unmarshal(bz)
			return v, err
		},
		unmarshalAmino: func(bz []byte) (T, error) {
			var v T
			err := (&v).UnmarshalAmino(bz)
			return v, err
		},
		unmarshalJSON: func(bz []byte) (T, error) {
			var v T
			err := (&v).UnmarshalJSON(bz)
			return v, err
		},
		marshalTo: func(x T, buf []byte) (int, error) { return (&x).MarshalTo(buf) },
		size:      func(x T) int { return (&x).Size() },
		toDecName: "toLegacyDec", toDec: func(x T) *big.Int { return x.ToLegacyDec().BigInt() }, decScale: p18, decBits: 316,
	}
}

// ---------------------------------------------------------------- DivIntByU64ToBigDec

var divModeName = map[int]string{1: "roundUp", 2: "roundDown", 3: "roundBankers"}

func divIntByU64Case(g *Gen, o *Out) {
	i := g.genInt(256, o, "div.i")
	u := g.genU64(o)
	if g.Intn(3) == 0 && u > 1 { // dividend q*u + r on / next to the rounding boundaries of the 36th decimal's neighbourhood
		i = g.tieOperand(new(big.Int).SetUint64(u), 180)
		if i.BitLen() > 256 {
			i = g.genInt(256, o, "div.i")
		}
	}
	round := []int{1, 2, 3, 1, 2, 3, 1, 2, 3, 2, 0, 4, -1, 7}[g.Intn(14)]
	divIntByU64One(o, i, u, round)
	if g.Intn(8) == 0 { // DivCoinAmtsByU64ToBigDec = the element-wise map, the first error wins (oracle only)
		k := 1 + g.Intn(3)
		coins := make([]sdk.Coin, k)
		scales := make([]uint64, k)
		for j := range coins {
			amt := new(big.Int).Abs(g.genInt(200, o, "div.coin"))
			coins[j] = sdk.Coin{Denom: fmt.Sprintf("d%d", j), Amount: osmomath.NewIntFromBigInt(amt)}
			scales[j] = g.genU64(o)
		}
		scales[0] = u
		var all []osmomath.BigDec
		var aerr error
		if !catch(func() { all, aerr = osmomath.DivCoinAmtsByU64ToBigDec(coins, scales, osmomath.RoundingDirection(round)) }) {
			o.Fail("divCoinAmtsByU64:panic", fmt.Sprint(coins, scales, round))
			return
		}
		o.Count("int.op.divCoinAmtsByU64")
		for j := range coins {
			one, err := osmomath.DivIntByU64ToBigDec(coins[j].Amount, scales[j], osmomath.RoundingDirection(round))
			if err != nil {
				if aerr == nil {
					o.Fail("divCoinAmtsByU64:element-error-dropped", fmt.Sprint(coins, scales, round))
				}
				return
			}
			if aerr == nil && (len(all) != k || !all[j].Equal(one)) {
				o.Fail("divCoinAmtsByU64:differs-from-elementwise", fmt.Sprint(coins, scales, round))
				return
			}
		}
		if aerr != nil {
			o.Fail("divCoinAmtsByU64:spurious-error", fmt.Sprint(coins, scales, round))
		}
	}
}

func divIntByU64One(o *Out, i *big.Int, u uint64, round int) {
	x := osmomath.NewIntFromBigInt(i)
	var res osmomath.BigDec
	var err error
	panicked := !catch(func() { res, err = osmomath.DivIntByU64ToBigDec(x, u, osmomath.RoundingDirection(round)) })
	line := fmt.Sprintf("num divIntByU64 %s %d %d", i, u, round)
	obs := "panic"
	var got *big.Int
	if !panicked {
		if err != nil {
			obs = "err"
		} else {
			got = res.BigInt()
			obs = "ok " + got.String()
		}
	}
	o.Emit(line, obs, i.Sign() != 0)
	o.Count("int.op.divIntByU64")
	o.Count(fmt.Sprintf("int.div.round=%d", round))
	if x.BigInt().Cmp(i) != 0 {
		o.Fail("divIntByU64:operand-mutated", line)
	}
	mode, valid := divModeName[round]
	if u == 0 || !valid {
		if obs != "err" {
			what := "zero-divisor"
			if u != 0 {
				what = fmt.Sprintf("invalid-mode=%d", round)
			}
			o.Fail("divIntByU64:"+what+"-not-an-error", line+" => "+obs)
		}
		o.Count("int.div.error-case")
		return
	}
	q := ratOf(new(big.Int).Mul(i, p36), new(big.Int).SetUint64(u)) // exact quotient in 10^-36 units
	var want *big.Int
	switch round {
	case 1:
		want = ratCeil(q)
	case 2:
		want = ratTrunc(q) // "RoundDown" is coded as QuoInt64: toward zero
	default:
		want = applyRule(q, "halfeven72")
	}
	key := "divIntByU64:" + mode + ":"
	if u >= 1<<63 {
		key = "divIntByU64:divisor>=2^63:" + mode + ":"
		o.Count("int.div.divisor>=2^63")
	}
	if i.Sign() < 0 {
		key += "neg-operand"
	} else {
		key += "nonneg"
	}
	if q.IsInt() {
		key += "-exact"
	} else {
		key += "-inexact"
		o.Count("int.div.inexact")
		if i.Sign() < 0 {
			o.Count("int.div.neg-dividend-inexact")
		}
	}
	if u&(u-1) == 0 {
		o.Count("int.div.divisor-pow2")
	}
	switch {
	case got == nil:
		o.Fail(key+"-spurious-"+obs, line)
	case got.Cmp(want) != 0:
		o.Fail(key, fmt.Sprintf("%s got %s want(%s) %s", line, got, mode, want))
	}
}

// ---------------------------------------------------------------- BigDec <-> integer conversions

func convCase(g *Gen, o *Out) {
	precs := []int64{0, 0, 0, 1, 6, 18, 35, 36, 37, 40, -1}
	switch k := g.Intn(14); k {
	case 12: // BigDec predicates, comparisons, selection, formatting (oracle only: projections of Cmp / String)
		a, b := g.genRaw(1144, o, "conv.cmp"), g.genRaw(1144, o, "conv.cmp")
		if g.Intn(4) == 0 {
			b = new(big.Int).Set(a)
		}
		x, y := bd(a), bd(b)
		c, sg := a.Cmp(b), a.Sign()
		if x.Equal(y) != (c == 0) || x.GT(y) != (c > 0) || x.GTE(y) != (c >= 0) || x.LT(y) != (c < 0) || x.LTE(y) != (c <= 0) ||
			x.IsZero() != (sg == 0) || x.IsNegative() != (sg < 0) || x.IsPositive() != (sg > 0) || x.IsNil() {
			o.Fail("bd.cmp:"+signClass(a, b), fmt.Sprint(a, b))
		}
		mn, mx := osmomath.MinBigDec(x, y).BigInt(), osmomath.MaxBigDec(x, y).BigInt()
		if (c <= 0 && (mn.Cmp(a) != 0 || mx.Cmp(b) != 0)) || (c > 0 && (mn.Cmp(b) != 0 || mx.Cmp(a) != 0)) {
			o.Fail("bd.minmax:"+signClass(a, b), fmt.Sprint(a, b))
		}
		if !osmomath.DecsEqual([]osmomath.BigDec{x, y}, []osmomath.BigDec{bd(a), bd(b)}) || osmomath.DecsEqual([]osmomath.BigDec{x}, []osmomath.BigDec{x, y}) ||
			osmomath.DecsEqual([]osmomath.BigDec{x, y}, []osmomath.BigDec{x, bd(new(big.Int).Add(b, big.NewInt(1)))}) {
			o.Fail("bd.decsEqual", fmt.Sprint(a, b))
		}
		if yv, err := x.MarshalYAML(); err != nil || yv.(string) != x.String() || fmt.Sprintf("%v", x) != x.String() {
			o.Fail("bd.format:differs-from-string", a.String())
		}
		if x.BigInt().Cmp(a) != 0 || y.BigInt().Cmp(b) != 0 {
			o.Fail("bd.cmp:operand-mutated", fmt.Sprint(a, b))
		}
		o.Count("int.op.bd.cmp")
	case 13: // BigDecFromDec and its Mut / slice / coin-slice forms agree (x10^18, exact)
		a, b := g.genRaw(315, o, "conv.fd"), new(big.Int).Abs(g.genRaw(315, o, "conv.fd"))
		want := new(big.Int).Mul(a, p18)
		x := sd(a)
		if osmomath.BigDecFromDec(x).BigInt().Cmp(want) != 0 || x.BigInt().Cmp(a) != 0 {
			o.Fail("fromDec:wrong-value-or-operand-mutated", a.String())
		}
		sl := osmomath.BigDecFromDecSlice([]osmomath.Dec{x, sd(b)})
		cs := osmomath.BigDecFromDecCoinSlice([]sdk.DecCoin{{Denom: "a", Amount: sd(b)}})
		if len(sl) != 2 || sl[0].BigInt().Cmp(want) != 0 || sl[1].BigInt().Cmp(new(big.Int).Mul(b, p18)) != 0 || x.BigInt().Cmp(a) != 0 ||
			len(cs) != 1 || cs[0].BigInt().Cmp(new(big.Int).Mul(b, p18)) != 0 {
			o.Fail("fromDecSlice:differs-from-fromDec", fmt.Sprint(a, b))
		}
		if osmomath.BigDecFromDecMut(sd(a)).BigInt().Cmp(want) != 0 {
			o.Fail("fromDecMut:mut-differs", a.String())
		}
		o.Count("int.op.fromDecForms")
	case 0, 1, 2: // NewBigDecFromBigInt(WithPrec) and the Mut forms: raw *big.Int of ANY size
		i := g.genInt(1250, o, "conv.big")
		prec := precs[g.Intn(len(precs))]
		p := new(big.Int).Set(i)
		var r osmomath.BigDec
		ok := catch(func() { r = osmomath.NewBigDecFromBigIntWithPrec(p, prec) })
		var rv *big.Int
		if ok {
			rv = r.BigInt()
		}
		line := fmt.Sprintf("num newFromBigIntWithPrec %s %d", i, prec)
		o.Emit(line, obsInt(ok, rv), i.Sign() != 0)
		o.Count("int.op.newFromBigIntWithPrec")
		if p.Cmp(i) != 0 {
			o.Fail("newFromBigIntWithPrec:argument-mutated", line)
		}
		if prec < 0 || prec > 36 {
			if ok {
				o.Fail("newFromBigIntWithPrec:bad-precision-accepted", line)
			}
			return
		}
		want := new(big.Int).Mul(i, pow10(int(36-prec)))
		cls := "value-within-1024-bits"
		if i.BitLen() > 1024 {
			cls = "value-beyond-1024-bits"
		}
		switch {
		case want.BitLen() <= 1144 && (!ok || rv.Cmp(want) != 0):
			o.Fail("newFromBigIntWithPrec:wrong-value:"+cls, line)
		case want.BitLen() > 1144 && ok:
			o.Fail("newFromBigIntWithPrec:overflow-not-rejected:"+cls, fmt.Sprintf("%s returned a BigDec of %d bits (bound 1144)", line, rv.BitLen()))
			o.Count("int.conv.result-beyond-1144-bits")
		}
		if ok { // the result is a fresh object: a later change of the argument does not show
			p.Add(p, big.NewInt(7))
			if r.BigInt().Cmp(rv) != 0 {
				o.Fail("alias:result-shares-storage-with-argument:newFromBigIntWithPrec", line)
			}
		}
		// prec 0 form and the ...Mut forms give the same value (the Mut forms reuse the argument by contract)
		if prec == 0 && ok && osmomath.NewBigDecFromBigInt(new(big.Int).Set(i)).BigInt().Cmp(rv) != 0 {
			o.Fail("newFromBigInt:differs-from-WithPrec", line)
		}
		var mv *big.Int
		mok := catch(func() { mv = osmomath.NewBigDecFromBigIntMutWithPrec(new(big.Int).Set(i), prec).BigInt() })
		if mok != ok || (ok && mv.Cmp(rv) != 0) {
			o.Fail("newFromBigIntMutWithPrec:mut-differs", line)
		}
	case 3, 4: // NewBigDecFromInt(WithPrec), ToDec: a BigInt (<= 1024 bits): always representable
		i := g.genInt(1024, o, "conv.int")
		prec := precs[g.Intn(len(precs))]
		x := osmomath.NewBigIntFromBigInt(new(big.Int).Set(i))
		var rv *big.Int
		ok := catch(func() { rv = osmomath.NewBigDecFromIntWithPrec(x, prec).BigInt() })
		line := fmt.Sprintf("num newFromIntWithPrec %s %d", i, prec)
		o.Emit(line, obsInt(ok, rv), i.Sign() != 0)
		o.Count("int.op.newFromIntWithPrec")
		if x.BigInt().Cmp(i) != 0 {
			o.Fail("newFromIntWithPrec:operand-mutated", line)
		}
		if prec < 0 || prec > 36 {
			if ok {
				o.Fail("newFromIntWithPrec:bad-precision-accepted", line)
			}
			return
		}
		want := new(big.Int).Mul(i, pow10(int(36-prec)))
		if !ok || rv.Cmp(want) != 0 || rv.BitLen() > 1144 {
			o.Fail("newFromIntWithPrec:wrong-value:"+sgn1(i), line)
		}
		if prec == 0 && (osmomath.NewBigDecFromInt(x).BigInt().Cmp(want) != 0 || x.ToDec().BigInt().Cmp(want) != 0) {
			o.Fail("newFromInt:differs-from-WithPrec", line)
		}
	case 5: // NewBigDec(int64) / NewBigDecWithPrec(int64, prec)
		n := g.genI64(o)
		prec := precs[g.Intn(len(precs))]
		var rv *big.Int
		ok := catch(func() { rv = osmomath.NewBigDecWithPrec(n, prec).BigInt() })
		line := fmt.Sprintf("num newWithPrec %d %d", n, prec)
		o.Emit(line, obsInt(ok, rv), n != 0)
		o.Count("int.op.newWithPrec")
		if prec < 0 || prec > 36 {
			if ok {
				o.Fail("newWithPrec:bad-precision-accepted", line)
			}
			return
		}
		want := new(big.Int).Mul(big.NewInt(n), pow10(int(36-prec)))
		if !ok || rv.Cmp(want) != 0 {
			o.Fail("newWithPrec:wrong-value", line)
		}
		if prec == 0 && osmomath.NewBigDec(n).BigInt().Cmp(want) != 0 {
			o.Fail("newBigDec:differs-from-WithPrec", line)
		}
	case 6: // BigDecFromSDKInt
		i := g.genInt(256, o, "conv.sdk")
		x := osmomath.NewIntFromBigInt(i)
		r := osmomath.BigDecFromSDKInt(x)
		rv := r.BigInt()
		line := fmt.Sprintf("num fromSDKInt %s", i)
		o.Emit(line, obsInt(true, rv), i.Sign() != 0)
		o.Count("int.op.fromSDKInt")
		if rv.Cmp(new(big.Int).Mul(i, p36)) != 0 {
			o.Fail("fromSDKInt:wrong-value:"+sgn1(i), line)
		}
		x.BigIntMut().Add(x.BigIntMut(), big.NewInt(3))
		if r.BigInt().Cmp(rv) != 0 {
			o.Fail("alias:result-shares-storage-with-argument:fromSDKInt", line)
		}
	case 7: // NewBigDecFromDecMulDec
		a, b := g.genRaw(315, o, "conv.da"), g.genRaw(315, o, "conv.db")
		x, y := sd(a), sd(b)
		rv := osmomath.NewBigDecFromDecMulDec(x, y).BigInt()
		line := fmt.Sprintf("num fromDecMulDec %s %s", a, b)
		o.Emit(line, obsInt(true, rv), a.Sign() != 0 && b.Sign() != 0)
		o.Count("int.op.fromDecMulDec")
		if rv.Cmp(new(big.Int).Mul(a, b)) != 0 {
			o.Fail("fromDecMulDec:wrong-value:"+signClass(a, b), line)
		}
		if x.BigInt().Cmp(a) != 0 || y.BigInt().Cmp(b) != 0 {
			o.Fail("fromDecMulDec:operand-mutated", line)
		}
	case 8, 9: // TruncateInt64 / RoundInt64: integer part next to the int64 bounds, fractions on / next to ties
		var a *big.Int
		if g.Intn(3) == 0 {
			a = g.genRaw(300, o, "conv.i64")
		} else {
			ip := big.NewInt(g.genI64(o))
			if g.Intn(3) == 0 {
				ip = new(big.Int).Add(big.NewInt([]int64{1<<63 - 1, -1 << 63}[g.Intn(2)]), big.NewInt(int64(g.Intn(5)-2)))
			}
			half := new(big.Int).Quo(p36, big.NewInt(2))
			fr := []*big.Int{new(big.Int), big.NewInt(1), new(big.Int).Sub(half, big.NewInt(1)), half, new(big.Int).Add(half, big.NewInt(1)), new(big.Int).Sub(p36, big.NewInt(1))}[g.Intn(6)]
			a = new(big.Int).Mul(ip, p36)
			if g.Intn(2) == 0 {
				a.Add(a, fr)
			} else {
				a.Sub(a, fr)
			}
		}
		name, rule := "truncateInt64", "trunc"
		if k == 9 {
			name, rule = "roundInt64", "halfeven"
		}
		x := bd(a)
		var r int64
		ok := catch(func() {
			if k == 8 {
				r = x.TruncateInt64()
			} else {
				r = x.RoundInt64()
			}
		})
		line := fmt.Sprintf("num %s %s", name, a)
		o.Emit(line, obsInt(ok, big.NewInt(r)), a.Sign() != 0)
		o.Count("int.op." + name)
		want := applyRule(ratOf(a, p36), rule)
		cls := sgn1(a)
		if new(big.Int).Rem(a, p36).Sign() != 0 {
			cls += "-inexact"
		}
		switch {
		case want.IsInt64() && (!ok || big.NewInt(r).Cmp(want) != 0):
			o.Fail(name+":"+cls, fmt.Sprintf("%s got %d ok=%v want(%s) %s", line, r, ok, rule, want))
		case !want.IsInt64() && ok:
			o.Fail(name+":out-of-int64-not-rejected:"+cls, line)
			o.Count("int.conv.out-of-int64")
		}
		if x.BigInt().Cmp(a) != 0 {
			o.Fail(name+":operand-mutated", line)
		}
	case 10: // IsInteger
		a := g.genRaw(600, o, "conv.isint")
		if g.Intn(2) == 0 {
			a = new(big.Int).Mul(g.genInt(400, o, "conv.isint"), p36)
		}
		got := bd(a).IsInteger()
		line := fmt.Sprintf("num isInteger %s", a)
		obs := "ok 0"
		if got {
			obs = "ok 1"
		}
		o.Emit(line, obs, true)
		o.Count("int.op.isInteger")
		if got != (new(big.Int).Rem(a, p36).Sign() == 0) {
			o.Fail("isInteger:"+sgn1(a), line)
		}
	default: // BigDec.Unmarshal on arbitrary text (base-0 literal of the RAW integer, bound 1024 bits)
		s, cls := g.genIntText(1024, o)
		if s == "" {
			return
		}
		want, lit := refParseBase0(s)
		accept := lit && want.BitLen() <= 1024
		y := osmomath.ZeroBigDec()
		err := (&y).Unmarshal([]byte(s))
		line := fmt.Sprintf("num bd.unmarshal %s", hex.EncodeToString([]byte(s)))
		obs := "err"
		if err == nil {
			obs = "ok " + y.BigInt().String()
		}
		o.Emit(line, obs, true)
		o.Count("int.op.bd.unmarshal")
		switch {
		case accept && err != nil:
			o.Fail("bd.unmarshal:literal-within-bound-rejected:"+cls, line)
		case !accept && err == nil && !lit:
			o.Fail("bd.unmarshal:malformed-accepted:"+cls, line)
		case !accept && err == nil:
			o.Fail("bd.unmarshal:beyond-bound-accepted:"+cls, line)
		case accept && y.BigInt().Cmp(want) != 0:
			o.Fail("bd.unmarshal:wrong-value:"+cls, line)
		}
	}
}

// ---------------------------------------------------------------- LegacyDec <-> integer (cosmossdk.io/math)

func decIntCase(g *Gen, o *Out) {
	switch k := g.Intn(6); k {
	case 0, 1: // MulInt64 / QuoInt64 (+ Mut forms)
		a := g.genRaw(315, o, "dconv.a")
		if !decInRange(a) {
			return
		}
		n := g.genI64(o)
		name := []string{"d.mulInt64", "d.quoInt64"}[k]
		x := sd(a)
		var rv, mv *big.Int
		ok := catch(func() {
			if k == 0 {
				rv = x.MulInt64(n).BigInt()
			} else {
				rv = x.QuoInt64(n).BigInt()
			}
		})
		line := fmt.Sprintf("num %s %s %d", name, a, n)
		o.Emit(line, obsInt(ok, rv), a.Sign() != 0 && n != 0)
		o.Count("int.op." + name)
		if x.BigInt().Cmp(a) != 0 {
			o.Fail(name+":operand-mutated", line)
		}
		mok := catch(func() {
			if k == 0 {
				mv = sd(a).MulInt64Mut(n).BigInt()
			} else {
				mv = sd(a).QuoInt64Mut(n).BigInt()
			}
		})
		if mok != ok || (ok && mv.Cmp(rv) != 0) {
			o.Fail(name+":mut-differs", line)
		}
		if k == 1 && n == 0 {
			if ok {
				o.Fail(name+":div-by-zero-returned", line)
			}
			return
		}
		var want *big.Int
		cls := signClass(a, big.NewInt(n))
		if k == 0 {
			want = new(big.Int).Mul(a, big.NewInt(n))
		} else {
			q := ratOf(a, big.NewInt(n))
			want = ratTrunc(q)
			if !q.IsInt() {
				cls += "-inexact"
			}
		}
		switch {
		case decInRange(want) && (!ok || rv.Cmp(want) != 0):
			o.Fail(name+":"+cls, fmt.Sprintf("%s got %v want %s", line, rv, want))
		case !decInRange(want) && ok:
			o.Fail(name+":overflow-not-rejected:"+cls, line)
		}
	case 2, 3: // TruncateInt64 / RoundInt64
		ip := big.NewInt(g.genI64(o))
		if g.Intn(3) == 0 {
			ip = new(big.Int).Add(big.NewInt([]int64{1<<63 - 1, -1 << 63}[g.Intn(2)]), big.NewInt(int64(g.Intn(5)-2)))
		}
		half := new(big.Int).Quo(p18, big.NewInt(2))
		fr := []*big.Int{new(big.Int), big.NewInt(1), new(big.Int).Sub(half, big.NewInt(1)), half, new(big.Int).Add(half, big.NewInt(1)), new(big.Int).Sub(p18, big.NewInt(1))}[g.Intn(6)]
		a := new(big.Int).Mul(ip, p18)
		if g.Intn(2) == 0 {
			a.Add(a, fr)
		} else {
			a.Sub(a, fr)
		}
		name, rule := "d.truncateInt64", "trunc"
		if k == 3 {
			name, rule = "d.roundInt64", "halfeven"
		}
		x := sd(a)
		var r int64
		ok := catch(func() {
			if k == 2 {
				r = x.TruncateInt64()
			} else {
				r = x.RoundInt64()
			}
		})
		line := fmt.Sprintf("num %s %s", name, a)
		o.Emit(line, obsInt(ok, big.NewInt(r)), a.Sign() != 0)
		o.Count("int.op." + name)
		want := applyRule(ratOf(a, p18), rule)
		switch {
		case want.IsInt64() && (!ok || big.NewInt(r).Cmp(want) != 0):
			o.Fail(name+":"+sgn1(a), fmt.Sprintf("%s got %d ok=%v want(%s) %s", line, r, ok, rule, want))
		case !want.IsInt64() && ok:
			o.Fail(name+":out-of-int64-not-rejected:"+sgn1(a), line)
		}
	default: // NewDecWithPrec / NewDecFromIntWithPrec / NewDecFromBigIntWithPrec
		precs := []int64{0, 0, 1, 6, 17, 18, 19, -1}
		prec := precs[g.Intn(len(precs))]
		i := g.genInt(256, o, "dconv.i")
		name := "d.newFromIntWithPrec"
		var rv *big.Int
		var ok bool
		switch g.Intn(3) {
		case 0:
			ok = catch(func() { rv = osmomath.NewDecFromIntWithPrec(osmomath.NewIntFromBigInt(i), prec).BigInt() })
			if prec == 0 && ok && osmomath.NewDecFromInt(osmomath.NewIntFromBigInt(i)).BigInt().Cmp(rv) != 0 {
				o.Fail("d.newFromInt:differs-from-WithPrec", i.String())
			}
		case 1:
			name = "d.newFromBigIntWithPrec"
			p := new(big.Int).Set(i)
			ok = catch(func() { rv = osmomath.NewDecFromBigIntWithPrec(p, prec).BigInt() })
			if p.Cmp(i) != 0 {
				o.Fail(name+":argument-mutated", i.String())
			}
			if prec == 0 && ok && osmomath.NewDecFromBigInt(i).BigInt().Cmp(rv) != 0 {
				o.Fail("d.newFromBigInt:differs-from-WithPrec", i.String())
			}
		default:
			name = "d.newWithPrec"
			i = big.NewInt(g.genI64(o))
			ok = catch(func() { rv = osmomath.NewDecWithPrec(i.Int64(), prec).BigInt() })
			if prec == 0 && ok && osmomath.NewDec(i.Int64()).BigInt().Cmp(rv) != 0 {
				o.Fail("d.newDec:differs-from-WithPrec", i.String())
			}
		}
		line := fmt.Sprintf("num %s %s %d", name, i, prec)
		o.Emit(line, obsInt(ok, rv), i.Sign() != 0)
		o.Count("int.op." + name)
		if prec < 0 || prec > 18 {
			if ok {
				o.Fail(name+":bad-precision-accepted", line)
			}
			return
		}
		if want := new(big.Int).Mul(i, pow10(int(18-prec))); !ok || rv.Cmp(want) != 0 {
			o.Fail(name+":wrong-value:"+sgn1(i), line)
		}
	}
}

// ---------------------------------------------------------------- driver of the integer part

type numIntEng struct {
	bi *intEng[osmomath.BigInt]
	si *intEng[sdkmath.Int]
}

func newNumIntEng(g *Gen, o *Out) *numIntEng {
	return &numIntEng{bi: newBigIntEng(g, o), si: newSdkIntEng(g, o)}
}

// value: the value oracle + model line of one integer-type method on given operands (used by the alias sweep).
func (e *numIntEng) value(name string, a, b *big.Int) bool {
	pfx, op, found := strings.Cut(name, ".")
	if !found {
		return false
	}
	op = strings.TrimSuffix(op, "Raw")
	switch op {
	case "add", "sub", "mul", "quo", "mod", "min", "max":
	default:
		return false
	}
	switch pfx {
	case "bi":
		e.bi.bin(op, a, b)
	case "si":
		e.si.bin(op, a, b)
	default:
		return false
	}
	return true
}

// sweep: the directed boundary cases every shard runs once (bit-length sums, the bound itself, the demo values).
func (e *numIntEng) sweep(o *Out) {
	for _, bits := range []int{1024, 256} {
		bin := e.bi.bin
		if bits == 256 {
			bin = e.si.bin
		}
		one := big.NewInt(1)
		lo := func(l int) *big.Int { return pow2(l - 1) }
		hi := func(l int) *big.Int { return new(big.Int).Sub(pow2(l), one) }
		for _, m := range []int{1, 2, 3, 63, 64, bits/4 - 1, bits / 4, bits/2 - 1, bits / 2, bits/2 + 1, bits - 2, bits - 1, bits} {
			for sum := bits - 1; sum <= bits+2; sum++ {
				n := sum - m
				if n < 1 || n > bits {
					continue
				}
				for _, x := range []*big.Int{lo(m), hi(m)} {
					for _, y := range []*big.Int{lo(n), hi(n)} {
						for s := 0; s < 4; s++ {
							a, b := new(big.Int).Set(x), new(big.Int).Set(y)
							if s&1 != 0 {
								a.Neg(a)
							}
							if s&2 != 0 {
								b.Neg(b)
							}
							bin("mul", a, b)
						}
					}
				}
			}
		}
		top := hi(bits)
		for _, d := range []int64{-2, -1, 0, 1, 2} {
			b := big.NewInt(d)
			bin("add", top, b)
			bin("sub", top, b)
			bin("add", new(big.Int).Neg(top), b)
			bin("sub", new(big.Int).Neg(top), b)
			bin("mul", top, b)
			bin("quo", top, b)
			bin("mod", new(big.Int).Neg(top), b)
		}
	}
	for _, u := range []uint64{1, 2, 3, 1 << 36, 1 << 37, 1<<37 + 1, 1 << 62, 1<<63 - 1} {
		for _, i := range []int64{0, 1, -1, 3, -3, 1000001, -1000001} {
			for _, r := range []int{0, 1, 2, 3, 4} {
				divIntByU64One(o, big.NewInt(i), u, r)
			}
		}
	}
	o.Count("int.sweeps")
}

func runNumInt(g *Gen, o *Out, e *numIntEng, n int) {
	e.sweep(o)
	for i := 0; i < n; i++ {
		switch k := g.Intn(100); {
		case k < 46:
			e.bi.one()
		case k < 62:
			e.si.one()
		case k < 80:
			divIntByU64Case(g, o)
		case k < 94:
			convCase(g, o)
		default:
			decIntCase(g, o)
		}
	}
}
