package main

// Engine `sumtree`: drives the REAL osmoutils/sumtree B+-tree on an in-memory
// KVStore with generated histories, writes the op stream for the Lean model
// (ops.txt / impl.txt) and evaluates the sum-tree properties itself against an
// independent reference (plain Go map + sort + big.Int) that shares nothing
// with the tree.
//
// Key tokens on op lines: lowercase hex; `-` = empty NON-NIL slice; `*` = NIL
// slice.  In observations the empty key is always `-`.
//
// Oracle conventions (documented decisions):
//   * SubsetAccumulation(lo,hi) with both bounds non-nil is specified as
//       (Σ_{j>=lo} ref[j]) − (Σ_{j>hi} ref[j])
//     so lo>hi yields −Σ_{hi<j<lo} (possibly negative, possibly 0), exactly the
//     mathematical reading of the Go doc comment without a precondition lo<=hi.
//   * A nil bound means "unbounded" (Go doc): (nil,hi)=Σ_{j<=hi}, (lo,nil)=Σ_{j>=lo}.
//     The oracle therefore always passes the empty KEY as []byte{} in subset
//     bounds, and nil only in the role "unbounded".
//   * Get/SplitAcc/PrefixSum for the empty key are checked with BOTH nil and
//     []byte{}; a difference between the two is counted (nilvsempty.*).

import (
	"encoding/binary"
	"encoding/hex"
	"fmt"
	"math/big"
	"math/rand"
	"os"
	"runtime"
	"runtime/pprof"
	"sort"
	"strings"
	"time"

	"cosmossdk.io/store/dbadapter"
	dbm "github.com/cosmos/cosmos-db"
	"github.com/cosmos/gogoproto/proto"

	"github.com/osmosis-labs/osmosis/osmomath"
	"github.com/osmosis-labs/osmosis/osmoutils/sumtree"
)

// ---------- key tokens ----------

// stTok renders an INPUT key: nil -> "*", empty non-nil -> "-", else hex.
func stTok(b []byte) string {
	if b == nil {
		return "*"
	}
	if len(b) == 0 {
		return "-"
	}
	return hex.EncodeToString(b)
}

// stOutKey renders an OUTPUT key: empty -> "-", else hex.
func stOutKey(b []byte) string {
	if len(b) == 0 {
		return "-"
	}
	return hex.EncodeToString(b)
}

// ---------- decoded raw store ----------

type stLeaf struct {
	key []byte
	idx []byte // Leaf.Leaf.Index as stored in the value
	acc *big.Int
}

type stChild struct {
	key []byte
	acc *big.Int
}

type stNode struct {
	key      []byte
	children []stChild
}

type stLevel struct {
	level  int
	leaves []stLeaf // level 0
	nodes  []stNode // level >= 1
}

// stReadStore decodes the whole raw KVStore (ascending store order).  bad != ""
// when an entry could not be decoded.
func stReadStore(st dbadapter.Store) (levels []stLevel, bad string) {
	it := st.Iterator(nil, nil)
	defer it.Close()
	for ; it.Valid(); it.Next() {
		k := it.Key()
		if len(k) < 7 || string(k[:5]) != "node/" {
			bad = "foreign-key " + hex.EncodeToString(k)
			continue
		}
		lv := int(binary.BigEndian.Uint16(k[5:7]))
		key := append([]byte{}, k[7:]...)
		if len(levels) == 0 || levels[len(levels)-1].level != lv {
			levels = append(levels, stLevel{level: lv})
		}
		cur := &levels[len(levels)-1]
		if lv == 0 {
			var leaf sumtree.Leaf
			if err := proto.Unmarshal(it.Value(), &leaf); err != nil || leaf.Leaf == nil || leaf.Leaf.Accumulation.IsNil() {
				bad = "undecodable-leaf " + hex.EncodeToString(k)
				continue
			}
			cur.leaves = append(cur.leaves, stLeaf{key: key, idx: leaf.Leaf.Index, acc: leaf.Leaf.Accumulation.BigInt()})
		} else {
			var node sumtree.Node
			if err := proto.Unmarshal(it.Value(), &node); err != nil {
				bad = "undecodable-node " + hex.EncodeToString(k)
				continue
			}
			n := stNode{key: key}
			for _, c := range node.Children {
				if c == nil || c.Accumulation.IsNil() {
					bad = "undecodable-child " + hex.EncodeToString(k)
					continue
				}
				n.children = append(n.children, stChild{key: c.Index, acc: c.Accumulation.BigInt()})
			}
			cur.nodes = append(cur.nodes, n)
		}
	}
	return
}

func stDumpString(levels []stLevel) string {
	if len(levels) == 0 {
		return "ok"
	}
	var sb strings.Builder
	sb.WriteString("ok ")
	for i, lv := range levels {
		if i > 0 {
			sb.WriteByte('|')
		}
		fmt.Fprintf(&sb, "L%d:", lv.level)
		if lv.level == 0 {
			for j, l := range lv.leaves {
				if j > 0 {
					sb.WriteByte(',')
				}
				sb.WriteString(stOutKey(l.key))
				sb.WriteByte('=')
				sb.WriteString(l.acc.String())
			}
			continue
		}
		for j, n := range lv.nodes {
			if j > 0 {
				sb.WriteByte(';')
			}
			sb.WriteString(stOutKey(n.key))
			sb.WriteByte('[')
			for c, ch := range n.children {
				if c > 0 {
					sb.WriteByte(',')
				}
				sb.WriteString(stOutKey(ch.key))
				sb.WriteByte('=')
				sb.WriteString(ch.acc.String())
			}
			sb.WriteByte(']')
		}
	}
	return sb.String()
}

// ---------- reference ----------

type stRef struct {
	m map[string]*big.Int
}

func (r *stRef) sorted() []string {
	ks := make([]string, 0, len(r.m))
	for k := range r.m {
		ks = append(ks, k)
	}
	sort.Strings(ks) // bytewise
	return ks
}

func (r *stRef) val(k string) *big.Int {
	if v, ok := r.m[k]; ok {
		return v
	}
	return big.NewInt(0)
}

// split returns Σ_{j<k}, ref[k] or 0, Σ_{j>k}: recomputed from scratch.
func (r *stRef) split(k string) (l, e, g *big.Int) {
	l, e, g = new(big.Int), new(big.Int), new(big.Int)
	for j, v := range r.m {
		switch {
		case j < k:
			l.Add(l, v)
		case j == k:
			e.Add(e, v)
		default:
			g.Add(g, v)
		}
	}
	return
}

func (r *stRef) total() *big.Int {
	t := new(big.Int)
	for _, v := range r.m {
		t.Add(t, v)
	}
	return t
}

// ---------- one history ----------

type stHist struct {
	o                *Out
	g                *Gen
	seed             int64
	idx              int
	m                int
	kind             string
	alpha            int
	clos             []string // alphabet closure, sorted bytewise ("" first)
	vbits            int      // per-history magnitude class of leaf values (0 = ordinary)
	st               dbadapter.Store
	tree             sumtree.Tree
	ref              stRef
	toks             []string // op tokens of the history so far (without the engine word)
	nmut             int
	remEx            bool // a remove of an EXISTING key was executed
	remEmp           bool // a remove of the (present) empty key was executed
	height           int
	failed           map[string]bool // per mutating step
	prevN            map[int]int     // node count per level before the step
	nodeLost, merged bool            // statistics: some node was emptied / merged so far
}

func (h *stHist) cls() string {
	switch {
	case !h.remEx:
		return "insert-only"
	case h.remEmp:
		return "after-remove-empty-key"
	case h.m <= 2:
		return "after-remove:m<=2"
	default:
		return "after-remove:m>=3"
	}
}

func (h *stHist) fail(key, q, got, want string) {
	if h.failed[key] {
		return
	}
	h.failed[key] = true
	// statistic for refining the classes: failures other than the two cheap families
	// (total = value at empty key; absent-key panics) split by tree events so far
	if !strings.HasPrefix(key, "total:nonempty-tree") && !strings.Contains(key, "-panic:absent-key") {
		switch {
		case h.remEmp:
			h.o.Count("fail.other.after-remove-empty-key")
		case h.merged:
			h.o.Count("fail.other.after-merge")
		case h.nodeLost:
			h.o.Count("fail.other.after-node-emptied(no-merge)")
		default:
			h.o.Count("fail.other.before-any-node-emptied")
		}
	}
	d := fmt.Sprintf("m=%d seed=%d hist=%d kind=%s nops=%d q=[%s] got=%s want=%s", h.m, h.seed, h.idx, h.kind, h.nmut, q, got, want)
	if h.nmut <= 40 {
		d += " history=" + strings.Join(h.toks, ";")
	}
	if len(d) > 1490 {
		d = d[:1490] + "..."
	}
	h.o.Fail(key, d)
}

func stPA(present bool) string {
	if present {
		return "present"
	}
	return "absent"
}

// randKey draws a key from the closure (plus 2% explicit empty key); the empty
// key is passed as nil or []byte{} 50/50.
func (h *stHist) randKey() []byte {
	var s string
	if h.g.Intn(50) == 0 {
		s = ""
	} else {
		s = h.clos[h.g.Intn(len(h.clos))]
	}
	return h.keyBytes(s)
}

func (h *stHist) keyBytes(s string) []byte {
	if s == "" {
		if h.g.Intn(2) == 0 {
			h.o.Count("key.empty.nil")
			return nil
		}
		h.o.Count("key.empty.nonnil")
		return []byte{}
	}
	return []byte(s)
}

func (h *stHist) randVal(forSet bool) *big.Int {
	c := h.g.Intn(100)
	var v *big.Int
	switch {
	case c < 80:
		v = big.NewInt(int64(h.g.Intn(21)))
	case c < 88:
		v = big.NewInt(int64(h.g.Intn(1000000)))
	case c < 95:
		v = h.g.randBits(1 + h.g.Intn(70))
		h.o.Count("value.big")
	default:
		v = big.NewInt(0)
	}
	if h.vbits > 0 && h.g.Intn(3) == 0 { // magnitude class of the history: around 2^vbits
		if h.g.Intn(2) == 0 {
			v = new(big.Int).Add(pow2(h.vbits), big.NewInt(int64(h.g.Intn(3)-1)))
		} else {
			v = h.g.randBits(h.vbits + 1)
		}
		h.o.Count("value.huge")
	}
	if forSet && h.g.Intn(10) == 0 {
		v.Neg(v)
	}
	switch v.Sign() {
	case 0:
		h.o.Count("value.zero")
	case -1:
		h.o.Count("value.neg")
	}
	return v
}

func (h *stHist) reset() {
	h.st = dbadapter.Store{DB: dbm.NewMemDB()}
	ok := catch(func() { h.tree = sumtree.NewTree(h.st, uint8(h.m)) })
	h.ref = stRef{m: map[string]*big.Int{"": big.NewInt(0)}}
	tok := fmt.Sprintf("reset %d", h.m)
	h.toks = []string{tok}
	obs := "ok"
	if !ok {
		obs = "panic"
	}
	h.o.Emit("sumtree "+tok, obs, true)
	h.o.Count("op.reset")
}

// mutate executes one mutating op against tree and reference; returns false on panic.
func (h *stHist) mutate(op string, key []byte, v *big.Int) bool {
	var tok string
	if op == "remove" {
		tok = fmt.Sprintf("remove %s", stTok(key))
	} else {
		tok = fmt.Sprintf("%s %s %s", op, stTok(key), v)
	}
	h.toks = append(h.toks, tok)
	h.nmut++
	h.o.Count("op." + op)
	sk := string(key)
	_, present := h.ref.m[sk]
	ok := catch(func() {
		switch op {
		case "set":
			h.tree.Set(key, osmomath.NewIntFromBigInt(v))
		case "incr":
			h.tree.Increase(key, osmomath.NewIntFromBigInt(v))
		case "decr":
			h.tree.Decrease(key, osmomath.NewIntFromBigInt(v))
		case "remove":
			h.tree.Remove(key)
		}
	})
	// reference
	switch op {
	case "set":
		h.ref.m[sk] = new(big.Int).Set(v)
	case "incr":
		h.ref.m[sk] = new(big.Int).Add(h.ref.val(sk), v)
	case "decr":
		h.ref.m[sk] = new(big.Int).Sub(h.ref.val(sk), v)
	case "remove":
		if present {
			h.o.Count("remove.existing")
			if sk == "" {
				h.o.Count("remove.emptykey")
			}
		} else {
			h.o.Count("remove.absent")
		}
		delete(h.ref.m, sk)
	}
	// the class of the prefix INCLUDING this op
	if op == "remove" && present {
		h.remEx = true
		if sk == "" {
			h.remEmp = true
		}
	}
	h.failed = map[string]bool{}
	h.o.Count("cls." + h.cls())
	if !ok {
		h.o.Emit("sumtree "+tok, "panic", true)
		h.o.Count("panic." + op)
		h.fail(op+"-panic:"+h.cls(), tok, "panic", "ok")
		return false
	}
	h.o.Emit("sumtree "+tok, "ok", true)
	return true
}

func stBig(i osmomath.Int) *big.Int { return i.BigInt() }

// ---- queries (each wrapped in catch) ----

func (h *stHist) qGet(k []byte) (bool, *big.Int) {
	var r *big.Int
	ok := catch(func() { r = stBig(h.tree.Get(k)) })
	return ok, r
}

func (h *stHist) qSplit(k []byte) (bool, [3]*big.Int) {
	var r [3]*big.Int
	ok := catch(func() {
		a, b, c := h.tree.SplitAcc(k)
		r = [3]*big.Int{stBig(a), stBig(b), stBig(c)}
	})
	return ok, r
}

func (h *stHist) qSubset(lo, hi []byte) (bool, *big.Int) {
	var r *big.Int
	ok := catch(func() { r = stBig(h.tree.SubsetAccumulation(lo, hi)) })
	return ok, r
}

func (h *stHist) qPrefix(k []byte) (bool, *big.Int) {
	var r *big.Int
	ok := catch(func() { r = stBig(h.tree.PrefixSum(k)) })
	return ok, r
}

func (h *stHist) qTotal() (bool, *big.Int) {
	var r *big.Int
	ok := catch(func() { r = stBig(h.tree.TotalAccumulatedValue()) })
	return ok, r
}

type stKV struct {
	k []byte
	v *big.Int
}

func (h *stHist) qIter() (bool, []stKV) {
	var r []stKV
	ok := catch(func() {
		it := h.tree.Iterator(nil, nil)
		defer it.Close()
		for ; it.Valid(); it.Next() {
			var leaf sumtree.Leaf
			if err := proto.Unmarshal(it.Value(), &leaf); err != nil {
				panic(err)
			}
			r = append(r, stKV{append([]byte{}, it.Key()[7:]...), stBig(leaf.Leaf.Accumulation)})
		}
	})
	return ok, r
}

// qIterRange: Tree.Iterator(begin, end) / Tree.ReverseIterator(begin, end), decoded.
func (h *stHist) qIterRange(begin, end []byte, rev bool) (bool, []stKV) {
	var r []stKV
	ok := catch(func() {
		var it interface {
			Valid() bool
			Next()
			Key() []byte
			Value() []byte
			Close() error
		}
		if rev {
			it = h.tree.ReverseIterator(begin, end)
		} else {
			it = h.tree.Iterator(begin, end)
		}
		defer it.Close()
		for ; it.Valid(); it.Next() {
			var leaf sumtree.Leaf
			if err := proto.Unmarshal(it.Value(), &leaf); err != nil {
				panic(err)
			}
			r = append(r, stKV{append([]byte{}, it.Key()[7:]...), stBig(leaf.Leaf.Accumulation)})
		}
	})
	return ok, r
}

// refRange: what a sorted map answers for an ordered scan with an inclusive lower and an exclusive upper
// bound.  A nil bound is "unbounded"; the empty NON-nil slice is the empty key (as a lower bound it admits
// everything, as an upper bound nothing lies below it).  Recomputed from the plain map.
func (h *stHist) refRange(sorted []string, begin, end []byte, rev bool) string {
	var ks []string
	for _, k := range sorted {
		if begin != nil && k < string(begin) {
			continue
		}
		if end != nil && !(k < string(end)) {
			continue
		}
		ks = append(ks, k)
	}
	if rev {
		for i, j := 0, len(ks)-1; i < j; i, j = i+1, j-1 {
			ks[i], ks[j] = ks[j], ks[i]
		}
	}
	var wb strings.Builder
	wb.WriteString("ok")
	for _, k := range ks {
		wb.WriteByte(' ')
		wb.WriteString(stOutKey([]byte(k)))
		wb.WriteByte('=')
		wb.WriteString(h.ref.m[k].String())
	}
	return wb.String()
}

// boundShape names the shape class of one iteration / subset bound relative to the current contents.
func (h *stHist) boundShape(b []byte) string {
	switch {
	case b == nil:
		return "nil"
	case len(b) == 0:
		return "empty"
	}
	if _, ok := h.ref.m[string(b)]; ok {
		return "present"
	}
	return "absent"
}

// randBound draws one bound for the shape class `want` ("nil","empty","present","absent","any").
func (h *stHist) randBound(want string, sorted []string) []byte {
	g := h.g
	switch want {
	case "nil":
		return nil
	case "empty":
		return []byte{}
	case "present":
		var ne []string
		for _, k := range sorted {
			if k != "" {
				ne = append(ne, k)
			}
		}
		if len(ne) == 0 {
			return []byte{}
		}
		return []byte(ne[g.Intn(len(ne))])
	case "absent":
		// an absent key of the closure, or a present key with a byte appended / its last byte dropped or bumped
		for try := 0; try < 6; try++ {
			var c string
			switch g.Intn(4) {
			case 0, 1:
				c = h.clos[g.Intn(len(h.clos))]
			case 2:
				if len(sorted) > 0 {
					c = sorted[g.Intn(len(sorted))] + string([]byte{[]byte{0, 1, 'a', 0xff}[g.Intn(4)]})
				}
			default:
				if len(sorted) > 0 {
					c = sorted[g.Intn(len(sorted))]
					if len(c) > 0 {
						b := []byte(c)
						b[len(b)-1]++
						c = string(b)
					}
				}
			}
			if _, ok := h.ref.m[c]; !ok && c != "" {
				return []byte(c)
			}
		}
		return []byte("\xff\xff\xff\xff")
	}
	return h.randBound([]string{"nil", "empty", "present", "present", "absent", "absent"}[g.Intn(6)], sorted)
}

// iterOracle: ordered iteration for ALL bound shapes, both directions, against the sorted Go map.
// Every pass covers: (nil,nil); (begin,nil) and (nil,end) for a present, an absent and the empty non-nil
// bound; (begin,end) with begin<end, begin=end, begin>end; each forward and reverse.
func (h *stHist) iterOracle(sorted []string) {
	cls := h.cls()
	type shape struct{ b, e string }
	shapes := []shape{{"nil", "nil"}, {"present", "nil"}, {"absent", "nil"}, {"empty", "nil"},
		{"nil", "present"}, {"nil", "absent"}, {"nil", "empty"}, {"empty", "empty"},
		{"present", "present"}, {"present", "absent"}, {"absent", "present"}, {"absent", "absent"}, {"any", "any"}}
	for _, sh := range shapes {
		begin, end := h.randBound(sh.b, sorted), h.randBound(sh.e, sorted)
		if begin != nil && end != nil && len(end) > 0 {
			switch h.g.Intn(6) {
			case 0: // begin = end
				end = append([]byte{}, begin...)
			case 1: // make sure begin > end happens
				if string(begin) < string(end) {
					begin, end = end, begin
				}
			}
		}
		rel := ""
		if begin != nil && end != nil {
			switch {
			case string(begin) == string(end):
				rel = ":begin=end"
			case string(begin) > string(end):
				rel = ":begin>end"
			default:
				rel = ":begin<end"
			}
		}
		// does some LATER key of the tree fail to extend `begin` as a byte prefix (an open-ended scan that
		// degenerates into a prefix scan would drop it)?
		ext := ""
		if len(begin) > 0 && end == nil {
			ext = ":all-later-keys-extend-begin"
			for _, k := range sorted {
				if k >= string(begin) && !strings.HasPrefix(k, string(begin)) {
					ext = ":later-key-does-not-extend-begin"
					break
				}
			}
		}
		shp := "begin=" + h.boundShape(begin) + ",end=" + h.boundShape(end) + rel + ext
		dirs := []bool{false, true}
		if sh.b != "nil" && sh.e != "nil" && h.g.Intn(2) == 0 { // two-sided shapes: one direction per pass
			dirs = dirs[h.g.Intn(2):][:1]
		}
		for _, rev := range dirs {
			dir := "fwd"
			if rev {
				dir = "rev"
			}
			h.o.Count("oracle.iter." + dir + "." + shp)
			want := h.refRange(sorted, begin, end, rev)
			ok, kvs := h.qIterRange(begin, end, rev)
			got := "panic"
			if ok {
				got = stIterStr(kvs)
			}
			if got != want {
				q := "iter"
				if rev {
					q = "riter"
				}
				h.fail("iter:"+dir+":"+shp+":"+cls, q+" "+stTok(begin)+" "+stTok(end), got, want)
			}
		}
	}
}

func stSplitStr(r [3]*big.Int) string { return fmt.Sprintf("%s %s %s", r[0], r[1], r[2]) }

func stIterStr(kvs []stKV) string {
	var sb strings.Builder
	sb.WriteString("ok")
	for _, kv := range kvs {
		sb.WriteByte(' ')
		sb.WriteString(stOutKey(kv.k))
		sb.WriteByte('=')
		sb.WriteString(kv.v.String())
	}
	return sb.String()
}

// emitQuery emits one random read-only query line.
func (h *stHist) emitQuery() {
	switch h.g.Intn(6) {
	case 0:
		k := h.randKey()
		ok, v := h.qGet(k)
		h.o.Emit("sumtree get "+stTok(k), obsInt(ok, v), true)
		h.o.Count("op.get")
	case 1:
		k := h.randKey()
		ok, r := h.qSplit(k)
		obs := "panic"
		if ok {
			obs = "ok " + stSplitStr(r)
		}
		h.o.Emit("sumtree split "+stTok(k), obs, true)
		h.o.Count("op.split")
	case 2:
		lo, hi := h.randKey(), h.randKey()
		switch h.g.Intn(8) {
		case 0:
			lo = nil
		case 1:
			hi = nil
		}
		ok, v := h.qSubset(lo, hi)
		h.o.Emit("sumtree subset "+stTok(lo)+" "+stTok(hi), obsInt(ok, v), true)
		h.o.Count("op.subset")
	case 3:
		k := h.randKey()
		ok, v := h.qPrefix(k)
		h.o.Emit("sumtree prefix "+stTok(k), obsInt(ok, v), true)
		h.o.Count("op.prefix")
	case 4:
		ok, v := h.qTotal()
		h.o.Emit("sumtree total", obsInt(ok, v), true)
		h.o.Count("op.total")
	default:
		if h.g.Intn(3) == 0 {
			ok, kvs := h.qIter()
			obs := "panic"
			if ok {
				obs = stIterStr(kvs)
			}
			h.o.Emit("sumtree iter", obs, true)
			h.o.Count("op.iter")
			return
		}
		// bounded iteration, any bound shape, either direction (replayed by the model's iterRange)
		sorted := h.ref.sorted()
		begin, end := h.randBound("any", sorted), h.randBound("any", sorted)
		rev := h.g.Intn(2) == 0
		ok, kvs := h.qIterRange(begin, end, rev)
		obs := "panic"
		if ok {
			obs = stIterStr(kvs)
		}
		name := "iter"
		if rev {
			name = "riter"
		}
		h.o.Emit("sumtree "+name+" "+stTok(begin)+" "+stTok(end), obs, true)
		h.o.Count("op." + name + ".bounded")
	}
}

// ---- the oracle, run after every mutating op ----

func (h *stHist) oracle(levels []stLevel, bad string) {
	cls := h.cls()
	h.nodeStats(levels)
	// per-key checks over the whole closure
	for _, ks := range h.clos {
		_, present := h.ref.m[ks]
		pa := stPA(present)
		wl, we, wg := h.ref.split(ks)
		wantSplit := [3]*big.Int{wl, we, wg}
		wantPre := new(big.Int).Add(wl, we)
		variants := [][]byte{[]byte(ks)}
		if ks == "" {
			variants = [][]byte{nil, {}}
		}
		var firstGet, firstSplit, firstPre string
		for vi, k := range variants {
			tk := stTok(k)
			ok, v := h.qGet(k)
			gs := obsInt(ok, v)
			if !ok || v.Cmp(we) != 0 {
				h.fail("get:"+pa+"-key:"+cls, "get "+tk, gs, we.String())
			}
			ok, r := h.qSplit(k)
			ss := "panic"
			if ok {
				ss = stSplitStr(r)
			}
			if !ok {
				h.fail("split-panic:"+pa+"-key:"+cls, "split "+tk, "panic", stSplitStr(wantSplit))
			} else if r[0].Cmp(wl) != 0 || r[1].Cmp(we) != 0 || r[2].Cmp(wg) != 0 {
				h.fail("split:"+pa+"-key:"+cls, "split "+tk, ss, stSplitStr(wantSplit))
			}
			ok, v = h.qPrefix(k)
			ps := obsInt(ok, v)
			if !ok {
				h.fail("prefix-panic:"+pa+"-key:"+cls, "prefix "+tk, "panic", wantPre.String())
			} else if v.Cmp(wantPre) != 0 {
				h.fail("prefix:"+pa+"-key:"+cls, "prefix "+tk, v.String(), wantPre.String())
			}
			if vi == 0 {
				firstGet, firstSplit, firstPre = gs, ss, ps
			} else {
				if gs != firstGet {
					h.o.Count("nilvsempty.differs.get")
				}
				if ss != firstSplit {
					h.o.Count("nilvsempty.differs.split")
				}
				if ps != firstPre {
					h.o.Count("nilvsempty.differs.prefix")
				}
			}
		}
	}
	// subset: ~22 random pairs (incl. lo>hi), nil = unbounded; the 8 nil / empty / key bound shapes follow in subsetShapes
	for i := 0; i < 22; i++ {
		var lo, hi []byte
		los, his := h.clos[h.g.Intn(len(h.clos))], h.clos[h.g.Intn(len(h.clos))]
		lo, hi = []byte(los), []byte(his) // "" -> []byte{} (non-nil)
		switch h.g.Intn(10) {
		case 0:
			lo = nil
		case 1:
			hi = nil
		}
		present := true
		var want *big.Int
		switch {
		case lo == nil:
			l, e, _ := h.ref.split(his)
			want = l.Add(l, e)
			_, present = h.ref.m[his]
		case hi == nil:
			_, e, g := h.ref.split(los)
			want = e.Add(e, g)
			_, present = h.ref.m[los]
		default:
			_, e, g := h.ref.split(los)
			_, _, g2 := h.ref.split(his)
			want = e.Add(e, g)
			want.Sub(want, g2)
			_, p1 := h.ref.m[los]
			_, p2 := h.ref.m[his]
			present = p1 && p2
			if los > his {
				h.o.Count("oracle.subset.lo>hi")
			}
		}
		q := "subset " + stTok(lo) + " " + stTok(hi)
		ok, v := h.qSubset(lo, hi)
		if !ok {
			h.fail("subset-panic:"+stPA(present)+"-key:"+cls, q, "panic", want.String())
		} else if v.Cmp(want) != 0 {
			h.fail("subset:"+stPA(present)+"-key:"+cls, q, v.String(), want.String())
		}
	}
	// total
	{
		want := h.ref.total()
		ok, v := h.qTotal()
		if !ok {
			h.fail("total-panic:"+cls, "total", "panic", want.String())
		} else if v.Cmp(want) != 0 {
			if v.Cmp(h.ref.val("")) == 0 {
				h.fail("total:nonempty-tree:"+cls, "total", v.String(), want.String())
			} else {
				h.fail("total:unexpected:"+cls, "total", v.String()+" (empty-key value "+h.ref.val("").String()+")", want.String())
			}
		} else {
			h.o.Count("total.correct")
		}
	}
	// iteration
	sorted := h.ref.sorted()
	{
		var wb strings.Builder
		wb.WriteString("ok")
		for _, k := range sorted {
			wb.WriteByte(' ')
			wb.WriteString(stOutKey([]byte(k)))
			wb.WriteByte('=')
			wb.WriteString(h.ref.m[k].String())
		}
		ok, kvs := h.qIter()
		got := "panic"
		if ok {
			got = stIterStr(kvs)
		}
		if got != wb.String() {
			h.fail("iter:"+cls, "iter", got, wb.String())
		}
	}
	h.iterOracle(sorted)
	h.subsetShapes()
	// well-formedness of the raw store
	h.wellFormed(levels, bad, sorted)
}

// subsetShapes: the nil-vs-empty-slice distinction of the SubsetAccumulation bounds, every pass:
// nil = "unbounded" (Go doc: beginning / end of the tree), []byte{} = the empty KEY.
func (h *stHist) subsetShapes() {
	cls := h.cls()
	sorted := h.ref.sorted()
	k := h.randBound([]string{"present", "absent"}[h.g.Intn(2)], sorted)
	ks := string(k)
	type q struct {
		lo, hi []byte
		want   *big.Int
		shape  string
	}
	total := h.ref.total()
	ge := func(s string) *big.Int { _, e, g := h.ref.split(s); return e.Add(e, g) }
	le := func(s string) *big.Int { l, e, _ := h.ref.split(s); return l.Add(l, e) }
	gt := func(s string) *big.Int { _, _, g := h.ref.split(s); return g }
	qs := []q{
		{nil, nil, total, "nil,nil"},
		{nil, []byte{}, le(""), "nil,empty"},
		{[]byte{}, nil, ge(""), "empty,nil"},
		{[]byte{}, []byte{}, new(big.Int).Sub(ge(""), gt("")), "empty,empty"},
		{nil, k, le(ks), "nil,key"},
		{[]byte{}, k, new(big.Int).Sub(ge(""), gt(ks)), "empty,key"},
		{k, nil, ge(ks), "key,nil"},
		{k, []byte{}, new(big.Int).Sub(ge(ks), gt("")), "key,empty"},
	}
	for _, c := range qs {
		h.o.Count("oracle.subset.shape." + c.shape)
		ok, v := h.qSubset(c.lo, c.hi)
		qq := "subset " + stTok(c.lo) + " " + stTok(c.hi)
		pa := stPA(true)
		if strings.Contains(c.shape, "key") {
			_, p := h.ref.m[ks]
			pa = stPA(p)
		}
		key := "subset"
		if !ok {
			key = "subset-panic"
		}
		if c.shape == "nil,nil" && ok && v.Cmp(c.want) != 0 && v.Cmp(h.ref.val("")) == 0 {
			// both ends unbounded = the whole tree (Go doc); the answer is the value stored at the empty key:
			// the `start == nil` branch reads `end == nil` as the empty KEY.  Keyed apart from every other shape.
			key += ":nil-nil-bounds:returns-empty-key-value:" + cls
		} else {
			key += ":" + pa + "-key:" + cls
		}
		if !ok {
			h.fail(key, qq, "panic", c.want.String())
		} else if v.Cmp(c.want) != 0 {
			h.fail(key, qq, v.String(), c.want.String())
		}
	}
	// PrefixSum / SplitAcc / Get with the two spellings of the empty key are compared in the per-key loop above.
}

func (h *stHist) wellFormed(levels []stLevel, bad string, sorted []string) {
	cls := h.cls()
	var first string
	viol := func(clause, detail string) {
		h.o.Count("wf.clause." + clause)
		if first == "" {
			first = clause + ": " + detail
		}
	}
	if bad != "" {
		viol("decode", bad)
	}
	// leaves == reference exactly
	var leaves []stLeaf
	if len(levels) > 0 && levels[0].level == 0 {
		leaves = levels[0].leaves
	}
	{
		same := len(leaves) == len(sorted)
		if same {
			for i, l := range leaves {
				if string(l.key) != sorted[i] || l.acc.Cmp(h.ref.m[sorted[i]]) != 0 {
					same = false
					break
				}
			}
		}
		if !same {
			var gb []string
			for _, l := range leaves {
				gb = append(gb, stOutKey(l.key)+"="+l.acc.String())
			}
			var wb []string
			for _, k := range sorted {
				wb = append(wb, stOutKey([]byte(k))+"="+h.ref.m[k].String())
			}
			viol("leaves!=reference", "got "+strings.Join(gb, ",")+" want "+strings.Join(wb, ","))
		}
		for _, l := range leaves {
			if string(l.idx) != string(l.key) {
				viol("leaf-index!=store-key", stOutKey(l.key))
			}
		}
	}
	// level structure
	if len(levels) == 0 {
		if len(sorted) != 0 {
			viol("empty-store", "reference non-empty")
		}
	} else {
		for i, lv := range levels {
			if lv.level != i {
				viol("level-gap", fmt.Sprintf("position %d holds level %d", i, lv.level))
				break
			}
		}
		top := levels[len(levels)-1]
		if top.level == 0 {
			viol("no-branch-level", "leaves without level 1")
		} else if len(top.nodes) != 1 {
			viol("top-level-nodes!=1", fmt.Sprintf("level %d has %d nodes", top.level, len(top.nodes)))
		}
		if top.level > h.height {
			h.height = top.level
		}
	}
	// per-level clauses
	for i := 1; i < len(levels); i++ {
		lv, below := levels[i], levels[i-1]
		if lv.level != below.level+1 {
			continue // gap already reported
		}
		// keys and accumulated sums of the level below
		var bkeys []string
		bsum := map[string]*big.Int{}
		if below.level == 0 {
			for _, l := range below.leaves {
				bkeys = append(bkeys, string(l.key))
				bsum[string(l.key)] = l.acc
			}
		} else {
			for _, n := range below.nodes {
				s := new(big.Int)
				for _, c := range n.children {
					s.Add(s, c.acc)
				}
				bkeys = append(bkeys, string(n.key))
				bsum[string(n.key)] = s
			}
		}
		var ckeys []string
		for j, n := range lv.nodes {
			tag := fmt.Sprintf("L%d node %s", lv.level, stOutKey(n.key))
			if j > 0 && !(string(lv.nodes[j-1].key) < string(n.key)) {
				viol("nodekeys-not-ascending", tag)
			}
			if len(n.children) < 1 {
				viol("node-empty", tag)
			}
			if len(n.children) > h.m {
				viol("node-overfull", fmt.Sprintf("%s has %d children, m=%d", tag, len(n.children), h.m))
			}
			if len(n.children) > 0 {
				fc := string(n.children[0].key)
				if string(n.key) > fc {
					viol("nodekey>firstchild", tag+" first child "+stOutKey(n.children[0].key))
				} else if string(n.key) != fc {
					h.o.Count("wf.nodekey!=firstchild")
				}
			}
			for _, c := range n.children {
				ckeys = append(ckeys, string(c.key))
				if s, ok := bsum[string(c.key)]; ok && s.Cmp(c.acc) != 0 {
					viol("child-acc!=subtree-sum", fmt.Sprintf("%s child %s acc %s, subtree sum %s", tag, stOutKey(c.key), c.acc, s))
				}
			}
		}
		same := len(ckeys) == len(bkeys)
		if same {
			for j := range ckeys {
				if ckeys[j] != bkeys[j] {
					same = false
					break
				}
			}
		}
		if !same {
			f := func(ks []string) string {
				var out []string
				for _, k := range ks {
					out = append(out, stOutKey([]byte(k)))
				}
				return strings.Join(out, ",")
			}
			viol("children!=level-below", fmt.Sprintf("L%d children %s but L%d keys %s", lv.level, f(ckeys), below.level, f(bkeys)))
		}
	}
	// search-tree (routing) clause, stronger than "node key <= first child": every leaf
	// below a node is < the key of the NEXT node of the same level.  Queries route
	// top-down by these keys, insertion picks the parent by nearest-left node key; when
	// a node keeps a stale key after its first child was removed the two disagree.
	{
		maxLeaf := map[string]string{} // node key at the level below -> max leaf key beneath it
		for i := 1; i < len(levels); i++ {
			lv := levels[i]
			if lv.level != i {
				break
			}
			cur := map[string]string{}
			for j, n := range lv.nodes {
				mx, ok := "", len(n.children) > 0
				for _, c := range n.children {
					v := string(c.key)
					if i > 1 {
						var has bool
						if v, has = maxLeaf[string(c.key)]; !has {
							ok = false
							break
						}
					}
					if v > mx {
						mx = v
					}
				}
				if !ok {
					continue
				}
				cur[string(n.key)] = mx
				if j+1 < len(lv.nodes) && mx >= string(lv.nodes[j+1].key) {
					viol("subtree-max>=next-nodekey", fmt.Sprintf("L%d node %s holds leaf %s but next node key is %s", lv.level, stOutKey(n.key), stOutKey([]byte(mx)), stOutKey(lv.nodes[j+1].key)))
				}
			}
			maxLeaf = cur
		}
	}
	if first != "" {
		d := stDumpString(levels)
		if len(d) > 500 {
			d = d[:500] + "..."
		}
		h.fail("wf:"+cls, "dump", first+" | "+d, "well-formed")
	} else {
		h.o.Count("wf.ok")
	}
}

// nodeStats (statistics only) compares node counts per level with the previous step:
// a level that lost a node means pull() emptied (deleted) a node; losing >= 2 means
// it also merged the two neighbours.
func (h *stHist) nodeStats(levels []stLevel) {
	cur := map[int]int{}
	for _, lv := range levels {
		if lv.level > 0 {
			cur[lv.level] = len(lv.nodes)
		}
	}
	lost, merged, gained := false, false, false
	for l, n := range h.prevN {
		if n-cur[l] >= 1 {
			lost = true
		}
		if n-cur[l] >= 2 {
			merged = true
		}
	}
	for l, n := range cur {
		if n > h.prevN[l] {
			gained = true
		}
	}
	if lost {
		h.o.Count("step.level-lost-node(node-emptied)")
		h.nodeLost = true
	}
	if merged {
		h.o.Count("step.level-lost>=2-nodes(merge)")
		h.merged = true
	}
	if gained {
		h.o.Count("step.level-gained-node(split)")
	}
	h.prevN = cur
}

// afterMutation: dump line, oracle, 3 query lines.
func (h *stHist) afterMutation() {
	var levels []stLevel
	var bad string
	ok := catch(func() { levels, bad = stReadStore(h.st) })
	obs := "panic"
	if ok {
		obs = stDumpString(levels)
	}
	h.o.Emit("sumtree dump", obs, true)
	h.o.Count("op.dump")
	h.oracle(levels, bad)
	for i := 0; i < 3; i++ {
		h.emitQuery()
	}
}

// existing returns a random key currently in the reference (excluding "" unless allowEmpty).
func (h *stHist) existing(allowEmpty bool) (string, bool) {
	ks := h.ref.sorted()
	if !allowEmpty && len(ks) > 0 && ks[0] == "" {
		ks = ks[1:]
	}
	if len(ks) == 0 {
		return "", false
	}
	return ks[h.g.Intn(len(ks))], true
}

// stParseKey is the inverse of stTok.
func stParseKey(t string) []byte {
	switch t {
	case "*":
		return nil
	case "-":
		return []byte{}
	}
	b, err := hex.DecodeString(t)
	if err != nil {
		panic("bad key token " + t)
	}
	return b
}

// apply executes one mutating op token ("set 61 5", "remove *", ...) with the
// dump line, the full oracle and the query lines; false after a panic.
func (h *stHist) apply(tok string) bool {
	f := strings.Fields(tok)
	var v *big.Int
	if f[0] != "remove" {
		var ok bool
		if v, ok = new(big.Int).SetString(f[2], 10); !ok {
			panic("bad value in " + tok)
		}
	}
	if !h.mutate(f[0], stParseKey(f[1]), v) {
		return false
	}
	h.afterMutation()
	return true
}

// stReplay replays one history given as op tokens, the first being "reset <m>"
// (the format of the `history=` field of a failure detail).  Used through
// VERIF_SUMTREE_REPLAY='reset 3;set 61 1;...' and by shrinkers.
func stReplay(o *Out, g *Gen, seed int64, idx int, alpha int, toks []string) *stHist {
	h := &stHist{o: o, g: g, seed: seed, idx: idx, prevN: map[int]int{}, kind: "replay", alpha: alpha}
	fmt.Sscanf(strings.TrimSpace(toks[0]), "reset %d", &h.m)
	// oracle closure: the alphabet closure plus every key the history mentions
	seen := map[string]bool{}
	for _, k := range stClosure(alpha) {
		seen[k] = true
	}
	for _, t := range toks[1:] {
		if f := strings.Fields(t); len(f) >= 2 {
			seen[string(stParseKey(f[1]))] = true
		}
	}
	for k := range seen {
		h.clos = append(h.clos, k)
	}
	sort.Strings(h.clos)
	h.reset()
	for _, t := range toks[1:] {
		if t = strings.TrimSpace(t); t == "" {
			continue
		}
		if !h.apply(t) {
			break
		}
	}
	return h
}

// neighbour returns the existing key next to k (successor, else predecessor).
func (h *stHist) neighbour(k string, allowEmpty bool) (string, bool) {
	ks := h.ref.sorted()
	if !allowEmpty && len(ks) > 0 && ks[0] == "" {
		ks = ks[1:]
	}
	if len(ks) == 0 {
		return "", false
	}
	i := sort.SearchStrings(ks, k)
	if i < len(ks) && h.g.Intn(4) != 0 {
		return ks[i], true
	}
	if i > 0 {
		return ks[i-1], true
	}
	return ks[0], true
}

func stClosure(alpha int) []string {
	var letters []string
	for c := 0; c < alpha; c++ {
		letters = append(letters, string(rune('a'+c)))
	}
	return stClosureOf(letters)
}

// stClosureOf: all concatenations of at most three of the letters (byte strings), without duplicates, sorted bytewise.
func stClosureOf(letters []string) []string {
	seen := map[string]bool{}
	var out []string
	var rec func(p string, d int)
	rec = func(p string, d int) {
		if !seen[p] {
			seen[p] = true
			out = append(out, p)
		}
		if d == 3 {
			return
		}
		for _, l := range letters {
			rec(p+l, d+1)
		}
	}
	rec("", 0)
	sort.Strings(out)
	return out
}

func runSumTree(seed int64, n int, dir string) {
	t0 := time.Now()
	if pf := os.Getenv("VERIF_CPUPROF"); pf != "" {
		f, _ := os.Create(pf)
		pprof.StartCPUProfile(f)
		defer pprof.StopCPUProfile()
	}
	// single-threaded engine; MemDB iterators are goroutines, one P avoids futex wake-ups (~25% faster)
	runtime.GOMAXPROCS(1)
	g := &Gen{rand.New(rand.NewSource(seed))}
	o := NewOut(dir)
	if rp := os.Getenv("VERIF_SUMTREE_REPLAY"); rp != "" {
		h := stReplay(o, g, seed, 0, envInt("VERIF_SUMTREE_ALPHA", 4), strings.Split(rp, ";"))
		fmt.Printf("sumtree replay: m=%d ops=%d final-cls=%s oracle_failures=%d keys=%v\n", h.m, h.nmut, h.cls(), o.fails, o.failKeys)
		o.Close(nil)
		return
	}
	ms := []int{2, 3, 4, 5, 6, 7, 8, 9, 10, 16, 255}
	hists := 0
	for o.n < n {
		h := &stHist{o: o, g: g, seed: seed, idx: hists, prevN: map[int]int{}}
		hists++
		// m: 2..5 get ~60%
		if g.Intn(100) < 60 {
			h.m = 2 + g.Intn(4)
		} else {
			h.m = ms[4+g.Intn(len(ms)-4)]
		}
		h.alpha = 3 + g.Intn(2)
		h.clos = stClosure(h.alpha)
		// boundary classes of the KEY bytes (per history)
		kclass := "ascii"
		if c := g.Intn(100); c < 18 {
			var letters []string
			switch c % 3 {
			case 0: // extreme byte values: 0x00 / 0xff inside and at the end of keys
				kclass = "bytes-00-ff"
				letters = []string{"\x00", "\xff", []string{"\x7f", "\x80"}[g.Intn(2)], "\x01"}[:h.alpha]
			case 1: // long keys with a long common prefix
				kclass = "long"
				pre := make([]byte, 20+g.Intn(45))
				for i := range pre {
					pre[i] = byte(g.Intn(256))
				}
				for i := 0; i < h.alpha; i++ {
					letters = append(letters, string(pre)+string([]byte{byte(g.Intn(256)), byte(i)}))
				}
			default: // letters of different lengths: many keys are proper prefixes of others ("a" + "b" = "ab")
				kclass = "mixed-length"
				letters = []string{"a", "ab", "b", "ba"}[:h.alpha]
			}
			h.clos = stClosureOf(letters)
		}
		o.Count("class.keys." + kclass)
		// magnitude class of the leaf values (sums of a history stay below 2^255: the model does not know the 256-bit panic)
		h.vbits = 0
		if c := g.Intn(100); c < 15 {
			h.vbits = []int{63, 64, 65, 127, 128, 129, 200, 245}[g.Intn(8)]
			o.Count(fmt.Sprintf("class.values.2^%d", h.vbits))
		} else {
			o.Count("class.values.ordinary")
		}
		switch c := g.Intn(100); {
		case c < 45:
			h.kind = "insert-only"
		case c < 80:
			h.kind = "with-remove"
		default:
			h.kind = "anything"
		}
		// shape: 12% long sequential, else random 10..150
		var seq []string // keys to insert first, in order
		length := 10 + g.Intn(141)
		shape := "random"
		switch c := g.Intn(100); {
		case c < 6:
			shape = "seq-asc"
			seq = append(seq, h.clos...)
		case c < 12:
			shape = "seq-desc"
			for i := len(h.clos) - 1; i >= 0; i-- {
				seq = append(seq, h.clos[i])
			}
		case c < 30:
			shape = "short"
			length = 3 + g.Intn(12)
		}
		if len(seq) > 0 {
			length = len(seq) + g.Intn(400-len(seq)+1)
		}
		drainStyle := h.kind != "insert-only" && g.Intn(2) == 0
		draining, phaseLeft, lastRemoved := true, 0, ""
		if drainStyle {
			o.Count("style=build/drain-phases")
		}
		o.Count(fmt.Sprintf("m=%d", h.m))
		o.Count("kind=" + h.kind)
		o.Count(fmt.Sprintf("alphabet=%d", h.alpha))
		o.Count("shape=" + shape)
		h.reset()

		panicked := false
		for i := 0; i < length && o.n < n+200; i++ {
			var op string
			var key []byte
			var v *big.Int
			if i < len(seq) {
				if seq[i] == "" && g.Intn(2) == 0 {
					continue // keep the sentinel untouched half of the time
				}
				op, key, v = "set", h.keyBytes(seq[i]), h.randVal(true)
			} else {
				c := g.Intn(100)
				rm := 0
				switch h.kind {
				case "with-remove":
					rm = 35
				case "anything":
					rm = 40
				}
				if drainStyle {
					// alternate build phases (few removes) and drain phases (mostly removes of
					// neighbouring keys) so that whole nodes get emptied and pull() merges
					if phaseLeft == 0 {
						draining = !draining
						phaseLeft = 8 + g.Intn(30)
					}
					phaseLeft--
					if draining {
						rm = 85
					} else {
						rm = 10
					}
				}
				switch {
				case c < rm:
					op = "remove"
				case c < rm+(100-rm)*50/100:
					op = "set"
				case c < rm+(100-rm)*80/100:
					op = "incr"
				default:
					op = "decr"
				}
				if op == "remove" {
					allowEmpty := h.kind == "anything"
					if allowEmpty && g.Intn(12) == 0 {
						key = h.keyBytes("")
					} else if nb, ok := h.neighbour(lastRemoved, allowEmpty); ok && drainStyle && draining && g.Intn(100) < 65 {
						key = h.keyBytes(nb)
						o.Count("remove.neighbour-run")
					} else if ks, ok := h.existing(allowEmpty); ok && g.Intn(100) < 85 {
						key = h.keyBytes(ks)
					} else {
						key = h.randKey()
						if !allowEmpty && len(key) == 0 {
							// never remove the empty key in this kind
							key = []byte(h.clos[1+g.Intn(len(h.clos)-1)])
						}
					}
				} else {
					key = h.randKey()
					v = h.randVal(op == "set")
					if op != "set" && g.Intn(8) == 0 {
						// amount larger than the current value: drives values negative
						v = new(big.Int).Add(new(big.Int).Abs(h.ref.val(string(key))), big.NewInt(int64(1+g.Intn(20))))
					}
				}
			}
			if op == "remove" {
				lastRemoved = string(key)
			}
			if !h.mutate(op, key, v) {
				panicked = true
				break
			}
			h.afterMutation()
		}
		o.Count(fmt.Sprintf("height=%d", h.height))
		o.Count("final-cls=" + h.cls())
		switch {
		case h.nmut <= 15:
			o.Count("hist.len<=15")
		case h.nmut <= 50:
			o.Count("hist.len<=50")
		case h.nmut <= 150:
			o.Count("hist.len<=150")
		default:
			o.Count("hist.len>150")
		}
		if panicked {
			o.Count("hist.ended-by-panic")
		}
	}
	el := time.Since(t0).Seconds()
	fmt.Printf("sumtree: seed=%d lines=%d histories=%d go_seconds=%.2f lines_per_s=%.0f oracle_failures=%d\n", seed, o.n, hists, el, float64(o.n)/el, o.fails)
	o.Close(map[string]any{"histories": hists, "store": "dbadapter+memdb"})
}
