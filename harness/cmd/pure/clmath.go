package main

// Engine `clmath` (properties C03/C01, step level): concentrated-liquidity math and the
// within-bucket swap step of both strategies against the Lean model (bit-exact) and against the
// exact constant-liquidity curve in big.Rat: amounts charged are never below, amounts paid
// never above, what the curve prescribes between the step's start and end sqrt prices.

import (
	"fmt"
	"math/big"
	"math/rand"

	"github.com/osmosis-labs/osmosis/osmomath"
	clkeeper "github.com/osmosis-labs/osmosis/v31/x/concentrated-liquidity"
	clmath "github.com/osmosis-labs/osmosis/v31/x/concentrated-liquidity/math"
	"github.com/osmosis-labs/osmosis/v31/x/concentrated-liquidity/swapstrategy"
	cltypes "github.com/osmosis-labs/osmosis/v31/x/concentrated-liquidity/types"
)

func b2s(b bool) string {
	if b {
		return "1"
	}
	return "0"
}

// exact amounts on the curve, as rationals of raw values:
// Δ0 = L (1/√pa − 1/√pb) ; Δ1 = L (√pb − √pa)   with L raw 18-dec, sqrt prices raw 36-dec.
// returned in token units scaled by 10^18 (i.e. comparable with raw Dec amounts).
func exact0(liq, a, b *big.Int) *big.Rat {
	if a.Cmp(b) > 0 {
		a, b = b, a
	}
	// L/1e18 * (1e36/a − 1e36/b) tokens  => raw Dec = L * (1e36/a − 1e36/b)
	x := new(big.Rat).SetFrac(p36, a)
	y := new(big.Rat).SetFrac(p36, b)
	x.Sub(x, y)
	return x.Mul(x, new(big.Rat).SetInt(liq))
}
func exact1(liq, a, b *big.Int) *big.Rat {
	if a.Cmp(b) > 0 {
		a, b = b, a
	}
	d := new(big.Rat).SetFrac(new(big.Int).Sub(b, a), p36)
	return d.Mul(d, new(big.Rat).SetInt(liq))
}

func (g *Gen) clSqrtPrice() (*big.Int, int64) {
	var t int64
	switch g.Intn(4) {
	case 0:
		t = int64(g.Intn(2000001) - 1000000)
	case 1:
		t = cltypes.MinInitializedTick + g.r.Int63n(cltypes.MaxTick-cltypes.MinInitializedTick)
	case 2:
		t = int64(g.Intn(200) - 100)
	default:
		t = int64(g.Intn(60000001) - 30000000)
	}
	sp, err := clmath.TickToSqrtPrice(t)
	if err != nil {
		return new(big.Int).Set(p36), 0
	}
	return sp.BigInt(), t
}

func (g *Gen) clLiquidity() *big.Int {
	if g.Intn(14) == 0 { // huge liquidity: raw 18-decimal value of 140 .. 255 bits (whole part up to 2^195), and exactly around 2^127..2^129 whole
		if g.Intn(3) == 0 {
			v := new(big.Int).Add(pow2(127+g.Intn(3)), big.NewInt(int64(g.Intn(3)-1)))
			return v.Mul(v, p18)
		}
		return g.randBits(140 + g.Intn(116))
	}
	switch g.Intn(5) {
	case 0:
		return new(big.Int).Mul(big.NewInt(int64(1+g.Intn(1000000))), p18)
	case 1:
		return g.randBits(60 + g.Intn(80))
	case 2:
		return new(big.Int).Add(p18, big.NewInt(int64(g.Intn(1000))))
	case 3:
		return g.randBits(1 + g.Intn(60)) // tiny, below 1
	default:
		return new(big.Int).Mul(g.randBits(1+g.Intn(70)), p18)
	}
}

func runCLMath(seed int64, n int, dir string) {
	g := &Gen{rand.New(rand.NewSource(seed))}
	o := NewOut(dir)
	spreads := []*big.Int{}
	for _, s := range cltypes.AuthorizedSpreadFactors {
		spreads = append(spreads, s.BigInt())
	}
	spreads = append(spreads, big.NewInt(1), new(big.Int).Quo(p18, big.NewInt(10)))
	for i := 0; i < n; i++ {
		spA, _ := g.clSqrtPrice()
		spB, _ := g.clSqrtPrice()
		if g.Intn(3) == 0 { // close together
			spB = new(big.Int).Add(spA, g.randBits(1+g.Intn(100)))
		}
		liq := g.clLiquidity()
		switch k := g.Intn(100); {
		case k < 14: // amount deltas
			ru := g.Intn(2) == 0
			zero := g.Intn(2) == 0
			var r *big.Int
			var line string
			ok := catch(func() {
				if zero {
					r = clmath.CalcAmount0Delta(sd(liq), bd(spA), bd(spB), ru).BigInt()
				} else {
					r = clmath.CalcAmount1Delta(sd(liq), bd(spA), bd(spB), ru).BigInt()
				}
			})
			if zero {
				line = fmt.Sprintf("cl a0d %s %s %s %s", liq, spA, spB, b2s(ru))
			} else {
				line = fmt.Sprintf("cl a1d %s %s %s %s", liq, spA, spB, b2s(ru))
			}
			o.Emit(line, obsInt(ok, r), true)
			o.Count("op.delta")
			if ok {
				// raw BigDec result r (36 dec) vs exact (scaled to raw Dec 1e18): compare r/1e18 with exact
				var ex *big.Rat
				if zero {
					ex = exact0(liq, spA, spB)
				} else {
					ex = exact1(liq, spA, spB)
				}
				got := new(big.Rat).SetFrac(r, p18)
				if ru && got.Cmp(ex) < 0 {
					o.Fail("delta:roundUp-below-exact", line)
				}
				if !ru && got.Cmp(ex) > 0 {
					o.Fail("delta:roundDown-above-exact", line)
				}
			}
		case k < 26: // next sqrt price functions
			which := g.Intn(4)
			amt := g.randBits(1 + g.Intn(160))
			if g.Intn(10) == 0 {
				amt = g.randBits(160 + g.Intn(140))
				o.Count("class.nextsp.huge-amount")
			}
			var r *big.Int
			var line string
			ok := catch(func() {
				switch which {
				case 0:
					r = clmath.GetNextSqrtPriceFromAmount0InRoundingUp(bd(spA), osmomath.BigDecFromDec(sd(liq)), bd(amt)).BigInt()
				case 1:
					amt = g.randBits(1 + g.Intn(100))
					r = clmath.GetNextSqrtPriceFromAmount0OutRoundingUp(bd(spA), osmomath.BigDecFromDec(sd(liq)), sd(amt)).BigInt()
				case 2:
					r = clmath.GetNextSqrtPriceFromAmount1InRoundingDown(bd(spA), sd(liq), bd(amt)).BigInt()
				default:
					r = clmath.GetNextSqrtPriceFromAmount1OutRoundingDown(bd(spA), sd(liq), bd(amt)).BigInt()
				}
			})
			liq36 := new(big.Int).Mul(liq, p18)
			switch which {
			case 0:
				line = fmt.Sprintf("cl nsp0in %s %s %s", spA, liq36, amt)
			case 1:
				line = fmt.Sprintf("cl nsp0out %s %s %s", spA, liq36, amt)
			case 2:
				line = fmt.Sprintf("cl nsp1in %s %s %s", spA, liq, amt)
			default:
				line = fmt.Sprintf("cl nsp1out %s %s %s", spA, liq, amt)
			}
			o.Emit(line, obsInt(ok, r), true)
			o.Count("op.nextsp")
		case k < 30: // per-step spread reward growth
			charge := new(big.Int).Mul(big.NewInt(int64(g.Intn(1000000))), pow10(g.Intn(19)))
			if g.Intn(3) == 0 {
				charge = g.randBits(1 + g.Intn(120))
			}
			scale := new(big.Int).Set(p18)
			if g.Intn(2) == 0 {
				scale = clkeeper.VerifPerUnitLiqScalingFactor().BigInt()
			}
			l := liq
			if g.Intn(15) == 0 {
				l = big.NewInt(0)
			}
			var r *big.Int
			var err error
			ok := catch(func() {
				var d osmomath.Dec
				d, err = clkeeper.VerifSpreadGrowth(sd(charge), sd(l), sd(scale))
				r = d.BigInt()
			})
			line := fmt.Sprintf("cl growth %s %s %s", charge, l, scale)
			o.Emit(line, obsInt(ok && err == nil, r), true)
			o.Count("op.growth")
			if ok && err == nil && l.Sign() > 0 {
				// credited growth x active liquidity never exceeds the scaled charge
				if new(big.Int).Mul(r, l).Cmp(new(big.Int).Mul(charge, scale)) > 0 {
					o.Fail("rewards:growth-times-liquidity>charge", line)
				}
			}
		case k < 34: // liquidity from amounts
			a0 := g.randBits(1 + g.Intn(100))
			a1 := g.randBits(1 + g.Intn(100))
			if g.Intn(8) == 0 { // up to the 256 bits of sdk.Int, and the 2^63 / 2^64 / 2^128 boundaries
				a0, a1 = g.randBits(1+g.Intn(255)), g.randBits(1+g.Intn(255))
				if g.Intn(2) == 0 {
					a0 = new(big.Int).Add(pow2([]int{63, 64, 128, 255}[g.Intn(4)]), big.NewInt(int64(g.Intn(3)-1)))
				}
				o.Count("class.liqamts.huge")
			}
			spC, _ := g.clSqrtPrice()
			var r *big.Int
			ok := catch(func() {
				r = clmath.GetLiquidityFromAmounts(bd(spC), bd(spA), bd(spB), osmomath.NewIntFromBigInt(a0), osmomath.NewIntFromBigInt(a1)).BigInt()
			})
			o.Emit(fmt.Sprintf("cl liqamts %s %s %s %s %s", spC, spA, spB, a0, a1), obsInt(ok, r), true)
			o.Count("op.liq")
		default: // within-bucket steps
			zfo := g.Intn(2) == 0
			ogi := g.Intn(2) == 0
			spf := spreads[g.Intn(len(spreads))]
			cur, target := spA, spB
			if zfo && target.Cmp(cur) > 0 || !zfo && target.Cmp(cur) < 0 {
				cur, target = target, cur
			}
			// remaining: tiny / about enough to reach / far more / exactly the amount needed
			var rem *big.Int
			need := new(big.Rat)
			if ogi {
				if zfo {
					need = exact0(liq, cur, target)
				} else {
					need = exact1(liq, cur, target)
				}
			} else {
				if zfo {
					need = exact1(liq, cur, target)
				} else {
					need = exact0(liq, cur, target)
				}
			}
			needInt := ratCeil(need) // raw Dec
			switch g.Intn(5) {
			case 0:
				rem = new(big.Int).Mul(big.NewInt(int64(1+g.Intn(1000))), p18)
			case 1:
				rem = new(big.Int).Add(needInt, big.NewInt(int64(g.Intn(5)-2)))
			case 2:
				rem = new(big.Int).Mul(needInt, big.NewInt(int64(2+g.Intn(5))))
			case 3:
				rem = new(big.Int).Quo(needInt, big.NewInt(int64(2+g.Intn(50))))
			default:
				rem = new(big.Int).Mul(g.randBits(1+g.Intn(90)), p18)
			}
			if rem.Sign() <= 0 {
				rem = big.NewInt(1)
			}
			if rem.BitLen() > 300 {
				rem = g.randBits(250)
			}
			strat := swapstrategy.New(zfo, bd(target), nil, sd(spf))
			var spN, x, y, c *big.Int
			ok := catch(func() {
				var a osmomath.BigDec
				var b, cc, d osmomath.Dec
				if ogi {
					a, b, cc, d = strat.ComputeSwapWithinBucketOutGivenIn(bd(cur), bd(target), sd(liq), sd(rem))
				} else {
					a, b, cc, d = strat.ComputeSwapWithinBucketInGivenOut(bd(cur), bd(target), sd(liq), sd(rem))
				}
				spN, x, y, c = a.BigInt(), b.BigInt(), cc.BigInt(), d.BigInt()
			})
			name := "stepIGO"
			if ogi {
				name = "stepOGI"
			}
			line := fmt.Sprintf("cl %s %s %s %s %s %s %s", name, b2s(zfo), spf, cur, target, liq, rem)
			obs := "panic"
			if ok {
				obs = fmt.Sprintf("ok %s %s %s %s", spN, x, y, c)
			}
			o.Emit(line, obs, true)
			o.Count("op." + name)
			if !ok {
				o.Count("step.panic")
				continue
			}
			if spN.Cmp(target) == 0 {
				o.Count("step.reached-target")
			} else {
				o.Count("step.stopped-inside")
			}
			// --- property oracle: the step rounds in the pool's favour against the exact curve between cur and spN ---
			amtIn, amtOut := x, y
			if !ogi {
				amtIn, amtOut = y, x
			}
			var exIn, exOut *big.Rat
			if zfo {
				exIn, exOut = exact0(liq, cur, spN), exact1(liq, cur, spN)
			} else {
				exIn, exOut = exact1(liq, cur, spN), exact0(liq, cur, spN)
			}
			cls := fmt.Sprintf("%s:zfo=%s", name, b2s(zfo))
			if new(big.Rat).SetInt(amtIn).Cmp(exIn) < 0 {
				o.Fail("step:amountIn-below-curve:"+cls, line+" => "+obs)
			}
			if new(big.Rat).SetInt(amtOut).Cmp(exOut) > 0 {
				o.Fail("step:amountOut-above-curve:"+cls, line+" => "+obs)
			}
			if c.Sign() < 0 {
				o.Fail("step:negative-spread-charge:"+cls, line)
			}
			// the price never moves past the target, and moves in the swap direction
			// (a step that overshoots the target or consumes more than remains is not a violation by itself: the swap
			// loop rejects it - ComputedSqrtPriceInequalityError / OverChargeSwapOutGivenInError; counted only)
			if zfo && (spN.Cmp(cur) > 0 || spN.Cmp(target) < 0) || !zfo && (spN.Cmp(cur) < 0 || spN.Cmp(target) > 0) {
				o.Count("step.overshoot-rejected-by-loop")
			}
			// spread charge is at least spf/(1-spf) * amountIn when the target is reached (exact rational)
			if spf.Sign() > 0 && (spN.Cmp(target) == 0 || !ogi) {
				want := new(big.Rat).Mul(new(big.Rat).SetInt(amtIn), new(big.Rat).SetFrac(spf, new(big.Int).Sub(p18, spf)))
				if new(big.Rat).SetInt(c).Cmp(want) < 0 {
					o.Fail("step:spread-charge-below-exact:"+cls, line+" => "+obs)
				}
			}
			// out-given-in never consumes more than what remains
			if ogi && new(big.Int).Add(amtIn, c).Cmp(rem) > 0 {
				o.Count("step.overcharge-rejected-by-loop")
			}
			if !ogi && amtOut.Cmp(rem) > 0 {
				o.Fail("step:out-more-than-requested:"+cls, line+" => "+obs)
			}
		}
	}
	o.Close(nil)
}
