package main

// Engine `epochs` (property C17): drives the REAL x/epochs keeper (BeginBlocker, AddEpochInfo,
// MultiEpochHooks -> osmoutils.ApplyFuncIfNoError) with 0-4 scripted subscriber hooks that write into
// their own prefix of a second KV store through the ctx they are handed, then succeed / return an
// error / panic (string, runtime.Error, error value, *ErrorOutOfGas pointer) / run out of gas
// (ErrorOutOfGas value, real gas-meter exhaustion, ErrorGasOverflow value).
//
// Each block runs in a cache context of the root context (as finalizeBlockState does in the app) that is
// written back iff BeginBlocker did not panic.  The observation is read from that cache context (also when
// BeginBlocker panicked: the partial state), the keeper's signals from the emitted events, the hook
// invocations from the hooks themselves.
//
// OBSERVING subscribers: at EVERY signal each subscriber first queries the epochs keeper through the context it was
// handed (GetEpochInfo of the signalling timer, AllEpochInfos, NumBlocksSinceEpochStart) and logs what it saw; the
// oracle demands that during start-of-epoch n the stored timer IS in epoch n (counting started, start time on the
// grid start+(n-1)*dur, start height = this block, 0 blocks since the start) and during end-of-epoch n it is still in
// epoch n (start height = the block in which epoch n started): "end-of-epoch n strictly before start-of-epoch n+1,
// each timer starts at its start time" in terms of the state visible to subscribers.
//
// The oracle recomputes, from the history alone, what the property demands (never before start, first tick,
// <=1 tick per block, tick iff blockTime > end (strict), grid via start+(n-1)*dur, canonical signal stream,
// every subscriber once per signal in registration order, stores = fold of the ok invocations' writes,
// out-of-gas propagates) and classifies every mismatch.  Times are printed as ns since time.Time{}.

import (
	"bytes"
	"errors"
	"fmt"
	"math/big"
	"math/rand"
	"os"
	"sort"
	"strconv"
	"strings"
	"time"

	storetypes "cosmossdk.io/store/types"
	"github.com/cosmos/cosmos-sdk/codec"
	codectypes "github.com/cosmos/cosmos-sdk/codec/types"
	"github.com/cosmos/cosmos-sdk/testutil"
	sdk "github.com/cosmos/cosmos-sdk/types"

	epochskeeper "github.com/osmosis-labs/osmosis/x/epochs/keeper"
	epochstypes "github.com/osmosis-labs/osmosis/x/epochs/types"
)

var epZeroUnix = time.Time{}.Unix() // seconds of Go's zero time relative to the Unix epoch (negative)
var epE9 = big.NewInt(1_000_000_000)

// epNs: time.Time -> ns since time.Time{}
func epNs(t time.Time) *big.Int {
	v := big.NewInt(t.Unix() - epZeroUnix)
	v.Mul(v, epE9)
	return v.Add(v, big.NewInt(int64(t.Nanosecond())))
}

// epTime: ns since time.Time{} -> time.Time
func epTime(ns *big.Int) time.Time {
	sec, nsec := new(big.Int).DivMod(ns, epE9, new(big.Int))
	return time.Unix(sec.Int64()+epZeroUnix, nsec.Int64()).UTC()
}

type epEntry struct {
	outcome string
	writes  [][2]string
}

type epCall struct {
	id   string
	kind string
	n    int64
	sub  int
}

// epView: what a subscriber read from the epochs keeper inside one hook invocation
type epView struct {
	own      epTimer  // GetEpochInfo(id)
	all      []string // AllEpochInfos: id:epoch (printed: the epoch numbers in store order)
	since    int64    // NumBlocksSinceEpochStart
	sinceErr bool
	panicked bool
}

func (v epView) String() string {
	st := 0
	if v.own.started {
		st = 1
	}
	eps := make([]string, len(v.all))
	for i, a := range v.all {
		eps[i] = a[strings.LastIndex(a, ":")+1:]
	}
	s := fmt.Sprintf("%d/%s/%d/%d/%d/%s", v.own.epoch, v.own.curStart, st, v.own.height, v.since, strings.Join(eps, ";"))
	if v.sinceErr {
		s += "!since-err"
	}
	if v.panicked {
		s += "!query-panicked"
	}
	return s
}

func (c epCall) String() string { return fmt.Sprintf("%s.%s.%d.%d", c.id, c.kind, c.n, c.sub) }

type epEngine struct {
	ctx      sdk.Context
	k        *epochskeeper.Keeper
	epKey    *storetypes.KVStoreKey
	subKey   *storetypes.KVStoreKey
	nsubs    int
	script   map[string]epEntry // key id:kind:sub
	calls    []epCall
	views    []epView
	gasLimit uint64
}

type epHook struct {
	idx int
	eng *epEngine
}

func (h epHook) AfterEpochEnd(ctx sdk.Context, id string, n int64) error {
	return h.eng.invoke(ctx, h.idx, "e", id, n)
}
func (h epHook) BeforeEpochStart(ctx sdk.Context, id string, n int64) error {
	return h.eng.invoke(ctx, h.idx, "s", id, n)
}
func (h epHook) GetModuleName() string { return fmt.Sprintf("sub%d", h.idx) }

func epSubPrefix(i int) []byte { return []byte(fmt.Sprintf("sub%d/", i)) }

func (e *epEngine) invoke(ctx sdk.Context, idx int, kind, id string, n int64) error {
	e.calls = append(e.calls, epCall{id, kind, n, idx})
	// observe the epochs keeper from inside the callback, through the context the hook was handed
	var v epView
	rctx := ctx.WithGasMeter(storetypes.NewInfiniteGasMeter())
	if !catch(func() {
		v.own = epFromInfo(e.k.GetEpochInfo(rctx, id))
		for _, i := range e.k.AllEpochInfos(rctx) {
			v.all = append(v.all, fmt.Sprintf("%s:%d", i.Identifier, i.CurrentEpoch))
		}
		nb, err := e.k.NumBlocksSinceEpochStart(rctx, id)
		v.since, v.sinceErr = nb, err != nil
	}) {
		v.panicked = true
	}
	e.views = append(e.views, v)
	ent, ok := e.script[fmt.Sprintf("%s:%s:%d", id, kind, idx)]
	if !ok {
		return nil
	}
	st := ctx.KVStore(e.subKey)
	for _, w := range ent.writes {
		st.Set(append(epSubPrefix(idx), []byte(w[0])...), []byte(w[1]))
	}
	switch ent.outcome {
	case "o":
		return nil
	case "e":
		return errors.New("scripted error")
	case "ps":
		panic("scripted string panic")
	case "pr":
		var m map[string]int
		m["x"] = 1 // runtime.Error
	case "pe":
		panic(errors.New("scripted error-value panic"))
	case "pp":
		panic(&storetypes.ErrorOutOfGas{Descriptor: "pointer, not recognised by IsOutOfGasError"})
	case "go":
		panic(storetypes.ErrorOutOfGas{Descriptor: "scripted"})
	case "gg":
		ctx.GasMeter().ConsumeGas(e.gasLimit+1, "scripted real out of gas")
	case "gv":
		panic(storetypes.ErrorGasOverflow{Descriptor: "scripted"})
	}
	return nil
}

func epIsOog(o string) bool { return o == "go" || o == "gg" || o == "gv" }
func epClass(o string) string {
	switch {
	case o == "o" || o == "":
		return "ok"
	case o == "e":
		return "err"
	case epIsOog(o):
		return "oog"
	}
	return "panic"
}

func newEpEngine(nsubs int) *epEngine {
	epKey := storetypes.NewKVStoreKey(epochstypes.StoreKey)
	subKey := storetypes.NewKVStoreKey("verifsubs")
	ctx := testutil.DefaultContextWithKeys(map[string]*storetypes.KVStoreKey{epochstypes.StoreKey: epKey, "verifsubs": subKey},
		map[string]*storetypes.TransientStoreKey{"transient_test": storetypes.NewTransientStoreKey("transient_test")}, nil)
	e := &epEngine{epKey: epKey, subKey: subKey, nsubs: nsubs, gasLimit: 1 << 50}
	k := epochskeeper.NewKeeper(epKey)
	hooks := make([]epochstypes.EpochHooks, nsubs)
	for i := range hooks {
		hooks[i] = epHook{i, e}
	}
	e.k = k.SetHooks(epochstypes.NewMultiEpochHooks(hooks...))
	e.ctx = ctx.WithChainID("osmosis-1")
	return e
}

// oracle's view of one timer
type epTimer struct {
	id       string
	start    *big.Int
	dur      *big.Int
	epoch    int64
	curStart *big.Int
	started  bool
	height   int64
	// canonical-stream cursor: next expected signal of the committed history
	nextKind string
	nextN    int64
}

func (t epTimer) obs() string {
	s := 0
	if t.started {
		s = 1
	}
	return fmt.Sprintf("%s,%s,%s,%d,%s,%d,%d", t.id, t.start, t.dur, t.epoch, t.curStart, s, t.height)
}

func epFromInfo(i epochstypes.EpochInfo) epTimer {
	return epTimer{id: i.Identifier, start: epNs(i.StartTime), dur: big.NewInt(int64(i.Duration)), epoch: i.CurrentEpoch,
		curStart: epNs(i.CurrentEpochStartTime), started: i.EpochCountingStarted, height: i.CurrentEpochStartHeight}
}

func (e *epEngine) readState(ctx sdk.Context) ([]epTimer, []map[string]string) {
	ctx = ctx.WithGasMeter(storetypes.NewInfiniteGasMeter())
	var ts []epTimer
	for _, i := range e.k.AllEpochInfos(ctx) {
		ts = append(ts, epFromInfo(i))
	}
	stores := make([]map[string]string, e.nsubs)
	st := ctx.KVStore(e.subKey)
	for i := 0; i < e.nsubs; i++ {
		stores[i] = map[string]string{}
		p := epSubPrefix(i)
		it := storetypes.KVStorePrefixIterator(st, p)
		for ; it.Valid(); it.Next() {
			stores[i][string(it.Key()[len(p):])] = string(it.Value())
		}
		it.Close()
	}
	return ts, stores
}

func epShowStore(m map[string]string) string {
	ks := make([]string, 0, len(m))
	for k := range m {
		ks = append(ks, k)
	}
	sort.Strings(ks)
	var b strings.Builder
	b.WriteString("{")
	for i, k := range ks {
		if i > 0 {
			b.WriteString(",")
		}
		b.WriteString(k + "=" + m[k])
	}
	b.WriteString("}")
	return b.String()
}

func epObs(panicked bool, ts []epTimer, stores []map[string]string, sigs []string, calls []epCall, views []epView) string {
	var b strings.Builder
	if panicked {
		b.WriteString("panic")
	} else {
		b.WriteString("ok")
	}
	b.WriteString(" T ")
	for i, t := range ts {
		if i > 0 {
			b.WriteString(";")
		}
		b.WriteString(t.obs())
	}
	b.WriteString(" S " + strings.Join(sigs, ","))
	b.WriteString(" C ")
	for i, c := range calls {
		if i > 0 {
			b.WriteString(",")
		}
		b.WriteString(c.String())
	}
	b.WriteString(" W ")
	for i, m := range stores {
		if i > 0 {
			b.WriteString("|")
		}
		b.WriteString(strconv.Itoa(i) + epShowStore(m))
	}
	// run-length encoded: the subscribers of one signal read the same state
	b.WriteString(" V ")
	for i := 0; i < len(views); {
		s := views[i].String()
		j := i + 1
		for j < len(views) && views[j].String() == s {
			j++
		}
		if i > 0 {
			b.WriteString(",")
		}
		b.WriteString(s + "*" + strconv.Itoa(j-i))
		i = j
	}
	return b.String()
}

func epCopyStores(s []map[string]string) []map[string]string {
	r := make([]map[string]string, len(s))
	for i, m := range s {
		r[i] = map[string]string{}
		for k, v := range m {
			r[i][k] = v
		}
	}
	return r
}

func epStoresEq(a, b []map[string]string) bool {
	if len(a) != len(b) {
		return false
	}
	for i := range a {
		if len(a[i]) != len(b[i]) {
			return false
		}
		for k, v := range a[i] {
			if w, ok := b[i][k]; !ok || w != v {
				return false
			}
		}
	}
	return true
}

var epIDPool = []string{"day", "week", "hour", "Day", "a", "ab", "aB", "b", "Z", "z", "0min", "_x", "mint-epoch", "a.b", "~", "!", "abc", "B2"}

var epDurations = []int64{1, 2, 3, 7, 1000, 999_999_999, 1_000_000_000, 1_000_000_001, 5_000_000_000, 60_000_000_000,
	3_600_000_000_000, 86_400_000_000_000, 604_800_000_000_000}

func runEpochs(seed int64, n int, dir string) {
	o := NewOut(dir)
	g := &Gen{r: rand.New(rand.NewSource(seed))}
	devnull, _ := os.OpenFile(os.DevNull, os.O_WRONLY, 0)
	oldOut, oldErr := os.Stdout, os.Stderr
	if devnull != nil { // PrintPanicRecoveryError prints unknown panic values + stack to stdout/stderr
		os.Stdout, os.Stderr = devnull, devnull
	}
	histories := 0
	for o.n < n {
		epHistory(o, g)
		histories++
	}
	os.Stdout, os.Stderr = oldOut, oldErr
	o.Close(map[string]any{"histories": histories})
}

// huge durations (per-history class): a year .. the largest time.Duration.  All engine arithmetic on them is big.Int or clamped.
var epHugeDurations = []int64{365 * 86_400_000_000_000, 100 * 365 * 86_400_000_000_000, 1 << 62, 1<<63 - 2, 1<<63 - 1}

// block times stay below the year 9000: the stored EpochInfo is a protobuf Timestamp (valid up to the year 9999)
var epLatest = epNs(time.Date(9000, 1, 1, 0, 0, 0, 0, time.UTC))

func epPickDur(g *Gen, base int64) int64 {
	if base > 1<<55 {
		switch g.Intn(5) {
		case 0:
			return base - 1
		case 1:
			return base/2 + g.r.Int63n(base/2)
		case 2:
			return epHugeDurations[g.Intn(len(epHugeDurations))]
		}
		return base
	}
	switch g.Intn(12) {
	case 0:
		return epDurations[g.Intn(len(epDurations))]
	case 1, 2, 3, 4, 5, 6: // close to the history's base duration (comparable timers -> interleaved ticks)
		d := base/2 + g.r.Int63n(base+1)
		if d == 0 {
			d = 1
		}
		return d
	case 7, 8:
		return base
	case 9, 10: // multiples
		return base * int64(1+g.Intn(5))
	default:
		return 1 + g.r.Int63n(604_800_000_000_000)
	}
}

func epHistory(o *Out, g *Gen) {
	nsubs := 1 + g.Intn(4)
	if g.Intn(25) == 0 {
		nsubs = 0
	}
	e := newEpEngine(nsubs)
	o.Emit(fmt.Sprintf("epochs reset %d", nsubs), "ok", false)
	o.Count(fmt.Sprintf("subs=%d", nsubs))

	// wall-clock base of the history: somewhere in 1970..2100, sub-second offset
	now := epNs(time.Unix(int64(g.r.Int63n(4_102_444_800)), int64(g.Intn(1_000_000_000))))
	height := int64(1 + g.Intn(1000))
	baseDur := epDurations[g.Intn(len(epDurations))]
	if g.Intn(100) < 8 {
		baseDur = epHugeDurations[g.Intn(len(epHugeDurations))]
		o.Count("class.duration.huge")
	} else {
		o.Count("class.duration.ordinary")
	}
	spanDur := baseDur // for offsets of start times
	if spanDur > 1<<55 {
		spanDur = 1 << 55
	}
	pEntry := []float64{0.15, 0.4, 0.7, 0.95}[g.Intn(4)]
	pOog := []float64{0, 0, 0.003, 0.01, 0.04, 0.12}[g.Intn(6)]
	o.Count(fmt.Sprintf("hist:pOog=%v", pOog))

	var timers []epTimer // oracle's committed state, store (byte) order
	stores := make([]map[string]string, nsubs)
	for i := range stores {
		stores[i] = map[string]string{}
	}
	used := map[string]bool{}

	addTimer := func(malformed bool) {
		id := epIDPool[g.Intn(len(epIDPool))]
		dur := epPickDur(g, baseDur)
		if g.Intn(40) == 0 && dur <= 1<<55 {
			// Validate only rejects 0.  Not for the huge durations: a negative duration moves the epoch start back on every
			// block, -292 years per block leaves the years 1..9999 of the stored protobuf Timestamp (setEpochInfo panics; not modelled)
			dur = -dur
		}
		start := new(big.Int).Set(now)
		switch g.Intn(8) {
		case 0: // zero start time -> ctx block time
			start = big.NewInt(0)
		case 1, 2: // in the future: blocks before the start time
			start.Add(start, big.NewInt(g.r.Int63n([]int64{4, 40}[g.Intn(2)]*spanDur+1)))
		case 3: // far in the past (downtime / catch-up one epoch per block)
			start.Sub(start, big.NewInt(g.r.Int63n(20*spanDur+1)))
		case 4:
			start.Add(start, big.NewInt(int64(g.Intn(3))))
		}
		curEpoch, started, sh := int64(0), false, int64(0)
		curStart := big.NewInt(0)
		kind := "fresh"
		switch g.Intn(12) {
		case 0: // imported running timer, on the grid
			started = true
			curEpoch = int64(g.Intn(50))
			if dur > 1<<55 || dur < -(1<<55) {
				curEpoch = int64(g.Intn(4)) // keeps the imported epoch start inside the years 1..9999
			}
			if start.Sign() == 0 {
				start = new(big.Int).Set(now)
			}
			curStart = new(big.Int).Add(start, new(big.Int).Mul(big.NewInt(curEpoch-1), big.NewInt(dur)))
			if curStart.Sign() < 0 {
				curStart, curEpoch = new(big.Int).Set(start), 1
			}
			sh = int64(g.Intn(100))
			kind = "imported"
		case 1: // not started but stale fields
			curEpoch = int64(g.Intn(9))
			curStart = new(big.Int).Add(now, big.NewInt(int64(g.Intn(1000))))
			sh = int64(g.Intn(100))
			kind = "stale-fields"
		}
		if malformed {
			switch g.Intn(4) {
			case 0:
				dur = 0
			case 1:
				curEpoch = -1 - int64(g.Intn(3))
			case 2:
				sh = -1 - int64(g.Intn(3))
			default:
				if len(timers) > 0 {
					id = timers[g.Intn(len(timers))].id
				} else {
					dur = 0
				}
			}
			kind = "malformed"
		}
		o.Count("addepoch:" + kind)
		info := epochstypes.EpochInfo{Identifier: id, StartTime: epTime(start), Duration: time.Duration(dur), CurrentEpoch: curEpoch,
			CurrentEpochStartTime: epTime(curStart), EpochCountingStarted: started, CurrentEpochStartHeight: sh}
		ctx := e.ctx.WithBlockTime(epTime(now)).WithBlockHeight(height)
		var err error
		okc := catch(func() { err = e.k.AddEpochInfo(ctx, info) })
		st := 0
		if started {
			st = 1
		}
		op := fmt.Sprintf("epochs addepoch %s %s %d %d %s %d %d %s %d", id, start, dur, curEpoch, curStart, st, sh, now, height)
		obs := "ok"
		if !okc {
			obs = "panic"
		} else if err != nil {
			obs = "err"
		}
		o.Emit(op, obs, obs == "ok")
		// oracle: AddEpochInfo validation + defaults, recomputed
		wantErr := dur == 0 || curEpoch < 0 || sh < 0 || used[id]
		if wantErr != (obs == "err") || obs == "panic" {
			o.Fail("addepoch:validation", fmt.Sprintf("op=%q got=%s wantErr=%v", op, obs, wantErr))
		}
		if obs != "ok" {
			return
		}
		used[id] = true
		nt := epTimer{id: id, start: start, dur: big.NewInt(dur), epoch: curEpoch, curStart: curStart, started: started, height: height}
		if start.Sign() == 0 {
			nt.start = new(big.Int).Set(now)
		}
		if started {
			nt.nextKind, nt.nextN = "e", curEpoch
		} else {
			nt.nextKind, nt.nextN = "s", 1
		}
		timers = append(timers, nt)
		sort.Slice(timers, func(i, j int) bool { return bytes.Compare([]byte(timers[i].id), []byte(timers[j].id)) < 0 })
		its, _ := e.readState(e.ctx)
		for i := range its {
			if i >= len(timers) || its[i].obs() != timers[i].obs() {
				o.Fail("addepoch:defaults-or-order", fmt.Sprintf("op=%q store=%v want=%v", op, its, timers))
				break
			}
		}
	}

	ntim := 1 + g.Intn(4)
	for i := 0; i < ntim; i++ {
		addTimer(false)
	}
	if len(timers) == 0 {
		addTimer(false)
	}
	o.Count(fmt.Sprintf("timers=%d", len(timers)))

	nblocks := 200 + g.Intn(60)
	mode := g.Intn(5)
	for b := 0; b < nblocks; b++ {
		if g.Intn(60) == 0 {
			addTimer(g.Intn(2) == 0)
		}
		if g.Intn(40) == 0 {
			mode = g.Intn(5)
		}
		if len(timers) == 0 {
			addTimer(false)
			continue
		}
		// ---- next block time (non-decreasing), relative to a focus timer
		f := timers[g.Intn(len(timers))]
		if g.Intn(10) < 7 { // mostly follow the fastest timer, so that slower ones see many blocks per epoch
			for _, p := range timers {
				if new(big.Int).Abs(p.dur).Cmp(new(big.Int).Abs(f.dur)) < 0 {
					f = p
				}
			}
		}
		d := new(big.Int).Abs(f.dur).Int64()
		if d > 1<<55 { // huge durations: ordinary steps are capped (the end of an epoch is reached by the special picks)
			d = 1 << 55
		}
		var dt int64
		dtKind := ""
		end := new(big.Int).Add(f.curStart, f.dur)
		toEnd := new(big.Int).Sub(end, now) // may be negative / huge
		pick := g.Intn(100)
		special := false
		switch {
		case pick < 10:
			if f.started && toEnd.Sign() >= 0 && toEnd.IsInt64() {
				dt, dtKind, special = toEnd.Int64(), "exactly-at-end", true
			}
		case pick < 18:
			if f.started && toEnd.Sign() >= 0 && toEnd.IsInt64() && toEnd.Int64() < 1<<63-1 {
				dt, dtKind, special = toEnd.Int64()+1, "end+1ns", true
			}
		case pick < 23:
			if f.started && toEnd.Sign() > 0 && toEnd.IsInt64() {
				dt, dtKind, special = toEnd.Int64()-1, "end-1ns", true
			}
		case pick < 31:
			dt, dtKind, special = 0, "equal", true
		case pick < 37:
			if !f.started {
				ts := new(big.Int).Sub(f.start, now)
				if ts.Sign() >= 0 && ts.IsInt64() {
					dt, dtKind, special = ts.Int64()-int64(g.Intn(2)), "around-start", true
					if dt < 0 {
						dt = 0
					}
				}
			}
		}
		if !special {
			switch mode {
			case 0: // regular, several blocks per epoch
				dt, dtKind = d/5+1, "regular:dur/5"
			case 1: // regular, exactly the duration
				dt, dtKind = d, "regular:dur"
			case 2: // jitter
				dt, dtKind = g.r.Int63n(d/2+1), "jitter"
			case 3: // downtime: occasional multi-epoch gaps, then one-epoch-per-block catch-up
				if g.Intn(8) == 0 {
					dt, dtKind = d*int64(2+g.Intn(6))+g.r.Int63n(d+1), "gap:multi-epoch"
				} else {
					dt, dtKind = d/4+g.r.Int63n(d/4+1), "after-gap:dur/4..dur/2"
				}
			default:
				dt, dtKind = g.r.Int63n(d+d/4+2), "jitter:wide"
			}
			if dt > 1<<55 {
				dt = 1 << 55
			}
		}
		if special && new(big.Int).Add(now, big.NewInt(dt)).Cmp(epLatest) > 0 {
			dt, dtKind = 0, "equal"
		}
		o.Count("dt:" + dtKind)
		now = new(big.Int).Add(now, big.NewInt(dt))
		height += int64(1 + g.Intn(3))

		// ---- oracle prediction, from the property's wording only
		type pred struct {
			tick    string // "", "initial", "tick"
			want    epTimer
			signals []epCall // sub unused
		}
		preds := make([]pred, len(timers))
		for i, p := range timers {
			w := p
			pr := pred{}
			switch {
			case now.Cmp(p.start) < 0:
				// never before the start time
			case !p.started:
				pr.tick = "initial"
				w.started, w.epoch, w.curStart, w.height = true, 1, p.start, height
				pr.signals = []epCall{{p.id, "s", 1, 0}}
			case now.Cmp(new(big.Int).Add(p.curStart, p.dur)) > 0:
				pr.tick = "tick"
				w.epoch = p.epoch + 1
				// grid: start + (n-1)*dur
				w.curStart = new(big.Int).Add(p.start, new(big.Int).Mul(big.NewInt(w.epoch-1), p.dur))
				w.height = height
				pr.signals = []epCall{{p.id, "e", p.epoch, 0}, {p.id, "s", p.epoch + 1, 0}}
			}
			pr.want = w
			preds[i] = pr
		}

		for _, p := range timers {
			if now.Cmp(p.start) < 0 {
				o.Count("block:some-timer-before-start")
				break
			}
		}
		// ---- script
		e.script = map[string]epEntry{}
		var toks []string
		for i, p := range timers {
			for _, kind := range []string{"e", "s"} {
				likely := false
				for _, s := range preds[i].signals {
					if s.kind == kind {
						likely = true
					}
				}
				if !likely && g.Intn(30) != 0 {
					continue
				}
				for sub := 0; sub < nsubs; sub++ {
					if g.r.Float64() >= pEntry {
						continue
					}
					ent := epEntry{}
					x := g.r.Float64()
					switch {
					case x < pOog:
						ent.outcome = []string{"go", "gg", "gv"}[g.Intn(3)]
					case x < pOog+0.40:
						ent.outcome = "o"
					case x < pOog+0.62:
						ent.outcome = "e"
					default:
						ent.outcome = []string{"ps", "pr", "pe", "pp"}[g.Intn(4)]
					}
					nw := g.Intn(4)
					var ws []string
					for w := 0; w < nw; w++ {
						k := string(rune('a' + g.Intn(5)))
						v := strconv.Itoa(g.Intn(100))
						ent.writes = append(ent.writes, [2]string{k, v})
						ws = append(ws, k+"="+v)
					}
					e.script[fmt.Sprintf("%s:%s:%d", p.id, kind, sub)] = ent
					toks = append(toks, fmt.Sprintf("%s:%s:%d:%s:%s", p.id, kind, sub, ent.outcome, strings.Join(ws, ",")))
				}
			}
		}

		// ---- run the real BeginBlocker in a cache context of the block context
		e.calls, e.views = nil, nil
		bctx := e.ctx.WithBlockTime(epTime(now)).WithBlockHeight(height).
			WithGasMeter(storetypes.NewGasMeter(e.gasLimit)).WithEventManager(sdk.NewEventManager())
		cctx, write := bctx.CacheContext()
		var pv any
		func() {
			defer func() { pv = recover() }()
			e.k.BeginBlocker(cctx)
		}()
		panicked := pv != nil
		its, istores := e.readState(cctx)
		var sigs []string
		for _, ev := range cctx.EventManager().Events() {
			if ev.Type == epochstypes.EventTypeEpochEnd || ev.Type == epochstypes.EventTypeEpochStart {
				num := "?"
				for _, a := range ev.Attributes {
					if a.Key == epochstypes.AttributeEpochNumber {
						num = a.Value
					}
				}
				if ev.Type == epochstypes.EventTypeEpochEnd {
					sigs = append(sigs, "e"+num)
				} else {
					sigs = append(sigs, "s"+num)
				}
			}
		}
		calls, views := e.calls, e.views
		if !panicked {
			write()
		}
		op := fmt.Sprintf("epochs block %s %d", now, height)
		if len(toks) > 0 {
			op += " " + strings.Join(toks, " ")
		}
		nticks := 0
		for _, p := range preds {
			if p.tick != "" {
				nticks++
			}
		}
		o.Emit(op, epObs(panicked, its, istores, sigs, calls, views), nticks > 0)
		if nticks >= 2 {
			o.Count("block:ticks>=2")
		} else {
			o.Count(fmt.Sprintf("block:ticks=%d", nticks))
		}

		// ---- oracle: expected calls / stores / panic
		var wantCalls []epCall
		var wantSigs []string
		wantStores := epCopyStores(stores)
		errStores, panicStores := epCopyStores(stores), epCopyStores(stores) // what a leaky containment would give
		oogAt := ""
	outer:
		for _, p := range preds { // timers are kept in byte order = store iteration order
			for _, s := range p.signals {
				wantSigs = append(wantSigs, fmt.Sprintf("%s%d", s.kind, s.n))
				for sub := 0; sub < nsubs; sub++ {
					wantCalls = append(wantCalls, epCall{s.id, s.kind, s.n, sub})
					ent := e.script[fmt.Sprintf("%s:%s:%d", s.id, s.kind, sub)]
					cl := epClass(ent.outcome)
					o.Count("invocation:" + cl + ":" + ent.outcome)
					if cl == "oog" {
						oogAt = ent.outcome
						break outer
					}
					for _, w := range ent.writes {
						if cl == "ok" {
							wantStores[sub][w[0]] = w[1]
						}
						if cl == "ok" || cl == "err" {
							errStores[sub][w[0]] = w[1]
						}
						if cl == "ok" || cl == "panic" {
							panicStores[sub][w[0]] = w[1]
						}
					}
				}
			}
		}
		detail := func() string {
			var prev []string
			for _, p := range timers {
				prev = append(prev, p.obs())
			}
			return fmt.Sprintf("prev=[%s] op=%q impl=%q", strings.Join(prev, ";"), op, epObs(panicked, its, istores, sigs, calls, views))
		}
		// ---- the state visible to subscribers inside each signal (also in a block that goes on to fail)
		for ci, c := range calls {
			if ci >= len(views) {
				break
			}
			v := views[ci]
			pi := -1
			for i, p := range timers {
				if p.id == c.id {
					pi = i
				}
			}
			if pi < 0 {
				continue // unknown timer: reported by the hook-order / signal oracles
			}
			p := timers[pi]
			sig := map[string]string{"s": "start-signal", "e": "end-signal"}[c.kind]
			o.Count("view:" + sig)
			vfail := func(what string) {
				o.Fail("visible-state:"+sig+":"+what, detail()+fmt.Sprintf(" call=%s saw=%s", c, v))
			}
			if v.panicked || v.sinceErr || v.own.id != c.id {
				vfail("query-failed")
				continue
			}
			gridN := new(big.Int).Add(p.start, new(big.Int).Mul(big.NewInt(c.n-1), p.dur))
			switch {
			case !v.own.started:
				vfail("timer-not-started")
			case v.own.epoch != c.n:
				vfail("stale-epoch-number")
			case v.own.curStart.Cmp(gridN) != 0:
				vfail("start-time-off-grid")
			case c.kind == "s" && v.own.height != height:
				vfail("start-height-not-this-block")
			case c.kind == "s" && v.since != 0:
				vfail("blocks-since-start")
			case c.kind == "e" && v.own.height != p.height:
				vfail("start-height-changed-before-end")
			case c.kind == "e" && v.since != height-p.height:
				vfail("blocks-since-start")
			}
			// the other timers: those before the signalling one (store order) already processed, the later ones not yet
			var wantAll []string
			for i, q := range timers {
				ep := q.epoch
				if i < pi {
					ep = preds[i].want.epoch
				} else if i == pi {
					ep = c.n
				}
				wantAll = append(wantAll, fmt.Sprintf("%s:%d", q.id, ep))
			}
			if strings.Join(v.all, ";") != strings.Join(wantAll, ";") {
				o.Fail("visible-state:"+sig+":all-epoch-infos", detail()+fmt.Sprintf(" call=%s saw=%s want=%v", c, v, wantAll))
			}
		}
		// out-of-gas propagation
		if oogAt != "" && !panicked {
			o.Fail("oog-swallowed:"+oogAt, detail())
		}
		if oogAt == "" && panicked {
			last := ""
			if len(calls) > 0 {
				c := calls[len(calls)-1]
				last = e.script[fmt.Sprintf("%s:%s:%d", c.id, c.kind, c.sub)].outcome
			}
			o.Fail("spurious-panic:"+epClass(last)+":"+last, detail()+fmt.Sprintf(" panic=%v", pv))
		}
		if panicked {
			o.Count("block:panicked")
			if !isOogValue(pv) {
				o.Fail("oog-panic-value", detail()+fmt.Sprintf(" panic=%T", pv))
			}
		}
		// hook invocations: every subscriber once per signal, registration order, cut at the first oog
		if !epCallsEq(calls, wantCalls) {
			key := "hook-order:other"
			switch {
			case epSameMultiset(calls, wantCalls):
				key = "hook-order:permuted"
			case len(calls) < len(wantCalls) && epCallsEq(calls, wantCalls[:len(calls)]):
				prevOut := ""
				if len(calls) > 0 {
					c := calls[len(calls)-1]
					prevOut = epClass(e.script[fmt.Sprintf("%s:%s:%d", c.id, c.kind, c.sub)].outcome)
				}
				key = "hook-skipped-after:" + prevOut
			case len(calls) > len(wantCalls):
				key = "hook-extra"
			}
			o.Fail(key, detail()+fmt.Sprintf(" wantCalls=%v", wantCalls))
		}
		if strings.Join(sigs, ",") != strings.Join(wantSigs, ",") {
			o.Fail("signal-events", detail()+fmt.Sprintf(" wantSignals=%v", wantSigs))
		}
		if panicked {
			// failed block: nothing is committed; the next block starts from the same state.
			continue
		}
		if oogAt != "" {
			// (already reported as oog-swallowed) the implementation committed: resynchronise on its state
			if len(its) == len(timers) {
				for i := range timers {
					timers[i] = its[i]
					if its[i].started {
						timers[i].nextKind, timers[i].nextN = "e", its[i].epoch
					} else {
						timers[i].nextKind, timers[i].nextN = "s", 1
					}
				}
			}
			stores = istores
			continue
		}
		// timers
		if len(its) != len(timers) {
			o.Fail("timer-set-changed", detail())
		} else {
			for i, p := range timers {
				nw := its[i]
				w := preds[i].want
				if nw.id != p.id || nw.start.Cmp(p.start) != 0 || nw.dur.Cmp(p.dur) != 0 {
					o.Fail("field-mutated-or-iter-order", detail())
					continue
				}
				// grid, always
				if nw.started {
					gridv := new(big.Int).Add(nw.start, new(big.Int).Mul(big.NewInt(nw.epoch-1), nw.dur))
					if gridv.Cmp(nw.curStart) != 0 {
						o.Fail("grid", detail())
					}
				}
				if nw.obs() == w.obs() {
					continue
				}
				changed := nw.obs() != p.obs()
				switch {
				case now.Cmp(p.start) < 0 && changed:
					o.Fail("tick-early:before-start", detail())
				case preds[i].tick == "initial":
					o.Fail("first-tick", detail())
				case nw.epoch > p.epoch+1:
					o.Fail("double-tick", detail())
				case preds[i].tick == "tick" && nw.epoch == p.epoch:
					o.Fail("tick-missed", detail())
				case preds[i].tick == "" && nw.epoch == p.epoch+1:
					if now.Cmp(new(big.Int).Add(p.curStart, p.dur)) == 0 {
						o.Fail("tick-early:at-end", detail())
					} else {
						o.Fail("tick-early", detail())
					}
				case nw.curStart.Cmp(w.curStart) != 0:
					o.Fail("grid", detail())
				case nw.height != w.height:
					o.Fail("start-height", detail())
				default:
					o.Fail("epoch-state:other", detail())
				}
			}
		}
		// canonical signal stream per timer (from the invocations of subscriber 0)
		if nsubs > 0 {
			for i := range timers {
				for _, c := range calls {
					if c.sub != 0 || c.id != timers[i].id {
						continue
					}
					if c.kind != timers[i].nextKind || c.n != timers[i].nextN {
						o.Fail("signal-order", detail()+fmt.Sprintf(" expected next %s%d for %s", timers[i].nextKind, timers[i].nextN, c.id))
					}
					if c.kind == "s" {
						timers[i].nextKind, timers[i].nextN = "e", c.n
					} else {
						timers[i].nextKind, timers[i].nextN = "s", c.n+1
					}
				}
			}
		}
		// containment
		if !epStoresEq(istores, wantStores) {
			key := "containment:other"
			switch {
			case epStoresEq(istores, errStores):
				key = "containment:err"
			case epStoresEq(istores, panicStores):
				key = "containment:panic"
			case epStoresEq(istores, stores):
				key = "ok-writes-lost"
			}
			o.Fail(key, detail()+fmt.Sprintf(" wantStores=%v", wantStores))
		}
		// adopt the implementation's state (per-transition checking, no cascades)
		if len(its) == len(timers) {
			for i := range timers {
				nk, nn := timers[i].nextKind, timers[i].nextN
				timers[i] = its[i]
				timers[i].nextKind, timers[i].nextN = nk, nn
			}
		}
		stores = istores

		if g.Intn(45) == 0 {
			epExportImport(o, e, now, height, timers)
		}
		if g.Intn(70) == 0 || b == nblocks-1 {
			dts, dst := e.readState(e.ctx)
			o.Emit("epochs dump", epObs(false, dts, dst, nil, nil, nil), false)
			if len(dts) != len(timers) || !epStoresEq(dst, stores) {
				o.Fail("commit-mismatch", detail())
			}
		}
	}
}

func isOogValue(v any) bool {
	switch v.(type) {
	case storetypes.ErrorOutOfGas, storetypes.ErrorGasOverflow:
		return true
	}
	return false
}

func epCallsEq(a, b []epCall) bool {
	if len(a) != len(b) {
		return false
	}
	for i := range a {
		if a[i] != b[i] {
			return false
		}
	}
	return true
}

func epSameMultiset(a, b []epCall) bool {
	if len(a) != len(b) {
		return false
	}
	m := map[epCall]int{}
	for _, c := range a {
		m[c]++
	}
	for _, c := range b {
		m[c]--
	}
	for _, v := range m {
		if v != 0 {
			return false
		}
	}
	return true
}

// epExportImport (C19): the REAL x/epochs ExportGenesis -> JSON -> every key of the epochs store deleted -> the REAL InitGenesis under a
// context with the current block time / height, in a cache context written back when nothing panicked; the blocks go on.  The
// observation is the `dump` line of the imported state.  Oracle: every field of every timer is what it was, except the one InitGenesis
// overwrites (AddEpochInfo: CurrentEpochStartHeight = the import height, F30); the subscribers' stores are not touched.
func epExportImport(o *Out, e *epEngine, now *big.Int, height int64, timers []epTimer) {
	cdc := codec.NewProtoCodec(codectypes.NewInterfaceRegistry())
	line := fmt.Sprintf("epochs exportimport %s %d", now, height)
	_, preStores := e.readState(e.ctx)
	cctx, write := e.ctx.WithBlockTime(epTime(now)).WithBlockHeight(height).WithGasMeter(storetypes.NewInfiniteGasMeter()).CacheContext()
	ok := catch(func() {
		bz := cdc.MustMarshalJSON(e.k.ExportGenesis(cctx))
		store := cctx.KVStore(e.epKey)
		var keys [][]byte
		it := store.Iterator(nil, nil)
		for ; it.Valid(); it.Next() {
			keys = append(keys, append([]byte{}, it.Key()...))
		}
		it.Close()
		for _, key := range keys {
			store.Delete(key)
		}
		var gs epochstypes.GenesisState
		cdc.MustUnmarshalJSON(bz, &gs)
		e.k.InitGenesis(cctx, gs)
	})
	if !ok {
		o.Emit(line, "panic", true)
		o.Fail("export-import:epochs:panics", line)
		return
	}
	write()
	its, ist := e.readState(e.ctx)
	o.Emit(line, epObs(false, its, ist, nil, nil, nil), true)
	o.Count("exportimport")
	if !epStoresEq(ist, preStores) {
		o.Fail("export-import:epochs:subscriber-stores-touched", line)
	}
	if len(its) != len(timers) {
		o.Fail("export-import:epochs:timer-count", fmt.Sprintf("%s: %d -> %d", line, len(timers), len(its)))
		return
	}
	var lost []string
	for i := range timers {
		was := timers[i]
		got := its[i]
		if got.height != was.height {
			lost = append(lost, fmt.Sprintf("%s: current_epoch_start_height %d -> %d", was.id, was.height, got.height))
		}
		was.height = got.height
		if got.obs() != was.obs() {
			o.Fail("export-import:epochs:timer-fields", fmt.Sprintf("%s: %s -> %s", line, timers[i].obs(), got.obs()))
		}
		timers[i].height = got.height
	}
	if len(lost) > 0 {
		o.Count("exportimport.start-height-overwritten")
		if os.Getenv("VERIF_EXPORT_IMPORT_LOSSES") != "count" {
			o.Fail("export-import:module-state:epochs:.epochs[].current_epoch_start_height", fmt.Sprintf("import at height %d: %s", height, strings.Join(lost, "; ")))
		}
	}
}
