package main

// Engine `math` (property C13): osmomath's approximate math against the Lean model
// (bit-exact) and against 700-bit references (the property's error bounds,
// monotonicity, least-ness of the monotone roots, search post-conditions, loud
// failure outside the domain).

import (
	"fmt"
	"math/big"
	"math/rand"

	"github.com/osmosis-labs/osmosis/osmomath"
)

func bigFloatOfRaw(raw *big.Int, scale *big.Int) *big.Float { return bfRat(raw, scale) }

// relErrLE: |got-want| <= tol*|want|
func relErrLE(got, want, tol *big.Float) bool {
	d := new(big.Float).SetPrec(refPrec).Sub(got, want)
	d.Abs(d)
	lim := new(big.Float).SetPrec(refPrec).Mul(new(big.Float).Abs(want), tol)
	return d.Cmp(lim) <= 0
}
func absErrLE(got, want, tol *big.Float) bool {
	d := new(big.Float).SetPrec(refPrec).Sub(got, want)
	d.Abs(d)
	return d.Cmp(tol) <= 0
}

func tolPow10(n int) *big.Float { return bfRat(big.NewInt(1), pow10(n)) }

func runMath(seed int64, n int, dir string) {
	g := &Gen{rand.New(rand.NewSource(seed))}
	o := NewOut(dir)
	one36 := p36
	for i := 0; i < n; i++ {
		switch k := g.Intn(100); {
		case k < 18: // monotone square roots
			big36 := g.Intn(2) == 0
			var d *big.Int
			switch g.Intn(6) {
			case 0:
				d = big.NewInt(int64(g.Intn(5)))
			case 1: // perfect squares +-1
				r := g.randBits(1 + g.Intn(120))
				d = new(big.Int).Mul(r, r)
				if big36 {
					d.Quo(d, p36)
				} else {
					d.Quo(d, p18)
				}
				d.Add(d, big.NewInt(int64(g.Intn(3)-1)))
			case 2:
				d = g.randBits(1 + g.Intn(250))
			case 3:
				d = pow10(g.Intn(70))
				d.Add(d, big.NewInt(int64(g.Intn(3)-1)))
			case 4:
				d = new(big.Int).Neg(g.randBits(1 + g.Intn(60)))
			default:
				d = g.randBits(1 + g.Intn(300))
			}
			if !big36 && d.BitLen() > 300 {
				d = g.randBits(250)
			}
			if g.Intn(12) == 0 { // up to the top of the type: 315 bits (Dec) / 1024 bits (BigDec), and exactly around it
				top := 315
				if big36 {
					top = 1024
				}
				if g.Intn(2) == 0 {
					d = g.randBits(top - g.Intn(16))
				} else {
					d = new(big.Int).Sub(pow2(top), big.NewInt(int64(1+g.Intn(3))))
				}
				o.Count("class.sqrt.top-of-range")
			}
			sqrtOne := func(d *big.Int) (bool, *big.Int) {
				if big36 {
					r, err := osmomath.MonotonicSqrtBigDec(bd(d))
					if err != nil {
						return false, nil
					}
					return true, r.BigInt()
				}
				r, err := osmomath.MonotonicSqrt(sd(d))
				if err != nil {
					return false, nil
				}
				return true, r.BigInt()
			}
			name, S := "sqrt", p18
			if big36 {
				name, S = "sqrtBig", p36
			}
			var ok bool
			var r *big.Int
			pk := catch(func() { ok, r = sqrtOne(new(big.Int).Set(d)) })
			line := fmt.Sprintf("math %s %s", name, d)
			o.Emit(line, obsInt(pk && ok, r), d.Sign() > 0)
			o.Count("op." + name)
			if d.Sign() < 0 {
				if pk && ok {
					o.Fail(name+":negative-accepted", line)
				}
				continue
			}
			if !pk || !ok {
				o.Fail(name+":nonneg-rejected", line)
				continue
			}
			v := new(big.Int).Mul(d, S)
			if new(big.Int).Mul(r, r).Cmp(v) < 0 {
				o.Fail(name+":square-below-input", line)
			}
			if r.Sign() > 0 {
				rm := new(big.Int).Sub(r, big.NewInt(1))
				if rm.Mul(rm, rm).Cmp(v) >= 0 {
					o.Fail(name+":not-least", line)
				}
			}
			// monotone on a neighbour
			d2 := new(big.Int).Add(d, big.NewInt(int64(1+g.Intn(3))))
			if ok2, r2 := sqrtOne(d2); ok2 && r2.Cmp(r) < 0 {
				o.Fail(name+":not-monotone", line)
			}
		case k < 34: // exp2
			var x *big.Int
			switch g.Intn(8) {
			case 0:
				x = new(big.Int).Mul(big.NewInt(int64(g.Intn(513))), one36) // integers incl. 512
			case 1:
				x = new(big.Int).Mul(big.NewInt(int64(g.Intn(512))), one36)
				x.Add(x, big.NewInt(int64(g.Intn(3)-1))) // integer +- 1ulp
			case 2:
				x = g.randBits(1 + g.Intn(120)) // [0, ~1.3)
			case 3:
				x = new(big.Int).Add(new(big.Int).Mul(big.NewInt(512), one36), big.NewInt(int64(g.Intn(3)))) // at/above max
			case 4:
				x = new(big.Int).Neg(g.randBits(1 + g.Intn(100)))
			default:
				x = new(big.Int).Rand(g.r, new(big.Int).Mul(big.NewInt(512), one36))
			}
			var r *big.Int
			ok := catch(func() { r = osmomath.Exp2(bd(x)).BigInt() })
			line := fmt.Sprintf("math exp2 %s", x)
			o.Emit(line, obsInt(ok, r), x.Sign() > 0)
			o.Count("op.exp2")
			inDomain := x.Sign() >= 0 && x.Cmp(new(big.Int).Mul(big.NewInt(512), one36)) <= 0
			if !inDomain {
				if ok {
					o.Fail("exp2:out-of-domain-accepted", line)
				}
				continue
			}
			if !ok {
				// 2^x·10^36 may exceed internal bounds only through the rational part; in-domain must succeed
				o.Fail("exp2:in-domain-panic", line)
				continue
			}
			want := exp2Ref(bigFloatOfRaw(x, one36))
			if !relErrLE(bigFloatOfRaw(r, one36), want, tolPow10(18)) {
				o.Fail("exp2:rel-error>1e-18", line+" got "+r.String())
			}
		case k < 52: // logs
			var x *big.Int
			switch g.Intn(8) {
			case 0:
				x = pow2(g.Intn(1100)) // exact powers of two (raw): value 2^k/10^36
			case 1:
				e := g.Intn(200) - 100
				x = new(big.Int).Set(one36)
				if e >= 0 {
					x.Lsh(x, uint(e))
				} else {
					x.Rsh(x, uint(-e))
				}
				x.Add(x, big.NewInt(int64(g.Intn(3)-1)))
			case 2:
				x = big.NewInt(int64(g.Intn(3) - 1)) // -1,0,1 raw
			case 3:
				x = g.randBits(1 + g.Intn(1100))
			case 4:
				x = new(big.Int).Add(one36, big.NewInt(int64(g.Intn(2000)-1000))) // around 1
			default:
				x = g.randBits(60 + g.Intn(200)) // "price-like"
			}
			which := g.Intn(10)
			name := "log2"
			if which == 7 {
				name = "ln"
			} else if which == 8 {
				name = "tickLog"
			} else if which == 9 {
				name = "customLog"
			}
			var r *big.Int
			var base *big.Int
			ok := false
			line := ""
			switch name {
			case "log2":
				ok = catch(func() { r = bd(x).LogBase2().BigInt() })
				line = fmt.Sprintf("math log2 %s", x)
			case "ln":
				ok = catch(func() { r = bd(x).Ln().BigInt() })
				line = fmt.Sprintf("math ln %s", x)
			case "tickLog":
				ok = catch(func() { r = bd(x).TickLog().BigInt() })
				line = fmt.Sprintf("math tickLog %s", x)
			default:
				base = g.randBits(100 + g.Intn(60))
				if g.Intn(6) == 0 {
					base = new(big.Int).Set(one36)
				}
				if g.Intn(8) == 0 {
					base = big.NewInt(0)
				}
				ok = catch(func() { r = bd(x).CustomBaseLog(bd(base)).BigInt() })
				line = fmt.Sprintf("math customLog %s %s", x, base)
			}
			o.Emit(line, obsInt(ok, r), x.Sign() > 0)
			o.Count("op." + name)
			if x.Sign() <= 0 {
				if ok {
					o.Fail(name+":nonpositive-accepted", line)
				}
				continue
			}
			if name == "customLog" && (base.Sign() <= 0 || base.Cmp(one36) == 0) {
				if ok {
					o.Fail("customLog:bad-base-accepted", line)
				}
				continue
			}
			if !ok {
				// division may overflow for customLog with base ~ 1; judge only log2/ln/tickLog
				if name != "customLog" {
					o.Fail(name+":in-domain-panic", line)
				}
				continue
			}
			l2 := log2Ref(bigFloatOfRaw(x, one36))
			got := bigFloatOfRaw(r, one36)
			tol := tolPow10(32)
			switch name {
			case "log2":
				if !absErrLE(got, l2, tol) {
					o.Fail("log2:abs-error>1e-32", line+" got "+r.String())
				}
			case "ln": // log2 / log2(e): error scaled by 1/log2 e (<1) + constant's own 1e-36 relative error
				want := lnRef(bigFloatOfRaw(x, one36))
				t := new(big.Float).SetPrec(refPrec).Add(tol, new(big.Float).Mul(new(big.Float).Abs(want), tolPow10(35)))
				if !absErrLE(got, want, t) {
					o.Fail("ln:abs-error", line+" got "+r.String())
				}
			case "tickLog": // scaled by 1/log2(1.0001) ~ 6932; constant given to 33 digits => relative 1e-29
				want := new(big.Float).SetPrec(refPrec).Quo(l2, log2Ref(bfRat(big.NewInt(10001), big.NewInt(10000))))
				// the property's bound: 1e-32 scaled by the base change, nothing else
				strict := new(big.Float).SetPrec(refPrec).Mul(tol, bf(6932))
				// what the 33-significant-digit constant tickLogOf2 can cost on top (relative 2e-33 of the result)
				t := new(big.Float).SetPrec(refPrec).Add(strict, new(big.Float).Mul(new(big.Float).Abs(want), tolPow10(28)))
				if !absErrLE(got, want, t) {
					o.Fail("tickLog:abs-error", line+" got "+r.String())
				} else if !absErrLE(got, want, strict) {
					// genuine deviation from the stated bound, explained by the constant's precision (Props/C13Log
					// tickLog_scaled_bound_witness): a keyed known finding, not tolerated silently
					o.Fail("tickLog:abs-error:within-constant-precision", line+" got "+r.String())
				}
			default:
				lb := log2Ref(bigFloatOfRaw(base, one36))
				want := new(big.Float).SetPrec(refPrec).Quo(l2, lb)
				// scaled by the base change: (1e-32 + |want|·1e-32)/|log2 base|
				t := new(big.Float).SetPrec(refPrec).Add(bf(1), new(big.Float).Abs(want))
				t.Mul(t, tol)
				t.Quo(t, new(big.Float).Abs(lb))
				t.Add(t, tolPow10(36))
				if !absErrLE(got, want, t) {
					o.Fail("customLog:abs-error", line+" got "+r.String())
				}
			}
		case k < 62: // sigfig
			var d *big.Int
			switch g.Intn(5) {
			case 0:
				d = g.randBits(1 + g.Intn(60))
			case 1:
				d = g.randBits(1 + g.Intn(270))
			case 2:
				d = big.NewInt(int64(g.Intn(3)))
			case 3: // tie construction: digits then 5 then zeros
				m := g.randBits(1 + g.Intn(40))
				d = new(big.Int).Mul(m, big.NewInt(10))
				d.Add(d, big.NewInt(5))
				d.Mul(d, pow10(g.Intn(20)))
			default:
				d = new(big.Int).Neg(g.randBits(1 + g.Intn(60)))
			}
			sf := g.Intn(12)
			t := pow10(sf)
			if g.Intn(20) == 0 {
				t = big.NewInt(0)
			}
			var r *big.Int
			ok := catch(func() { r = osmomath.SigFigRound(sd(d), osmomath.NewIntFromBigInt(t)).BigInt() })
			line := fmt.Sprintf("math sigfig %s %s", d, t)
			o.Emit(line, obsInt(ok, r), d.Sign() > 0)
			o.Count("op.sigfig")
			if d.Sign() < 0 || t.Sign() == 0 {
				continue // outside the documented domain (positive values)
			}
			if !ok {
				o.Fail("sigfig:in-domain-panic", line)
				continue
			}
			if d.Sign() == 0 {
				if r.Sign() != 0 {
					o.Fail("sigfig:zero", line)
				}
				continue
			}
			// k = number of x10 until >= 0.1 ; unit of last kept digit u = 1/(10^k * 10^sf) ; |r-d| <= u/2 (+ 1 ulp truncation)
			kk := 0
			dd := new(big.Int).Set(d)
			for dd.Cmp(pow10(17)) < 0 {
				dd.Mul(dd, big.NewInt(10))
				kk++
			}
			diff := new(big.Int).Sub(r, d)
			diff.Abs(diff)
			// 2*|r-d|/10^18 <= 1/10^(kk+sf)  (allowing the final truncation of QuoInt: +1 raw unit)
			lhs := new(big.Int).Mul(new(big.Int).Sub(diff, big.NewInt(1)), big.NewInt(2))
			lhs.Mul(lhs, pow10(kk+sf))
			if lhs.Cmp(p18) > 0 {
				o.Fail("sigfig:moved-more-than-half-unit", line+" got "+r.String())
			}
		case k < 80: // pow / powApprox
			var b, e *big.Int
			switch g.Intn(6) {
			case 0:
				b = new(big.Int).Add(p18, big.NewInt(int64(g.Intn(2000000)-1000000))) // ~1
			case 1:
				b = new(big.Int).Rand(g.r, new(big.Int).Mul(big.NewInt(2), p18)) // (0,2)
			case 2:
				b = new(big.Int).Add(new(big.Int).Rsh(p18, 1), new(big.Int).Rand(g.r, p18)) // [0.5,1.5)
			case 3:
				b = new(big.Int).Sub(new(big.Int).Mul(big.NewInt(2), p18), big.NewInt(int64(g.Intn(3)))) // 2, 2-ulp
			case 4:
				b = big.NewInt(int64(g.Intn(3) - 1))
			default:
				b = new(big.Int).Add(new(big.Int).Quo(new(big.Int).Mul(p18, big.NewInt(9)), big.NewInt(10)), new(big.Int).Rand(g.r, new(big.Int).Quo(p18, big.NewInt(5)))) // [0.9,1.1)
			}
			switch g.Intn(5) {
			case 0:
				e = new(big.Int).Rand(g.r, p18) // [0,1)
			case 1:
				e = new(big.Int).Quo(p18, big.NewInt(2)) // 0.5
			case 2:
				e = new(big.Int).Mul(big.NewInt(int64(g.Intn(5))), p18) // integer
			case 3:
				e = new(big.Int).Rand(g.r, new(big.Int).Mul(big.NewInt(4), p18))
			default:
				e = new(big.Int).Quo(new(big.Int).Mul(p18, big.NewInt(int64(1+g.Intn(99)))), big.NewInt(100))
			}
			// the series converges slowly when |base-1| > 0.9 (up to powIterationLimit = 150000 iterations, replayed by
			// the Lean driver too): keep that class to a small share of the cases
			if xx := new(big.Int).Abs(new(big.Int).Sub(b, p18)); b.Sign() > 0 && xx.Cmp(new(big.Int).Quo(new(big.Int).Mul(p18, big.NewInt(9)), big.NewInt(10))) > 0 && g.Intn(25) != 0 {
				b = new(big.Int).Add(new(big.Int).Rsh(p18, 1), new(big.Int).Rand(g.r, p18))
			}
			var r *big.Int
			ok := catch(func() { r = osmomath.Pow(sd(b), sd(e)).BigInt() })
			line := fmt.Sprintf("math pow %s %s", b, e)
			o.Emit(line, obsInt(ok, r), true)
			o.Count("op.pow")
			inDomain := b.Sign() > 0 && b.Cmp(new(big.Int).Mul(big.NewInt(2), p18)) < 0
			if !inDomain {
				if ok {
					o.Fail("pow:out-of-domain-accepted", line)
				}
				continue
			}
			if !ok {
				o.Count("pow.in-domain-panic")
				o.Fail(powClass(b)+":in-domain-panic", line)
				continue
			}
			want := powRef(bigFloatOfRaw(b, p18), bigFloatOfRaw(e, p18))
			// documented power precision 1e-8, relative to the integer-power factor
			tol := bfRat(big.NewInt(1), pow10(8))
			scale := new(big.Float).SetPrec(refPrec).Add(bf(1), want)
			if !absErrLE(bigFloatOfRaw(r, p18), want, new(big.Float).Mul(tol, scale)) {
				o.Fail(powClass(b)+":error>powPrecision", line+" got "+r.String())
			}
		default: // binary searches and Compare
			runSearchCase(g, o)
		}
	}
	o.Close(nil)
}

func powClass(b *big.Int) string {
	// class by distance of the base from 1 (convergence speed of the series)
	x := new(big.Int).Sub(b, p18)
	neg := x.Sign() < 0
	x.Abs(x)
	c := "pow:base"
	if neg {
		c += "<1"
	} else {
		c += ">=1"
	}
	switch {
	case x.Cmp(new(big.Int).Quo(p18, big.NewInt(2))) <= 0:
		c += ":|x|<=0.5"
	case x.Cmp(new(big.Int).Quo(new(big.Int).Mul(p18, big.NewInt(9)), big.NewInt(10))) <= 0:
		c += ":0.5<|x|<=0.9"
	default:
		c += ":|x|>0.9"
	}
	return c
}

func decOrNil(g *Gen, o *Out, max int) (osmomath.Dec, string) {
	switch g.Intn(4) {
	case 0:
		return osmomath.Dec{}, "nil"
	case 1:
		return osmomath.ZeroDec(), "0"
	default:
		v := g.randBits(1 + g.Intn(max))
		return sd(v), v.String()
	}
}

func runSearchCase(g *Gen, o *Out) {
	addT, addS := decOrNil(g, o, 80)
	mulT, mulS := decOrNil(g, o, 58)
	dir := g.Intn(4)
	tol := osmomath.ErrTolerance{AdditiveTolerance: addT, MultiplicativeTolerance: mulT, RoundingDir: osmomath.RoundingDirection(dir)}
	switch g.Intn(4) {
	case 0: // Compare on Ints
		e := g.genRaw(120, o, "cmp")
		a := new(big.Int).Add(e, big.NewInt(int64(g.Intn(2001)-1000)))
		if g.Intn(3) == 0 {
			a = g.genRaw(120, o, "cmp")
		}
		var r int
		ok := catch(func() { r = tol.Compare(osmomath.NewIntFromBigInt(e), osmomath.NewIntFromBigInt(a)) })
		o.Emit(fmt.Sprintf("math compare %s %s %s %s %d", e, a, addS, mulS, dir), obsInt(ok, big.NewInt(int64(r))), true)
		o.Count("op.compare")
	case 1:
		e := g.genRaw(300, o, "cmp")
		a := new(big.Int).Add(e, new(big.Int).Sub(g.randBits(1+g.Intn(130)), g.randBits(1+g.Intn(130))))
		var r int
		ok := catch(func() { r = tol.CompareBigDec(bd(e), bd(a)) })
		o.Emit(fmt.Sprintf("math compareBig %s %s %s %s %d", e, a, addS, mulS, dir), obsInt(ok, big.NewInt(int64(r))), true)
		o.Count("op.compareBig")
	case 2: // BinarySearch over Ints
		kinds := []string{"lin", "sq", "cub", "errAbove"}
		kind := kinds[g.Intn(len(kinds))]
		a := big.NewInt(int64(1 + g.Intn(1000)))
		b := big.NewInt(int64(g.Intn(2000) - 1000))
		lo := big.NewInt(int64(g.Intn(1000)))
		hi := new(big.Int).Add(lo, g.randBits(1+g.Intn(60)))
		target := g.randBits(1 + g.Intn(150))
		if g.Intn(2) == 0 { // reachable target
			x := new(big.Int).Add(lo, new(big.Int).Rand(g.r, new(big.Int).Add(new(big.Int).Sub(hi, lo), big.NewInt(1))))
			target = evalF(kind, a, b, x)
		}
		iters := g.Intn(90)
		f := func(x osmomath.Int) (osmomath.Int, error) {
			xb := x.BigInt()
			if kind == "errAbove" {
				if xb.Cmp(a) > 0 {
					return osmomath.Int{}, fmt.Errorf("err")
				}
				return x, nil
			}
			return osmomath.NewIntFromBigInt(evalF(kind, a, b, xb)), nil
		}
		var r osmomath.Int
		var err error
		ok := catch(func() {
			r, err = osmomath.BinarySearch(f, osmomath.NewIntFromBigInt(lo), osmomath.NewIntFromBigInt(hi), osmomath.NewIntFromBigInt(target), tol, iters)
		})
		obs := "panic"
		if ok && err == nil {
			obs = "ok " + r.String()
		} else if ok && err.Error() == "err" {
			obs = "panic" // f failed: model maps every failure of f to the same class
		} else if ok {
			obs = "noconv"
		}
		line := fmt.Sprintf("math bsearch %s %s %s %s %s %s %s %s %d %d", kind, a, b, lo, hi, target, addS, mulS, dir, iters)
		o.Emit(line, obs, true)
		o.Count("op.bsearch." + obs[:2])
		if ok && err == nil {
			// post-condition: image meets the tolerance on the requested side; estimate within [lo,hi]
			x := r.BigInt()
			if x.Cmp(lo) < 0 || x.Cmp(hi) > 0 {
				o.Fail("bsearch:estimate-out-of-bounds", line)
			}
			fx, _ := f(r)
			if !refWithinTolerance(new(big.Rat).SetInt(target), new(big.Rat).SetInt(fx.BigInt()), addS, mulS, p18, dir) {
				o.Fail("bsearch:postcondition", line)
			}
			if dir == 1 && fx.BigInt().Cmp(target) < 0 {
				o.Fail("bsearch:wrong-side-up", line)
			}
			if dir == 2 && fx.BigInt().Cmp(target) > 0 {
				o.Fail("bsearch:wrong-side-down", line)
			}
		}
	default: // BinarySearchBigDec
		kind := []string{"lin", "sq"}[g.Intn(2)]
		a := g.randBits(100 + g.Intn(40))
		b := new(big.Int).Sub(g.randBits(1+g.Intn(130)), g.randBits(1+g.Intn(130)))
		lo := g.randBits(1 + g.Intn(125))
		hi := new(big.Int).Add(lo, g.randBits(1+g.Intn(140)))
		fb := func(x osmomath.BigDec) osmomath.BigDec {
			if kind == "lin" {
				return bd(a).Mul(x).Add(bd(b))
			}
			return x.Mul(x).Add(bd(b))
		}
		target := g.randBits(1 + g.Intn(300))
		if g.Intn(2) == 0 {
			x := new(big.Int).Add(lo, new(big.Int).Rand(g.r, new(big.Int).Add(new(big.Int).Sub(hi, lo), big.NewInt(1))))
			target = fb(bd(x)).BigInt()
		}
		iters := g.Intn(300)
		var r osmomath.BigDec
		var err error
		ok := catch(func() { r, err = osmomath.BinarySearchBigDec(fb, bd(lo), bd(hi), bd(target), tol, iters) })
		obs := "panic"
		if ok && err == nil {
			obs = "ok " + r.BigInt().String()
		} else if ok {
			obs = "noconv"
		}
		line := fmt.Sprintf("math bsearchBig %s %s %s %s %s %s %s %s %d %d", kind, a, b, lo, hi, target, addS, mulS, dir, iters)
		o.Emit(line, obs, true)
		o.Count("op.bsearchBig." + obs[:2])
		if ok && err == nil {
			x := r.BigInt()
			if x.Cmp(lo) < 0 || x.Cmp(hi) > 0 {
				o.Fail("bsearchBig:estimate-out-of-bounds", line)
			}
			if !refWithinTolerance(new(big.Rat).SetFrac(target, p36), new(big.Rat).SetFrac(fb(r).BigInt(), p36), addS, mulS, p18, dir) {
				o.Fail("bsearchBig:postcondition", line)
			}
		}
	}
}

// refWithinTolerance: the documented meaning of ErrTolerance.Compare == 0, in exact rationals and independent of the
// code under test: requested side respected; |e-a| <= additive (when given); |e-a|/min(|e|,|a|) <= multiplicative
// (when given and non-zero; a zero minimum is never within a multiplicative tolerance unless e == a under additive 0).
func refWithinTolerance(e, a *big.Rat, addS, mulS string, scale *big.Int, dir int) bool {
	if dir == 2 && e.Cmp(a) < 0 {
		return false
	}
	if dir == 1 && e.Cmp(a) > 0 {
		return false
	}
	diff := new(big.Rat).Sub(e, a)
	diff.Abs(diff)
	if addS != "nil" {
		add, _ := new(big.Int).SetString(addS, 10)
		if add.Sign() == 0 && e.Cmp(a) == 0 {
			return true
		}
		if diff.Cmp(new(big.Rat).SetFrac(add, scale)) > 0 {
			return false
		}
	}
	if mulS != "nil" && mulS != "0" {
		mul, _ := new(big.Int).SetString(mulS, 10)
		mn := new(big.Rat).Abs(e)
		if x := new(big.Rat).Abs(a); x.Cmp(mn) < 0 {
			mn = x
		}
		if mn.Sign() == 0 {
			// relative error against zero is undefined; an image that equals the target exactly meets every tolerance
			return diff.Sign() == 0
		}
		// the code compares the half-even 18/36-decimal quotient; allow one unit of that rounding
		q := new(big.Rat).Quo(diff, mn)
		lim := new(big.Rat).SetFrac(mul, scale)
		slack := new(big.Rat).SetFrac(big.NewInt(1), new(big.Int).Mul(scale, big.NewInt(1)))
		if q.Cmp(new(big.Rat).Add(lim, slack)) > 0 {
			return false
		}
	}
	return true
}

func evalF(kind string, a, b, x *big.Int) *big.Int {
	r := new(big.Int).Set(x)
	switch kind {
	case "lin":
		r.Mul(r, a)
	case "sq":
		r.Mul(r, x).Mul(r, a)
	case "cub":
		r.Mul(r, x).Mul(r, x).Mul(r, a)
	case "errAbove":
		return r
	}
	return r.Add(r, b)
}
