package main

// Engine `gammmath` (property C04): the balancer and stableswap pool models of x/gamm, driven in memory
// (no app), against the Lean model (bit-exact, stateless op lines that carry the whole pool) and against
// independent oracles (gammoracle.go): exact rationals for the stableswap invariant and for all
// proportional-share bounds, 700-bit floats for the weighted product per share and the exact
// constant-weighted-product formula.

import (
	"fmt"
	"math/big"
	"math/rand"
	"sort"
	"strings"

	storetypes "cosmossdk.io/store/types"
	sdk "github.com/cosmos/cosmos-sdk/types"

	"github.com/osmosis-labs/osmosis/osmomath"
	"github.com/osmosis-labs/osmosis/v31/x/gamm/pool-models/balancer"
	"github.com/osmosis-labs/osmosis/v31/x/gamm/pool-models/stableswap"
	gammtypes "github.com/osmosis-labs/osmosis/v31/x/gamm/types"
)

var gDenoms = []string{"tka", "tkb", "tkc", "tkd", "tke", "tkf", "tkg", "tkh"}

type gCoin struct {
	d string
	a *big.Int
}

type gAsset struct {
	d  string
	r  *big.Int
	w  int64  // balancer: user weight (internal weight = w * GuaranteedWeightPrecision)
	sf uint64 // stableswap: scaling factor
}

type gPool struct {
	ss      bool
	assets  []gAsset
	total   *big.Int
	swapFee *big.Int // raw Dec (balancer pool params)
	exitFee *big.Int
}

func (p *gPool) clone() *gPool {
	q := &gPool{ss: p.ss, total: new(big.Int).Set(p.total)}
	if p.swapFee != nil {
		q.swapFee, q.exitFee = new(big.Int).Set(p.swapFee), new(big.Int).Set(p.exitFee)
	}
	for _, a := range p.assets {
		q.assets = append(q.assets, gAsset{a.d, new(big.Int).Set(a.r), a.w, a.sf})
	}
	return q
}

func (p *gPool) idx(d string) int {
	for i, a := range p.assets {
		if a.d == d {
			return i
		}
	}
	return -1
}

func (p *gPool) totalW() int64 {
	var s int64
	for _, a := range p.assets {
		s += a.w
	}
	return s
}

// enc: the pool as it travels in the op line.
func (p *gPool) enc() string {
	var sb strings.Builder
	fmt.Fprintf(&sb, "%d", len(p.assets))
	for _, a := range p.assets {
		if p.ss {
			fmt.Fprintf(&sb, " %s %s %d", a.d, a.r, a.sf)
		} else {
			fmt.Fprintf(&sb, " %s %s %d", a.d, a.r, a.w)
		}
	}
	fmt.Fprintf(&sb, " %s", p.total)
	if !p.ss {
		fmt.Fprintf(&sb, " %s %s", p.swapFee, p.exitFee)
	}
	return sb.String()
}

func (p *gPool) show() string {
	var parts []string
	for _, a := range p.assets {
		parts = append(parts, a.d+"="+a.r.String())
	}
	return "[" + strings.Join(parts, ",") + ";T=" + p.total.String() + "]"
}

func encCoins(cs []gCoin) string {
	var sb strings.Builder
	fmt.Fprintf(&sb, "%d", len(cs))
	for _, c := range cs {
		fmt.Fprintf(&sb, " %s %s", c.d, c.a)
	}
	return sb.String()
}

func showGCoins(cs sdk.Coins) string {
	var parts []string
	for _, c := range cs {
		parts = append(parts, c.Denom+"="+c.Amount.String())
	}
	return strings.Join(parts, ",")
}

func toSDK(cs []gCoin) sdk.Coins {
	out := make(sdk.Coins, 0, len(cs))
	for _, c := range cs {
		out = append(out, sdk.Coin{Denom: c.d, Amount: osmomath.NewIntFromBigInt(c.a)})
	}
	return out
}

var gCtx = sdk.Context{}.WithGasMeter(storetypes.NewInfiniteGasMeter())

// realBal builds the real balancer pool from plain data exactly as SetInitialPoolAssets would
// (internal weight = user weight * GuaranteedWeightPrecision, total weight = sum), without the
// constructor's validation so that degenerate states (zero reserves) are reachable too.
func (p *gPool) realBal() *balancer.Pool {
	tw := osmomath.ZeroInt()
	var as []balancer.PoolAsset
	for _, a := range p.assets {
		w := osmomath.NewInt(a.w).MulRaw(balancer.GuaranteedWeightPrecision)
		tw = tw.Add(w)
		as = append(as, balancer.PoolAsset{Token: sdk.Coin{Denom: a.d, Amount: osmomath.NewIntFromBigInt(a.r)}, Weight: w})
	}
	return &balancer.Pool{
		Address: "", Id: 1,
		PoolParams:  balancer.PoolParams{SwapFee: sd(p.swapFee), ExitFee: sd(p.exitFee)},
		TotalWeight: tw,
		TotalShares: sdk.Coin{Denom: gammtypes.GetPoolShareDenom(1), Amount: osmomath.NewIntFromBigInt(p.total)},
		PoolAssets:  as,
	}
}

func (p *gPool) readBal(r *balancer.Pool) *gPool {
	q := p.clone()
	for i := range q.assets {
		q.assets[i].r = r.PoolAssets[i].Token.Amount.BigInt()
	}
	q.total = r.TotalShares.Amount.BigInt()
	return q
}

func (p *gPool) realSS() *stableswap.Pool {
	var liq sdk.Coins
	var sfs []uint64
	for _, a := range p.assets {
		liq = append(liq, sdk.Coin{Denom: a.d, Amount: osmomath.NewIntFromBigInt(a.r)})
		sfs = append(sfs, a.sf)
	}
	return &stableswap.Pool{
		Address: "", Id: 1,
		PoolParams:     stableswap.PoolParams{SwapFee: osmomath.ZeroDec(), ExitFee: osmomath.ZeroDec()},
		TotalShares:    sdk.Coin{Denom: gammtypes.GetPoolShareDenom(1), Amount: osmomath.NewIntFromBigInt(p.total)},
		PoolLiquidity:  liq,
		ScalingFactors: sfs,
	}
}

func (p *gPool) readSS(r *stableswap.Pool) (*gPool, bool) {
	q := p.clone()
	if len(r.PoolLiquidity) != len(q.assets) {
		return q, false
	}
	for i := range q.assets {
		if r.PoolLiquidity[i].Denom != q.assets[i].d {
			return q, false
		}
		q.assets[i].r = r.PoolLiquidity[i].Amount.BigInt()
	}
	q.total = r.TotalShares.Amount.BigInt()
	return q, true
}

// gCall runs f; "ok"/"err"/"panic".
func gCall(f func() error) string {
	var err error
	if !catch(func() { err = f() }) {
		return "panic"
	}
	if err != nil {
		return "err"
	}
	return "ok"
}

// ---------------------------------------------------------------- generators

func (g *Gen) pick(xs ...int64) int64 { return xs[g.Intn(len(xs))] }

// magnitude-stratified positive integer in [1, 10^maxExp]
func (g *Gen) amount(maxExp int) *big.Int {
	e := g.Intn(maxExp + 1)
	lo := pow10(e)
	var v *big.Int
	switch g.Intn(4) {
	case 0:
		v = lo
	case 1:
		v = new(big.Int).Add(lo, big.NewInt(int64(g.Intn(3))))
	default:
		v = new(big.Int).Add(lo, new(big.Int).Rand(g.r, new(big.Int).Mul(lo, big.NewInt(9))))
	}
	if v.Cmp(pow10(maxExp)) > 0 {
		v = pow10(maxExp)
	}
	return v
}

func (g *Gen) fee() *big.Int {
	switch g.Intn(10) {
	case 0, 1, 2:
		return big.NewInt(0)
	case 3:
		return pow10(15) // 0.001
	case 4:
		return new(big.Int).Mul(big.NewInt(3), pow10(15))
	case 5:
		return pow10(16)
	case 6:
		return pow10(17)
	case 7:
		return new(big.Int).Mul(big.NewInt(int64(1+g.Intn(99))), pow10(16)) // 0.01 .. 0.99
	case 8:
		return big.NewInt(int64(1 + g.Intn(1000))) // a few ulps
	default:
		return new(big.Int).Rand(g.r, new(big.Int).Quo(p18, big.NewInt(10))) // [0, 0.1) with 18 decimals
	}
}

func (g *Gen) weight() int64 {
	switch g.Intn(8) {
	case 0, 1:
		return 1
	case 2:
		return g.pick(2, 3, 4, 5, 10)
	case 3:
		return g.pick(100, 1000, 10000, 100000)
	case 4:
		return 1000000
	case 5:
		return (1 << 20) - 1
	default:
		return int64(1 + g.Intn(1000))
	}
}

func (g *Gen) nAssets() int {
	switch g.Intn(6) {
	case 0, 1, 2:
		return 2
	case 3:
		return 3
	case 4:
		return 4 + g.Intn(4)
	default:
		return 8
	}
}

func (g *Gen) shares() *big.Int {
	switch g.Intn(5) {
	case 0, 1, 2:
		return gammtypes.InitPoolSharesSupply.BigInt()
	case 3:
		return new(big.Int).Add(gammtypes.InitPoolSharesSupply.BigInt(), g.amount(30))
	default:
		return g.amount(32)
	}
}

// balancer pool: reserves 1..10^30 (balanced or strongly unbalanced), weights 1:1 .. 1:10^6.
func (g *Gen) balPool(o *Out) *gPool {
	n := g.nAssets()
	p := &gPool{total: g.shares(), swapFee: g.fee(), exitFee: big.NewInt(0)}
	if g.Intn(5) == 0 {
		p.exitFee = g.fee()
	}
	shape := g.Intn(4)
	base := g.amount(30)
	// magnitude class of the pool: reserves x 10^9 (around 2^128), x 10^30 (around 2^200), x 10^45 (up to 2^249, Dec holds < 2^256)
	boost := big.NewInt(1)
	if k := g.Intn(100); k < 9 {
		boost = pow10([]int{9, 30, 45}[k%3])
		o.Count(fmt.Sprintf("class.bal.reserves-x1e%d", []int{9, 30, 45}[k%3]))
	}
	equalW := g.Intn(3) == 0
	w0 := g.weight()
	for i := 0; i < n; i++ {
		var r *big.Int
		switch shape {
		case 0: // balanced
			r = new(big.Int).Add(base, new(big.Int).Rand(g.r, new(big.Int).Add(new(big.Int).Quo(base, big.NewInt(10)), big.NewInt(1))))
		case 1: // strongly unbalanced
			r = g.amount(30)
		case 2: // tiny reserves
			r = big.NewInt(int64(1 + g.Intn(1000)))
		default:
			r = g.amount(18)
		}
		w := g.weight()
		if equalW {
			w = w0
		}
		if boost.BitLen() > 1 {
			r = new(big.Int).Mul(r, boost)
			if g.Intn(4) == 0 {
				r.Add(r, new(big.Int).Rand(g.r, boost))
			}
		}
		p.assets = append(p.assets, gAsset{d: gDenoms[i], r: r, w: w})
	}
	o.Count(fmt.Sprintf("bal.pool.n=%d", n))
	o.Count(fmt.Sprintf("bal.pool.shape=%d", shape))
	return p
}

func (g *Gen) scalingFactor() uint64 {
	switch g.Intn(6) {
	case 0, 1:
		return 1
	case 2:
		return uint64(g.pick(10, 100, 1000, 1000000, 1000000000))
	case 3:
		return uint64(1 + g.Intn(1000))
	case 4:
		return uint64(1 + g.Intn(1000000000))
	default:
		return uint64(g.pick(2, 3, 7, 999999937))
	}
}

// stableswap pool: scaled reserves in [1, 10^30/sf], scaling factors 1..10^9.
func (g *Gen) ssPool(o *Out) *gPool {
	n := g.nAssets()
	p := &gPool{ss: true, total: g.shares()}
	shape := g.Intn(4)
	baseExp := 1 + g.Intn(21)
	top := 30
	if g.Intn(100) < 8 { // scaled reserves up to the documented bound 10^34 of the pool (beyond: rejected)
		top, baseExp = 34, 30+g.Intn(5)
		o.Count("class.ss.scaled-near-1e34")
	}
	for i := 0; i < n; i++ {
		sf := g.scalingFactor()
		maxScaledExp := top - len(fmt.Sprint(sf)) + 1
		var scaled *big.Int
		switch shape {
		case 0, 1: // near the peg
			e := baseExp
			if e > maxScaledExp {
				e = maxScaledExp
			}
			b := pow10(e)
			scaled = new(big.Int).Add(b, new(big.Int).Rand(g.r, new(big.Int).Add(new(big.Int).Quo(b, big.NewInt(5)), big.NewInt(1))))
		case 2: // strongly unbalanced
			scaled = g.amount(maxScaledExp)
		default: // tiny
			scaled = big.NewInt(int64(1 + g.Intn(1000)))
		}
		r := new(big.Int).Mul(scaled, new(big.Int).SetUint64(sf))
		if sf > 1 && g.Intn(2) == 0 {
			r.Add(r, new(big.Int).Rand(g.r, new(big.Int).SetUint64(sf))) // not a multiple of the scaling factor
		}
		p.assets = append(p.assets, gAsset{d: gDenoms[i], r: r, sf: sf})
	}
	o.Count(fmt.Sprintf("ss.pool.n=%d", n))
	o.Count(fmt.Sprintf("ss.pool.shape=%d", shape))
	return p
}

// trade size relative to a reserve: 1 unit … beyond the reserve.
func (g *Gen) tradeSize(res *big.Int, exactOut bool, o *Out, tag string) *big.Int {
	k := g.Intn(100)
	frac := func(num, den int64) *big.Int {
		v := new(big.Int).Mul(res, big.NewInt(num))
		v.Quo(v, big.NewInt(den))
		if v.Sign() == 0 {
			v = big.NewInt(1)
		}
		return v
	}
	var v *big.Int
	var cls string
	switch {
	case k < 8:
		v, cls = big.NewInt(int64(1+g.Intn(3))), "unit"
	case k < 20:
		v, cls = frac(1, 1000000), "1e-6"
	case k < 35:
		v, cls = frac(int64(1+g.Intn(99)), 10000), "<1%"
	case k < 55:
		v, cls = frac(int64(1+g.Intn(30)), 100), "<30%"
	case k < 70:
		v, cls = frac(int64(30+g.Intn(18)), 100), "30-48%"
	case k < 76:
		v, cls = frac(int64(4800+g.Intn(200)), 10000), "48-50%"
	case k < 80:
		v, cls = frac(1, 2), "=50%"
	case k < 88:
		v, cls = frac(int64(50+g.Intn(45)), 100), "50-95%"
	case k < 92:
		v, cls = frac(int64(95+g.Intn(5)), 100), "95-99%"
	case k < 94:
		v, cls = new(big.Int).Sub(res, big.NewInt(int64(g.Intn(2)))), ">=res-1"
	case k < 98:
		v, cls = frac(int64(100+g.Intn(800)), 100), "1x-9x"
	case k < 99:
		v, cls = frac(int64(10+g.Intn(90)), 1), "10x-100x"
	default:
		v, cls = new(big.Int).Rand(g.r, new(big.Int).Add(res, big.NewInt(1))), "uniform"
	}
	if v.Sign() == 0 {
		v = big.NewInt(1)
	}
	o.Count(tag + ".size=" + cls)
	return v
}

func (g *Gen) twoDenoms(p *gPool, o *Out) (string, string) {
	n := len(p.assets)
	i := g.Intn(n)
	j := g.Intn(n - 1)
	if j >= i {
		j++
	}
	a, b := p.assets[i].d, p.assets[j].d
	switch g.Intn(60) {
	case 0:
		b = a
	case 1:
		b = "zzz"
	case 2:
		a = "zzz"
	}
	return a, b
}

// ---------------------------------------------------------------- balancer ops

type balRes struct {
	obs  string // ok/err/panic
	val  *big.Int
	post *gPool
	cs   sdk.Coins
}

func balSwapOut(p *gPool, in []gCoin, dOut string, spread *big.Int, mut bool) balRes {
	r := p.realBal()
	var out sdk.Coin
	st := gCall(func() (err error) {
		if mut {
			out, err = r.SwapOutAmtGivenIn(gCtx, toSDK(in), dOut, sd(spread))
		} else {
			out, err = r.CalcOutAmtGivenIn(gCtx, toSDK(in), dOut, sd(spread))
		}
		return
	})
	res := balRes{obs: st}
	if st == "ok" {
		res.val = out.Amount.BigInt()
		res.post = p.readBal(r)
	}
	return res
}

func balSwapIn(p *gPool, out []gCoin, dIn string, spread *big.Int, mut bool) balRes {
	r := p.realBal()
	var in sdk.Coin
	st := gCall(func() (err error) {
		if mut {
			in, err = r.SwapInAmtGivenOut(gCtx, toSDK(out), dIn, sd(spread))
		} else {
			in, err = r.CalcInAmtGivenOut(gCtx, toSDK(out), dIn, sd(spread))
		}
		return
	})
	res := balRes{obs: st}
	if st == "ok" {
		res.val = in.Amount.BigInt()
		res.post = p.readBal(r)
	}
	return res
}

// kind: 0 CalcJoinPoolShares, 1 CalcJoinPoolNoSwapShares, 2 JoinPool, 3 JoinPoolNoSwap
func balJoin(p *gPool, in []gCoin, spread *big.Int, kind int) balRes {
	r := p.realBal()
	var sh osmomath.Int
	var cs sdk.Coins
	st := gCall(func() (err error) {
		switch kind {
		case 0:
			sh, cs, err = r.CalcJoinPoolShares(gCtx, toSDK(in), sd(spread))
		case 1:
			sh, cs, err = r.CalcJoinPoolNoSwapShares(gCtx, toSDK(in), sd(spread))
		case 2:
			sh, err = r.JoinPool(gCtx, toSDK(in), sd(spread))
		default:
			sh, err = r.JoinPoolNoSwap(gCtx, toSDK(in), sd(spread))
		}
		return
	})
	res := balRes{obs: st}
	if st == "ok" {
		res.val = sh.BigInt()
		res.cs = cs
		res.post = p.readBal(r)
	}
	return res
}

func balExit(p *gPool, shares, fee *big.Int, mut bool) balRes {
	r := p.realBal()
	var cs sdk.Coins
	st := gCall(func() (err error) {
		if mut {
			cs, err = r.ExitPool(gCtx, osmomath.NewIntFromBigInt(shares), sd(fee))
		} else {
			cs, err = r.CalcExitPoolCoinsFromShares(gCtx, osmomath.NewIntFromBigInt(shares), sd(fee))
		}
		return
	})
	res := balRes{obs: st}
	if st == "ok" {
		res.cs = cs
		res.post = p.readBal(r)
	}
	return res
}

func balTokenInShareOut(p *gPool, d string, shares, spread *big.Int, mut bool) balRes {
	r := p.realBal()
	var amt osmomath.Int
	st := gCall(func() (err error) {
		amt, err = r.CalcTokenInShareAmountOut(gCtx, d, osmomath.NewIntFromBigInt(shares), sd(spread))
		if err == nil && mut {
			// the pool part of keeper.JoinSwapShareAmountOut
			r.IncreaseLiquidity(osmomath.NewIntFromBigInt(shares), sdk.NewCoins(sdk.NewCoin(d, amt)))
		}
		return
	})
	res := balRes{obs: st}
	if st == "ok" {
		res.val = amt.BigInt()
		res.post = p.readBal(r)
	}
	return res
}

func balExitSwapOut(p *gPool, d string, amt, maxShares *big.Int) balRes {
	r := p.realBal()
	var sh osmomath.Int
	st := gCall(func() (err error) {
		sh, err = r.ExitSwapExactAmountOut(gCtx, sdk.Coin{Denom: d, Amount: osmomath.NewIntFromBigInt(amt)}, osmomath.NewIntFromBigInt(maxShares))
		return
	})
	res := balRes{obs: st}
	if st == "ok" {
		res.val = sh.BigInt()
		res.post = p.readBal(r)
	}
	return res
}

func obsVal(r balRes) string {
	if r.obs != "ok" {
		return r.obs
	}
	return "ok " + r.val.String()
}
func obsValPool(r balRes) string {
	if r.obs != "ok" {
		return r.obs
	}
	return "ok " + r.val.String() + " " + r.post.show()
}
func obsValCoins(r balRes) string {
	if r.obs != "ok" {
		return r.obs
	}
	return "ok " + r.val.String() + " " + showGCoins(r.cs)
}
func obsCoins(r balRes) string {
	if r.obs != "ok" {
		return r.obs
	}
	return "ok " + showGCoins(r.cs)
}
func obsCoinsPool(r balRes) string {
	if r.obs != "ok" {
		return r.obs
	}
	return "ok " + showGCoins(r.cs) + " " + r.post.show()
}

// join coins: all assets (proportional with noise, or arbitrary), a single asset, or malformed.
func (g *Gen) joinCoins(p *gPool, o *Out, tag string) []gCoin {
	n := len(p.assets)
	k := g.Intn(20)
	switch {
	case k < 9: // all assets
		var cs []gCoin
		mode := g.Intn(3)
		num := int64(1 + g.Intn(2000))
		for _, a := range p.assets {
			var v *big.Int
			switch mode {
			case 0: // proportional, then perturbed
				v = new(big.Int).Mul(a.r, big.NewInt(num))
				v.Quo(v, big.NewInt(1000))
				v.Add(v, big.NewInt(int64(g.Intn(3))))
			case 1:
				v = g.tradeSize(a.r, false, o, tag)
			default:
				v = g.amount(20)
			}
			if v.Sign() <= 0 {
				v = big.NewInt(1)
			}
			cs = append(cs, gCoin{a.d, v})
		}
		o.Count(tag + ".coins=all")
		return cs
	case k < 17: // single asset
		a := p.assets[g.Intn(n)]
		o.Count(tag + ".coins=single")
		return []gCoin{{a.d, g.tradeSize(a.r, false, o, tag)}}
	case k < 18: // a strict subset of size >= 2 (only possible for n >= 3) or a foreign denom
		if n >= 3 {
			o.Count(tag + ".coins=subset")
			return []gCoin{{p.assets[0].d, big.NewInt(int64(1 + g.Intn(1000)))}, {p.assets[1].d, big.NewInt(int64(1 + g.Intn(1000)))}}
		}
		o.Count(tag + ".coins=foreign")
		return []gCoin{{"zzz", big.NewInt(5)}}
	case k < 19:
		o.Count(tag + ".coins=foreign")
		return []gCoin{{"zzz", big.NewInt(int64(1 + g.Intn(100)))}}
	default:
		o.Count(tag + ".coins=empty")
		return nil
	}
}

func (g *Gen) exitShares(p *gPool, o *Out, tag string) *big.Int {
	k := g.Intn(40)
	switch {
	case k < 2:
		o.Count(tag + ".shares>=total")
		return new(big.Int).Add(p.total, big.NewInt(int64(g.Intn(2))))
	case k < 3:
		o.Count(tag + ".shares=total-1")
		return new(big.Int).Sub(p.total, big.NewInt(1))
	case k < 4:
		o.Count(tag + ".shares<=0")
		return big.NewInt(int64(-g.Intn(2)))
	case k < 8:
		o.Count(tag + ".shares=tiny")
		return big.NewInt(int64(1 + g.Intn(1000)))
	default:
		o.Count(tag + ".shares=fraction")
		v := new(big.Int).Mul(p.total, big.NewInt(int64(1+g.Intn(9999))))
		return v.Quo(v, big.NewInt(10000))
	}
}

// stableswap single-asset joins run a 300-step search whose every step exits and swaps back through
// 256-step solver searches (about 0.2 s per join in the Lean replay): a fixed small budget per run.
var ssSingleBudget int

func runGammMath(seed int64, n int, dir string) {
	g := &Gen{rand.New(rand.NewSource(seed))}
	o := NewOut(dir)
	ssSingleBudget = (4 + n/500) * envInt("VERIF_GAMM_SSJOIN", 1)
	g.caseSSRoundingWitness(o)
	for o.n < n {
		switch k := g.Intn(100); {
		case k < 16:
			g.caseBalSwap(o)
		case k < 27:
			g.caseBalJoin(o)
		case k < 35:
			g.caseBalExit(o)
		case k < 43:
			g.caseBalSingleShares(o)
		case k < 55:
			g.caseBalSequence(o)
		case k < 70:
			g.caseSSSwap(o)
		case k < 78:
			g.caseSSJoinExit(o)
		case k < 86:
			g.caseSSSequence(o)
		case k < 93:
			g.caseRaw(o)
		default:
			g.caseMalformed(o)
		}
	}
	o.Close(nil)
}

// ---------------------------------------------------------------- balancer cases

func (g *Gen) caseBalSwap(o *Out) {
	p := g.balPool(o)
	dA, dB := g.twoDenoms(p, o)
	spread := g.fee()
	exactOut := g.Intn(2) == 0
	var ref *big.Int
	if exactOut {
		if i := p.idx(dA); i >= 0 {
			ref = p.assets[i].r
		}
	} else if i := p.idx(dA); i >= 0 {
		ref = p.assets[i].r
	}
	if ref == nil {
		ref = big.NewInt(1000)
	}
	amt := g.tradeSize(ref, exactOut, o, "bal.swap")
	if g.Intn(80) == 0 {
		amt = big.NewInt(int64(-g.Intn(3))) // zero / negative amounts
	}
	cs := []gCoin{{dA, amt}}
	mut := g.Intn(10) < 7
	if !exactOut {
		r := balSwapOut(p, cs, dB, spread, mut)
		op := "bal.calcOut"
		obs := obsVal(r)
		if mut {
			op, obs = "bal.swapOut", obsValPool(r)
		}
		line := fmt.Sprintf("gammmath %s %s %s %s %s", op, p.enc(), spread, encCoins(cs), dB)
		o.Emit(line, obs, r.obs == "ok")
		o.Count(op + "." + r.obs)
		if mut && dA != dB { // the calc must agree with the swap (same denom twice: sdk.NewCoins panics in applySwap only)
			c := balSwapOut(p, cs, dB, spread, false)
			if c.obs != r.obs || (c.obs == "ok" && c.val.Cmp(r.val) != 0) {
				o.Fail("balancer:calc-differs-from-swap:out", line)
			}
		}
		oracleBalSwap(o, p, dA, dB, amt, spread, false, r, line)
	} else {
		r := balSwapIn(p, cs, dB, spread, mut)
		op := "bal.calcIn"
		obs := obsVal(r)
		if mut {
			op, obs = "bal.swapIn", obsValPool(r)
		}
		line := fmt.Sprintf("gammmath %s %s %s %s %s", op, p.enc(), spread, encCoins(cs), dB)
		o.Emit(line, obs, r.obs == "ok")
		o.Count(op + "." + r.obs)
		if mut && dA != dB {
			c := balSwapIn(p, cs, dB, spread, false)
			if c.obs != r.obs || (c.obs == "ok" && c.val.Cmp(r.val) != 0) {
				o.Fail("balancer:calc-differs-from-swap:in", line)
			}
		}
		if r.obs == "panic" {
			if c := ctxSwapIn(p, dA, dB, amt); c.ok {
				// a panic although 0 < base < 2: Dec overflow of base^(wOut/wIn) for huge weight ratios, or (class |x|>0.9)
				// Pow's series not converging within 150000 iterations (C13 finding F10).  Loud, no value moves.
				o.Count("bal.swapIn.panic-with-base-in-domain." + c.cls)
			}
		}
		oracleBalSwap(o, p, dB, dA, amt, spread, true, r, line)
	}
}

func (g *Gen) caseBalJoin(o *Out) {
	p := g.balPool(o)
	cs := g.joinCoins(p, o, "bal.join")
	spread := g.fee()
	kind := g.Intn(4)
	r := balJoin(p, cs, spread, kind)
	var line, obs string
	switch kind {
	case 0:
		line, obs = fmt.Sprintf("gammmath bal.calcJoin %s %s %s", p.enc(), spread, encCoins(cs)), obsValCoins(r)
	case 1:
		line, obs = fmt.Sprintf("gammmath bal.calcJoinNoSwap %s %s", p.enc(), encCoins(cs)), obsValCoins(r)
	case 2:
		line, obs = fmt.Sprintf("gammmath bal.join %s %s %s", p.enc(), spread, encCoins(cs)), obsValPool(r)
	default:
		line, obs = fmt.Sprintf("gammmath bal.joinNoSwap %s %s", p.enc(), encCoins(cs)), obsValPool(r)
	}
	o.Emit(line, obs, r.obs == "ok")
	o.Count(fmt.Sprintf("bal.join.kind=%d.%s", kind, r.obs))
	if r.obs != "ok" {
		return
	}
	// tokens joined: reported by the calc variants, derived from the pool delta for the mutating ones
	used := map[string]*big.Int{}
	if kind < 2 {
		for _, c := range r.cs {
			used[c.Denom] = c.Amount.BigInt()
		}
		post := p.clone()
		for i := range post.assets {
			if u, ok := used[post.assets[i].d]; ok {
				post.assets[i].r.Add(post.assets[i].r, u)
			}
		}
		post.total.Add(post.total, r.val)
		r.post = post
	} else {
		for i, a := range p.assets {
			d := new(big.Int).Sub(r.post.assets[i].r, a.r)
			if d.Sign() != 0 {
				used[a.d] = d
			}
		}
	}
	noSwap := kind == 1 || kind == 3
	oracleBalJoin(o, p, cs, used, spread, noSwap, r, line)
}

func (g *Gen) caseBalExit(o *Out) {
	p := g.balPool(o)
	shares := g.exitShares(p, o, "bal.exit")
	fee := big.NewInt(0)
	if g.Intn(3) == 0 {
		fee = g.fee()
	}
	mut := g.Intn(2) == 0
	r := balExit(p, shares, fee, mut)
	op, obs := "bal.calcExit", obsCoins(r)
	if mut {
		op, obs = "bal.exit", obsCoinsPool(r)
	}
	line := fmt.Sprintf("gammmath %s %s %s %s", op, p.enc(), shares, fee)
	o.Emit(line, obs, r.obs == "ok")
	o.Count(op + "." + r.obs)
	oracleExit(o, "balancer", p, shares, fee, r, line)
	if r.obs == "ok" {
		post := p.clone()
		for i := range post.assets {
			post.assets[i].r.Sub(post.assets[i].r, r.cs.AmountOf(post.assets[i].d).BigInt())
		}
		post.total.Sub(post.total, shares)
		if mut && post.show() != r.post.show() {
			o.Fail("balancer:exit-state-not-reserves-minus-coins", line)
		}
		if shares.Sign() > 0 {
			oracleBalProduct(o, "exit", "", p, post, bf(0), line)
		}
	}
}

// single-asset share formulas: CalcTokenInShareAmountOut (+IncreaseLiquidity) and ExitSwapExactAmountOut
func (g *Gen) caseBalSingleShares(o *Out) {
	p := g.balPool(o)
	a := p.assets[g.Intn(len(p.assets))]
	d := a.d
	if g.Intn(50) == 0 {
		d = "zzz"
	}
	if g.Intn(2) == 0 {
		shares := g.tradeSize(p.total, false, o, "bal.tokenInShareOut")
		spread := g.fee()
		mut := g.Intn(2) == 0
		r := balTokenInShareOut(p, d, shares, spread, mut)
		op, obs := "bal.tokenInShareOut", obsVal(r)
		if mut {
			op, obs = "bal.joinSwapShareOut", obsValPool(r)
		}
		line := fmt.Sprintf("gammmath %s %s %s %s %s", op, p.enc(), spread, d, shares)
		o.Emit(line, obs, r.obs == "ok")
		o.Count(op + "." + r.obs)
		oracleBalTokenInShareOut(o, p, d, shares, spread, r, line)
	} else {
		amt := g.tradeSize(a.r, true, o, "bal.exitSwapOut")
		maxShares := new(big.Int).Set(p.total)
		if g.Intn(6) == 0 {
			maxShares = g.exitShares(p, o, "bal.exitSwapOut.max")
		}
		r := balExitSwapOut(p, d, amt, maxShares)
		line := fmt.Sprintf("gammmath bal.exitSwapOut %s %s %s %s", p.enc(), d, amt, maxShares)
		o.Emit(line, obsValPool(r), r.obs == "ok")
		o.Count("bal.exitSwapOut." + r.obs)
		oracleBalExitSwapOut(o, p, d, amt, r, line)
	}
}

// ---------------------------------------------------------------- sequences (balancer)

type actor struct {
	tok    map[string]*big.Int
	shares *big.Int
}

func newActor(p *gPool) *actor {
	a := &actor{tok: map[string]*big.Int{}, shares: big.NewInt(0)}
	for _, as := range p.assets {
		a.tok[as.d] = big.NewInt(0) // holdings are tracked as deltas (may go negative: unlimited credit)
	}
	return a
}

// apply the pool delta of one successful op to the actor (token conservation by construction)
func (a *actor) apply(before, after *gPool) {
	for i, as := range before.assets {
		d := new(big.Int).Sub(after.assets[i].r, as.r)
		a.tok[as.d].Sub(a.tok[as.d], d)
	}
	a.shares.Add(a.shares, new(big.Int).Sub(after.total, before.total))
}

func (g *Gen) caseBalSequence(o *Out) {
	p := g.balPool(o)
	// sequences need a pool on which most ops succeed: no tiny reserves
	for i := range p.assets {
		if p.assets[i].r.Cmp(big.NewInt(1000000)) < 0 {
			p.assets[i].r = new(big.Int).Add(p.assets[i].r, pow10(6+g.Intn(12)))
		}
	}
	roundtrip := g.Intn(4) == 0
	if roundtrip {
		p.swapFee, p.exitFee = big.NewInt(0), big.NewInt(0)
	}
	p0 := p.clone()
	act := newActor(p)
	nOps := 3 + g.Intn(4)
	tolSum := bf(0)
	worst := ""
	vacuous := false
	var lines []string
	spread := p.swapFee
	step := func(op string, r balRes, line, obs string, tol *big.Float, cls string) bool {
		o.Emit(line, obs, r.obs == "ok")
		o.Count("bal.seq." + op + "." + r.obs)
		lines = append(lines, line)
		if r.obs != "ok" {
			return false
		}
		if tol == nil {
			vacuous = true
		} else {
			tolSum.Add(tolSum, tol)
		}
		if op == "exitSwapOut" && powClassRank(cls) > powClassRank(worst) {
			worst = cls
		}
		act.apply(p, r.post)
		p = r.post
		return true
	}
	if roundtrip {
		// 1. the actor becomes the dominant LP; 2. single-asset exit of a large part of one reserve;
		// 3. the withdrawn tokens are joined back in steps below the Pow domain limit; 4. exit everything.
		o.Count("bal.seq.kind=roundtrip")
		mult := int64(5 + g.Intn(200))
		var cs []gCoin
		for _, a := range p.assets {
			cs = append(cs, gCoin{a.d, new(big.Int).Mul(a.r, big.NewInt(mult))})
		}
		r := balJoin(p, cs, spread, 3)
		if !step("joinNoSwap", r, fmt.Sprintf("gammmath bal.joinNoSwap %s %s", p.enc(), encCoins(cs)), obsValPool(r), bf(0), "") {
			return
		}
		ai := g.Intn(len(p.assets))
		a := p.assets[ai]
		amt := new(big.Int).Mul(a.r, big.NewInt(int64(30+g.Intn(65))))
		amt.Quo(amt, big.NewInt(100))
		pre := p
		r = balExitSwapOut(p, a.d, amt, act.shares)
		line := fmt.Sprintf("gammmath bal.exitSwapOut %s %s %s %s", p.enc(), a.d, amt, act.shares)
		tol, cls := tolBalExitSwapOut(pre, a.d, amt)
		if !step("exitSwapOut", r, line, obsValPool(r), tol, cls) {
			return
		}
		left := new(big.Int).Set(amt)
		for k := 0; k < 4 && left.Sign() > 0; k++ {
			cur := p.assets[ai].r
			chunk := new(big.Int).Mul(cur, big.NewInt(9))
			chunk.Quo(chunk, big.NewInt(10))
			if chunk.Cmp(left) > 0 {
				chunk = new(big.Int).Set(left)
			}
			if chunk.Sign() == 0 {
				break
			}
			cs := []gCoin{{a.d, chunk}}
			pre := p
			r := balJoin(p, cs, spread, 2)
			tol, cls := tolBalSingleJoin(pre, a.d, chunk, spread)
			if !step("join1", r, fmt.Sprintf("gammmath bal.join %s %s %s", p.enc(), spread, encCoins(cs)), obsValPool(r), tol, cls) {
				return
			}
			left.Sub(left, chunk)
		}
		if act.shares.Sign() > 0 && act.shares.Cmp(p.total) < 0 {
			r := balExit(p, act.shares, big.NewInt(0), true)
			step("exit", r, fmt.Sprintf("gammmath bal.exit %s %s %s", p.enc(), act.shares, big.NewInt(0)), obsCoinsPool(r), bf(0), "")
		}
	} else {
		o.Count("bal.seq.kind=random")
		for k := 0; k < nOps; k++ {
			switch g.Intn(7) {
			case 0, 1: // swap exact in
				dA, dB := g.twoDenoms(p, o)
				ia := p.idx(dA)
				if ia < 0 || p.idx(dB) < 0 || dA == dB {
					continue
				}
				amt := g.tradeSize(p.assets[ia].r, false, o, "bal.seq.swap")
				cs := []gCoin{{dA, amt}}
				pre := p
				r := balSwapOut(p, cs, dB, spread, true)
				tol, cls := tolBalSwapOut(pre, dA, dB, amt, spread)
				step("swapOut", r, fmt.Sprintf("gammmath bal.swapOut %s %s %s %s", pre.enc(), spread, encCoins(cs), dB), obsValPool(r), tol, cls)
			case 2: // swap exact out
				dOut, dIn := g.twoDenoms(p, o)
				io := p.idx(dOut)
				if io < 0 || p.idx(dIn) < 0 || dOut == dIn {
					continue
				}
				amt := g.tradeSize(p.assets[io].r, true, o, "bal.seq.swap")
				cs := []gCoin{{dOut, amt}}
				pre := p
				r := balSwapIn(p, cs, dIn, spread, true)
				tol, cls := tolBalSwapIn(pre, dOut, dIn, amt, spread)
				step("swapIn", r, fmt.Sprintf("gammmath bal.swapIn %s %s %s %s", pre.enc(), spread, encCoins(cs), dIn), obsValPool(r), tol, cls)
			case 3: // join (single or all assets, with swap)
				cs := g.joinCoins(p, o, "bal.seq.join")
				pre := p
				r := balJoin(p, cs, spread, 2)
				var tol *big.Float
				cls := ""
				if len(cs) == 1 {
					tol, cls = tolBalSingleJoin(pre, cs[0].d, cs[0].a, spread)
				} else {
					tol = tolBalMultiJoin(len(cs))
				}
				step("join", r, fmt.Sprintf("gammmath bal.join %s %s %s", pre.enc(), spread, encCoins(cs)), obsValPool(r), tol, cls)
			case 4: // proportional join
				var cs []gCoin
				num := int64(1 + g.Intn(3000))
				for _, a := range p.assets {
					v := new(big.Int).Mul(a.r, big.NewInt(num))
					v.Quo(v, big.NewInt(1000))
					v.Add(v, big.NewInt(int64(1+g.Intn(3))))
					cs = append(cs, gCoin{a.d, v})
				}
				pre := p
				r := balJoin(p, cs, spread, 3)
				step("joinNoSwap", r, fmt.Sprintf("gammmath bal.joinNoSwap %s %s", pre.enc(), encCoins(cs)), obsValPool(r), bf(0), "")
			case 5: // exit part of the actor's shares
				if act.shares.Sign() <= 0 {
					continue
				}
				sh := new(big.Int).Mul(act.shares, big.NewInt(int64(1+g.Intn(100))))
				sh.Quo(sh, big.NewInt(100))
				if sh.Sign() == 0 {
					continue
				}
				pre := p
				r := balExit(p, sh, p.exitFee, true)
				step("exit", r, fmt.Sprintf("gammmath bal.exit %s %s %s", pre.enc(), sh, p.exitFee), obsCoinsPool(r), bf(0), "")
			default: // single-asset exit, bounded by the actor's shares
				if act.shares.Sign() <= 0 {
					continue
				}
				a := p.assets[g.Intn(len(p.assets))]
				amt := g.tradeSize(a.r, true, o, "bal.seq.exitSwapOut")
				pre := p
				r := balExitSwapOut(p, a.d, amt, act.shares)
				tol, cls := tolBalExitSwapOut(pre, a.d, amt)
				step("exitSwapOut", r, fmt.Sprintf("gammmath bal.exitSwapOut %s %s %s %s", pre.enc(), a.d, amt, act.shares), obsValPool(r), tol, cls)
			}
		}
	}
	oracleBalSequence(o, p0, p, act, tolSum, vacuous, worst, roundtrip, lines)
}

// ---------------------------------------------------------------- stableswap ops

func ssSwap(p *gPool, cs []gCoin, dOther string, spread *big.Int, exactOut, mut bool) balRes {
	r := p.realSS()
	var c sdk.Coin
	st := gCall(func() (err error) {
		switch {
		case !exactOut && mut:
			c, err = r.SwapOutAmtGivenIn(gCtx, toSDK(cs), dOther, sd(spread))
		case !exactOut:
			c, err = r.CalcOutAmtGivenIn(gCtx, toSDK(cs), dOther, sd(spread))
		case mut:
			c, err = r.SwapInAmtGivenOut(gCtx, toSDK(cs), dOther, sd(spread))
		default:
			c, err = r.CalcInAmtGivenOut(gCtx, toSDK(cs), dOther, sd(spread))
		}
		return
	})
	res := balRes{obs: st}
	if st == "ok" {
		res.val = c.Amount.BigInt()
		q, okRead := p.readSS(r)
		if !okRead {
			res.obs = "panic"
		}
		res.post = q
	}
	return res
}

// kind: 0 CalcJoinPoolShares, 1 CalcJoinPoolNoSwapShares, 2 JoinPool, 3 JoinPoolNoSwap
func ssJoin(p *gPool, in []gCoin, spread *big.Int, kind int) balRes {
	r := p.realSS()
	var sh osmomath.Int
	var cs sdk.Coins
	st := gCall(func() (err error) {
		switch kind {
		case 0:
			sh, cs, err = r.CalcJoinPoolShares(gCtx, toSDK(in), sd(spread))
		case 1:
			sh, cs, err = r.CalcJoinPoolNoSwapShares(gCtx, toSDK(in), sd(spread))
		case 2:
			sh, err = r.JoinPool(gCtx, toSDK(in), sd(spread))
		default:
			sh, err = r.JoinPoolNoSwap(gCtx, toSDK(in), sd(spread))
		}
		return
	})
	res := balRes{obs: st}
	if st == "ok" {
		res.val = sh.BigInt()
		res.cs = cs
		res.post, _ = p.readSS(r)
	}
	return res
}

func ssExit(p *gPool, shares, fee *big.Int, mut bool) balRes {
	r := p.realSS()
	var cs sdk.Coins
	st := gCall(func() (err error) {
		if mut {
			cs, err = r.ExitPool(gCtx, osmomath.NewIntFromBigInt(shares), sd(fee))
		} else {
			cs, err = r.CalcExitPoolCoinsFromShares(gCtx, osmomath.NewIntFromBigInt(shares), sd(fee))
		}
		return
	})
	res := balRes{obs: st}
	if st == "ok" {
		res.cs = cs
		res.post, _ = p.readSS(r)
	}
	return res
}

func (g *Gen) caseSSSwap(o *Out) {
	p := g.ssPool(o)
	dA, dB := g.twoDenoms(p, o)
	spread := g.fee()
	exactOut := g.Intn(2) == 0
	ref := big.NewInt(1000)
	if i := p.idx(dA); i >= 0 {
		ref = p.assets[i].r
	}
	amt := g.tradeSize(ref, exactOut, o, "ss.swap")
	if g.Intn(80) == 0 {
		amt = big.NewInt(int64(-g.Intn(3)))
	}
	cs := []gCoin{{dA, amt}}
	mut := g.Intn(10) < 7
	r := ssSwap(p, cs, dB, spread, exactOut, mut)
	op := map[[2]bool]string{{false, false}: "ss.calcOut", {false, true}: "ss.swapOut", {true, false}: "ss.calcIn", {true, true}: "ss.swapIn"}[[2]bool{exactOut, mut}]
	obs := obsVal(r)
	if mut {
		obs = obsValPool(r)
	}
	line := fmt.Sprintf("gammmath %s %s %s %s %s", op, p.enc(), spread, encCoins(cs), dB)
	o.Emit(line, obs, r.obs == "ok")
	o.Count(op + "." + r.obs)
	if r.obs != "ok" {
		return
	}
	// post-swap integer reserves (computed from the result for the calc variants)
	post := r.post
	if !mut {
		post = p.clone()
		ia, ib := post.idx(dA), post.idx(dB)
		if exactOut { // cs = tokens out, result = tokens in (denom dB)
			post.assets[ia].r.Sub(post.assets[ia].r, amt)
			post.assets[ib].r.Add(post.assets[ib].r, r.val)
		} else {
			post.assets[ia].r.Add(post.assets[ia].r, amt)
			post.assets[ib].r.Sub(post.assets[ib].r, r.val)
		}
	}
	oracleSSInvariant(o, op, p, post, line)
}

// directed: the family on which the solver's 36-decimal acceptance test lets the exact invariant fall (F45): scaling
// factors 10^18, zero spread, reserves a few units above a point where the first solver midpoint is accepted; the witness
// pool of Props/C04Stable first, then perturbations of it
func (g *Gen) caseSSRoundingWitness(o *Out) {
	base := []string{"1000000000000000040", "2000000000000000076", "3316624790355399980"}
	for k := 0; k < 24; k++ {
		p := &gPool{ss: true, total: pow10(20)}
		for i, b := range base {
			r, _ := new(big.Int).SetString(b, 10)
			if k > 0 {
				r.Add(r, big.NewInt(int64(g.Intn(200)-100)))
			}
			p.assets = append(p.assets, gAsset{d: gDenoms[i], r: r, sf: 1000000000000000000})
		}
		amt, _ := new(big.Int).SetString("1000000000000000039", 10)
		if k > 0 {
			amt.Add(amt, big.NewInt(int64(g.Intn(200)-100)))
		}
		exactOut := k%2 == 1
		cs := []gCoin{{gDenoms[0], amt}}
		if exactOut {
			cs = []gCoin{{gDenoms[1], amt}}
		}
		dB := gDenoms[1]
		if exactOut {
			dB = gDenoms[0]
		}
		zero := big.NewInt(0)
		r := ssSwap(p, cs, dB, zero, exactOut, false)
		op := "ss.calcOut"
		if exactOut {
			op = "ss.calcIn"
		}
		line := fmt.Sprintf("gammmath %s %s %s %s %s", op, p.enc(), zero, encCoins(cs), dB)
		o.Emit(line, obsVal(r), r.obs == "ok")
		o.Count("class.ss.rounding-witness-family." + r.obs)
		if r.obs != "ok" {
			continue
		}
		post := p.clone()
		ia, ib := post.idx(cs[0].d), post.idx(dB)
		if exactOut {
			post.assets[ia].r.Sub(post.assets[ia].r, amt)
			post.assets[ib].r.Add(post.assets[ib].r, r.val)
		} else {
			post.assets[ia].r.Add(post.assets[ia].r, amt)
			post.assets[ib].r.Sub(post.assets[ib].r, r.val)
		}
		oracleSSInvariant(o, op, p, post, line)
	}
}

func (g *Gen) caseSSJoinExit(o *Out) {
	p := g.ssPool(o)
	if g.Intn(2) == 0 {
		shares := g.exitShares(p, o, "ss.exit")
		fee := big.NewInt(0)
		if g.Intn(3) == 0 {
			fee = g.fee()
		}
		mut := g.Intn(2) == 0
		r := ssExit(p, shares, fee, mut)
		op, obs := "ss.calcExit", obsCoins(r)
		if mut {
			op, obs = "ss.exit", obsCoinsPool(r)
		}
		line := fmt.Sprintf("gammmath %s %s %s %s", op, p.enc(), shares, fee)
		o.Emit(line, obs, r.obs == "ok")
		o.Count(op + "." + r.obs)
		oracleExit(o, "stableswap", p, shares, fee, r, line)
		return
	}
	cs := g.joinCoins(p, o, "ss.join")
	for len(cs) == 1 && cs[0].d != "zzz" && cs[0].a.Cmp(big.NewInt(1)) > 0 && ssSingleBudget <= 0 {
		cs = g.joinCoins(p, o, "ss.join")
	}
	single := len(cs) == 1
	if single {
		ssSingleBudget--
	}
	if single && g.Intn(3) != 0 {
		// single-asset joins run a 300-step search of 256-step searches: keep most of them small
		cs[0].a = big.NewInt(int64(2 + g.Intn(100000)))
	}
	spread := g.fee()
	kind := g.Intn(4)
	r := ssJoin(p, cs, spread, kind)
	var line, obs string
	switch kind {
	case 0:
		line, obs = fmt.Sprintf("gammmath ss.calcJoin %s %s %s", p.enc(), spread, encCoins(cs)), obsValCoins(r)
	case 1:
		line, obs = fmt.Sprintf("gammmath ss.calcJoinNoSwap %s %s", p.enc(), encCoins(cs)), obsValCoins(r)
	case 2:
		line, obs = fmt.Sprintf("gammmath ss.join %s %s %s", p.enc(), spread, encCoins(cs)), obsValPool(r)
	default:
		line, obs = fmt.Sprintf("gammmath ss.joinNoSwap %s %s", p.enc(), encCoins(cs)), obsValPool(r)
	}
	o.Emit(line, obs, r.obs == "ok")
	o.Count(fmt.Sprintf("ss.join.kind=%d.single=%v.%s", kind, single, r.obs))
	if r.obs != "ok" {
		return
	}
	used := map[string]*big.Int{}
	post := r.post
	if kind < 2 {
		for _, c := range r.cs {
			used[c.Denom] = c.Amount.BigInt()
		}
		post = p.clone()
		for i := range post.assets {
			if u, ok := used[post.assets[i].d]; ok {
				post.assets[i].r.Add(post.assets[i].r, u)
			}
		}
		post.total.Add(post.total, r.val)
	} else {
		for i, a := range p.assets {
			d := new(big.Int).Sub(r.post.assets[i].r, a.r)
			if d.Sign() != 0 {
				used[a.d] = d
			}
		}
	}
	if single && (kind == 0 || kind == 2) {
		oracleSSSingleJoin(o, p, post, cs[0], line)
	} else {
		oracleProportionalJoin(o, "stableswap", p, cs, used, r.val, line)
	}
}

func (g *Gen) caseSSSequence(o *Out) {
	p := g.ssPool(o)
	for i := range p.assets { // no tiny scaled reserves: most ops should succeed
		min := new(big.Int).Mul(new(big.Int).SetUint64(p.assets[i].sf), big.NewInt(1000000))
		if p.assets[i].r.Cmp(min) < 0 {
			p.assets[i].r.Add(p.assets[i].r, min)
		}
	}
	p0 := p.clone()
	act := newActor(p)
	nOps := 3 + g.Intn(4)
	spread := g.fee()
	if g.Intn(2) == 0 {
		spread = big.NewInt(0)
	}
	dust := new(big.Rat) // allowance, in units of the reference value (see oracleSSSequence)
	var lines []string
	step := func(op string, r balRes, line, obs string) bool {
		o.Emit(line, obs, r.obs == "ok")
		o.Count("ss.seq." + op + "." + r.obs)
		lines = append(lines, line)
		if r.obs != "ok" {
			return false
		}
		act.apply(p, r.post)
		p = r.post
		return true
	}
	for k := 0; k < nOps; k++ {
		switch g.Intn(6) {
		case 0, 1, 2:
			dA, dB := g.twoDenoms(p, o)
			ia := p.idx(dA)
			if ia < 0 || p.idx(dB) < 0 || dA == dB {
				continue
			}
			exactOut := g.Intn(2) == 0
			amt := g.tradeSize(p.assets[ia].r, exactOut, o, "ss.seq.swap")
			cs := []gCoin{{dA, amt}}
			pre := p
			r := ssSwap(p, cs, dB, spread, exactOut, true)
			op := "ss.swapOut"
			if exactOut {
				op = "ss.swapIn"
			}
			step(op[3:], r, fmt.Sprintf("gammmath %s %s %s %s %s", op, pre.enc(), spread, encCoins(cs), dB), obsValPool(r))
		case 3: // all-asset join
			var cs []gCoin
			num := int64(1 + g.Intn(3000))
			for _, a := range p.assets {
				v := new(big.Int).Mul(a.r, big.NewInt(num))
				v.Quo(v, big.NewInt(1000))
				v.Add(v, big.NewInt(int64(1+g.Intn(3))))
				cs = append(cs, gCoin{a.d, v})
			}
			pre := p
			r := ssJoin(p, cs, spread, 2)
			step("join", r, fmt.Sprintf("gammmath ss.join %s %s %s", pre.enc(), spread, encCoins(cs)), obsValPool(r))
		case 4: // single-asset join (small, see caseSSJoinExit)
			if ssSingleBudget <= 0 || g.Intn(4) != 0 {
				continue
			}
			ssSingleBudget--
			a := p.assets[g.Intn(len(p.assets))]
			cs := []gCoin{{a.d, big.NewInt(int64(1000 + g.Intn(1000000)))}}
			pre := p
			r := ssJoin(p, cs, spread, 2)
			if step("join1", r, fmt.Sprintf("gammmath ss.join %s %s %s", pre.enc(), spread, encCoins(cs)), obsValPool(r)) {
				dust.Add(dust, ssSingleJoinDust(pre, a.d, cs[0].a, p0))
			}
		default:
			if act.shares.Sign() <= 0 {
				continue
			}
			sh := new(big.Int).Mul(act.shares, big.NewInt(int64(1+g.Intn(100))))
			sh.Quo(sh, big.NewInt(100))
			if sh.Sign() == 0 {
				continue
			}
			pre := p
			r := ssExit(p, sh, big.NewInt(0), true)
			step("exit", r, fmt.Sprintf("gammmath ss.exit %s %s %s", pre.enc(), sh, big.NewInt(0)), obsCoinsPool(r))
		}
	}
	oracleSSSequence(o, p0, p, act, dust, lines)
}

// ---------------------------------------------------------------- raw kernels

func (g *Gen) caseRaw(o *Out) {
	switch g.Intn(4) {
	case 0: // solveConstantFunctionInvariant on Dec operands
		b0 := new(big.Int).Mul(g.amount(30), p18)
		var b1 *big.Int
		switch g.Intn(4) {
		case 0:
			b1 = new(big.Int).Add(b0, new(big.Int).Mul(g.amount(28), p18))
		case 1:
			b1 = new(big.Int).Sub(b0, new(big.Int).Quo(b0, big.NewInt(int64(3+g.Intn(100)))))
		case 2:
			b1 = new(big.Int).Add(b0, new(big.Int).Rand(g.r, b0))
		default:
			b1 = new(big.Int).Mul(g.amount(30), p18)
		}
		wf := new(big.Int).Mul(big.NewInt(g.weight()), p18)
		wu := new(big.Int).Mul(big.NewInt(g.weight()), p18)
		bu := new(big.Int).Mul(g.amount(30), p18)
		if g.Intn(40) == 0 {
			b1 = big.NewInt(0)
		}
		var r *big.Int
		ok := catch(func() {
			r = balancer.VerifSolveConstantFunctionInvariant(sd(b0), sd(b1), sd(wf), sd(bu), sd(wu)).BigInt()
		})
		o.Emit(fmt.Sprintf("gammmath raw.solveCFI %s %s %s %s %s", b0, b1, wf, bu, wu), obsInt(ok, r), true)
		o.Count("raw.solveCFI." + b2ok(ok))
	case 1: // stableswap kernels
		x, y := g.ssScaled(), g.ssScaled()
		w := big.NewInt(0)
		if g.Intn(2) == 0 {
			a, b := g.ssScaled(), g.ssScaled()
			w = new(big.Int).Add(new(big.Int).Quo(new(big.Int).Mul(a, a), p36), new(big.Int).Quo(new(big.Int).Mul(b, b), p36))
		}
		yf := g.ssScaled()
		xf := g.ssScaled()
		var r *big.Int
		switch g.Intn(3) {
		case 0:
			ok := catch(func() { r = stableswap.VerifCfmmConstantMultiNoV(bd(x), bd(y), bd(w)).BigInt() })
			o.Emit(fmt.Sprintf("gammmath raw.cfmm %s %s %s", x, y, w), obsInt(ok, r), true)
		case 1:
			ok := catch(func() { r = stableswap.VerifTargetK(bd(x), bd(y), bd(w), bd(yf)).BigInt() })
			o.Emit(fmt.Sprintf("gammmath raw.targetK %s %s %s %s", x, y, w, yf), obsInt(ok, r), true)
		default:
			ok := catch(func() { r = stableswap.VerifIterK(bd(x), bd(w), bd(yf), bd(xf)).BigInt() })
			o.Emit(fmt.Sprintf("gammmath raw.iterK %s %s %s %s", x, w, yf, xf), obsInt(ok, r), true)
		}
		o.Count("raw.ss-kernel")
	case 2: // the solver itself, with its post-condition
		x, y := g.ssScaled(), g.ssScaled()
		w := big.NewInt(0)
		if g.Intn(2) == 0 {
			a := g.ssScaled()
			w = new(big.Int).Quo(new(big.Int).Mul(a, a), p36)
		}
		yIn := new(big.Int).Rand(g.r, y)
		switch g.Intn(8) {
		case 0:
			yIn = new(big.Int).Quo(y, big.NewInt(int64(2+g.Intn(1000000))))
		case 1:
			yIn = new(big.Int).Set(y)
		case 2:
			yIn = big.NewInt(int64(g.Intn(3)))
		}
		if g.Intn(2) == 0 {
			yIn.Neg(yIn)
		}
		var r *big.Int
		ok := catch(func() { r = stableswap.VerifSolveCFMMBinarySearchMulti(bd(x), bd(y), bd(w), bd(yIn)).BigInt() })
		line := fmt.Sprintf("gammmath raw.solve %s %s %s %s", x, y, w, yIn)
		o.Emit(line, obsInt(ok, r), true)
		o.Count("raw.solve." + b2ok(ok))
		if ok {
			oracleSolverPost(o, x, y, w, yIn, r, line)
		}
	default: // DivIntByU64ToBigDec
		i := g.amount(30)
		if g.Intn(10) == 0 {
			i.Neg(i)
		}
		u := g.scalingFactor()
		if g.Intn(20) == 0 {
			u = 0
		}
		dirn := g.Intn(5)
		var r osmomath.BigDec
		st := gCall(func() (err error) {
			r, err = osmomath.DivIntByU64ToBigDec(osmomath.NewIntFromBigInt(i), u, osmomath.RoundingDirection(dirn))
			return
		})
		obs := st
		if st == "ok" {
			obs = "ok " + r.BigInt().String()
		}
		line := fmt.Sprintf("gammmath raw.divU64 %s %d %d", i, u, dirn)
		o.Emit(line, obs, true)
		o.Count("raw.divU64." + st)
		if st == "ok" && u != 0 {
			exact := new(big.Rat).SetFrac(new(big.Int).Mul(i, p36), new(big.Int).SetUint64(u))
			var want *big.Int
			switch dirn {
			case 1:
				want = ratCeil(exact)
			case 2:
				want = ratTrunc(exact)
			case 3:
				want = ratHalfEven(exact)
			}
			if want != nil && want.Cmp(r.BigInt()) != 0 {
				o.Fail(fmt.Sprintf("divU64:wrong-rounding:dir=%d", dirn), line)
			}
		}
	}
}

func b2ok(b bool) string {
	if b {
		return "ok"
	}
	return "panic"
}

// a scaled stableswap reserve as raw BigDec: integer or with up to 36 decimals
func (g *Gen) ssScaled() *big.Int {
	v := new(big.Int).Mul(g.amount(30), p36)
	if g.Intn(2) == 0 {
		v.Add(v, new(big.Int).Rand(g.r, p36))
	}
	return v
}

// ---------------------------------------------------------------- malformed / degenerate inputs

func (g *Gen) caseMalformed(o *Out) {
	switch g.Intn(6) {
	case 0: // zero reserve on one side of a balancer swap
		p := g.balPool(o)
		zi := g.Intn(len(p.assets))
		p.assets[zi].r = big.NewInt(0)
		oi := (zi + 1) % len(p.assets)
		amt := big.NewInt(int64(1 + g.Intn(1000)))
		spread := g.fee()
		dIn, dOut := p.assets[zi].d, p.assets[oi].d
		if g.Intn(2) == 0 {
			dIn, dOut = dOut, dIn
		}
		exactOut := g.Intn(2) == 0
		cs := []gCoin{{dIn, amt}}
		var r balRes
		op := "bal.calcOut"
		if exactOut {
			op = "bal.calcIn"
			r = balSwapIn(p, cs, dOut, spread, false)
		} else {
			r = balSwapOut(p, cs, dOut, spread, false)
		}
		line := fmt.Sprintf("gammmath %s %s %s %s %s", op, p.enc(), spread, encCoins(cs), dOut)
		o.Emit(line, obsVal(r), false)
		o.Count("malformed.bal-zero-reserve." + r.obs)
		if r.obs == "ok" {
			o.Fail("balancer:zero-reserve-swap-accepted", line+" => "+r.val.String())
		}
	case 1: // swap with two coins / no coin
		p := g.balPool(o)
		cs := []gCoin{{p.assets[0].d, big.NewInt(5)}, {p.assets[1].d, big.NewInt(7)}}
		if g.Intn(2) == 0 {
			cs = nil
		}
		r := balSwapOut(p, cs, p.assets[1].d, big.NewInt(0), false)
		line := fmt.Sprintf("gammmath bal.calcOut %s 0 %s %s", p.enc(), encCoins(cs), p.assets[1].d)
		o.Emit(line, obsVal(r), false)
		o.Count("malformed.bal-coins-len." + r.obs)
		if r.obs == "ok" {
			o.Fail("balancer:multi-coin-swap-accepted", line)
		}
	case 2: // stableswap with a zero scaling factor / a scaled reserve below 1
		p := g.ssPool(o)
		if g.Intn(2) == 0 {
			p.assets[g.Intn(len(p.assets))].sf = 0
		} else {
			i := g.Intn(len(p.assets))
			p.assets[i].sf = 1000
			p.assets[i].r = big.NewInt(int64(1 + g.Intn(999)))
		}
		cs := []gCoin{{p.assets[0].d, big.NewInt(int64(1 + g.Intn(1000)))}}
		mut := g.Intn(2) == 0
		r := ssSwap(p, cs, p.assets[1].d, big.NewInt(0), false, mut)
		op, obs := "ss.calcOut", obsVal(r)
		if mut {
			op, obs = "ss.swapOut", obsValPool(r)
		}
		line := fmt.Sprintf("gammmath %s %s 0 %s %s", op, p.enc(), encCoins(cs), p.assets[1].d)
		o.Emit(line, obs, false)
		o.Count("malformed.ss-scaling." + r.obs)
	case 3: // stableswap: more in than the reserve (solver domain limit) — must fail
		p := g.ssPool(o)
		a, b := p.assets[0], p.assets[1]
		amt := new(big.Int).Add(a.r, new(big.Int).SetUint64(a.sf))
		amt.Add(amt, g.amount(10))
		cs := []gCoin{{a.d, amt}}
		r := ssSwap(p, cs, b.d, big.NewInt(0), false, false)
		line := fmt.Sprintf("gammmath ss.calcOut %s 0 %s %s", p.enc(), encCoins(cs), b.d)
		o.Emit(line, obsVal(r), false)
		o.Count("malformed.ss-in>reserve." + r.obs)
		if r.obs == "ok" {
			o.Fail("stableswap:input-above-reserve-accepted", line)
		}
	case 4: // balancer exact-out of the whole reserve or more — must fail
		p := g.balPool(o)
		a, b := p.assets[0], p.assets[1]
		amt := new(big.Int).Add(a.r, big.NewInt(int64(g.Intn(3))))
		cs := []gCoin{{a.d, amt}}
		r := balSwapIn(p, cs, b.d, g.fee(), false)
		line := fmt.Sprintf("gammmath bal.calcIn %s %s %s %s", p.enc(), big.NewInt(0), encCoins(cs), b.d)
		r = balSwapIn(p, cs, b.d, big.NewInt(0), false)
		o.Emit(line, obsVal(r), false)
		o.Count("malformed.bal-out>=reserve." + r.obs)
		if r.obs == "ok" {
			o.Fail("balancer:out>=reserve-accepted", line)
		}
	default: // exits with shares >= total on both pool types — must be an error
		var p *gPool
		ss := g.Intn(2) == 0
		if ss {
			p = g.ssPool(o)
		} else {
			p = g.balPool(o)
		}
		shares := new(big.Int).Add(p.total, g.amount(5))
		if g.Intn(2) == 0 {
			shares = new(big.Int).Set(p.total)
		}
		var r balRes
		op := "bal.exit"
		if ss {
			op = "ss.exit"
			r = ssExit(p, shares, big.NewInt(0), true)
		} else {
			r = balExit(p, shares, big.NewInt(0), true)
		}
		line := fmt.Sprintf("gammmath %s %s %s 0", op, p.enc(), shares)
		o.Emit(line, obsCoinsPool(r), false)
		o.Count("malformed.exit-shares>=total." + r.obs)
		if r.obs != "err" {
			o.Fail("exit:shares>=total-not-rejected", line)
		}
	}
}

func sortedDenoms(m map[string]*big.Int) []string {
	var ks []string
	for k := range m {
		ks = append(ks, k)
	}
	sort.Strings(ks)
	return ks
}
