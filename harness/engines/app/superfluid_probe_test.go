package app_test

// Probes (VERIF_PROBE=sf) next to C11: what the REAL staking / superfluid / lockup keepers do when an inner step of
// superfluid's all-or-nothing branches fails while the outer transaction survives.  They print; they assert nothing.
//   go test binary: VERIF_PROBE=sf .bin/app.test -test.run TestSuperfluidProbes -test.v

import (
	"fmt"
	"math/big"
	"os"
	"testing"
	"time"

	sdk "github.com/cosmos/cosmos-sdk/types"
	stakingtypes "github.com/cosmos/cosmos-sdk/x/staking/types"

	"github.com/osmosis-labs/osmosis/osmomath"
	gammtypes "github.com/osmosis-labs/osmosis/v31/x/gamm/types"
	sftypes "github.com/osmosis-labs/osmosis/v31/x/superfluid/types"
)

func TestSuperfluidProbes(t *testing.T) {
	if os.Getenv("VERIF_PROBE") != "sf" {
		t.Skip("VERIF_PROBE != sf")
	}
	h := newH(t)
	setup := func() (sdk.ValAddress, string, sdk.AccAddress, time.Duration, string) {
		h.Reset()
		sp, _ := h.App.StakingKeeper.GetParams(h.Ctx)
		durs := h.App.IncentivesKeeper.GetLockableDurations(h.Ctx)
		h.App.IncentivesKeeper.SetLockableDurations(h.Ctx, append(durs, sp.UnbondingTime))
		val := h.SetupValidator(stakingtypes.Bonded)
		v, _ := h.App.StakingKeeper.GetValidator(h.Ctx, val)
		_ = h.App.BankKeeper.SendCoinsFromModuleToModule(h.Ctx, stakingtypes.NotBondedPoolName, stakingtypes.BondedPoolName, sdk.NewCoins(sdk.NewCoin(sp.BondDenom, v.Tokens)))
		pools := h.SetupGammPoolsWithBondDenomMultiplier([]osmomath.Dec{osmomath.NewDec(20)})
		denom := gammtypes.GetPoolShareDenom(pools[0].GetId())
		_ = h.App.SuperfluidKeeper.AddNewSuperfluidAsset(h.Ctx, sftypes.SuperfluidAsset{Denom: denom, AssetType: sftypes.SuperfluidAssetTypeLPShare})
		owner := sdk.AccAddress([]byte("sfprobeowner________"))
		return val, denom, owner, sp.UnbondingTime, sp.BondDenom
	}
	show := func(tag string, val sdk.ValAddress, bond string) {
		v, err := h.App.StakingKeeper.GetValidator(h.Ctx, val)
		bk := h.App.BankKeeper
		fmt.Printf("%s: validator tokens=%s shares=%s status=%s invalidExRate=%v (err %v) | supply=%s offset=%s reported=%s\n", tag, v.Tokens, v.DelegatorShares, v.Status, v.InvalidExRate(), err,
			bk.GetSupply(h.Ctx, bond).Amount, bk.GetSupplyOffset(h.Ctx, bond), bk.GetSupplyWithOffset(h.Ctx, bond).Amount)
		for _, a := range h.App.SuperfluidKeeper.GetAllIntermediaryAccounts(h.Ctx) {
			d, derr := h.App.StakingKeeper.GetDelegation(h.Ctx, a.GetAccAddress(), val)
			fmt.Printf("   account %s: delegation shares=%v (err %v) balance=%s\n", a.Denom, d.Shares, derr, bk.GetAllBalances(h.Ctx, a.GetAccAddress()))
		}
		last := h.App.LockupKeeper.GetLastLockID(h.Ctx)
		for id := uint64(1); id <= last; id++ {
			l, err := h.App.LockupKeeper.GetLockByID(h.Ctx, id)
			if err == nil {
				fmt.Printf("   lock %d coins=%s (len %d) unlocking=%v\n", id, l.Coins, len(l.Coins), l.IsUnlocking())
			}
		}
	}

	// 1. a 100 % slash through the real staking keeper, then a top-up of the (emptied) delegated lock and a refresh
	{
		val, denom, owner, ub, bond := setup()
		h.FundAcc(owner, sdk.NewCoins(sdk.NewInt64Coin(denom, 10_000_000)))
		l, err := h.App.LockupKeeper.CreateLock(h.Ctx, owner, sdk.NewCoins(sdk.NewInt64Coin(denom, 1_000_000)), ub)
		fmt.Println("probe1 lock:", l.ID, err)
		fmt.Println("probe1 delegate:", h.App.SuperfluidKeeper.SuperfluidDelegate(h.Ctx, owner.String(), l.ID, val.String()))
		show("probe1 delegated", val, bond)
		v, _ := h.App.StakingKeeper.GetValidator(h.Ctx, val)
		cons, _ := v.GetConsAddr()
		power := v.Tokens.Quo(h.App.StakingKeeper.PowerReduction(h.Ctx)).Int64() + 1
		var burned osmomath.Int
		ok := catch(func() {
			burned, err = h.App.StakingKeeper.Slash(h.Ctx, cons, h.Ctx.BlockHeight(), power, osmomath.OneDec())
		})
		fmt.Println("probe1 Slash(power+1, fraction 1): ok =", ok, "burned", burned, err)
		show("probe1 after the 100% slash", val, bond)
		var lk interface{}
		ok = catch(func() {
			lk, err = h.App.LockupKeeper.AddTokensToLockByID(h.Ctx, l.ID, owner, sdk.NewInt64Coin(denom, 500_000))
		})
		fmt.Println("probe1 top-up of the emptied delegated lock: ok =", ok, err, lk != nil)
		show("probe1 after the top-up", val, bond)
		ok = catch(func() {
			h.App.SuperfluidKeeper.RefreshIntermediaryDelegationAmounts(h.Ctx, h.App.SuperfluidKeeper.GetAllIntermediaryAccounts(h.Ctx))
		})
		fmt.Println("probe1 refresh: ok =", ok)
		show("probe1 after the refresh", val, bond)
		ok = catch(func() { err = h.App.SuperfluidKeeper.SuperfluidUndelegate(h.Ctx, owner.String(), l.ID) })
		fmt.Println("probe1 undelegate of the topped-up lock: ok =", ok, err)
		ok = catch(func() {
			_, err = h.App.SuperfluidKeeper.SuperfluidUndelegateAndUnbondLock(h.Ctx, l.ID, owner.String(), osmomath.NewInt(1))
		})
		fmt.Println("probe1 undelegate-and-unbond 1 of the topped-up lock: ok =", ok, err)
		// a second slash of the validator without tokens
		ok = catch(func() {
			burned, err = h.App.StakingKeeper.Slash(h.Ctx, cons, h.Ctx.BlockHeight(), power, osmomath.OneDec())
		})
		fmt.Println("probe1 second Slash: ok =", ok, "burned", burned, err)
		// a fresh lock delegated to the validator without tokens
		l2, _ := h.App.LockupKeeper.CreateLock(h.Ctx, owner, sdk.NewCoins(sdk.NewInt64Coin(denom, 1_000)), ub)
		ok = catch(func() { err = h.App.SuperfluidKeeper.SuperfluidDelegate(h.Ctx, owner.String(), l2.ID, val.String()) })
		fmt.Println("probe1 delegate a new lock to the validator without tokens (no cache context: what the tx would discard): ok =", ok, err)
	}

	// 2. emptied lock that is NOT topped up: what the entry points do with it
	{
		val, denom, owner, ub, bond := setup()
		h.FundAcc(owner, sdk.NewCoins(sdk.NewInt64Coin(denom, 10_000_000)))
		l, _ := h.App.LockupKeeper.CreateLock(h.Ctx, owner, sdk.NewCoins(sdk.NewInt64Coin(denom, 1_000_000)), ub)
		_ = h.App.SuperfluidKeeper.SuperfluidDelegate(h.Ctx, owner.String(), l.ID, val.String())
		v, _ := h.App.StakingKeeper.GetValidator(h.Ctx, val)
		cons, _ := v.GetConsAddr()
		_, err := h.App.StakingKeeper.Slash(h.Ctx, cons, h.Ctx.BlockHeight(), 1000, osmomath.OneDec())
		fmt.Println("probe2 slash:", err)
		show("probe2 after the 100% slash", val, bond)
		ok := catch(func() { err = h.App.SuperfluidKeeper.SuperfluidUndelegate(h.Ctx, owner.String(), l.ID) })
		fmt.Println("probe2 undelegate emptied lock: ok =", ok, err)
		ok = catch(func() {
			_, err = h.App.SuperfluidKeeper.SuperfluidUndelegateAndUnbondLock(h.Ctx, l.ID, owner.String(), osmomath.NewInt(1))
		})
		fmt.Println("probe2 undelegate-and-unbond emptied lock: ok =", ok, err)
		ok = catch(func() {
			h.App.SuperfluidKeeper.RefreshIntermediaryDelegationAmounts(h.Ctx, h.App.SuperfluidKeeper.GetAllIntermediaryAccounts(h.Ctx))
		})
		fmt.Println("probe2 refresh: ok =", ok)
		show("probe2 after refresh", val, bond)
	}

	// 3. power overflow: a top-up whose mint takes the validator's tokens to 2^63 power units
	{
		val, denom, owner, ub, bond := setup()
		big1 := osmomath.NewIntFromBigInt(pow10(26))
		h.FundAcc(owner, sdk.NewCoins(sdk.NewCoin(denom, big1)))
		l, _ := h.App.LockupKeeper.CreateLock(h.Ctx, owner, sdk.NewCoins(sdk.NewInt64Coin(denom, 1_000_000)), ub)
		fmt.Println("probe3 delegate:", h.App.SuperfluidKeeper.SuperfluidDelegate(h.Ctx, owner.String(), l.ID, val.String()))
		show("probe3 delegated", val, bond)
		var err error
		ok := catch(func() {
			_, err = h.App.LockupKeeper.AddTokensToLockByID(h.Ctx, l.ID, owner, sdk.NewCoin(denom, osmomath.NewIntFromBigInt(pow10(25))))
		})
		fmt.Println("probe3 top-up worth ~1e26 uosmo: ok =", ok, err)
		show("probe3 after the huge top-up", val, bond)
		ok = catch(func() {
			h.App.SuperfluidKeeper.RefreshIntermediaryDelegationAmounts(h.Ctx, h.App.SuperfluidKeeper.GetAllIntermediaryAccounts(h.Ctx))
		})
		fmt.Println("probe3 refresh: ok =", ok)
		show("probe3 after the refresh", val, bond)
		accs := h.App.SuperfluidKeeper.GetAllIntermediaryAccounts(h.Ctx)
		lim := new(big.Int).Mul(pow2(63), h.App.StakingKeeper.PowerReduction(h.Ctx).BigInt())
		v, _ := h.App.StakingKeeper.GetValidator(h.Ctx, val)
		room := new(big.Int).Sub(lim, v.Tokens.BigInt())
		err = h.App.SuperfluidKeeper.VerifMintOsmoTokensAndDelegate(h.Ctx, osmomath.NewIntFromBigInt(room), accs[0])
		fmt.Println("probe3 direct mint of exactly limit - tokens:", err)
		err = h.App.SuperfluidKeeper.VerifMintOsmoTokensAndDelegate(h.Ctx, osmomath.NewIntFromBigInt(new(big.Int).Sub(room, big.NewInt(1))), accs[0])
		fmt.Println("probe3 direct mint of limit - tokens - 1:", err)
		show("probe3 at the limit", val, bond)
		err = h.App.SuperfluidKeeper.VerifMintOsmoTokensAndDelegate(h.Ctx, osmomath.NewInt(1), accs[0])
		fmt.Println("probe3 one more:", err)
		ok = catch(func() { err = h.App.SuperfluidKeeper.SuperfluidUndelegate(h.Ctx, owner.String(), l.ID) })
		fmt.Println("probe3 undelegate of the over-sized lock: ok =", ok, err)
	}

	// 4. a slash that leaves less than one power unit of tokens under 10^25 raw shares (exchange rate ~ 10^-7), then a top-up
	{
		val, denom, owner, ub, bond := setup()
		h.FundAcc(owner, sdk.NewCoins(sdk.NewInt64Coin(denom, 10_000_000)))
		l, _ := h.App.LockupKeeper.CreateLock(h.Ctx, owner, sdk.NewCoins(sdk.NewInt64Coin(denom, 1_234_567)), ub)
		fmt.Println("probe4 delegate:", h.App.SuperfluidKeeper.SuperfluidDelegate(h.Ctx, owner.String(), l.ID, val.String()))
		v, _ := h.App.StakingKeeper.GetValidator(h.Ctx, val)
		cons, _ := v.GetConsAddr()
		power := v.Tokens.Quo(h.App.StakingKeeper.PowerReduction(h.Ctx)).Int64()
		burned, err := h.App.StakingKeeper.Slash(h.Ctx, cons, h.Ctx.BlockHeight(), power, osmomath.OneDec())
		fmt.Println("probe4 Slash(power, fraction 1): burned", burned, err)
		show("probe4 after the near-total slash", val, bond)
		accs := h.App.SuperfluidKeeper.GetAllIntermediaryAccounts(h.Ctx)
		for _, amt := range []int64{1, 1000, 1_000_000} {
			cctx, _ := h.Ctx.CacheContext()
			err = h.App.SuperfluidKeeper.VerifMintOsmoTokensAndDelegate(cctx, osmomath.NewInt(amt), accs[0])
			fmt.Println("probe4 direct mint of", amt, "on a discarded branch:", err)
			if err != nil {
				// the same delegation outside ApplyFuncIfNoError, to see the panic
				func() {
					defer func() {
						if r := recover(); r != nil {
							fmt.Println("probe4   staking Delegate panics:", r)
						}
					}()
					c2, _ := h.Ctx.CacheContext()
					h.FundAcc(accs[0].GetAccAddress(), sdk.NewCoins(sdk.NewInt64Coin(bond, amt)))
					v, _ := h.App.StakingKeeper.GetValidator(c2, val)
					_, e2 := h.App.StakingKeeper.Delegate(c2, accs[0].GetAccAddress(), osmomath.NewInt(amt), stakingtypes.Unbonded, v, true)
					fmt.Println("probe4   staking Delegate returns:", e2)
				}()
			}
		}
	}
}
