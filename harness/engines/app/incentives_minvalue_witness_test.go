package app_test

// Minimal histories against the REAL incentives + lockup + protorev + pool keepers for the minimum-value filter of
// distributeInternal (former findings F61, F62) and for deposits into a gauge of the finished store (former F20/F63).
// Since the repository fixes af3cbe6371 / d4c28ad126 / 21bb9c1bc7 the chain does what the property promises in every one of them
// (on a tree without the fixes: A1 pays the first lock only, A2 fails the hook, B strands the deposit).
// Not part of ./check; run with
//   VERIF_WITNESS=1 .bin/app.test -test.run TestC09MinValueWitness -test.v
// Each sub-history prints what the chain did next to what the property promises.

import (
	"fmt"
	"os"
	"testing"
	"time"

	sdk "github.com/cosmos/cosmos-sdk/types"

	"github.com/osmosis-labs/osmosis/osmomath"
	appparams "github.com/osmosis-labs/osmosis/v31/app/params"
	incentivestypes "github.com/osmosis-labs/osmosis/v31/x/incentives/types"
	lockupkeeper "github.com/osmosis-labs/osmosis/v31/x/lockup/keeper"
	lockuptypes "github.com/osmosis-labs/osmosis/v31/x/lockup/types"
)

func TestC09MinValueWitness(t *testing.T) {
	if os.Getenv("VERIF_WITNESS") == "" {
		t.Skip("VERIF_WITNESS not set")
	}
	base := appparams.BaseCoinUnit
	h := newH(t)
	owners := []sdk.AccAddress{sdk.AccAddress([]byte("c09_minvalue_owner_a")), sdk.AccAddress([]byte("c09_minvalue_owner_b")), sdk.AccAddress([]byte("c09_minvalue_owner_c"))}
	creator := sdk.AccAddress([]byte("c09_minvalue_creator"))
	coin := func(d string, x int64) sdk.Coin { return sdk.NewCoin(d, osmomath.NewInt(x)) }
	var ident string
	setup := func(min int64) {
		h.Reset()
		h.Ctx = h.Ctx.WithBlockTime(time.Unix(1_700_000_000, 0).UTC())
		h.App.IncentivesKeeper.SetParam(h.Ctx, incentivestypes.KeyMinValueForDistr, coin(base, min))
		for _, a := range owners {
			h.FundAcc(a, sdk.NewCoins(coin(base, 1), coin("lpa", 1), coin("lpb", 1)))
		}
		ident = h.App.IncentivesKeeper.GetParams(h.Ctx).DistrEpochIdentifier
	}
	lock := func(owner int, denom string, amt int64) {
		h.FundAcc(owners[owner], sdk.NewCoins(coin(denom, amt)))
		if _, err := lockupkeeper.NewMsgServerImpl(h.App.LockupKeeper).LockTokens(h.Ctx, lockuptypes.NewMsgLockTokens(owners[owner], time.Hour, sdk.NewCoins(coin(denom, amt)))); err != nil {
			t.Fatal(err)
		}
	}
	gauge := func(perp bool, lockDenom string, c sdk.Coins, n uint64) uint64 {
		h.FundAcc(creator, c)
		id, err := h.App.IncentivesKeeper.CreateGauge(h.Ctx, perp, creator, c, lockuptypes.QueryCondition{LockQueryType: lockuptypes.ByDuration, Denom: lockDenom, Duration: time.Hour}, h.Ctx.BlockTime(), n, 0)
		if err != nil {
			t.Fatal(err)
		}
		return id
	}
	// the epoch hook inside a cache context, as the epochs module's hook wrapper runs it
	epoch := func() error {
		h.Ctx = h.Ctx.WithBlockTime(h.Ctx.BlockTime().Add(time.Hour))
		cctx, write := h.Ctx.CacheContext()
		var err error
		if !catch(func() { err = h.App.IncentivesKeeper.AfterEpochEnd(cctx, ident, 1) }) {
			return fmt.Errorf("panic")
		}
		if err == nil {
			write()
		}
		return err
	}
	bal := func(d string) string {
		s := ""
		for i, a := range owners {
			s += fmt.Sprintf(" %c=%s", 'A'+i, h.App.BankKeeper.GetBalance(h.Ctx, a, d).Amount)
		}
		return s
	}
	quote := func(pid uint64, in sdk.Coin, out string) string {
		mod, pool, err := h.App.PoolManagerKeeper.GetPoolModuleAndPool(h.Ctx, pid)
		if err != nil {
			return "pool error: " + err.Error()
		}
		c, err := mod.CalcOutAmtGivenIn(h.Ctx, pool, in, out, osmomath.ZeroDec())
		if err != nil {
			return "ERROR(" + err.Error() + ")"
		}
		return c.String()
	}
	// concentrated pool rewx/uosmo with a full-range position 1000rewx : 1e12 uosmo (1 rewx = 1e9 uosmo)
	clPool := func(d string, amtD, amtBase int64) uint64 {
		p := h.PrepareCustomConcentratedPool(h.TestAccs[0], d, base, 100, osmomath.ZeroDec())
		h.CreateFullRangePosition(p, sdk.NewCoins(coin(d, amtD), coin(base, amtBase)))
		h.App.ProtoRevKeeper.DeleteAllPoolsForBaseDenom(h.Ctx, d)
		h.App.ProtoRevKeeper.DeleteAllPoolsForBaseDenom(h.Ctx, base)
		h.App.ProtoRevKeeper.SetPoolForDenomPair(h.Ctx, base, d, p.GetId())
		return p.GetId()
	}
	balPool := func(d string, amtD, amtBase int64) uint64 {
		pid := h.PrepareBalancerPoolWithCoins(coin(base, amtBase), coin(d, amtD))
		h.App.ProtoRevKeeper.DeleteAllPoolsForBaseDenom(h.Ctx, d)
		h.App.ProtoRevKeeper.DeleteAllPoolsForBaseDenom(h.Ctx, base)
		h.App.ProtoRevKeeper.SetPoolForDenomPair(h.Ctx, base, d, pid)
		return pid
	}

	// (A1) converted minimum 0 through a pool whose quote SUCCEEDS with 0 (concentrated): first lock paid, later locks skipped
	{
		setup(10000)
		pid := clPool("rewx", 1000, 1_000_000_000_000)
		for i := range owners {
			lock(i, "lpa", 100)
		}
		gauge(true, "lpa", sdk.NewCoins(coin("rewx", 3000)), 1)
		err := epoch()
		t.Logf("A1 (CL route, minimum 10000%s quotes %s): one perpetual gauge 3000rewx, locks A,B,C 100lpa each: err=%v received rewx%s (property: 1000 each)", base, quote(pid, coin(base, 10000), "rewx"), err, bal("rewx"))
	}
	// (A1') the cache is shared by the gauges of one epoch: the second gauge pays NOBODY (its first lock already hits the cache)
	{
		setup(10000)
		clPool("rewx", 1000, 1_000_000_000_000)
		lock(0, "lpa", 100)
		lock(1, "lpb", 100)
		lock(2, "lpb", 100)
		g1 := gauge(true, "lpa", sdk.NewCoins(coin("rewx", 3000)), 1)
		g2 := gauge(false, "lpb", sdk.NewCoins(coin("rewx", 4000)), 2)
		err := epoch()
		a, _ := h.App.IncentivesKeeper.GetGaugeByID(h.Ctx, g1)
		b, _ := h.App.IncentivesKeeper.GetGaugeByID(h.Ctx, g2)
		t.Logf("A1' two gauges in one epoch (lpa: lock A; lpb: locks B,C): err=%v received rewx%s (property: A=3000 B=1000 C=1000); gauge1 distributed=%s filled=%d, gauge2 distributed=%s filled=%d/%d",
			err, bal("rewx"), a.DistributedCoins, a.FilledEpochs, b.DistributedCoins, b.FilledEpochs, b.NumEpochsPaidOver)
		err = epoch()
		b, _ = h.App.IncentivesKeeper.GetGaugeByID(h.Ctx, g2)
		t.Logf("A1' second epoch: err=%v received rewx%s; gauge2 distributed=%s of %s filled=%d/%d finished=%v", err, bal("rewx"), b.DistributedCoins, b.Coins, b.FilledEpochs, b.NumEpochsPaidOver, len(h.App.IncentivesKeeper.GetFinishedGauges(h.Ctx)) > 0)
	}
	// (A1'') other denoms are unaffected (cache is per denom); a zero share of the first lock consumes the "cache miss"
	{
		setup(10000)
		clPool("rewx", 1000, 1_000_000_000_000)
		lock(0, "lpa", 1)
		lock(1, "lpa", 1000)
		lock(2, "lpa", 1000)
		gauge(true, "lpa", sdk.NewCoins(coin("rewx", 2000), coin(base, 3_000_000)), 1)
		err := epoch()
		t.Logf("A1'' first lock's share of rewx is 0 (1 of 2001 shares): err=%v received rewx%s (property: A=0 B=999 C=999) %s%s", err, bal("rewx"), base, bal(base))
	}
	// (A2) converted minimum 0 through a pool whose quote FAILS on a zero result (balancer): the whole epoch hook fails
	{
		setup(10000)
		pid := balPool("rewx", 1000, 1_000_000_000_000)
		for i := range owners {
			lock(i, "lpa", 100)
		}
		lock(0, "lpb", 100)
		gauge(true, "lpa", sdk.NewCoins(coin("rewx", 3000)), 1)
		gauge(true, "lpb", sdk.NewCoins(coin(base, 5_000_000)), 1) // an unrelated gauge paying the base denom
		err := epoch()
		t.Logf("A2 (balancer route, minimum 10000%s quotes %s): err=%v; received rewx%s (cannot be valued: nothing), %s%s (property: A +5000000); active gauges=%d upcoming=%d",
			base, quote(pid, coin(base, 10000), "rewx"), err, bal("rewx"), base, bal(base), len(h.App.IncentivesKeeper.GetActiveGauges(h.Ctx)), len(h.App.IncentivesKeeper.GetUpcomingGauges(h.Ctx)))
		err = epoch()
		t.Logf("A2 next epoch: err=%v (before d4c28ad126 the hook failed every epoch while the gauge was there)", err)
	}
	// (A3) MinValueForDistribution = 0: the quote of a zero input
	{
		setup(0)
		pid := balPool("rewx", 2_000_000, 1_000_000)
		for i := range owners {
			lock(i, "lpa", 100)
		}
		gauge(true, "lpa", sdk.NewCoins(coin("rewx", 3000)), 1)
		err := epoch()
		t.Logf("A3 (balancer route 1:2, minimum 0%s quotes %s): err=%v received rewx%s (cannot be valued: nothing)", base, quote(pid, coin(base, 0), "rewx"), err, bal("rewx"))
		setup(0)
		pid = clPool("rewx", 2_000_000, 1_000_000)
		for i := range owners {
			lock(i, "lpa", 100)
		}
		gauge(true, "lpa", sdk.NewCoins(coin("rewx", 3000)), 1)
		err = epoch()
		t.Logf("A3 (CL route 1:2, minimum 0%s quotes %s): err=%v received rewx%s (property: 1000 each)", base, quote(pid, coin(base, 0), "rewx"), err, bal("rewx"))
	}
	// (A4) no route (removed after the gauge was created): every lock skipped, first one included (consistent)
	{
		setup(10000)
		balPool("rewx", 2_000_000, 1_000_000)
		for i := range owners {
			lock(i, "lpa", 100)
		}
		id := gauge(true, "lpa", sdk.NewCoins(coin("rewx", 3000)), 1)
		h.App.ProtoRevKeeper.DeleteAllPoolsForBaseDenom(h.Ctx, base)
		err := epoch()
		g, _ := h.App.IncentivesKeeper.GetGaugeByID(h.Ctx, id)
		t.Logf("A4 (route removed): err=%v received rewx%s, filled=%d (not valuable at all: nobody paid, epoch counted)", err, bal("rewx"), g.FilledEpochs)
	}
	// (A5) a huge minimum: quote larger than the pool's reserve
	{
		setup(1_000_000_000_000_000)
		pid := balPool("rewx", 2_000_000, 1_000_000)
		for i := range owners {
			lock(i, "lpa", 100)
		}
		gauge(true, "lpa", sdk.NewCoins(coin("rewx", 3000)), 1)
		err := epoch()
		t.Logf("A5 (balancer 1:2, minimum 1e15%s quotes %s): err=%v received rewx%s", base, quote(pid, coin(base, 1_000_000_000_000_000), "rewx"), err, bal("rewx"))
	}
	// (B) deposits accepted into a gauge of the finished store on the running chain
	{
		setup(1)
		lock(0, "lpa", 100)
		id := gauge(false, "lpa", sdk.NewCoins(coin(base, 1000)), 2)
		err := epoch()
		// the only lock begins unlocking and matures
		locks, _ := h.App.LockupKeeper.GetPeriodLocks(h.Ctx)
		if _, err := h.App.LockupKeeper.BeginUnlock(h.Ctx, locks[0].ID, nil); err != nil {
			t.Fatal(err)
		}
		h.Ctx = h.Ctx.WithBlockTime(h.Ctx.BlockTime().Add(time.Hour))
		h.App.LockupKeeper.WithdrawMaturedLocks(h.Ctx, 1000)
		err2 := epoch()
		g, _ := h.App.IncentivesKeeper.GetGaugeByID(h.Ctx, id)
		fin := false
		for _, f := range h.App.IncentivesKeeper.GetFinishedGauges(h.Ctx) {
			fin = fin || f.Id == id
		}
		top := sdk.NewCoins(coin(base, 777))
		h.FundAcc(creator, top)
		errTop := h.App.IncentivesKeeper.AddToGaugeRewards(h.Ctx, creator, top, id)
		g2, _ := h.App.IncentivesKeeper.GetGaugeByID(h.Ctx, id)
		lock(1, "lpa", 100)
		pre := bal(base)
		err3 := epoch()
		t.Logf("B: 2-epoch gauge 1000%s; epoch 1 (lock A) err=%v; epoch 2 (no lock) err=%v: in finished store=%v filled=%d/%d distributed=%s of %s; AddToGaugeRewards(777) err=%v coins now %s; epoch 3 with a new lock err=%v balances before%s after%s",
			base, err, err2, fin, g.FilledEpochs, g.NumEpochsPaidOver, g.DistributedCoins, g.Coins, errTop, g2.Coins, err3, pre, bal(base))
	}
}
