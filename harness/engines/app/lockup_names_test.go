package app_test

// Denomination alphabet of the `lockup` engine (property C06), history class "+names".
//
// x/lockup branches on the NAME of a coin in one place (unlockMaturedLockInternalLogic: a name with the CL share prefix
// `cl/pool` is burned instead of paid out), x/lockup/types has the synthetic-denomination helpers (`/superbonding`,
// `/superunbonding`), and the key layout makes names matter everywhere else: the by-denomination index keys are
// `…|0xFF|<denom>|0xFF|…` (range and prefix iterators over them), the accumulation store of a denomination is the key
// range `0x20 <denom> "/"`, and the synthetic locks of a lock live in the same index under `<denom>/super…`.
// So the alphabet gets, next to bar/foo/uosmo and the real CL pool shares, names RELATED to each of those strings:
// containing it, ending with it, a strict prefix of it, an extension of it, a case variant — and pairs of names one of
// which is a strict prefix of the other.  All of them are real bank denominations (the factory one is created and
// minted through the token-factory msg server, the others are minted through the bank like bar/foo/uosmo), held by the
// owners, and taken through the whole life cycle by the ordinary generator; every oracle of the engine runs for them.
//
// Meaning used by the oracles (shared with nothing): a coin is a CL share iff its name STARTS with the prefix; held
// coins of such a name are burned when their lock is withdrawn (balance + locked = funded - withdrawn, supply moves
// with it); every other name is an ordinary coin (returned to the owner in full, supply untouched).

import (
	"fmt"
	"math/rand"
	"sort"
	"strings"
	"time"

	sdk "github.com/cosmos/cosmos-sdk/types"

	"github.com/osmosis-labs/osmosis/osmomath"
	cltypes "github.com/osmosis-labs/osmosis/v31/x/concentrated-liquidity/types"
	lockuptypes "github.com/osmosis-labs/osmosis/v31/x/lockup/types"
	tfkeeper "github.com/osmosis-labs/osmosis/v31/x/tokenfactory/keeper"
	tftypes "github.com/osmosis-labs/osmosis/v31/x/tokenfactory/types"
)

type nameSpec struct {
	name    string
	class   string
	factory string // sub-denomination: created through x/tokenfactory by owner A
}

// nameFamilies: per special string, the related names.  `<A>` is replaced by owner A's address.
func (e *lockupEnv) nameFamilies() map[string][]nameSpec {
	p := cltypes.ConcentratedLiquidityTokenPrefix // "cl/pool"; the names below are built FROM it
	a := e.addrs["A"].String()
	return map[string][]nameSpec{
		// the CL share prefix: ordinary coins whose name contains / ends with / falls short of it ...
		"cl-ordinary": {
			{"factory/" + a + "/" + p + "/1", "factory-subdenom-is-cl-share-name", p + "/1"},
			{"factory/" + a + "/x" + p, "factory-subdenom-ends-with-cl-prefix", "x" + p},
			{"x" + p + "/1", "contains-cl-prefix", ""},
			{"ibc/" + p + "/1", "contains-cl-prefix", ""},
			{"gamm/" + p + "/1", "contains-cl-prefix", ""},
			{"uosmo/" + p, "ends-with-cl-prefix", ""},
			{p[:len(p)-1], "strict-prefix-of-cl-prefix", ""},
			{strings.ToUpper(p[:1]) + p[1:] + "/1", "case-variant-of-cl-share-name", ""},
		},
		// ... and held coins that carry it without being the share of a pool
		"cl-prefixed": {
			{p, "equals-cl-prefix", ""},
			{p + "/", "cl-prefix-plus-separator", ""},
			{p + "x", "extension-of-cl-prefix", ""},
			{p + "/1x", "extension-of-cl-share-name", ""},
			{p + "/999", "cl-share-name-of-no-pool", ""},
		},
		// LP share names: one a strict prefix of the other (by-denomination index keys, accumulation-store key ranges)
		"gamm": {
			{"gamm/pool/1", "lp-share-name", ""},
			{"gamm/pool/10", "lp-share-name-extension", ""},
			{"gamm/pool/1/x", "lp-share-name-extension", ""},
			{"gamm/pool/", "strict-prefix-of-lp-share-name", ""},
			{"xgamm/pool/1", "contains-lp-share-name", ""},
		},
		// real coins that look like synthetic (superfluid) denominations of bar/foo/uosmo
		"synthetic": {
			{"bar/superbonding/v1", "looks-synthetic", ""},
			{"foo/superunbonding/v1", "looks-synthetic", ""},
			{"uosmo/superbonding", "ends-with-synthetic-suffix", ""},
			{"bar/superbond", "strict-prefix-of-synthetic-suffix", ""},
			{"bar/super", "strict-prefix-of-synthetic-suffix", ""},
			{"foo/superbondingx/v1", "extension-of-synthetic-suffix", ""},
			{"xsuperbonding/v1", "contains-synthetic-word", ""},
		},
		// the native denomination and the two other base names: strict prefixes and extensions
		"base": {
			{"uosm", "strict-prefix-of-base-name", ""},
			{"uosmox", "extension-of-base-name", ""},
			{"uosmo/x", "extension-of-base-name", ""},
			{"Uosmo", "case-variant-of-base-name", ""},
			{"fooo", "extension-of-base-name", ""},
			{"foo/", "extension-of-base-name", ""},
			{"bar/x", "extension-of-base-name", ""},
			{"barx", "extension-of-base-name", ""},
		},
	}
}

// pickNames: 2..5 related names from one or two families (a family member never comes alone when it has a partner in
// the family: the pair is the point).
func (e *lockupEnv) pickNames(r *rand.Rand) []nameSpec {
	fams := e.nameFamilies()
	order := []string{"cl-ordinary", "cl-prefixed", "gamm", "synthetic", "base"}
	var out []nameSpec
	take := func(f string, n int) {
		ns := append([]nameSpec{}, fams[f]...)
		r.Shuffle(len(ns), func(i, j int) { ns[i], ns[j] = ns[j], ns[i] })
		if f == "gamm" { // always the anchor gamm/pool/1 next to its extensions
			for i, x := range ns {
				if x.name == "gamm/pool/1" {
					ns[0], ns[i] = ns[i], ns[0]
				}
			}
		}
		out = append(out, ns[:min(n, len(ns))]...)
		e.o.Count("class.names.family." + f)
	}
	// the CL families weigh most (the one name-dependent branch of the keeper)
	switch x := r.Intn(10); {
	case x < 4:
		take("cl-ordinary", 1+r.Intn(2))
		take("cl-prefixed", 1+r.Intn(2))
	case x < 6:
		take("cl-ordinary", 2+r.Intn(2))
	default:
		f := order[2+r.Intn(3)]
		take(f, 2+r.Intn(2))
		if r.Intn(2) == 0 {
			take(order[r.Intn(2)], 1)
		}
	}
	return out
}

// createNames makes the picked names real: token-factory denominations are created by owner A through the
// token-factory msg server (creation fee switched off for the history); returns false if that failed.
func (e *lockupEnv) createNames(ns []nameSpec) bool {
	h := e.h
	for _, n := range ns {
		if err := sdk.ValidateDenom(n.name); err != nil {
			e.o.Fail("names:invalid-bank-denom", n.name)
			return false
		}
		if n.factory == "" {
			continue
		}
		tfp := h.App.TokenFactoryKeeper.GetParams(h.Ctx)
		tfp.DenomCreationFee = nil
		h.App.TokenFactoryKeeper.SetParams(h.Ctx, tfp)
		srv := tfkeeper.NewMsgServerImpl(*h.App.TokenFactoryKeeper)
		resp, err := srv.CreateDenom(h.Ctx, &tftypes.MsgCreateDenom{Sender: e.addrs["A"].String(), Subdenom: n.factory})
		if err != nil || resp.NewTokenDenom != n.name {
			e.o.Fail("names:tokenfactory-create-failed", fmt.Sprintf("%s: %v", n.name, err))
			return false
		}
	}
	return true
}

// fundName gives an owner `units` of a denomination: factory denominations are minted by their creator through the
// token-factory msg server (MintToAddress), everything else through the bank as before.
func (e *lockupEnv) fundName(owner, dn string, units int64) {
	if strings.HasPrefix(dn, "factory/") {
		srv := tfkeeper.NewMsgServerImpl(*e.h.App.TokenFactoryKeeper)
		if _, err := srv.Mint(e.h.Ctx, &tftypes.MsgMint{Sender: e.addrs["A"].String(), Amount: e.coin(dn, units), MintToAddress: e.addrs[owner].String()}); err != nil {
			e.o.Fail("names:tokenfactory-mint-failed", fmt.Sprintf("%s: %v", dn, err))
		}
		return
	}
	e.h.FundAcc(e.addrs[owner], sdk.NewCoins(e.coin(dn, units)))
}

func (e *lockupEnv) classOf(dn string) string {
	if c, ok := e.dclass[dn]; ok {
		return c
	}
	if e.isShare(dn) {
		return "cl-pool-share"
	}
	return "base-name"
}

// multiCoinBranch: on a DISCARDED branch of the current state, a keeper-level lock holding several denominations of
// different name classes (CreateLock — what other modules and genesis can produce; MsgLockTokens takes one coin) goes
// through add / extend / partial begin-unlock that keeps every denomination on both sides / begin-unlock / maturity /
// withdrawal (or keeper ForceUnlock).  Oracle: while it lives every by-denomination listing contains it exactly once;
// at the end each coin is back with the owner unless its name starts with the CL share prefix (then it is burned:
// supply down by exactly that amount), nobody else's balance moved, module balance and every accumulation are what
// they were.  Nothing reaches the model or the shadow list.
func (e *lockupEnv) multiCoinBranch() {
	r, o := e.r, e.o
	k := e.h.App.LockupKeeper
	owner := e.names[r.Intn(len(e.names))]
	var held []string
	for _, dn := range e.denoms {
		if !e.isShare(dn) && e.bal(owner, dn) >= 8 {
			held = append(held, dn)
		}
	}
	if len(held) < 2 {
		o.Count("multicoin.skipped")
		return
	}
	r.Shuffle(len(held), func(i, j int) { held[i], held[j] = held[j], held[i] })
	// the related names first: a multi-coin lock is interesting when it mixes classes
	sort.SliceStable(held, func(i, j int) bool { return e.dclass[held[i]] != "" && e.dclass[held[j]] == "" })
	held = held[:min(len(held), 2+r.Intn(3))]
	amt := map[string]int64{}
	var coins sdk.Coins
	var classes []string
	for _, dn := range held {
		amt[dn] = 4 + r.Int63n(min(e.bal(owner, dn)-3, 50)-3)
		coins = coins.Add(e.coin(dn, amt[dn]))
		classes = append(classes, e.classOf(dn))
	}
	sort.Strings(classes)
	dur := e.durs[r.Intn(len(e.durs))]
	variant := []string{"withdraw", "unlock", "forceunlock", "split-withdraw"}[r.Intn(4)]
	desc := fmt.Sprintf("multicoin %s owner %s duration %d coins %s", variant, owner, dur, e.coinsStr(coins))
	all := append(append([]string{}, e.names...), "X")
	snapBal := func(c sdk.Context) map[string]osmomath.Int {
		m := map[string]osmomath.Int{}
		for _, nm := range all {
			for _, dn := range e.denoms {
				m[nm+" "+dn] = e.h.App.BankKeeper.GetBalance(c, e.addrs[nm], dn).Amount
			}
		}
		for _, dn := range e.denoms {
			m["supply "+dn] = e.h.App.BankKeeper.GetSupply(c, dn).Amount
		}
		return m
	}
	pts := e.accumPoints()
	snapAcc := func(c sdk.Context) map[string]string {
		m := map[string]string{}
		for _, dn := range held {
			for _, d := range pts {
				v := "panic"
				catch(func() {
					v = k.GetPeriodLocksAccumulation(c, lockuptypes.QueryCondition{LockQueryType: lockuptypes.ByDuration, Denom: dn, Duration: time.Duration(d)}).String()
				})
				m[fmt.Sprintf("%s>=%d", dn, d)] = v
			}
		}
		return m
	}
	c, _ := e.h.Ctx.CacheContext() // never written
	bal0, acc0 := snapBal(c), snapAcc(c)
	fail := func(key, detail string) { o.Fail(key, desc+": "+detail+e.histStr()) }
	var id uint64
	step := func(what string, f func() error) bool {
		var err error
		if !catch(func() { err = f() }) {
			fail("multicoin:panic:"+what, "panicked")
			return false
		}
		if err != nil {
			fail("multicoin:refused:"+what, err.Error())
			return false
		}
		return true
	}
	if !step("create", func() error {
		l, err := k.CreateLock(c, e.addrs[owner], coins, time.Duration(dur))
		id = l.ID
		return err
	}) {
		return
	}
	o.Count("multicoin." + variant + ".coins." + fmt.Sprint(len(coins)))
	distinct := map[string]bool{}
	for _, cl := range classes {
		if !distinct[cl] {
			o.Count("multicoin.class." + cl)
		}
		distinct[cl] = true
	}
	o.Count(fmt.Sprintf("multicoin.distinct-classes.%d", len(distinct)))
	// listed exactly once under each of its denominations, and under no other denomination of the alphabet
	listed := func(c sdk.Context, ids []uint64, when string) {
		for _, dn := range e.denoms {
			var got []uint64
			if !catch(func() { got = lockIDs(k.GetLocksDenom(c, dn)) }) {
				fail("multicoin:query-panicked:locksDenom", when+" "+dn)
				continue
			}
			want := e.sel(func(l *shLock) bool { return l.denom == dn })
			if _, in := amt[dn]; in {
				want = append(want, ids...)
			}
			sort.Slice(want, func(i, j int) bool { return want[i] < want[j] })
			if !eqIDs(got, want) {
				fail("multicoin:locksDenom:"+e.classOf(dn), fmt.Sprintf("%s: GetLocksDenom(%s) = %v, locks holding it %v", when, dn, got, want))
			}
		}
	}
	listed(c, []uint64{id}, "after create")
	// top up one coin (same denomination: the callers' contract), extend
	if r.Intn(2) == 0 {
		dn := held[r.Intn(len(held))]
		if e.bal(owner, dn)-amt[dn] >= 2 {
			if !step("addtolock", func() error { _, err := k.AddTokensToLockByID(c, id, e.addrs[owner], e.coin(dn, 1)); return err }) {
				return
			}
			amt[dn]++
			coins = coins.Add(e.coin(dn, 1))
		}
	}
	if r.Intn(3) == 0 {
		if !step("extend", func() error { return k.ExtendLockup(c, id, e.addrs[owner], time.Duration(dur+1)) }) {
			return
		}
		dur++
	}
	now := e.now
	ids := []uint64{id}
	switch variant {
	case "forceunlock":
		if !step("forceunlock", func() error {
			l, err := k.GetLockByID(c, id)
			if err != nil {
				return err
			}
			return k.ForceUnlock(c, *l)
		}) {
			return
		}
	default:
		if variant == "split-withdraw" { // a part of EVERY coin starts unlocking first, the rest later
			var part sdk.Coins
			for _, dn := range held {
				part = part.Add(e.coin(dn, 1+r.Int63n(amt[dn]-1)))
			}
			var nid uint64
			if !step("beginunlock-part", func() (err error) { nid, err = k.BeginUnlock(c, id, part); return err }) {
				return
			}
			if nid == id {
				fail("multicoin:split-kept-id", "")
			}
			ids = append(ids, nid)
			listed(c, ids, "after partial begin-unlock")
		}
		if !step("beginunlock", func() error { _, err := k.BeginUnlock(c, id, nil); return err }) {
			return
		}
		// 1ns before maturity nothing of it may be released
		c = c.WithBlockTime(tm(now + dur - 1))
		if variant == "unlock" {
			var err error
			if !catch(func() { err = k.UnlockMaturedLock(c, id) }) || err == nil {
				fail("multicoin:early-unlock", "UnlockMaturedLock accepted 1ns before maturity")
				return
			}
		} else {
			if !step("withdraw-early", func() error { k.WithdrawMaturedLocks(c, 0); return nil }) {
				return
			}
			for _, x := range ids {
				if _, err := k.GetLockByID(c, x); err != nil {
					fail("multicoin:early-unlock", fmt.Sprintf("lock %d withdrawn 1ns before maturity", x))
					return
				}
			}
		}
		c = c.WithBlockTime(tm(now + dur))
		if variant == "unlock" {
			if !step("unlock", func() error { return k.UnlockMaturedLock(c, id) }) {
				return
			}
		} else if !step("withdraw", func() error { k.WithdrawMaturedLocks(c, 0); return nil }) {
			return
		}
	}
	for _, x := range ids {
		if _, err := k.GetLockByID(c, x); err == nil {
			fail("multicoin:lock-not-released", fmt.Sprint(x))
		}
	}
	// the withdrawal also released the history's own matured locks (variant withdraw): what they give is known
	extra := map[string]int64{}
	extraBurn := map[string]int64{}
	if variant == "withdraw" || variant == "split-withdraw" {
		for _, l := range e.shadow {
			if l.end != 0 && l.end <= now+dur && e.synth[l.id] == nil {
				if isCLDenom(l.denom) {
					extraBurn[l.denom] += l.amt
				} else {
					extra[l.owner+" "+l.denom] += l.amt
				}
			}
		}
	}
	bal1 := snapBal(c)
	toUnits := func(dn string, a, b osmomath.Int) int64 { return e.units(dn, a.Sub(b), "multicoin-delta") }
	for _, nm := range all {
		for _, dn := range e.denoms {
			if e.isShare(dn) {
				continue
			}
			got := toUnits(dn, bal1[nm+" "+dn], bal0[nm+" "+dn])
			want := extra[nm+" "+dn]
			_, mine := amt[dn]
			if mine && nm == owner && isCLDenom(dn) {
				want -= amt[dn] // locked, then burned
			}
			if got != want {
				key := "multicoin:wrong-recipient:" + e.classOf(dn)
				if mine && nm == owner && got < want {
					key = "release:coins-not-returned-to-owner:" + e.classOf(dn)
				}
				fail(key, fmt.Sprintf("%s's %s moved by %d over the whole life of the lock, expected %d", nm, dn, got, want))
			}
		}
	}
	for _, dn := range e.denoms {
		if e.isShare(dn) {
			continue
		}
		got := toUnits(dn, bal0["supply "+dn], bal1["supply "+dn])
		want := extraBurn[dn]
		if _, mine := amt[dn]; mine && isCLDenom(dn) {
			want += amt[dn]
		}
		if got != want {
			fail("supply:changed-by-lockup:"+e.classOf(dn), fmt.Sprintf("supply of %s fell by %d over the whole life of the lock, expected %d", dn, got, want))
		}
	}
	if variant == "unlock" || variant == "forceunlock" { // nothing but the branch's own lock changed: accumulations are back
		acc1 := snapAcc(c)
		for key, v := range acc0 {
			if acc1[key] != v {
				fail("multicoin:accumulation-not-restored:"+e.classOf(key[:strings.LastIndex(key, ">=")]), fmt.Sprintf("%s before %s after %s", key, v, acc1[key]))
			}
		}
		listed(c, nil, "after release")
	}
}

// namespaceProbe (candidate finding F55, discarded branch; counted, never a failure): the accumulation store of a
// denomination D is the key range `0x20 D "/"` and its sum tree keeps its nodes under `node/<level><key>` inside that
// range, so the tree of a denomination `D/node/zz` lies inside D's range: the tree's root lookup (the highest key
// under `node/`) finds the foreign tree's leaf and every accumulation query for D panics.
func (e *lockupEnv) namespaceProbe() {
	c, _ := e.h.Ctx.CacheContext()
	k := e.h.App.LockupKeeper
	a := e.addrs["A"]
	ext := "foo/node/zz"
	acc := func(dn string) string {
		out := "panic"
		catch(func() {
			out = k.GetPeriodLocksAccumulation(c, lockuptypes.QueryCondition{LockQueryType: lockuptypes.ByDuration, Denom: dn, Duration: 0}).String()
		})
		return out
	}
	fund := sdk.NewCoins(sdk.NewInt64Coin("foo", 100), sdk.NewInt64Coin(ext, 100))
	if !catch(func() {
		if err := e.h.App.BankKeeper.MintCoins(c, "mint", fund); err != nil {
			panic(err)
		}
		if err := e.h.App.BankKeeper.SendCoinsFromModuleToAccount(c, "mint", a, fund); err != nil {
			panic(err)
		}
	}) {
		e.o.Count("probe.accum-namespace.funding-failed")
		return
	}
	k.CreateLock(c, a, sdk.NewCoins(sdk.NewInt64Coin("foo", 10)), 10*time.Second)
	before := acc("foo")
	k.CreateLock(c, a, sdk.NewCoins(sdk.NewInt64Coin(ext, 7)), 5*time.Second)
	after := acc("foo")
	if before == "10" && after == "panic" && acc(ext) == "7" {
		e.o.Count("probe.accum-namespace.tree-of-extension-denom-breaks-query.confirmed")
	} else {
		e.o.Count(fmt.Sprintf("probe.accum-namespace.NOT-as-recorded.before=%s.after=%s", before, after))
	}
}

// countNames: input distribution of the transactions per name class of the denominations they carry.
func (e *lockupEnv) countNames(opk, line, obs string) {
	if len(e.look) == 0 {
		return
	}
	res := strings.Fields(obs)[0]
	seen := map[string]bool{}
	for _, f := range strings.Fields(line) {
		for _, c := range strings.Split(f, ",") {
			dn := c
			if i := strings.LastIndex(c, ":"); i > 0 {
				dn = c[:i]
			}
			if cl := e.dclass[dn]; cl != "" && !seen[cl] {
				seen[cl] = true
				e.o.Count("names." + cl + "." + opk + "." + res)
			}
		}
	}
	if len(seen) == 0 && (opk == "extend" || opk == "unlock" || opk == "setreceiver" || opk == "beginunlock" || opk == "forceunlock") {
		// these name a lock id, not a coin: class of the lock's denomination
		var id uint64
		fs := strings.Fields(line)
		switch opk {
		case "unlock":
			fmt.Sscan(fs[3], &id)
		default:
			fmt.Sscan(fs[4], &id)
		}
		if l, ok := e.shadow[id]; ok && e.dclass[l.denom] != "" {
			e.o.Count("names." + e.dclass[l.denom] + "." + opk + "." + res)
		}
	}
}
