package app_test

import (
	"time"

	"github.com/cosmos/cosmos-sdk/crypto/keys/secp256k1"
	sdk "github.com/cosmos/cosmos-sdk/types"
	slashingtypes "github.com/cosmos/cosmos-sdk/x/slashing/types"
	stakingkeeper "github.com/cosmos/cosmos-sdk/x/staking/keeper"
	stakingtypes "github.com/cosmos/cosmos-sdk/x/staking/types"

	"github.com/osmosis-labs/osmosis/osmomath"
)

// setupValidatorDet is apptesting.KeeperTestHelper.SetupValidator with the validator key derived from `secret`
// instead of crypto/rand: validator (and hence superfluid intermediary-account) addresses, and with them every store
// iteration order that depends on them, replay exactly for a given VERIF_SEED.
func setupValidatorDet(h *H, secret string, bondStatus stakingtypes.BondStatus) sdk.ValAddress {
	valPub := secp256k1.GenPrivKeyFromSecret([]byte(secret)).PubKey()
	valAddr := sdk.ValAddress(valPub.Address())
	stakingParams, err := h.App.StakingKeeper.GetParams(h.Ctx)
	h.Require().NoError(err)
	bondAmt := sdk.DefaultPowerReduction
	selfBond := sdk.NewCoins(sdk.Coin{Amount: bondAmt, Denom: stakingParams.BondDenom})
	h.FundAcc(sdk.AccAddress(valAddr), selfBond)
	stakingCoin := sdk.Coin{Denom: sdk.DefaultBondDenom, Amount: selfBond[0].Amount}
	zeroDec := osmomath.ZeroDec()
	zeroCommission := stakingtypes.NewCommissionRates(zeroDec, zeroDec, zeroDec)
	valCreateMsg, err := stakingtypes.NewMsgCreateValidator(valAddr.String(), valPub, stakingCoin,
		stakingtypes.NewDescription("moniker", "identity", "website", "securityContact", "details"), zeroCommission, osmomath.OneInt())
	h.Require().NoError(err)
	res, err := stakingkeeper.NewMsgServerImpl(h.App.StakingKeeper).CreateValidator(h.Ctx, valCreateMsg)
	h.Require().NoError(err)
	h.Require().NotNil(res)
	val, err := h.App.StakingKeeper.GetValidator(h.Ctx, valAddr)
	h.Require().NoError(err)
	val = val.UpdateStatus(bondStatus)
	h.Require().NoError(h.App.StakingKeeper.SetValidator(h.Ctx, val))
	consAddr, err := val.GetConsAddr()
	h.Require().NoError(err)
	signingInfo := slashingtypes.NewValidatorSigningInfo(consAddr, h.Ctx.BlockHeight(), time.Unix(0, 0), false, 0)
	h.Require().NoError(h.App.SlashingKeeper.SetValidatorSigningInfo(h.Ctx, consAddr, signingInfo))
	return valAddr
}
