package app_test

// World histories of engine `twap` (property C10): SEVERAL pools with SEVERAL asset pairs on one chain.
//
// Generator.  A fresh chain gets pools 1..N (N = 12..15, or 257..259 so that ids beyond one byte of the little-endian
// changed-pool key and three-digit decimal ids exist); the pools with ids that are prefixes / neighbours of each other in
// the decimal key encoding (1, 10, 11, 2, 100, 255, 256 …) are ACTIVE, the rest are inert two-asset fillers that only
// occupy the neighbouring store keys.  Denoms come from alphabets built around prefix relations and byte-order adjacency
// (uusd / uusdc / uusdc.e, abc / abcd / abc- / abc. / abc/d / abcz, gamm/pool/1 / gamm/pool/10 / gamm/pool/100, zzz / zzzz
// — 'z' is the valid denom character closest to the key separator '|', '-' '.' '/' the lowest ones); active pools are
// balancer pools with 2..5 assets (1..10 pairs) or concentrated pools.  Blocks are real ABCI blocks; in every block a
// random subset of the active pools gets price-moving messages; about one block in four REPEATS the timestamp of its
// predecessor, with messages directed at pools that were changed in the predecessor (their update is rejected: "record
// already exists for this time") AND at pools that were not (their update must go through), on both sides of the rejected
// pool in the order of the changed-pool store.  Pruning passes are armed through the epoch hook with cutoffs on / next to
// record times and per-block deletion limits.
//
// Oracles (own log; nothing shared with the keeper's key functions or the Lean model):
//   * per block, per changed pool: from the engine's own log of (time, height, prices, accumulators Σ p·Δms) it decides
//     whether the pool's update is individually acceptable; if so EVERY pair of the pool must have a fresh record at the
//     block time with the engine's own end-of-block read of the pool's spot prices — whatever happened to other pools;
//   * per block, the RAW x/twap store (classified by the DECODED record values, not by the keys) is diffed against the
//     previous block: entries may only be written for pools that changed in this block, at the block time; entries may
//     only be deleted by a pruning pass, strictly before its cutoff and never the newest one before it; after a completed
//     pass the stored record times of every pair equal the engine's own expectation;
//   * every TWAP answer (judge, shared with the single-pool histories) is recomputed from the pair's own price log;
//     before / after each pruning pass the same (pool, ordered pair, interval, strategy) questions are asked for every
//     pair of every active pool and must agree for intervals inside the keep window.

import (
	"bytes"
	"encoding/binary"
	"fmt"
	"math/big"
	"os"
	"sort"
	"strings"
	"time"

	sdk "github.com/cosmos/cosmos-sdk/types"

	"github.com/osmosis-labs/osmosis/osmomath"
	clmodel "github.com/osmosis-labs/osmosis/v31/x/concentrated-liquidity/model"
	"github.com/osmosis-labs/osmosis/v31/x/gamm/pool-models/balancer"
	poolmanagertypes "github.com/osmosis-labs/osmosis/v31/x/poolmanager/types"
	"github.com/osmosis-labs/osmosis/v31/x/twap"
	twaptypes "github.com/osmosis-labs/osmosis/v31/x/twap/types"
)

type twPair struct {
	d0, d1     string
	recs       []twRec     // own log of the recorded prices (never pruned)
	hgt        int64       // height of the last recorded block
	acc0, acc1 *big.Int    // own accumulators at the last record: Σ price · Δms since creation
	hist       []time.Time // record times expected in the historical index (own bookkeeping of the pruning passes)
	sibling    bool        // another pair (d0, d1+suffix) or (d0, proper prefix of d1) exists in the same pool
}

type twPool struct {
	id      uint64
	kind    string
	denoms  []string // ascending
	pairs   []*twPair
	posIds  []uint64
	hugeExp int
	filler  bool
	mass    bool           // a modelled two-asset pool of a mass history (twap_tx_test.go): in the model and in the block oracle, not in the all-pairs rounds
	addr    sdk.AccAddress // the pool account (twap_tx_test.go: own read of the pool's state)
	created int64          // height
}

type twWorld struct {
	pools    map[uint64]*twPool
	active   []*twPool
	lastKept *time.Time        // latest cutoff of a completed pruning pass (retention window only shrinks)
	snap     map[string][]byte // raw x/twap store after the previous block
	own      map[uint64]string // pools with a successful price-moving message in the open block -> kind of message
	prev     map[uint64]bool   // active pools whose records were updated in the previous block
	prunedAt time.Time         // LastKeptTime already reported to the model
	family   []string
	sameTime int // length of the current run of blocks with one timestamp

	// twap_tx_test.go
	mass   []*twPool         // modelled pools of a mass history that are not in `active`
	seq    map[uint64]string // open block, per pool: 'S' a committed change, 'R' a change inside a transaction that was reverted, in order
	rev    map[uint64]string // open block: pools changed inside a reverted transaction -> kind of that transaction
	follow []*twPool         // pools of the block just closed that had reverted AND committed transactions: asked in the next blocks
	lastT  time.Time         // time of the block just closed
}

// modelled: the pools the model and the block oracle know (everything but the fillers).
func (w *twWorld) modelled() []*twPool { return append(append([]*twPool{}, w.active...), w.mass...) }

var twFamilies = [][]string{
	{"uusd", "uusdc", "uusdc.e", "uusdcz", "uusd/x", "uus", "uatom", "uatom0", "uusd-"},
	{"abc", "abcd", "abcde", "abc/d", "abc-", "abc.", "abc0", "abcz", "abd", "aaa"},
	{"gamm/pool/1", "gamm/pool/10", "gamm/pool/100", "gamm/pool/11", "gamm/pool/2", "gamm/pool/25", "gamm/pool/256", "gamm/pool"},
	{"zzz", "zzzz", "zzz-", "zzy", "zz_z", "zz:z", "Zzz", "zzzzz", "zzz.", "zzz/"},
}

const (
	twRecentFamily = "recent_twap|"
	twHistFamily   = "historical_pool_index|"
)

// leOrder: the order of the changed-pool store (keys: the id as 8 little-endian bytes).
func leLess(a, b uint64) bool {
	var x, y [8]byte
	binary.LittleEndian.PutUint64(x[:], a)
	binary.LittleEndian.PutUint64(y[:], b)
	return bytes.Compare(x[:], y[:]) < 0
}

func (e *twEngine) view(p *twPool, pr *twPair) {
	e.poolId, e.kind, e.denoms, e.posIds, e.hugeExp = p.id, p.kind, p.denoms, p.posIds, p.hugeExp
	e.lastKept = e.w.lastKept
	if pr != nil {
		e.d0, e.d1, e.recs = pr.d0, pr.d1, pr.recs
		e.wq = fmt.Sprintf("%d %s %s", p.id, pr.d0, pr.d1)
	}
}

func (e *twEngine) pricesOf(id uint64, d0, d1 string) (q0, q1 osmomath.BigDec, e0, e1 error) {
	cctx, _ := e.h.Ctx.CacheContext()
	q0, e0 = e.h.App.PoolManagerKeeper.RouteCalculateSpotPrice(cctx, id, d0, d1)
	q1, e1 = e.h.App.PoolManagerKeeper.RouteCalculateSpotPrice(cctx, id, d1, d0)
	return
}

// ---------------------------------------------------------------- raw store

type twEntry struct {
	hist bool
	rec  twaptypes.TwapRecord
}

func (e *twEngine) wSnap() map[string][]byte {
	store := e.h.Ctx.KVStore(e.h.App.GetKey(twaptypes.StoreKey))
	out := map[string][]byte{}
	it := store.Iterator(nil, nil)
	for ; it.Valid(); it.Next() {
		out[string(it.Key())] = append([]byte{}, it.Value()...)
	}
	it.Close()
	return out
}

// twDecode classifies a raw entry by its VALUE (the record's own pool id / denoms / time); the key only tells the family.
func twDecode(key string, val []byte) (twEntry, bool) {
	var en twEntry
	switch {
	case strings.HasPrefix(key, twHistFamily):
		en.hist = true
	case strings.HasPrefix(key, twRecentFamily):
	default:
		return en, false
	}
	if err := en.rec.Unmarshal(val); err != nil {
		return en, false
	}
	return en, true
}

func pairName(id uint64, d0, d1 string) string { return fmt.Sprintf("%d %s %s", id, d0, d1) }

// storedPairs: the decoded store grouped by pair: most recent record and the historical records ascending by time.
type twStored struct {
	recent *twaptypes.TwapRecord
	hist   []twaptypes.TwapRecord
}

func twGroup(snap map[string][]byte) map[string]*twStored {
	out := map[string]*twStored{}
	for k, v := range snap {
		en, ok := twDecode(k, v)
		if !ok {
			continue
		}
		n := pairName(en.rec.PoolId, en.rec.Asset0Denom, en.rec.Asset1Denom)
		g := out[n]
		if g == nil {
			g = &twStored{}
			out[n] = g
		}
		if en.hist {
			g.hist = append(g.hist, en.rec)
		} else {
			r := en.rec
			g.recent = &r
		}
	}
	for _, g := range out {
		sort.SliceStable(g.hist, func(i, j int) bool { return g.hist[i].Time.Before(g.hist[j].Time) })
	}
	return out
}

// ---------------------------------------------------------------- pools

func (e *twEngine) wPickDenoms(n int) []string {
	r := e.r
	fam := append([]string{}, e.w.family...)
	r.Shuffle(len(fam), func(i, j int) { fam[i], fam[j] = fam[j], fam[i] })
	ds := append([]string{}, fam[:n]...)
	sort.Strings(ds)
	return ds
}

// wCreatePool creates the next pool (a filler or an active pool) in the open block.
func (e *twEngine) wCreatePool(filler, mass bool) *twPool {
	r := e.r
	w := e.w
	p := &twPool{filler: filler, mass: mass, created: e.h.Ctx.BlockHeight()}
	var err error
	var id uint64
	isCL := !filler && !mass && r.Intn(6) == 0
	if isCL {
		p.kind = "cl"
		p.denoms = e.wPickDenoms(2)
		err = e.atomically(func(ctx sdk.Context) error {
			e.h.FundAcc(e.acc(), e.h.App.PoolManagerKeeper.GetParams(ctx).PoolCreationFee)
			spread := osmomath.ZeroDec()
			if r.Intn(2) == 0 {
				spread = osmomath.MustNewDecFromStr("0.003")
			}
			a, b := p.denoms[0], p.denoms[1]
			if r.Intn(2) == 0 {
				a, b = b, a
			}
			var er error
			id, er = e.h.App.PoolManagerKeeper.CreatePool(ctx, clmodel.NewMsgCreateConcentratedPool(e.acc(), a, b, []uint64{1, 10, 100}[r.Intn(3)], spread))
			return er
		})
	} else {
		n := 2
		if !filler && !mass {
			n = []int{2, 3, 3, 3, 4, 4, 5}[r.Intn(7)]
		}
		p.kind = fmt.Sprintf("bal%d", n)
		p.denoms = e.wPickDenoms(n)
		shape := r.Intn(12)
		var assets []balancer.PoolAsset
		for i := 0; i < n; i++ {
			amt := e.randMag(6, 12)
			wt := int64(1 + r.Intn(20))
			switch {
			case filler || mass:
				amt, wt = big.NewInt(int64(1000000+r.Intn(1000000))), 1
			case shape == 0: // all prices exactly one
				amt, wt = big.NewInt(1000000), 1
				p.kind = fmt.Sprintf("bal%d-unit", n)
			case shape == 1: // one asset dwarfs the others: prices against it round to zero (spot price error, zero accumulators)
				if i == 0 {
					amt = new(big.Int).Mul(big.NewInt(int64(1+r.Intn(5))), pow10(20+r.Intn(4)))
				} else {
					amt = big.NewInt(int64(60 + r.Intn(100)))
				}
				wt = 1
				p.kind = fmt.Sprintf("bal%d-extreme", n)
			case shape == 2:
				amt = new(big.Int).Lsh(big.NewInt(1), uint(10+r.Intn(30)))
				wt = 1
			}
			assets = append(assets, balancer.PoolAsset{Weight: osmomath.NewInt(wt), Token: coin(p.denoms[i], amt)})
		}
		fee := osmomath.ZeroDec()
		if r.Intn(2) == 0 {
			fee = osmomath.MustNewDecFromStr("0.002")
		}
		err = e.atomically(func(ctx sdk.Context) error {
			e.h.FundAcc(e.acc(), e.h.App.PoolManagerKeeper.GetParams(ctx).PoolCreationFee)
			for _, a := range assets {
				e.h.FundAcc(e.acc(), sdk.NewCoins(a.Token))
			}
			var er error
			id, er = e.h.App.PoolManagerKeeper.CreatePool(ctx, balancer.NewMsgCreateBalancerPool(e.acc(), balancer.PoolParams{SwapFee: fee, ExitFee: osmomath.ZeroDec()}, assets, ""))
			return er
		})
	}
	if err != nil {
		panic(fmt.Sprintf("twap world: pool creation failed (%s %v): %v", p.kind, p.denoms, err))
	}
	p.id = id
	for i := 0; i < len(p.denoms); i++ {
		for j := i + 1; j < len(p.denoms); j++ {
			p.pairs = append(p.pairs, &twPair{d0: p.denoms[i], d1: p.denoms[j], acc0: new(big.Int), acc1: new(big.Int)})
		}
	}
	for _, a := range p.pairs {
		for _, b := range p.pairs {
			if a != b && a.d0 == b.d0 && (strings.HasPrefix(a.d1, b.d1) || strings.HasPrefix(b.d1, a.d1)) {
				a.sibling = true
			}
		}
	}
	w.pools[id] = p
	switch {
	case filler:
		e.o.Count("world.pool.filler")
		return p
	case mass:
		e.o.Count("world.pool.mass")
		w.mass = append(w.mass, p)
	default:
		e.o.Count("world.pool.active." + p.kind)
		w.active = append(w.active, p)
		for _, pr := range p.pairs {
			if pr.sibling {
				e.o.Count("class.world.pool-with-prefix-related-pairs")
				break
			}
		}
	}
	// the creation records: one per unique pair, prices = the pool's prices now
	t, hgt := e.h.Ctx.BlockTime(), e.h.Ctx.BlockHeight()
	var line, obs []string
	for _, pr := range p.pairs {
		rec, err := e.h.App.TwapKeeper.VerifMostRecentRecordStoreRepresentation(e.h.Ctx, id, pr.d0, pr.d1)
		if err != nil {
			e.o.Fail("create:no-record-for-new-pool", fmt.Sprintf("pool %d %s pair %s/%s", id, p.kind, pr.d0, pr.d1))
			panic("twap world: no creation record")
		}
		q0, q1, e0, e1 := e.pricesOf(id, pr.d0, pr.d1)
		indErr := e0 != nil || e1 != nil
		errNow := rec.LastErrorTime.Equal(t)
		if indErr != errNow {
			e.o.Fail("create:error-time-does-not-match-spot-price-read", fmt.Sprintf("pool %d %s record %s", id, p.kind, recStr(rec)))
		}
		if rec.P0LastSpotPrice.BigInt().Cmp(expectStored(q0, e0)) != 0 || rec.P1LastSpotPrice.BigInt().Cmp(expectStored(q1, e1)) != 0 || !rec.Time.Equal(t) || rec.Height != hgt {
			e.o.Fail("create:record-is-not-the-pool-price-at-creation", fmt.Sprintf("pool %d %s pool=(%s,%s) record %s", id, p.kind, ppStr(q0, e0), ppStr(q1, e1), recStr(rec)))
		}
		line = append(line, fmt.Sprintf("%s %s %s %s %s", pr.d0, pr.d1, rec.P0LastSpotPrice.BigInt(), rec.P1LastSpotPrice.BigInt(), twB01(errNow)))
		obs = append(obs, recStr(rec))
		pr.recs = []twRec{{t: t, sp0: expectStored(q0, e0), sp1: expectStored(q1, e1), errInd: indErr}}
		pr.hgt = hgt
		pr.hist = []time.Time{t}
	}
	e.o.Emit(fmt.Sprintf("twap wcreate %s %d %d %s", nsOf(t), hgt, id, strings.Join(line, " ")), strings.Join(obs, ";"), true)
	w.own[id] = "create"
	w.seq[id] += "S"
	return p
}

// wAct: one message on an active pool; remembers whether the keeper must have been told.
func (e *twEngine) wAct(p *twPool) {
	e.view(p, nil)
	hadPositions := len(p.posIds) > 0
	e.lastAct, e.lastActErr = "", nil
	e.action()
	p.posIds = e.posIds
	if e.lastActErr != nil || e.lastAct == "" {
		return
	}
	if e.lastAct == "cl.position" && hadPositions {
		return // an additional position does not move the price: not announced to the twap module
	}
	e.w.own[p.id] = e.lastAct
	e.w.seq[p.id] += "S"
}

// ---------------------------------------------------------------- blocks

// accepts: is the update of this pair at block (t, hgt) acceptable on its own?  (from the own log: a record at this very
// time exists already — a previous block with the same timestamp — unless an accumulator is still zero.)
func (pr *twPair) accepts(t time.Time, hgt int64) bool {
	last := pr.recs[len(pr.recs)-1]
	switch {
	case t.After(last.t):
		return true
	case t.Equal(last.t):
		return pr.hgt == hgt || pr.acc0.Sign() == 0 || pr.acc1.Sign() == 0
	}
	return false
}

// record: the own log takes the record of block (t, hgt) with prices (s0, s1).
func (pr *twPair) record(t time.Time, hgt int64, s0, s1 *big.Int, indErr bool) {
	last := pr.recs[len(pr.recs)-1]
	n := twRec{t: t, sp0: s0, sp1: s1, errInd: indErr}
	pr.hgt = hgt
	if last.t.Equal(t) {
		n.errInd = n.errInd || last.errInd
		pr.recs[len(pr.recs)-1] = n
		return
	}
	dms := new(big.Int).Sub(msOf(t), msOf(last.t))
	pr.acc0.Add(pr.acc0, new(big.Int).Mul(last.sp0, dms))
	pr.acc1.Add(pr.acc1, new(big.Int).Mul(last.sp1, dms))
	pr.recs = append(pr.recs, n)
	pr.hist = append(pr.hist, t)
}

// keepFrom: a completed pass with this cutoff keeps pr.hist[keepFrom:] (it removes everything before the cutoff but the
// newest such record).
func (pr *twPair) keepFrom(cut time.Time) int {
	idx := -1
	for i, t := range pr.hist {
		if t.Before(cut) {
			idx = i
		}
	}
	if idx < 0 {
		return 0
	}
	return idx
}

// wBlock closes the open block through the real ABCI flow, judges what the twap EndBlocker did and opens the next one.
func (e *twEngine) wBlock(dt time.Duration) {
	w, o, k := e.w, e.o, e.h.App.TwapKeeper
	t, hgt := e.h.Ctx.BlockTime(), e.h.Ctx.BlockHeight()
	changed := k.VerifGetChangedPools(e.h.Ctx)
	inChanged := map[uint64]bool{}
	for _, id := range changed {
		inChanged[id] = true
	}
	for i := 1; i < len(changed); i++ {
		if !leLess(changed[i-1], changed[i]) {
			panic("twap world: changed pools are not in little-endian key order")
		}
	}
	// the pools of this block's record update as the ENGINE knows them: every pool with a COMMITTED price-moving message (own
	// bookkeeping, whatever the twap module's changed-pool store says) and what the keeper announces on top, in store order
	listedIds := append([]uint64{}, changed...)
	inListed := map[uint64]bool{}
	for _, id := range changed {
		inListed[id] = true
	}
	for id := range w.own {
		if !inListed[id] {
			inListed[id] = true
			listedIds = append(listedIds, id)
		}
	}
	sort.Slice(listedIds, func(i, j int) bool { return leLess(listedIds[i], listedIds[j]) })
	many := manyClass(len(listedIds))
	for _, id := range listedIds {
		if kind, mine := w.own[id]; mine && !inChanged[id] {
			o.Fail("track:price-moving-message-not-announced:"+kind+w.txClass(id)+many, fmt.Sprintf("pool %d %s block %s/%d sequence of committed (S) / reverted (R) changes in the block %q, %d pools with committed changes, announced=%v",
				id, w.pools[id].kind, nsOf(t), hgt, w.seq[id], len(w.own), changed))
		}
	}
	for _, id := range changed {
		p := w.pools[id]
		if _, mine := w.own[id]; !mine && p != nil && !(p.filler && p.created == hgt) {
			// pinned from the unchanged code: the announcement is part of the transaction's branch and goes away with it
			o.Fail("track:pool-announced-without-committed-change"+w.txClass(id), fmt.Sprintf("pool %d %s block %s/%d sequence %q reverted tx %q announced=%v", id, p.kind, nsOf(t), hgt, w.seq[id], w.rev[id], changed))
		}
	}
	for id := range w.rev {
		switch {
		case w.own[id] != "":
		case inChanged[id]:
		default:
			o.Count("class.world.block.pool-touched-only-by-reverted-tx:not-announced")
		}
	}
	if many != "" {
		o.Count("class.world.block" + many)
	}
	// ---- expectations, from the own log and the own read of the end-of-block prices
	type pairExp struct {
		pr     *twPair
		s0, s1 *big.Int
		indErr bool
		accept bool
		q      string
	}
	type poolExp struct {
		p     *twPool
		pairs []pairExp
		nAcc  int
	}
	var exps []poolExp
	var line []string
	var listed []*twPair
	var listedPool []*twPool
	for _, id := range listedIds {
		p := w.pools[id]
		if p == nil {
			panic(fmt.Sprintf("twap world: unknown changed pool %d", id))
		}
		if p.filler {
			continue
		}
		pe := poolExp{p: p}
		line = append(line, fmt.Sprintf("P %d %d", id, len(p.pairs)))
		// (listed in the reverse of the pool's own order: the keeper's order is for the model to find)
		for i := len(p.pairs) - 1; i >= 0; i-- {
			pr := p.pairs[i]
			q0, q1, e0, e1 := e.pricesOf(id, pr.d0, pr.d1)
			x := pairExp{pr: pr, s0: expectStored(q0, e0), s1: expectStored(q1, e1), indErr: e0 != nil || e1 != nil, accept: pr.accepts(t, hgt),
				q: "(" + ppStr(q0, e0) + "," + ppStr(q1, e1) + ")"}
			if x.accept {
				pe.nAcc++
			}
			pe.pairs = append(pe.pairs, x)
			line = append(line, fmt.Sprintf("%s %s %s %s %s", pr.d0, pr.d1, x.s0, x.s1, twB01(x.indErr)))
			listed = append(listed, pr)
			listedPool = append(listedPool, p)
		}
		exps = append(exps, pe)
	}
	prePrune := k.GetPruningState(e.h.Ctx)
	// ---- the block
	e.finalize(t.Add(dt))
	snap := e.wSnap()
	stored := twGroup(snap)
	// ---- the model's view: the most recent record and the number of historical records of every listed pair
	if len(listed) > 0 {
		var obs []string
		for i, pr := range listed {
			g := stored[pairName(listedPool[i].id, pr.d0, pr.d1)]
			// (not the historical index: the pruning half of the same EndBlock may already have worked on it; see wDump)
			if g == nil || g.recent == nil {
				obs = append(obs, "-")
			} else {
				obs = append(obs, recStr(*g.recent))
			}
		}
		o.Emit(fmt.Sprintf("twap wend %s %d %s", nsOf(t), hgt, strings.Join(line, " ")), strings.Join(obs, ";"), true)
	}
	// ---- every changed pool whose update is acceptable on its own has fresh records, whatever happened to other pools
	var rejectedAt, acceptedAt []int // positions in the keeper's order
	for i, pe := range exps {
		if pe.nAcc == len(pe.pairs) {
			acceptedAt = append(acceptedAt, i)
		} else {
			rejectedAt = append(rejectedAt, i)
		}
	}
	blockClass := "no-rejected-pool-in-block"
	if len(rejectedAt) > 0 {
		blockClass = "another-pool-rejected-in-block"
	}
	updated := map[uint64]bool{}
	w.follow = nil
	for i, pe := range exps {
		p := pe.p
		all := pe.nAcc == len(pe.pairs)
		txc := w.txClass(p.id)
		if txc != "" {
			o.Count("class.world.update.pool" + txc)
			if strings.Contains(w.seq[p.id], "R") {
				w.follow = append(w.follow, p)
			}
		}
		switch {
		case all:
			o.Count("world.update.pool-acceptable")
			for _, j := range rejectedAt {
				if j < i {
					o.Count("class.world.acceptable-pool-AFTER-a-rejected-pool")
				} else {
					o.Count("class.world.acceptable-pool-BEFORE-a-rejected-pool")
				}
			}
		case pe.nAcc == 0:
			o.Count("world.update.pool-rejected:record-exists-for-this-time")
		default:
			o.Count("world.update.pool-partly-acceptable")
		}
		for _, x := range pe.pairs {
			pr := x.pr
			g := stored[pairName(p.id, pr.d0, pr.d1)]
			fresh := g != nil && g.recent != nil && g.recent.Time.Equal(t) && g.recent.Height == hgt
			detail := func() string {
				rs := "-"
				if g != nil && g.recent != nil {
					rs = recStr(*g.recent)
				}
				return fmt.Sprintf("pool %d %s pair %s/%s block %s/%d changed pools %v (%d with committed changes; this pool's sequence of committed S / reverted R changes %q, reverted tx %q) pool prices %s most recent record %s",
					p.id, p.kind, pr.d0, pr.d1, nsOf(t), hgt, changed, len(listedIds), w.seq[p.id], w.rev[p.id], x.q, rs)
			}
			if all {
				updated[p.id] = true
				if !fresh {
					o.Fail("update:changed-pool-has-no-fresh-record:"+blockClass+txc+many, detail())
				} else {
					if g.recent.P0LastSpotPrice.BigInt().Cmp(x.s0) != 0 || g.recent.P1LastSpotPrice.BigInt().Cmp(x.s1) != 0 {
						o.Fail("update:recorded-price-is-not-end-of-block-pool-price", detail())
					}
					if x.indErr && !g.recent.LastErrorTime.Equal(t) {
						o.Fail("update:failed-spot-price-read-not-recorded-as-error", detail())
					}
					found := false
					for _, hr := range g.hist {
						if hr.Time.Equal(t) {
							found = recStr(hr) == recStr(*g.recent)
						}
					}
					if !found {
						o.Fail("update:fresh-record-not-in-historical-index", detail())
					}
				}
				pr.record(t, hgt, x.s0, x.s1, x.indErr) // the own log takes the OWN read
				continue
			}
			// pool not acceptable as a whole (a pair's record exists for this time): which of its other pairs are written depends on
			// the order inside the pool — outside the property; the own log follows what happened
			if !x.accept && fresh {
				o.Count("world.update.record-replaced-although-time-repeated")
			}
			if fresh {
				updated[p.id] = true
				pr.record(t, hgt, g.recent.P0LastSpotPrice.BigInt(), g.recent.P1LastSpotPrice.BigInt(), x.indErr)
			}
		}
	}
	// ---- raw store: what was written / deleted in this block
	st := k.GetPruningState(e.h.Ctx)
	passActive := prePrune.IsPruning || st.IsPruning || !st.LastKeptTime.Equal(prePrune.LastKeptTime)
	cut := st.LastKeptTime
	for key, nv := range snap {
		ov, had := w.snap[key]
		if had && bytes.Equal(ov, nv) {
			continue
		}
		en, ok := twDecode(key, nv)
		if !ok {
			continue
		}
		p := w.pools[en.rec.PoolId]
		what := "added"
		if had {
			what = "modified"
		}
		fam := "most-recent"
		if en.hist {
			fam = "historical"
		}
		d := fmt.Sprintf("block %s/%d changed pools %v: %s %s record %d %s/%s %s", nsOf(t), hgt, changed, what, fam, en.rec.PoolId, en.rec.Asset0Denom, en.rec.Asset1Denom, recStr(en.rec))
		switch {
		case p == nil:
			o.Fail("store:record-of-unknown-pool-written", d)
		case !inListed[p.id]:
			o.Fail("store:record-written-for-pool-that-did-not-change"+w.txClass(p.id), d)
		case !en.rec.Time.Equal(t):
			o.Fail("store:record-written-at-foreign-time", d)
		}
	}
	for key, ov := range w.snap {
		if _, still := snap[key]; still {
			continue
		}
		en, ok := twDecode(key, ov)
		if !ok {
			continue
		}
		d := fmt.Sprintf("block %s/%d pruning state %v: deleted record %d %s/%s %s", nsOf(t), hgt, st, en.rec.PoolId, en.rec.Asset0Denom, en.rec.Asset1Denom, recStr(en.rec))
		p := w.pools[en.rec.PoolId]
		cls := "filler-pool"
		var pr *twPair
		if p != nil && !p.filler {
			cls = "active-pool"
			for _, x := range p.pairs {
				if x.d0 == en.rec.Asset0Denom && x.d1 == en.rec.Asset1Denom {
					pr = x
					if x.sibling {
						cls += ":pair-with-prefix-related-sibling"
					}
				}
			}
		}
		switch {
		case !en.hist:
			o.Fail("store:most-recent-record-deleted:"+cls, d)
		case !passActive:
			o.Fail("store:historical-record-deleted-without-pruning-pass:"+cls, d)
		case !en.rec.Time.Before(cut):
			o.Fail("store:historical-record-inside-keep-window-deleted:"+cls, d)
		case pr == nil:
			o.Fail("store:only-record-of-pair-deleted:"+cls, d) // fillers (and unknown pairs) have one record
		default:
			if i := pr.keepFrom(cut); i < len(pr.hist) && pr.hist[i].Equal(en.rec.Time) {
				o.Fail("store:newest-record-before-cutoff-deleted:"+cls, d)
			} else {
				o.Count("world.prune.record-deleted")
			}
		}
	}
	w.snap = snap
	if len(listed) > 0 && !passActive && e.r.Intn(3) == 0 {
		i := e.r.Intn(len(listed))
		e.wDump(listedPool[i], listed[i])
	}
	w.prev = updated
	w.own = map[uint64]string{}
	w.seq, w.rev = map[uint64]string{}, map[uint64]string{}
	w.lastT = t
	if dt == 0 {
		w.sameTime++
	} else {
		w.sameTime = 0
	}
}

// wSyncPruning: runs a started pruning pass to its end (idle blocks), reports it to the model, and compares the stored
// record times of every pair with the engine's own bookkeeping.
func (e *twEngine) wSyncPruning() {
	w, o, k := e.w, e.o, e.h.App.TwapKeeper
	st := k.GetPruningState(e.h.Ctx)
	if st.LastKeptTime.Equal(w.prunedAt) && !st.IsPruning {
		return
	}
	for i := 0; st.IsPruning; i++ {
		if i > 3000 {
			o.Fail("prune:pass-never-finishes", fmt.Sprintf("state %v", st))
			return
		}
		o.Count("prune.continuation-block")
		e.wBlock(time.Duration(1+e.r.Intn(3000)) * time.Millisecond)
		st = k.GetPruningState(e.h.Ctx)
	}
	if st.LastKeptTime.Equal(w.prunedAt) {
		return
	}
	w.prunedAt = st.LastKeptTime
	lk := st.LastKeptTime
	if w.lastKept == nil || lk.After(*w.lastKept) {
		w.lastKept = &lk
	}
	stored := twGroup(w.snap)
	total := 0
	for _, g := range stored {
		total += len(g.hist)
	}
	nf := 0
	for _, p := range w.pools {
		if p.filler {
			nf++ // one historical record each, not part of the model's world
		}
	}
	o.Emit(fmt.Sprintf("twap wprune %s", nsOf(lk)), fmt.Sprintf("ok %d", total-nf), true)
	o.Count("world.prune.pass")
	for _, p := range w.modelled() {
		for _, pr := range p.pairs {
			pr.hist = pr.hist[pr.keepFrom(lk):]
			g := stored[pairName(p.id, pr.d0, pr.d1)]
			have := map[int64]bool{}
			if g != nil {
				for _, hr := range g.hist {
					have[hr.Time.UnixNano()] = true
				}
			}
			cls := ""
			if pr.sibling {
				cls = ":pair-with-prefix-related-sibling"
			}
			for _, t := range pr.hist {
				if !have[t.UnixNano()] {
					where := "inside-keep-window"
					if t.Before(lk) {
						where = "newest-before-cutoff"
					}
					o.Fail("prune:record-missing-after-pass:"+where+cls, fmt.Sprintf("pool %d %s pair %s/%s cutoff %s record time %s (stored %d, expected %d)", p.id, p.kind, pr.d0, pr.d1, nsOf(lk), nsOf(t), len(have), len(pr.hist)))
				}
				delete(have, t.UnixNano())
			}
			if len(have) > 0 {
				o.Count("world.prune.record-not-pruned")
			}
		}
	}
}

func (e *twEngine) wDump(p *twPool, pr *twPair) {
	g := twGroup(e.w.snap)[pairName(p.id, pr.d0, pr.d1)]
	rs, ss := "-", []string{}
	if g != nil {
		if g.recent != nil {
			rs = recStr(*g.recent)
		}
		for _, hr := range g.hist {
			ss = append(ss, recStr(hr))
		}
	}
	e.o.Emit(fmt.Sprintf("twap wdump %d %s %s", p.id, pr.d0, pr.d1), rs+"|"+strings.Join(ss, ";"), true)
}

func (e *twEngine) wRandDt(allowSame bool) time.Duration {
	d := e.wRandDt0(allowSame)
	if d > 0 && e.r.Intn(5) == 0 {
		d = e.shapeSubMs(e.h.Ctx.BlockTime(), d, "")
	}
	return d
}

func (e *twEngine) wRandDt0(allowSame bool) time.Duration {
	r := e.r
	if allowSame && e.w.sameTime < 2 && r.Intn(4) == 0 {
		e.o.Count("class.world.block-repeats-timestamp")
		return 0
	}
	switch r.Intn(10) {
	case 0:
		return time.Millisecond
	case 1:
		return time.Duration(1 + r.Intn(999999)) // below one millisecond
	case 2:
		return time.Duration(1+r.Intn(120)) * time.Minute
	case 3:
		return 13*time.Hour + time.Duration(r.Intn(1000000))
	case 4:
		return time.Duration(1+r.Intn(5000))*time.Millisecond + time.Duration(r.Intn(1000000))
	default:
		return time.Duration(1+r.Intn(60000)) * time.Millisecond
	}
}

// ---------------------------------------------------------------- queries

// wAskAll: one interval per pair of every active pool, both strategies, both quote assets.
func (e *twEngine) wAskAll() []*twQuery {
	now := e.h.Ctx.BlockTime()
	var out []*twQuery
	for _, p := range e.w.active {
		for _, pr := range p.pairs {
			e.view(p, pr)
			s, en := e.pickTime(now), e.pickTime(now)
			if en.Before(s) {
				s, en = en, s
			}
			if c := e.pickCut; c != nil && s.Before(*c) && e.r.Intn(4) != 0 {
				// most questions start inside / at the edge of the keep window of the pass about to run
				switch e.r.Intn(4) {
				case 0:
					s = *c
				case 1:
					s = c.Add([]time.Duration{1, time.Millisecond, 999999}[e.r.Intn(3)])
				case 2:
					if span := now.Sub(*c); span > 0 {
						s = c.Add(time.Duration(e.r.Int63n(int64(span) + 1)))
					}
				default:
					for _, rc := range pr.recs {
						if !rc.t.Before(*c) {
							s = rc.t
							break
						}
					}
				}
				if s.Before(*c) || s.After(now) {
					s = *c
				}
				if en.Before(s) {
					en = s.Add(now.Sub(s) / time.Duration(1+e.r.Intn(3)))
				}
			}
			for _, geom := range []bool{false, true} {
				var pair []*twQuery
				for _, q0 := range []bool{true, false} {
					q := &twQuery{s: s, e: en, q0: q0, geom: geom, w: e.wq, rep: e.pickRep()}
					e.ask(q, false)
					e.o.Emit(q.op(now), q.obs(), q.status == "ok")
					if q0 {
						e.locCheck(q, now, 1)
					}
					e.judge(q, now)
					out = append(out, q)
					pair = append(pair, q)
				}
				if geom {
					e.reciprocal(pair[0], pair[1], now)
				}
			}
		}
	}
	return out
}

func (e *twEngine) wPairOf(q *twQuery) (*twPool, *twPair) {
	for _, p := range e.w.active {
		for _, pr := range p.pairs {
			if q.w == fmt.Sprintf("%d %s %s", p.id, pr.d0, pr.d1) {
				return p, pr
			}
		}
	}
	panic("twap world: query of unknown pair")
}

// wPruneRound: the same questions before and after a pruning pass, for every pair of every active pool.
func (e *twEngine) wPruneRound() {
	r, w, k := e.r, e.w, e.h.App.TwapKeeper
	now := e.h.Ctx.BlockTime()
	keep := []time.Duration{1, time.Millisecond, 3 * time.Second, time.Minute, time.Hour, 14 * time.Hour, 48 * time.Hour}[r.Intn(7)]
	if r.Intn(3) != 0 { // cutoff exactly on / next to a record time of some pair
		p := w.active[r.Intn(len(w.active))]
		pr := p.pairs[r.Intn(len(p.pairs))]
		keep = now.Sub(pr.recs[r.Intn(len(pr.recs))].t) + []time.Duration{0, 1, -1}[r.Intn(3)]
		if keep <= 0 {
			keep = 1
		}
	}
	params := k.GetParams(e.h.Ctx)
	params.RecordHistoryKeepPeriod = keep
	k.SetParams(e.h.Ctx, params)
	twap.NumRecordsToPrunePerBlock = []uint16{200, 200, 61, 17, 5}[r.Intn(5)]
	cut := now.Add(-keep)
	focus := cut
	if w.lastKept != nil && w.lastKept.After(focus) {
		focus = *w.lastKept // what an earlier pass with a later cutoff removed stays removed
	}
	e.pickCut = &focus
	before := e.wAskAll()
	e.pickCut = nil
	if err := k.EpochHooks().AfterEpochEnd(e.h.Ctx, params.PruneEpochIdentifier, 1); err != nil {
		panic(err)
	}
	armed := k.GetPruningState(e.h.Ctx)
	e.o.Count("world.prune.armed")
	e.wBlock(e.wRandDt(false))
	e.wSyncPruning()
	if w.prunedAt.Before(armed.LastKeptTime) || w.lastKept == nil {
		e.o.Fail("prune:pass-not-run", fmt.Sprintf("armed %v", armed))
		return
	}
	now2 := e.h.Ctx.BlockTime()
	for _, b := range before {
		if b.e.After(now) {
			continue
		}
		p, pr := e.wPairOf(b)
		e.view(p, pr)
		a := &twQuery{s: b.s, e: b.e, q0: b.q0, geom: b.geom, w: b.w, rep: e.pickRep()}
		e.ask(a, false)
		e.o.Emit(a.op(now2), a.obs(), a.status == "ok")
		e.judge(a, now2)
		if b.s.Before(*w.lastKept) {
			e.o.Count("world.prune.question-outside-window")
			continue
		}
		if a.obs() != b.obs() {
			name := "arith"
			if b.geom {
				name = "geom"
			}
			cls := ""
			if pr.sibling {
				cls = ":pair-with-prefix-related-sibling"
			}
			e.o.Fail("prune:answer-changed-inside-window:"+name+cls, fmt.Sprintf("pool %d %s cutoff %s %s before %s after %s", p.id, p.kind, nsOf(*w.lastKept), a.op(now2), b.obs(), a.obs()))
		}
		e.o.Count("world.prune.answer-compared")
	}
	for _, p := range w.active {
		for _, pr := range p.pairs {
			if pr.sibling || r.Intn(6) == 0 {
				e.wDump(p, pr)
			}
		}
	}
}

// ---------------------------------------------------------------- one world history

func (e *twEngine) runWorld(budget int) {
	r, o := e.r, e.o
	start := o.n
	e.w = &twWorld{pools: map[uint64]*twPool{}, own: map[uint64]string{}, prev: map[uint64]bool{}, seq: map[uint64]string{}, rev: map[uint64]string{}}
	w := e.w
	defer func() { e.w, e.wq, e.pickCut = nil, "", nil }()
	w.family = twFamilies[r.Intn(len(twFamilies))]
	if r.Intn(4) == 0 { // mixed alphabet
		w.family = append(append([]string{}, w.family...), twFamilies[r.Intn(len(twFamilies))]...)
		seen := map[string]bool{}
		var u []string
		for _, d := range w.family {
			if !seen[d] {
				seen[d] = true
				u = append(u, d)
			}
		}
		w.family = u
	}
	for _, d := range w.family {
		if err := sdk.ValidateDenom(d); err != nil {
			panic("twap world: invalid denom in alphabet: " + d)
		}
	}
	// every denom of the alphabet may be the quote asset of a concentrated pool
	quotes := append(e.h.App.PoolManagerKeeper.GetParams(e.h.Ctx).AuthorizedQuoteDenoms, w.family...)
	e.h.App.PoolManagerKeeper.SetParam(e.h.Ctx, poolmanagertypes.KeyAuthorizedQuoteDenoms, quotes)
	w.prunedAt = e.h.App.TwapKeeper.GetPruningState(e.h.Ctx).LastKeptTime
	w.snap = e.wSnap()
	o.Emit("twap reset", "ok", false)
	o.Count("world.history")
	// ---- pools: ids that are prefixes / neighbours of each other in the key encodings are active
	// MASS history (twap_tx_test.go): the fillers become modelled two-asset pools and blocks change N of them at once, N over this
	// history's half of twMassSizes (the halves alternate with the seed and the world's number: a quick run of four consecutive
	// seeds covers all of them) plus two random sizes
	var massNs []int
	if e.massOK && os.Getenv("VERIF_TWAP_MASS") != "0" && (e.seed+int64(e.worldIdx))%2 == 1 {
		half := int(((e.seed + int64(e.worldIdx)) >> 1) & 1)
		for i, n := range twMassSizes {
			if i%2 == half {
				massNs = append(massNs, n)
			}
		}
		massNs = append(massNs, 1+r.Intn(300), 1+r.Intn(300))
		r.Shuffle(len(massNs), func(i, j int) { massNs[i], massNs[j] = massNs[j], massNs[i] })
		o.Count("world.history.mass")
	}
	var maxId uint64
	activeIds := map[uint64]bool{1: true, 2: true, 10: true, 11: true}
	if r.Intn(3) == 0 || massNs != nil {
		maxId = uint64(257 + r.Intn(3))
		for _, n := range massNs {
			if uint64(n+12) > maxId {
				maxId = uint64(n + 12) // (at most 12 active ids)
			}
		}
		for _, id := range []uint64{12, 25, 100, 101, 110, 255, 256, 257} {
			if r.Intn(2) == 0 {
				activeIds[id] = true
			}
		}
		activeIds[256] = true
		o.Count("class.world.pool-ids-beyond-one-byte")
	} else {
		maxId = uint64(12 + r.Intn(4))
		for _, id := range []uint64{3, 9, 12, 13} {
			if r.Intn(3) == 0 && id <= maxId {
				activeIds[id] = true
			}
		}
	}
	for id := uint64(1); id <= maxId; {
		n := 1 + r.Intn(6)
		if maxId > 100 {
			n = 1 + r.Intn(60)
		}
		for i := 0; i < n && id <= maxId; i++ {
			p := e.wCreatePool(!activeIds[id] && massNs == nil, !activeIds[id] && massNs != nil)
			if p.id != id {
				panic(fmt.Sprintf("twap world: expected pool id %d, got %d", id, p.id))
			}
			if p.kind == "cl" && r.Intn(4) != 0 {
				e.wAct(p) // first position in the creation block
			}
			id++
		}
		e.wBlock(e.wRandDt(false))
		e.wSyncPruning()
	}
	for _, n := range massNs {
		e.wMassBlock(n)
	}
	// ---- blocks
	blocks := 24 + r.Intn(24)
	nextPrune := 5 + r.Intn(6)
	for b := 0; b < blocks; b++ {
		if b > 12 && o.n-start > budget {
			break
		}
		same := w.sameTime > 0
		var targets []*twPool
		if same {
			// pools whose records were written in the predecessor block (same timestamp: their update is rejected now) together
			// with pools that were not touched (their update must go through), on both sides in the changed-pool order
			var hit, miss []*twPool
			for _, p := range w.active {
				if w.prev[p.id] {
					hit = append(hit, p)
				} else {
					miss = append(miss, p)
				}
			}
			r.Shuffle(len(hit), func(i, j int) { hit[i], hit[j] = hit[j], hit[i] })
			r.Shuffle(len(miss), func(i, j int) { miss[i], miss[j] = miss[j], miss[i] })
			if len(hit) > 0 {
				targets = append(targets, hit[:1+r.Intn(len(hit))]...)
			}
			if len(miss) > 0 {
				targets = append(targets, miss[:1+r.Intn(len(miss))]...)
			}
		} else if r.Intn(10) != 0 {
			for _, p := range w.active {
				if r.Intn(100) < 45 {
					targets = append(targets, p)
				}
			}
		}
		for _, p := range targets {
			for i, n := 0, 1+r.Intn(2); i < n; i++ {
				e.wAct(p)
				if e.lastActErr != nil && i == n-1 && n < 4 {
					n++ // a rejected message: once more
				}
			}
		}
		if r.Intn(2) == 0 {
			e.wTxPhase(w.active) // transactions, some of them reverted after they changed a pool (twap_tx_test.go)
		}
		e.wBlock(e.wRandDt(len(w.own) > 0 || same))
		follow, closed := w.follow, w.lastT
		e.wSyncPruning()
		for _, p := range follow {
			// pools with reverted AND committed transactions in the block just closed: the interval since that block
			e.wAskInterval(p, p.pairs[r.Intn(len(p.pairs))], closed, e.h.Ctx.BlockTime())
			o.Count("class.world.tx.question-on-pool-after-block-with-reverted-tx")
		}
		if r.Intn(2) == 0 {
			for i, n := 0, 1+r.Intn(3); i < n; i++ {
				p := w.active[r.Intn(len(w.active))]
				e.view(p, p.pairs[r.Intn(len(p.pairs))])
				e.queries(1 + r.Intn(3))
			}
		}
		nextPrune--
		if nextPrune <= 0 && w.sameTime == 0 {
			e.wPruneRound()
			nextPrune = 7 + r.Intn(8)
		}
		if r.Intn(12) == 0 {
			e.exportImportModule()
		}
	}
	if w.sameTime > 0 {
		e.wBlock(e.wRandDt(false))
		e.wSyncPruning()
	}
	e.wAskAll()
	for _, p := range w.active {
		for _, pr := range p.pairs {
			e.wDump(p, pr)
		}
	}
	// observation (not part of any TWAP answer: the only caller is the v17 upgrade handler): the per-pool scan of the historical
	// index uses the prefix "historical_pool_index|<id>" WITHOUT the closing separator, so pool 1's scan also returns pools 10..19, 100.. .
	if recs, err := e.h.App.TwapKeeper.GetAllHistoricalPoolIndexedTWAPsForPoolId(e.h.Ctx, 1); err == nil {
		for _, rc := range recs {
			if rc.PoolId != 1 {
				o.Count("observation.per-pool-historical-scan-of-pool-1-returns-records-of-pools-10..19")
				break
			}
		}
	}
}
