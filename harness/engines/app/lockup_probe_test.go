package app_test

// Probes (VERIF_PROBE=1) for observations recorded next to C06 that lie outside the message-reachable
// state space or outside any query: they print what the real keeper does; they assert nothing.

import (
	"fmt"
	"os"
	"testing"
	"time"

	sdk "github.com/cosmos/cosmos-sdk/types"

	lockuptypes "github.com/osmosis-labs/osmosis/v31/x/lockup/types"
)

func TestLockupProbes(t *testing.T) {
	if os.Getenv("VERIF_PROBE") == "" {
		t.Skip("VERIF_PROBE not set")
	}
	h := newH(t)
	a := sdk.AccAddress([]byte("lockupowner_______00"))
	base := time.Unix(1_700_000_000, 0).UTC()
	k := h.App.LockupKeeper
	ids := func(ls []lockuptypes.PeriodLock) []uint64 { return lockIDs(ls) }

	// 1. keeper-level multi-denom lock, partial unlock removing one denom entirely
	h.Reset()
	k = h.App.LockupKeeper
	h.Ctx = h.Ctx.WithBlockTime(base)
	h.FundAcc(a, sdk.NewCoins(sdk.NewInt64Coin("bar", 100), sdk.NewInt64Coin("foo", 100)))
	l, err := k.CreateLock(h.Ctx, a, sdk.NewCoins(sdk.NewInt64Coin("bar", 5), sdk.NewInt64Coin("foo", 10)), 10*time.Second)
	fmt.Println("probe1 create:", l.ID, err)
	nid, err := k.BeginUnlock(h.Ctx, l.ID, sdk.NewCoins(sdk.NewInt64Coin("bar", 5)))
	fmt.Println("probe1 partial unlock of the whole bar part -> new lock", nid, err)
	l1, _ := k.GetLockByID(h.Ctx, l.ID)
	fmt.Println("probe1 lock 1 now holds", l1.Coins, "; locks indexed under bar:", ids(k.GetLocksLongerThanDurationDenom(h.Ctx, "bar", 0)))
	_, err = k.BeginUnlock(h.Ctx, l.ID, nil)
	fmt.Println("probe1 begin unlock lock 1:", err)
	h.Ctx = h.Ctx.WithBlockTime(base.Add(11 * time.Second))
	ok := catch(func() { k.WithdrawMaturedLocks(h.Ctx, 0) })
	fmt.Println("probe1 withdraw all ok:", ok)
	var got []uint64
	ok = catch(func() { got = ids(k.GetLocksLongerThanDurationDenom(h.Ctx, "bar", 0)) })
	fmt.Println("probe1 query by denom bar after everything is withdrawn: ok =", ok, "ids =", got, "(ok=false: panic on the stale reference)")

	// 2. AddTokensToLockByID with a denomination the lock does not hold
	h.Reset()
	k = h.App.LockupKeeper
	h.Ctx = h.Ctx.WithBlockTime(base)
	h.FundAcc(a, sdk.NewCoins(sdk.NewInt64Coin("bar", 100), sdk.NewInt64Coin("foo", 100)))
	l, _ = k.CreateLock(h.Ctx, a, sdk.NewCoins(sdk.NewInt64Coin("foo", 10)), 10*time.Second)
	_, err = k.AddTokensToLockByID(h.Ctx, l.ID, a, sdk.NewInt64Coin("bar", 5))
	l1, _ = k.GetLockByID(h.Ctx, l.ID)
	fmt.Println("probe2 add foreign denom:", err, "lock holds", l1.Coins, "; locks indexed under bar:", ids(k.GetLocksLongerThanDurationDenom(h.Ctx, "bar", 0)),
		"; accumulation bar:", k.GetPeriodLocksAccumulation(h.Ctx, lockuptypes.QueryCondition{Denom: "bar", Duration: 0}))

	// 3. a denomination that is a proper prefix of another: the before-time iterator by denom
	h.Reset()
	k = h.App.LockupKeeper
	h.Ctx = h.Ctx.WithBlockTime(base)
	h.FundAcc(a, sdk.NewCoins(sdk.NewInt64Coin("foo", 100), sdk.NewInt64Coin("foo2", 100)))
	l, _ = k.CreateLock(h.Ctx, a, sdk.NewCoins(sdk.NewInt64Coin("foo2", 10)), 10*time.Second)
	_, err = k.BeginUnlock(h.Ctx, l.ID, nil)
	e := &lockupEnv{h: h}
	fmt.Println("probe3 lock", l.ID, "of denom foo2 unlocking until base+10s;", err)
	fmt.Println("probe3 LockIteratorBeforeTimeDenom(foo, base-1h):", e.iterIDs(k.LockIteratorBeforeTimeDenom(h.Ctx, "foo", base.Add(-time.Hour))),
		" LockIteratorBeforeTimeDenom(foo2, base-1h):", e.iterIDs(k.LockIteratorBeforeTimeDenom(h.Ctx, "foo2", base.Add(-time.Hour))),
		" AccountLockIteratorBeforeTimeDenom(a, foo, base-1h):", e.iterIDs(k.AccountLockIteratorBeforeTimeDenom(h.Ctx, a, "foo", base.Add(-time.Hour))))
	fmt.Println("probe3 queries in use stay exact: GetLocksLongerThanDurationDenom(foo,0):", ids(k.GetLocksLongerThanDurationDenom(h.Ctx, "foo", 0)),
		" GetLocksPastTimeDenom(foo, base):", ids(k.GetLocksPastTimeDenom(h.Ctx, "foo", base)))

	// 4. accumulation store of a synthetic denomination: DeleteSyntheticLockup decreases at the LOCK's duration key
	h.Reset()
	k = h.App.LockupKeeper
	h.Ctx = h.Ctx.WithBlockTime(base)
	h.FundAcc(a, sdk.NewCoins(sdk.NewInt64Coin("foo", 1000)))
	acc := func(dn string, d time.Duration) string {
		out := "panic"
		catch(func() {
			out = k.GetPeriodLocksAccumulation(h.Ctx, lockuptypes.QueryCondition{LockQueryType: lockuptypes.ByDuration, Denom: dn, Duration: d}).String()
		})
		return out
	}
	l, _ = k.CreateLock(h.Ctx, a, sdk.NewCoins(sdk.NewInt64Coin("foo", 100)), 10*time.Second)
	sd := "foo/superbonding/v1"
	err = k.CreateSyntheticLockup(h.Ctx, l.ID, sd, 5*time.Second, false)
	fmt.Println("probe4 synthetic lock (5s) on lock", l.ID, "(10s, 100foo):", err, "; accumulation >=0:", acc(sd, 0), ">=5s:", acc(sd, 5*time.Second), ">=5s+1ns:", acc(sd, 5*time.Second+1))
	err = k.DeleteSyntheticLockup(h.Ctx, l.ID, sd)
	fmt.Println("probe4 after DeleteSyntheticLockup:", err, "; synthetic locks left:", len(k.GetAllSyntheticLockups(h.Ctx)),
		"; accumulation >=0:", acc(sd, 0), ">=5s:", acc(sd, 5*time.Second), ">=5s+1ns:", acc(sd, 5*time.Second+1), ">=10s:", acc(sd, 10*time.Second), ">=10s+1ns:", acc(sd, 10*time.Second+1))

	// 5. ... and a lock split under its synthetic lock (BeginForceUnlock of a part, x/superfluid's partial
	// undelegate-and-unbond) leaves the split-off amount in the synthetic accumulation
	h.Reset()
	k = h.App.LockupKeeper
	h.Ctx = h.Ctx.WithBlockTime(base)
	h.FundAcc(a, sdk.NewCoins(sdk.NewInt64Coin("foo", 1000)))
	l, _ = k.CreateLock(h.Ctx, a, sdk.NewCoins(sdk.NewInt64Coin("foo", 100)), 10*time.Second)
	sd = "foo/superunbonding/v1"
	err = k.CreateSyntheticLockup(h.Ctx, l.ID, sd, 10*time.Second, true)
	nid, err2 := k.BeginForceUnlock(h.Ctx, l.ID, sdk.NewCoins(sdk.NewInt64Coin("foo", 30)))
	l1, _ = k.GetLockByID(h.Ctx, l.ID)
	fmt.Println("probe5 synthetic lock (10s, unlocking) on lock", l.ID, ":", err, "; BeginForceUnlock of 30foo -> new lock", nid, err2, "; lock", l.ID, "holds", l1.Coins,
		"; accumulation >=0:", acc(sd, 0))
	err = k.DeleteSyntheticLockup(h.Ctx, l.ID, sd)
	fmt.Println("probe5 after DeleteSyntheticLockup:", err, "; synthetic locks left:", len(k.GetAllSyntheticLockups(h.Ctx)), "; accumulation >=0:", acc(sd, 0), ">=10s:", acc(sd, 10*time.Second))
	k.RebuildSuperfluidAccumulationStoresForDenom(h.Ctx, "foo")
	fmt.Println("probe5 after RebuildSuperfluidAccumulationStoresForDenom(foo): accumulation >=0:", acc(sd, 0))

	// 6. the accumulation store of a denomination D is the key range "<0x20>D/…", its sum tree lives under "node/<level><key>"
	// inside it: the tree of an extension denomination D/node/zz… lies INSIDE the range of D's tree
	h.Reset()
	k = h.App.LockupKeeper
	h.Ctx = h.Ctx.WithBlockTime(base)
	ext := "foo/node/zz"
	h.FundAcc(a, sdk.NewCoins(sdk.NewInt64Coin("foo", 1000), sdk.NewInt64Coin(ext, 1000)))
	l, err = k.CreateLock(h.Ctx, a, sdk.NewCoins(sdk.NewInt64Coin("foo", 100)), 10*time.Second)
	fmt.Println("probe6 lock of 100foo (10s):", l.ID, err, "; accumulation foo >=0:", acc("foo", 0), ">=10s:", acc("foo", 10*time.Second), ">=10s+1:", acc("foo", 10*time.Second+1))
	l, err = k.CreateLock(h.Ctx, a, sdk.NewCoins(sdk.NewInt64Coin(ext, 7)), 5*time.Second)
	fmt.Println("probe6 lock of 7"+ext+" (5s):", l.ID, err, "; accumulation foo >=0:", acc("foo", 0), ">=5s:", acc("foo", 5*time.Second), ">=10s:", acc("foo", 10*time.Second), ">=10s+1:", acc("foo", 10*time.Second+1),
		"; accumulation", ext, ">=0:", acc(ext, 0))

	// 7. RebuildAccumulationStoreForDenom(D) clears the key range "<0x20>D/": every denomination D/… loses its store
	h.Reset()
	k = h.App.LockupKeeper
	h.Ctx = h.Ctx.WithBlockTime(base)
	ext = "foo/x"
	h.FundAcc(a, sdk.NewCoins(sdk.NewInt64Coin("foo", 1000), sdk.NewInt64Coin(ext, 1000)))
	k.CreateLock(h.Ctx, a, sdk.NewCoins(sdk.NewInt64Coin("foo", 100)), 10*time.Second)
	k.CreateLock(h.Ctx, a, sdk.NewCoins(sdk.NewInt64Coin(ext, 7)), 5*time.Second)
	fmt.Println("probe7 before rebuild: accumulation foo >=0:", acc("foo", 0), ";", ext, ">=0:", acc(ext, 0))
	k.RebuildAccumulationStoreForDenom(h.Ctx, "foo")
	fmt.Println("probe7 after RebuildAccumulationStoreForDenom(foo): accumulation foo >=0:", acc("foo", 0), ";", ext, ">=0:", acc(ext, 0), "(its lock of 7 is still live)")

	// 8. RebuildSuperfluidAccumulationStoresForDenom(D) clears "<0x20>D/super…": a REAL denomination D/superbonding/v1 loses its store
	h.Reset()
	k = h.App.LockupKeeper
	h.Ctx = h.Ctx.WithBlockTime(base)
	ext = "foo/superbonding/v1"
	h.FundAcc(a, sdk.NewCoins(sdk.NewInt64Coin("foo", 1000), sdk.NewInt64Coin(ext, 1000)))
	k.CreateLock(h.Ctx, a, sdk.NewCoins(sdk.NewInt64Coin("foo", 100)), 10*time.Second)
	k.CreateLock(h.Ctx, a, sdk.NewCoins(sdk.NewInt64Coin(ext, 7)), 5*time.Second)
	fmt.Println("probe8 before rebuild: accumulation foo >=0:", acc("foo", 0), ";", ext, ">=0:", acc(ext, 0))
	k.RebuildSuperfluidAccumulationStoresForDenom(h.Ctx, "foo")
	fmt.Println("probe8 after RebuildSuperfluidAccumulationStoresForDenom(foo): accumulation foo >=0:", acc("foo", 0), ";", ext, ">=0:", acc(ext, 0), "(its lock of 7 is still live)")
}
