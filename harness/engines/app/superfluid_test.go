package app_test

// Engine `superfluid` (property C11): the real x/superfluid, x/lockup, x/staking, x/bank, x/gamm and
// x/concentrated-liquidity keepers through the app.  Per history: 2-3 bonded validators (+ one address that
// is no validator), 3 owners, 1-2 superfluid-enabled share denoms — classic (gamm) pools and, in about every
// third history, a concentrated pool whose full-range shares are enabled — plus one pool whose shares are
// NOT enabled, a risk factor, and a stream of lock / add-to-lock / delegate / undelegate / unbond /
// undelegate-and-unbond (full and partial) / begin-unlock / withdraw / end-block / time advances / epochs
// preceded by price moves (swaps, joins, exits in the real pools).  Every op line is replayed by the Lean
// model (Model/Superfluid.lean) and the complete superfluid + lockup + staking-ledger + supply state is
// compared after every op.  The first history of every run is a fixed script (the witness of the recorded
// findings), so the known-finding lines are stable and disappear only when the behaviour changes.
//
// Modelled regime (the generator stays inside it; see Props/C11.lean header): validators stay bonded (slashes, also
// the 100 % slash taken together with the top-ups of the locks it empties, and the 2^63 power-unit threshold of
// staking's power index are modelled: classes slash / mixed / fault, superfluid_fault_test.go), no staking rewards are
// allocated (no BeginBlocker of distribution/mint is run: the epoch is SuperfluidKeeper.AfterEpochStartBeginBlock called
// directly, the lockup EndBlocker is its two keeper calls), pools always keep OSMO.
//
// The oracle is independent of the model: expected stake per intermediary account recomputed with big.Rat
// from the connected locks, marker census, supply-with-offset before/after, guard probes on discarded
// branches, and the module's own registered invariant.

import (
	"errors"
	"fmt"
	"math"
	"math/big"
	"math/rand"
	"os"
	"sort"
	"strings"
	"testing"
	"time"

	sdk "github.com/cosmos/cosmos-sdk/types"
	stakingtypes "github.com/cosmos/cosmos-sdk/x/staking/types"

	"github.com/osmosis-labs/osmosis/osmomath"
	cl "github.com/osmosis-labs/osmosis/v31/x/concentrated-liquidity"
	clmodel "github.com/osmosis-labs/osmosis/v31/x/concentrated-liquidity/model"
	cltypes "github.com/osmosis-labs/osmosis/v31/x/concentrated-liquidity/types"
	"github.com/osmosis-labs/osmosis/v31/x/gamm/pool-models/balancer"
	gammtypes "github.com/osmosis-labs/osmosis/v31/x/gamm/types"
	lockupkeeper "github.com/osmosis-labs/osmosis/v31/x/lockup/keeper"
	lockuptypes "github.com/osmosis-labs/osmosis/v31/x/lockup/types"
	sfkeeper "github.com/osmosis-labs/osmosis/v31/x/superfluid/keeper"
	sftypes "github.com/osmosis-labs/osmosis/v31/x/superfluid/types"
)

type sfPool struct {
	id    uint64
	denom string // share denom
	token string // the non-OSMO asset
	asset bool   // superfluid enabled
	cl    bool   // concentrated pool (shares = full-range liquidity)
}

type sfEngine struct {
	h      *H
	o      *Out
	r      *rand.Rand
	bond   string
	t0     time.Time
	ub     time.Duration
	ubs    int64
	rf     *big.Int // raw Dec
	owners []sdk.AccAddress
	trader sdk.AccAddress
	vals   []sdk.ValAddress // last one is NOT a validator
	pools  []sfPool         // denom index = position
	// engine-side bookkeeping for the oracle (from op results only)
	undeleg      map[uint64]int64 // lock id -> engine time of its undelegation
	opsSinceEp   map[string]int   // per intermediary account: stake-changing ops since the last refresh
	refreshedAll bool
	// slashing (engine-side facts, from op results only)
	slashedVal   map[int]bool     // validator index -> slashed at least once in this history (exchange rate != 1)
	slashSinceEp map[int]bool     // validator index -> slashed since the last full refresh
	class        string           // history class: script | random | dust | slash | mixed
	queue        []sfStep         // pending steps of a directed macro (dust-and-recover, slashed-validator)
	lastNew      uint64           // id returned by the last successful lock op
	valBurns     map[int]int64    // per validator: force-undelegations (undelegate / undelegate-and-unbond) since the last refresh
	carry        map[string]int64 // per account on a slashed validator: whole units of excess stake the last refresh left (explained classes only)
	// fault injection (superfluid_fault_test.go)
	powLimit     *big.Int          // 2^63 * PowerReduction: a validator whose tokens reach it cannot be written to the power index (Int64 panics)
	blockedTopup map[string]string // per account: a top-up since the last refresh whose mint the validator could not take (reason)
	noEmit       bool              // oracle-only tail of a history: ops run on the real keepers and through every oracle, no op line for the model
	hist         []string         // op lines of the current history (replay of an export/import oracle failure)
}

// histStr: the op lines of the current history since its `reset` (newest first, bounded): the failing input of an oracle failure
func (e *sfEngine) histStr() string {
	var b strings.Builder
	b.WriteString(" | history, newest op first: ")
	for i := len(e.hist) - 1; i >= 0 && i >= len(e.hist)-50; i-- {
		b.WriteString(strings.TrimPrefix(e.hist[i], "superfluid "))
		b.WriteString(" ; ")
	}
	if len(e.hist) > 0 {
		b.WriteString("... ; " + e.hist[0])
	}
	return b.String()
}

// one step of a directed macro: the op is computed when the step is executed (it may refer to locks the macro
// created earlier); `after` sees whether the op succeeded and the id it returned.
type sfStep struct {
	mk    func() (sfOp, bool)
	after func(ok bool, id uint64)
}

// one op of a history
type sfOp struct {
	kind   string
	snd    int
	id     uint64
	v      int
	d      int
	amt    *big.Int // nil = "-" (everything) for beginunlock
	dur    int64
	single bool
	dt     int64
	moves  int
	// slash: validator v, consensus power, fraction (Dec string); move: pool d, factor num/den, down
	power  int64
	frac   string
	num    int64
	den    int64
	down   bool
	full   bool                // slash: a deliberate 100 % slash (fault classes); the 60 % guard does not apply
	refill map[uint64]*big.Int // slashrefill: top-up of every lock the 100 % slash emptied
}

func (e *sfEngine) ctx() sdk.Context { return e.h.Ctx }
func (e *sfEngine) now() int64       { return int64(e.h.Ctx.BlockTime().Sub(e.t0)/time.Second) + 1 }
func (e *sfEngine) rel(t time.Time) string {
	if t.Equal(time.Time{}) {
		return "-"
	}
	return fmt.Sprint(int64(t.Sub(e.t0)/time.Second) + 1)
}

func (e *sfEngine) atomic(f func(ctx sdk.Context) error) (err error, panicked bool) {
	cctx, write := e.h.Ctx.CacheContext()
	ok := catch(func() {
		if os.Getenv("VERIF_SF_DEBUG") != "" {
			defer func() {
				if r := recover(); r != nil {
					fmt.Fprintf(os.Stderr, "PANIC: %v\n", r)
					panic(r)
				}
			}()
		}
		err = f(cctx)
	})
	if !ok {
		return nil, true
	}
	if err == nil {
		write()
	}
	return err, false
}

func sfErrClass(err error) string {
	msg := err.Error()
	switch {
	case errors.Is(err, lockuptypes.ErrNotLockOwner):
		return "notowner"
	case errors.Is(err, lockuptypes.ErrLockupNotFound), has(msg, "lockup not found"):
		return "nolock"
	case errors.Is(err, sftypes.ErrMultipleCoinsLockupNotSupported):
		return "multicoin"
	case errors.Is(err, sftypes.ErrNonSuperfluidAsset):
		return "notasset"
	case errors.Is(err, sftypes.ErrUnbondingLockupNotSupported):
		return "unlocking"
	case errors.Is(err, sftypes.ErrNotEnoughLockupDuration):
		return "duration"
	case errors.Is(err, sftypes.ErrAlreadyUsedSuperfluidLockup):
		return "already"
	case errors.Is(err, sftypes.ErrNotSuperfluidUsedLockup):
		return "notsf"
	case errors.Is(err, sftypes.ErrBondingLockupNotSupported):
		return "bonded"
	case errors.Is(err, sftypes.ErrOsmoEquivalentZeroNotAllowed):
		return "zero"
	case errors.Is(err, stakingtypes.ErrNoValidatorFound):
		return "noval"
	case has(msg, "cannot BeginUnlocking a lock with synthetic lockup"):
		return "synth"
	case has(msg, "lock is not unlockable yet"):
		return "notmature"
	}
	return "other"
}

func (e *sfEngine) denomIdx(d string) int {
	for i, p := range e.pools {
		if p.denom == d {
			return i
		}
	}
	return -1
}
func (e *sfEngine) valIdx(v string) int {
	for i, a := range e.vals {
		if a.String() == v {
			return i
		}
	}
	return -1
}
func (e *sfEngine) ownerIdx(a string) int {
	for i, o := range e.owners {
		if o.String() == a {
			return i
		}
	}
	return -1
}

// classic pool: multiplier = osmo / 1e20
func (e *sfEngine) createPool(osmo *big.Int, idx int) sfPool {
	tok := fmt.Sprintf("token%d", idx)
	tokAmt := osmomath.NewInt(1_000_000_000)
	fee := e.h.App.GAMMKeeper.GetParams(e.ctx()).PoolCreationFee
	creator := sdk.AccAddress([]byte(fmt.Sprintf("poolcreator%09d", idx)))
	e.h.FundAcc(creator, sdk.NewCoins(sdk.NewCoin(e.bond, osmomath.NewIntFromBigInt(osmo)), sdk.NewCoin(tok, tokAmt)).Add(fee...))
	msg := balancer.NewMsgCreateBalancerPool(creator, balancer.PoolParams{SwapFee: osmomath.NewDecWithPrec(1, 2), ExitFee: osmomath.ZeroDec()},
		[]balancer.PoolAsset{{Weight: osmomath.NewInt(100), Token: sdk.NewCoin(e.bond, osmomath.NewIntFromBigInt(osmo))}, {Weight: osmomath.NewInt(100), Token: sdk.NewCoin(tok, tokAmt)}}, "")
	id, err := e.h.App.PoolManagerKeeper.CreatePool(e.ctx(), msg)
	if err != nil {
		panic(err)
	}
	return sfPool{id: id, denom: gammtypes.GetPoolShareDenom(id), token: tok}
}

// concentrated pool token/OSMO with one unlocked full-range position of the pool creator
func (e *sfEngine) createCLPool(osmo, tok *big.Int, idx int) sfPool {
	token := fmt.Sprintf("cltoken%d", idx)
	creator := sdk.AccAddress([]byte(fmt.Sprintf("poolcreator%09d", idx)))
	e.h.FundAcc(creator, e.h.App.PoolManagerKeeper.GetParams(e.ctx()).PoolCreationFee)
	id, err := e.h.App.PoolManagerKeeper.CreatePool(e.ctx(), clmodel.NewMsgCreateConcentratedPool(creator, token, e.bond, 100, osmomath.NewDecWithPrec(1, 3)))
	if err != nil {
		panic(err)
	}
	coins := sdk.NewCoins(sdk.NewCoin(e.bond, osmomath.NewIntFromBigInt(osmo)), sdk.NewCoin(token, osmomath.NewIntFromBigInt(tok)))
	e.h.FundAcc(creator, coins)
	if _, err := e.h.App.ConcentratedLiquidityKeeper.CreateFullRangePosition(e.ctx(), id, creator, coins); err != nil {
		panic(err)
	}
	return sfPool{id: id, denom: cltypes.GetConcentratedLockupDenomFromPoolId(id), token: token, cl: true}
}

// poolReading: (OSMO backing, raw Dec of the share supply / full-range liquidity) as the epoch will see them.
func (e *sfEngine) poolReading(p sfPool) (*big.Int, *big.Int) {
	if p.cl {
		pool, err := e.h.App.ConcentratedLiquidityKeeper.GetConcentratedPoolById(e.ctx(), p.id)
		if err != nil {
			panic(err)
		}
		liq, err := e.h.App.ConcentratedLiquidityKeeper.GetFullRangeLiquidityInPool(e.ctx(), p.id)
		if err != nil {
			panic(err)
		}
		a0, a1, err := cl.CalculateUnderlyingAssetsFromPosition(e.ctx(), clmodel.Position{LowerTick: cltypes.MinInitializedTick, UpperTick: cltypes.MaxTick, Liquidity: liq}, pool)
		if err != nil {
			panic(err)
		}
		return sdk.NewCoins(a0, a1).AmountOf(e.bond).BigInt(), liq.BigInt()
	}
	pool, err := e.h.App.GAMMKeeper.GetPoolAndPoke(e.ctx(), p.id)
	if err != nil {
		panic(err)
	}
	return pool.GetTotalPoolLiquidity(e.ctx()).AmountOf(e.bond).BigInt(), new(big.Int).Mul(pool.GetTotalShares().BigInt(), e18)
}

// stakeFail: the stake-versus-locks clauses of C11 are stated for histories of delegations, undelegations, top-ups,
// unbondings, price changes and epochs; validator slashing is not among them.  What the real code does to the stake of
// a slashed validator (stake and locks cut independently until the next refresh; truncation at an exchange rate != 1;
// RoundInt read of the current amount) is therefore recorded as an observation (counter + DESIGN.md), not reported as a
// violation; the Lean model covers those histories bit-exactly, so a change of behaviour there is still a divergence.
// The supply and marker clauses are checked in every regime.
func (e *sfEngine) stakeFail(key, detail string) {
	if strings.Contains(key, ":slashed") || strings.Contains(key, "slashed-") {
		e.o.Count("outside-quantifier." + key)
		return
	}
	e.o.Fail(key, detail)
}

// priceMove: swap / join / exit in a real pool (not a model op: the epoch line carries the pool reading).
func (e *sfEngine) priceMove() {
	p := e.pools[e.r.Intn(len(e.pools))]
	frac := func(x *big.Int) *big.Int { // 1/1000 .. 1/3 of x, at least 1
		d := int64([]int{3, 5, 10, 50, 1000}[e.r.Intn(5)])
		v := new(big.Int).Quo(x, big.NewInt(d))
		if v.Sign() == 0 {
			v = big.NewInt(1)
		}
		return v
	}
	pl, err := e.h.App.PoolManagerKeeper.GetPool(e.ctx(), p.id)
	if err != nil {
		panic(err)
	}
	osmo := e.h.App.BankKeeper.GetBalance(e.ctx(), pl.GetAddress(), e.bond).Amount.BigInt()
	tokBal := e.h.App.BankKeeper.GetBalance(e.ctx(), pl.GetAddress(), p.token).Amount.BigInt()
	kind := e.r.Intn(10)
	if osmo.Cmp(pow10(23)) > 0 {
		// keep the multiplier below ~1000: the stake of one validator must stay below 2^63 power units
		// (staking panics on the power overflow; outside the modelled regime)
		kind = 0
	}
	if p.cl && kind >= 8 {
		kind = e.r.Intn(8)
	}
	cctx, write := e.h.Ctx.CacheContext()
	ok := catch(func() {
		switch {
		case kind < 4: // token in, OSMO out: multiplier falls
			_, _, err = e.h.App.PoolManagerKeeper.SwapExactAmountIn(cctx, e.trader, p.id, sdk.NewCoin(p.token, osmomath.NewIntFromBigInt(frac(tokBal))), e.bond, osmomath.ZeroInt())
			e.o.Count("move.swap-osmo-out")
		case kind < 8: // OSMO in: multiplier rises
			_, _, err = e.h.App.PoolManagerKeeper.SwapExactAmountIn(cctx, e.trader, p.id, sdk.NewCoin(e.bond, osmomath.NewIntFromBigInt(frac(osmo))), p.token, osmomath.ZeroInt())
			e.o.Count("move.swap-osmo-in")
		case kind < 9:
			pool, _ := e.h.App.GAMMKeeper.GetPoolAndPoke(cctx, p.id)
			_, _, err = e.h.App.GAMMKeeper.JoinPoolNoSwap(cctx, e.trader, p.id, osmomath.NewIntFromBigInt(frac(pool.GetTotalShares().BigInt())), sdk.Coins{})
			e.o.Count("move.join")
		default:
			bal := e.h.App.BankKeeper.GetBalance(cctx, e.trader, p.denom).Amount.BigInt()
			if bal.Sign() > 0 {
				_, err = e.h.App.GAMMKeeper.ExitPool(cctx, e.trader, p.id, osmomath.NewIntFromBigInt(frac(bal)), sdk.Coins{})
				e.o.Count("move.exit")
			}
		}
	})
	if !ok || err != nil {
		e.o.Count("move.err")
		return
	}
	write()
	if p.cl {
		e.o.Count("move.cl")
	}
}

type sfLock struct {
	id     uint64
	owner  int
	denom  int
	amount *big.Int
	single bool
	dur    int64
	end    string
	unl    bool
}

func (e *sfEngine) locks() []sfLock {
	var out []sfLock
	last := e.h.App.LockupKeeper.GetLastLockID(e.ctx())
	for id := uint64(1); id <= last; id++ {
		l, err := e.h.App.LockupKeeper.GetLockByID(e.ctx(), id)
		if err != nil {
			continue
		}
		if len(l.Coins) == 0 { // emptied by a 100 % slash (only inside a composite op / a discarded branch)
			out = append(out, sfLock{id: id, owner: e.ownerIdx(l.Owner), denom: -1, amount: new(big.Int), dur: int64(l.Duration / time.Second), end: e.rel(l.EndTime), unl: l.IsUnlocking()})
			continue
		}
		out = append(out, sfLock{id: id, owner: e.ownerIdx(l.Owner), denom: e.denomIdx(l.Coins[0].Denom), amount: l.Coins[0].Amount.BigInt(),
			single: len(l.Coins) == 1, dur: int64(l.Duration / time.Second), end: e.rel(l.EndTime), unl: l.IsUnlocking()})
	}
	return out
}

type sfAcc struct {
	d, v   int
	gauge  uint64
	addr   sdk.AccAddress
	stake  *big.Int // nil = no delegation object; else TokensFromShares(shares) truncated
	shares *big.Int // raw 18-decimal delegation shares (nil = no delegation object)
	exact  *big.Rat // shares * validator tokens / validator shares, exact (0 if no delegation object)
	cur    *big.Int // what the refresh reads: TokensFromShares(shares).RoundInt() on the real keeper (0 if none)
	key    string
}

type sfVal struct {
	tokens *big.Int
	shares *big.Int // raw 18-decimal delegator shares
	jailed bool
}

func (e *sfEngine) validators() []sfVal {
	var out []sfVal
	for i := 0; i < len(e.vals)-1; i++ {
		val, err := e.h.App.StakingKeeper.GetValidator(e.ctx(), e.vals[i])
		if err != nil {
			panic(err)
		}
		out = append(out, sfVal{tokens: val.Tokens.BigInt(), shares: val.DelegatorShares.BigInt(), jailed: val.Jailed})
	}
	return out
}

func (e *sfEngine) accounts() []sfAcc {
	var out []sfAcc
	for _, a := range e.h.App.SuperfluidKeeper.GetAllIntermediaryAccounts(e.ctx()) {
		x := sfAcc{d: e.denomIdx(a.Denom), v: e.valIdx(a.ValAddr), gauge: a.GaugeId, addr: a.GetAccAddress(), exact: new(big.Rat), cur: new(big.Int)}
		x.key = fmt.Sprintf("%d.%d", x.d, x.v)
		valAddr, _ := sdk.ValAddressFromBech32(a.ValAddr)
		del, err := e.h.App.StakingKeeper.GetDelegation(e.ctx(), x.addr, valAddr)
		if err == nil {
			val, verr := e.h.App.StakingKeeper.GetValidator(e.ctx(), valAddr)
			if verr == nil {
				tok := val.TokensFromShares(del.Shares)
				if !tok.IsInteger() && len(e.slashedVal) == 0 {
					e.o.Fail("regime:non-integer-stake:unslashed", fmt.Sprintf("%s tokens %s", x.key, tok))
				}
				x.stake = tok.TruncateInt().BigInt()
				x.cur = tok.RoundInt().BigInt()
				x.shares = del.Shares.BigInt()
				if val.DelegatorShares.IsPositive() {
					x.exact = new(big.Rat).SetFrac(new(big.Int).Mul(del.Shares.BigInt(), val.Tokens.BigInt()), val.DelegatorShares.BigInt())
				}
			}
		}
		out = append(out, x)
	}
	sort.Slice(out, func(i, j int) bool { return out[i].d < out[j].d || (out[i].d == out[j].d && out[i].v < out[j].v) })
	return out
}

type sfSynth struct {
	lock uint64
	kind string // b | u
	d, v int
	end  string
	dur  int64
}

func (e *sfEngine) synths() []sfSynth {
	var out []sfSynth
	for _, s := range e.h.App.LockupKeeper.GetAllSyntheticLockups(e.ctx()) {
		x := sfSynth{lock: s.UnderlyingLockId, end: e.rel(s.EndTime), dur: int64(s.Duration / time.Second), d: -1, v: -1}
		sep := "/superbonding/"
		x.kind = "b"
		if strings.Contains(s.SynthDenom, "/superunbonding/") {
			sep = "/superunbonding/"
			x.kind = "u"
		}
		parts := strings.Split(s.SynthDenom, sep)
		if len(parts) == 2 {
			x.d, x.v = e.denomIdx(parts[0]), e.valIdx(parts[1])
		}
		out = append(out, x)
	}
	sort.SliceStable(out, func(i, j int) bool { return out[i].lock < out[j].lock })
	return out
}

type sfConn struct {
	lock uint64
	key  string
}

func (e *sfEngine) conns(accs []sfAcc) []sfConn {
	var out []sfConn
	for _, c := range e.h.App.SuperfluidKeeper.GetAllLockIdIntermediaryAccountConnections(e.ctx()) {
		k := "?"
		for _, a := range accs {
			if a.addr.String() == c.IntermediaryAccount {
				k = a.key
			}
		}
		out = append(out, sfConn{c.LockId, k})
	}
	sort.Slice(out, func(i, j int) bool { return out[i].lock < out[j].lock })
	return out
}

func (e *sfEngine) mult(p sfPool) *big.Int {
	return e.h.App.SuperfluidKeeper.GetOsmoEquivalentMultiplier(e.ctx(), p.denom).BigInt()
}

func (e *sfEngine) supply() (sup, off, rep *big.Int) {
	bk := e.h.App.BankKeeper
	return bk.GetSupply(e.ctx(), e.bond).Amount.BigInt(), bk.GetSupplyOffset(e.ctx(), e.bond).BigInt(), bk.GetSupplyWithOffset(e.ctx(), e.bond).Amount.BigInt()
}

type sfView struct {
	accs []sfAcc
	cn   []sfConn
	sy   []sfSynth
	lk   []sfLock
}

func (e *sfEngine) observe() (string, sfView) {
	accs := e.accounts()
	cn := e.conns(accs)
	sy := e.synths()
	lk := e.locks()
	var st, cns, sys, lks, acs, ms []string
	for _, a := range accs {
		if a.stake != nil {
			st = append(st, fmt.Sprintf("%s=%s/%s", a.key, a.stake, a.shares))
		}
		acs = append(acs, fmt.Sprintf("%s:%d", a.key, a.gauge))
	}
	var vls []string
	for i, vl := range e.validators() {
		vls = append(vls, fmt.Sprintf("%d:%s:%s", i, vl.tokens, vl.shares))
	}
	for _, c := range cn {
		cns = append(cns, fmt.Sprintf("%d>%s", c.lock, c.key))
	}
	for _, s := range sy {
		sys = append(sys, fmt.Sprintf("%d:%s:%d.%d:%s:%d", s.lock, s.kind, s.d, s.v, s.end, s.dur))
	}
	for _, l := range lk {
		sg := 0
		if l.single {
			sg = 1
		}
		lks = append(lks, fmt.Sprintf("%d:%d:%d:%s:%d:%d:%s", l.id, l.owner, l.denom, l.amount, sg, l.dur, l.end))
	}
	for i, p := range e.pools {
		ms = append(ms, fmt.Sprintf("%d:%s", i, e.mult(p)))
	}
	sup, off, rep := e.supply()
	j := func(l []string) string { return "[" + strings.Join(l, ",") + "]" }
	return fmt.Sprintf("vl=%s st=%s cn=%s sy=%s lk=%s ac=%s m=%s sup=%s off=%s rep=%s", j(vls), j(st), j(cns), j(sys), j(lks), j(acs), j(ms), sup, off, rep), sfView{accs, cn, sy, lk}
}

// osmoValue: the reference for GetSuperfluidOSMOTokens — nearest-even integer of multiplier·amount, minus the
// nearest-even integer of that times the risk factor — with exact rationals.
func (e *sfEngine) osmoValue(mult *big.Int, amount *big.Int) *big.Int {
	if mult.Sign() == 0 {
		return big.NewInt(0)
	}
	R := ratHalfEven(new(big.Rat).SetFrac(new(big.Int).Mul(mult, amount), e18))
	risk := ratHalfEven(new(big.Rat).SetFrac(new(big.Int).Mul(R, e.rf), e18))
	return new(big.Int).Sub(R, risk)
}

// ---------------------------------------------------------------------------------------------- oracle
func (e *sfEngine) oracle(op string, line string, v sfView, prev sfView, repBefore *big.Int) {
	accs, cn, sy, lk := v.accs, v.cn, v.sy, v.lk
	lockBy := map[uint64]sfLock{}
	for _, l := range lk {
		lockBy[l.id] = l
	}
	synBy := map[uint64][]sfSynth{}
	for _, s := range sy {
		synBy[s.lock] = append(synBy[s.lock], s)
	}
	connBy := map[uint64]string{}
	// --- markers
	for _, c := range cn {
		connBy[c.lock] = c.key
		ss := synBy[c.lock]
		switch {
		case len(ss) == 0:
			e.o.Fail("marker:missing:staking", fmt.Sprintf("lock %d delegated through %s has no synthetic lock | %s", c.lock, c.key, line))
		case len(ss) > 1:
			e.o.Fail("marker:duplicate:staking", fmt.Sprintf("lock %d has %d synthetic locks | %s", c.lock, len(ss), line))
		case ss[0].kind != "b" || fmt.Sprintf("%d.%d", ss[0].d, ss[0].v) != c.key || ss[0].end != "-":
			e.o.Fail("marker:wrong-kind:staking", fmt.Sprintf("lock %d marker %+v conn %s | %s", c.lock, ss[0], c.key, line))
		}
		if l, ok := lockBy[c.lock]; !ok {
			e.o.Fail("marker:delegated-lock-missing", fmt.Sprintf("lock %d | %s", c.lock, line))
		} else if l.unl {
			e.o.Fail("lock:unlocking-while-delegated", fmt.Sprintf("lock %d | %s", c.lock, line))
		}
	}
	now := e.now()
	for id, t := range e.undeleg {
		if now >= t+e.ubs {
			continue // matured: the marker may be swept at any time from here on
		}
		ss := synBy[id]
		switch {
		case len(ss) == 0:
			e.o.Fail("marker:missing:unstaking", fmt.Sprintf("lock %d undelegated at %d has no synthetic lock at %d | %s", id, t, now, line))
		case len(ss) > 1:
			e.o.Fail("marker:duplicate:unstaking", fmt.Sprintf("lock %d has %d synthetic locks | %s", id, len(ss), line))
		case ss[0].kind != "u":
			e.o.Fail("marker:wrong-kind:unstaking", fmt.Sprintf("lock %d %+v | %s", id, ss[0], line))
		case ss[0].end != fmt.Sprint(t+e.ubs) || ss[0].dur != e.ubs:
			e.o.Fail("marker:wrong-duration", fmt.Sprintf("lock %d undelegated at %d, unbonding %d, marker ends %s lasts %d | %s", id, t, e.ubs, ss[0].end, ss[0].dur, line))
		}
		if _, ok := lockBy[id]; !ok {
			e.o.Fail("lock:withdraw-before-maturity:gone", fmt.Sprintf("lock %d undelegated at %d vanished at %d | %s", id, t, now, line))
		}
	}
	for id, ss := range synBy {
		_, c := connBy[id]
		_, u := e.undeleg[id]
		if !c && !u {
			e.o.Fail("marker:orphan", fmt.Sprintf("lock %d %+v | %s", id, ss, line))
		}
	}
	// --- stake
	half := big.NewRat(1, 2)
	valsNow := e.validators()
	blockedAny := false
	for _, a := range accs {
		total := new(big.Int)
		n := 0
		for _, c := range cn {
			if c.key == a.key {
				if l, ok := lockBy[c.lock]; ok {
					total.Add(total, l.amount)
					n++
				}
			}
		}
		want := e.osmoValue(e.mult(e.pools[a.d]), total)
		got := new(big.Int)
		if a.stake != nil {
			got.Set(a.stake)
		}
		rec := "has-record"
		if a.stake == nil {
			rec = "no-record"
		}
		diff := new(big.Int).Abs(new(big.Int).Sub(got, want))
		e.o.Count(fmt.Sprintf("stake.locks.%d", min(n, 4)))
		// fault-injection regimes (superfluid_fault_test.go): the stake is short because the mint CANNOT be made — the
		// validator has no tokens but outstanding shares (staking refuses every delegation), or the missing amount
		// would take it to 2^63 power units (staking panics, the branch is rolled back).  Recorded as an observation:
		// C11 quantifies over neither 100 % slashes nor locks worth more than 9.2e18 OSMO; the supply, marker and
		// atomicity clauses are checked in these regimes like everywhere else.
		if a.v >= 0 && a.v < len(valsNow) && want.Cmp(got) > 0 {
			why := ""
			vl := valsNow[a.v]
			slack := big.NewInt(int64(n + e.opsSinceEp[a.key] + 2))
			if vl.tokens.Sign() == 0 && vl.shares.Sign() > 0 {
				why = "invalid-exrate"
			} else if new(big.Int).Add(new(big.Int).Add(vl.tokens, new(big.Int).Sub(want, got)), slack).Cmp(e.powLimit) >= 0 {
				why = "power-overflow"
			} else if b, ok := e.blockedTopup[a.key]; ok {
				why = b // a mint since (or by) the last refresh did not fit, although the whole difference would fit now: the next refresh mints it
			}
			if why != "" {
				blockedAny = true
				ph := "between-refreshes"
				if op == "epoch" && e.refreshedAll {
					ph = "after-refresh"
				}
				e.o.Count("outside-quantifier.stake:mint-blocked:" + why + ":" + ph)
				continue
			}
		}
		if op == "epoch" && e.refreshedAll {
			if a.v < 0 || a.v >= len(e.vals)-1 {
				continue // no such validator: the refresh skips the account
			}
			dir := "short"
			if new(big.Rat).SetInt(want).Cmp(a.exact) < 0 {
				dir = "over"
			}
			if !e.slashedVal[a.v] {
				// exchange rate exactly one: the refresh sets the stake to the expected amount exactly
				if diff.Sign() != 0 || !a.exact.IsInt() {
					e.o.Fail("stake:refresh-mismatch:unslashed:"+rec+":"+dir, fmt.Sprintf("%s stake %s expected %s (%d locks, total %s) | %s", a.key, a.exact.RatString(), want, n, total, line))
				}
				e.o.Count("refresh.unslashed." + rec)
				continue
			}
			// slashed validator (exchange rate != 1).  The refresh reads the stake ROUNDED to a whole token
			// (half-even of the 18-decimal TokensFromShares) and mints / burns the whole-token difference.
			// Documented rounding: the exact stake ends within 1/2 (+10^-6 for the 18-decimal share arithmetic)
			// of the expected amount.  Two further behaviours of the unchanged code are classified (they are
			// recorded findings, not tolerated silently):
			//  truncation-leak        an InstantUndelegate pays out TokensFromShares(shares) TRUNCATED; the lost
			//                         fraction (< 1 token per burn) stays with the validator and is shared by its
			//                         delegators, so an account can end above the expected amount by up to one
			//                         token per account of that validator that was burnt from in this refresh
			//  burn-rejected-round-up the rounded current amount exceeds the token worth of the delegation, the
			//                         shares for (rounded current - expected) exceed the delegation's shares,
			//                         ValidateUnbondAmount fails with "invalid shares amount", the error is only
			//                         logged and the stake stays above the expected amount
			dev := new(big.Rat).Sub(a.exact, new(big.Rat).SetInt(want))
			sign := dev.Sign()
			dev.Abs(dev)
			tol := new(big.Rat).Add(half, big.NewRat(1, 1_000_000))
			e.carry[a.key] = 0
			switch {
			case dev.Sign() == 0:
				e.o.Count("refresh.slashed.exact")
			case dev.Cmp(tol) <= 0:
				e.o.Count("refresh.slashed.within-half-unit")
				if diff.Sign() != 0 {
					e.o.Count("refresh.slashed.truncated-stake-one-short")
				}
			default:
				burnt := int64(0) // accounts of this validator whose delegation lost shares in this refresh
				unchanged := false
				for _, p := range prev.accs {
					if p.v != a.v || p.shares == nil {
						continue
					}
					for _, q := range accs {
						if q.key == p.key {
							if q.shares == nil || q.shares.Cmp(p.shares) < 0 {
								burnt++
							}
							if q.key == a.key && q.shares != nil && q.shares.Cmp(p.shares) == 0 {
								unchanged = true
							}
						}
					}
				}
				cls := "unexplained"
				if sign > 0 && dev.Cmp(new(big.Rat).Add(tol, big.NewRat(burnt, 1))) <= 0 && burnt > 0 {
					cls = "truncation-leak"
				} else if sign > 0 && unchanged && a.stake != nil {
					adj := new(big.Int).Sub(a.cur, want) // the adjustment the refresh asks for (current amount as IT reads it)
					cctx, _ := e.h.Ctx.CacheContext()
					var perr error
					if adj.Sign() > 0 && catch(func() {
						_, perr = e.h.App.StakingKeeper.ValidateUnbondAmount(cctx, a.addr, e.vals[a.v], osmomath.NewIntFromBigInt(adj))
					}) && perr != nil && has(perr.Error(), "invalid shares amount") {
						cls = "burn-rejected-round-up"
					}
				}
				if cls != "unexplained" {
					e.carry[a.key] = ratCeil(dev).Int64()
				}
				e.stakeFail("stake:refresh-mismatch:slashed:"+rec+":"+dir+":"+cls, fmt.Sprintf("%s stake %s (shares %v) expected %s (%d locks, total %s; %d accounts of the validator burnt from) | %s", a.key, a.exact.FloatString(6), a.shares, want, n, total, burnt, line))
			}
			continue
		}
		// between refreshes: distance of the exact stake from the expected amount, in whole units rounded up
		devR := new(big.Rat).Sub(a.exact, new(big.Rat).SetInt(want))
		devR.Abs(devR)
		diff = ratCeil(devR)
		if diff.Cmp(big.NewInt(int64(n))) > 0 {
			k := e.opsSinceEp[a.key]
			cls := "n>0"
			if n == 0 {
				cls = "n=0"
			}
			pre := "stake:drift>locks:"
			allow := int64(k + 1)
			if e.slashSinceEp[a.v] {
				// the validator was slashed since the last refresh: stake and locks were cut independently
				pre = "stake:drift>locks:slashed-since-refresh:"
			} else if c := e.carry[a.key] + e.valBurns[a.v]; e.slashedVal[a.v] && c > 0 && devR.Cmp(new(big.Rat).Add(big.NewRat(allow, 1), new(big.Rat).Add(half, big.NewRat(1, 1_000_000)))) > 0 {
				// exchange rate != 1: the excess the last refresh left on this account (explained, recorded) plus up
				// to one token per force-undelegation on this validator since (truncation leak, see above)
				pre = "stake:drift>locks:slashed-refresh-excess:"
				allow += c
			} else if e.slashedVal[a.v] {
				// the validator has been slashed at some point of this history (exchange rate != 1): slashing is not among the
				// operations C11 quantifies over, so what happens to the STAKE there is an observation (counted under
				// outside-quantifier.*), whatever its size — e.g. a refresh whose force-undelegation is rejected leaves the
				// whole stake (Props/C11Refresh.refresh_burn_rejected_unbounded_witness)
				pre = "stake:drift>locks:slashed-validator:"
			}
			bound := big.NewRat(allow, 1)
			if e.slashedVal[a.v] {
				// exchange rate != 1: the refresh itself leaves the exact stake up to half a token (+10^-6) off
				bound.Add(bound, new(big.Rat).Add(half, big.NewRat(1, 1_000_000)))
			}
			if devR.Cmp(bound) <= 0 {
				e.stakeFail(pre+cls+":within-one-per-op", fmt.Sprintf("%s stake %s expected %s: |diff| %s > %d locks (%d stake-changing ops since refresh) | %s", a.key, a.exact.FloatString(6), want, diff, n, k, line))
			} else {
				e.stakeFail(pre+cls+":beyond-one-per-op", fmt.Sprintf("%s stake %s expected %s: |diff| %s > %d locks and > %d | %s", a.key, a.exact.FloatString(6), want, diff, n, allow, line))
			}
		} else if diff.Sign() != 0 {
			e.o.Count("stake.drift-within-bound")
		}
	}
	// --- supply: the reported supply (bank supply + offset) is unchanged by every superfluid op; a validator
	// slash burns exactly the amount the staking keeper reports and nothing else
	_, _, rep := e.supply()
	sl := "unslashed"
	if len(e.slashedVal) > 0 {
		sl = "slashed"
	}
	if rep.Cmp(repBefore) != 0 {
		e.o.Fail("supply:reported-changed:"+op+":"+sl, fmt.Sprintf("reported supply %s -> %s (%s) | %s", repBefore, rep, new(big.Int).Sub(rep, repBefore), line))
	}
	// --- guards, probed on discarded branches
	lms := lockupkeeper.NewMsgServerImpl(e.h.App.LockupKeeper)
	if len(cn) > 0 {
		c := cn[e.r.Intn(len(cn))]
		if l, ok := lockBy[c.lock]; ok && l.owner >= 0 {
			cctx, _ := e.h.Ctx.CacheContext()
			var err error
			okc := catch(func() {
				_, err = lms.BeginUnlocking(cctx, &lockuptypes.MsgBeginUnlocking{Owner: e.owners[l.owner].String(), ID: c.lock})
			})
			if okc && err == nil {
				e.o.Fail("lock:unlock-while-delegated", fmt.Sprintf("BeginUnlocking of delegated lock %d succeeded | %s", c.lock, line))
			}
			e.o.Count("probe.unlock-delegated")
		}
	}
	var und []uint64
	for id, t := range e.undeleg {
		if _, ok := lockBy[id]; ok && now < t+e.ubs {
			und = append(und, id)
		}
	}
	if len(und) > 0 {
		sort.Slice(und, func(i, j int) bool { return und[i] < und[j] })
		id := und[e.r.Intn(len(und))]
		cctx, _ := e.h.Ctx.CacheContext()
		catch(func() {
			e.h.App.LockupKeeper.DeleteAllMaturedSyntheticLocks(cctx)
			e.h.App.LockupKeeper.WithdrawMaturedLocks(cctx, 1000)
			_ = e.h.App.LockupKeeper.UnlockMaturedLock(cctx, id)
		})
		if _, err := e.h.App.LockupKeeper.GetLockByID(cctx, id); err != nil {
			e.o.Fail("lock:withdraw-before-maturity", fmt.Sprintf("lock %d undelegated at %d withdrawn at %d < %d | %s", id, e.undeleg[id], now, e.undeleg[id]+e.ubs, line))
		}
		e.o.Count("probe.withdraw-undelegating")
	}
	// --- the module's own invariant
	var msg string
	var broken bool
	if !catch(func() { msg, broken = sfkeeper.AllInvariants(*e.h.App.SuperfluidKeeper)(e.ctx()) }) {
		e.o.Fail("invariant:panic", line)
	} else if broken {
		// class: does the per-lock sum differ from the per-account totals (rounding of a sum vs sum of roundings)?
		perLock, perAcc, staked := new(big.Int), new(big.Int), new(big.Int)
		for _, c := range cn {
			if l, ok := lockBy[c.lock]; ok && l.denom >= 0 {
				perLock.Add(perLock, e.osmoValue(e.mult(e.pools[l.denom]), l.amount))
			}
		}
		for _, a := range accs {
			total := new(big.Int)
			for _, c := range cn {
				if l, ok := lockBy[c.lock]; ok && c.key == a.key {
					total.Add(total, l.amount)
				}
			}
			perAcc.Add(perAcc, e.osmoValue(e.mult(e.pools[a.d]), total))
			if a.stake != nil {
				staked.Add(staked, a.stake)
			}
		}
		cls := "sum-of-roundings!=rounding-of-sum"
		if perLock.Cmp(perAcc) == 0 {
			cls = "stake-drift"
		}
		if blockedAny {
			e.o.Count("outside-quantifier.invariant:total-superfluid-delegation:mint-blocked")
			return
		}
		e.o.Fail("invariant:total-superfluid-delegation:"+cls, fmt.Sprintf("per-lock sum %s, per-account sum %s, staked %s: %s | %s", perLock, perAcc, staked, strings.TrimSpace(strings.ReplaceAll(strings.ReplaceAll(msg, "\n", " "), "\t", " ")), line))
	}
}

// ---------------------------------------------------------------------------------------------- history
type sfSetup struct {
	rf    string
	nv    int
	osmo  []*big.Int // one pool per entry; the last one is NOT enabled
	clAt  int        // index of a concentrated pool among the enabled ones (-1: none)
	clTok *big.Int
}

func (e *sfEngine) setup(t *testing.T, su sfSetup) {
	h, o := e.h, e.o
	ctx := h.Ctx
	sp, err := h.App.StakingKeeper.GetParams(ctx)
	if err != nil {
		t.Fatal(err)
	}
	e.bond, e.ub, e.ubs = sp.BondDenom, sp.UnbondingTime, int64(sp.UnbondingTime/time.Second)
	e.powLimit = new(big.Int).Mul(pow2(63), h.App.StakingKeeper.PowerReduction(ctx).BigInt())
	e.t0 = ctx.BlockTime()
	durs := h.App.IncentivesKeeper.GetLockableDurations(ctx)
	h.App.IncentivesKeeper.SetLockableDurations(ctx, append(durs, e.ub))
	rfDec := osmomath.MustNewDecFromStr(su.rf)
	e.rf = rfDec.BigInt()
	h.App.SuperfluidKeeper.SetParams(ctx, sftypes.Params{MinimumRiskFactor: rfDec})
	o.Count("rf." + rfDec.String())
	for i := 0; i < su.nv; i++ {
		e.vals = append(e.vals, setupValidatorDet(h, fmt.Sprintf("verif-sf-validator-%d", e.r.Int63()), stakingtypes.Bonded))
		// SetupValidator flips the status to Bonded without moving the self-bond out of the not-bonded pool
		// (the staking EndBlocker would do that); a slash burns from the bonded pool, so move it here
		val, err := h.App.StakingKeeper.GetValidator(ctx, e.vals[i])
		if err != nil {
			t.Fatal(err)
		}
		if err := h.App.BankKeeper.SendCoinsFromModuleToModule(ctx, stakingtypes.NotBondedPoolName, stakingtypes.BondedPoolName, sdk.NewCoins(sdk.NewCoin(sp.BondDenom, val.Tokens))); err != nil {
			t.Fatal(err)
		}
	}
	e.vals = append(e.vals, sdk.ValAddress([]byte("not-a-validator-addr")))
	for i := 0; i < 3; i++ {
		e.owners = append(e.owners, sdk.AccAddress([]byte(fmt.Sprintf("sfowner%013d", i))))
	}
	e.trader = sdk.AccAddress([]byte("sftrader____________"))
	for i, osmo := range su.osmo {
		var p sfPool
		if i == su.clAt {
			p = e.createCLPool(osmo, su.clTok, i)
		} else {
			p = e.createPool(osmo, i)
		}
		if i < len(su.osmo)-1 {
			typ := sftypes.SuperfluidAssetTypeLPShare
			if p.cl {
				typ = sftypes.SuperfluidAssetTypeConcentratedShare
			}
			if err := h.App.SuperfluidKeeper.AddNewSuperfluidAsset(ctx, sftypes.SuperfluidAsset{Denom: p.denom, AssetType: typ}); err != nil {
				t.Fatal(err)
			}
			p.asset = true
		}
		e.pools = append(e.pools, p)
	}
	// liquidity for price moves and for concentrated positions: funded BEFORE the reset line so that the
	// OSMO supply is afterwards touched by superfluid only
	tc := sdk.NewCoins(sdk.NewCoin(e.bond, osmomath.NewIntFromBigInt(pow10(40))))
	for _, p := range e.pools {
		tc = tc.Add(sdk.NewCoin(p.token, osmomath.NewIntFromBigInt(pow10(30))))
	}
	h.FundAcc(e.trader, tc)
	for _, ow := range e.owners {
		h.FundAcc(ow, tc)
	}
	sup, off, _ := e.supply()
	var vs, as, ds []string
	for i := 0; i < su.nv; i++ {
		vs = append(vs, fmt.Sprint(i))
	}
	for i, p := range e.pools {
		ds = append(ds, fmt.Sprint(i))
		if p.asset {
			as = append(as, fmt.Sprintf("%d:%s", i, e.mult(p)))
		}
	}
	var ks []string
	for _, vl := range e.validators() {
		ks = append(ks, fmt.Sprintf("%s:%s", vl.tokens, vl.shares))
	}
	obs, _ := e.observe()
	resetLine := fmt.Sprintf("superfluid reset %d %d %s %s %s %d %d v=%s a=%s d=%s k=%s p=%s", e.now(), e.ubs, e.rf, sup, off, h.App.IncentivesKeeper.GetLastGaugeID(ctx),
		h.App.LockupKeeper.GetLastLockID(ctx), strings.Join(vs, ","), strings.Join(as, ","), strings.Join(ds, ","), strings.Join(ks, ","), h.App.StakingKeeper.PowerReduction(ctx))
	o.Emit(resetLine, "ok "+obs, false)
	e.hist = []string{resetLine}
}

func runSuperfluid(t *testing.T, seed int64, n int, dir string) {
	r := rand.New(rand.NewSource(seed))
	o := NewOut(dir)
	h := newH(t)
	done := 0
	shares0 := gammtypes.InitPoolSharesSupply.BigInt()
	mulShares := func(num, den int64) *big.Int {
		return new(big.Int).Quo(new(big.Int).Mul(shares0, big.NewInt(num)), big.NewInt(den))
	}
	newEngine := func() *sfEngine {
		h.Reset()
		return &sfEngine{h: h, o: o, r: r, undeleg: map[uint64]int64{}, opsSinceEp: map[string]int{}, slashedVal: map[int]bool{}, slashSinceEp: map[int]bool{}, carry: map[string]int64{}, valBurns: map[int]int64{}, blockedTopup: map[string]string{}}
	}
	// ---- history 0: the scripted witness of the recorded findings (multiplier 2.5, risk factor 0.5)
	{
		e := newEngine()
		e.class = "script"
		e.setup(t, sfSetup{rf: "0.5", nv: 2, osmo: []*big.Int{mulShares(5, 2), mulShares(1, 1)}, clAt: -1})
		done++
		u := e.ubs
		one := big.NewInt(1)
		script := []sfOp{
			{kind: "lock", snd: 0, d: 0, amt: one, dur: u, single: true},
			{kind: "lock", snd: 1, d: 0, amt: one, dur: u, single: true},
			{kind: "delegate", snd: 0, id: 1, v: 0},
			{kind: "delegate", snd: 1, id: 2, v: 0}, // stake 1+1
			{kind: "epoch"},                         // refreshed to value(2 shares) = 3
			{kind: "undelegate", snd: 0, id: 1},     // -1
			{kind: "undelegate", snd: 1, id: 2},     // -1: one unit stays staked with no lock delegated
			{kind: "lock", snd: 2, d: 0, amt: one, dur: u, single: true},
			{kind: "delegate", snd: 2, id: 3, v: 1},
			{kind: "addtolock", snd: 2, id: 3, amt: one},
			{kind: "addtolock", snd: 2, id: 3, amt: one},
			{kind: "addtolock", snd: 2, id: 3, amt: one}, // 4 shares in one lock: stake 4·1, value(4) = 5
			{kind: "epoch"},
			{kind: "undelunbond", snd: 2, id: 3, amt: one},
		}
		for _, op := range script {
			e.do(op)
			done++
		}
		o.Count("history.script")
	}
	for done < n {
		e := newEngine()
		switch c := r.Intn(20); {
		case c < 5:
			e.class = "random"
		case c < 9:
			e.class = "dust"
		case c < 14:
			e.class = "slash"
		case c < 16:
			e.class = "mixed"
		default:
			e.class = "fault"
		}
		rfs := []string{"0.5", "0", "0.25", "0.333333333333333333", "0.05", "0.999999999999999999", "1", "0.5"}
		su := sfSetup{rf: rfs[r.Intn(len(rfs))], nv: 2 + r.Intn(2), clAt: -1}
		np := 1 + r.Intn(2)
		for i := 0; i <= np; i++ {
			var osmo *big.Int
			switch r.Intn(6) {
			case 0: // k/2: ties for odd amounts
				osmo = mulShares(int64(1+2*r.Intn(6)), 2)
			case 1: // thirds
				osmo = mulShares(int64(1+r.Intn(20)), 3)
			case 2: // tiny multiplier
				osmo = new(big.Int).Add(new(big.Int).Rand(r, pow10(12)), big.NewInt(1))
			case 3: // large multiplier
				osmo = mulShares(int64(1+r.Intn(1000)), 1)
			case 4: // integer
				osmo = mulShares(int64(1+r.Intn(9)), 1)
			default:
				osmo = new(big.Int).Add(new(big.Int).Rand(r, new(big.Int).Mul(shares0, big.NewInt(20))), big.NewInt(1))
			}
			su.osmo = append(su.osmo, osmo)
		}
		if r.Intn(3) == 0 {
			su.clAt = r.Intn(np)
			su.osmo[su.clAt] = new(big.Int).Mul(big.NewInt(int64(1+r.Intn(1000))), pow10(6+r.Intn(8)))
			su.clTok = new(big.Int).Mul(big.NewInt(int64(1+r.Intn(1000))), pow10(6+r.Intn(8)))
			o.Count("history.with-concentrated")
		}
		if e.class == "dust" || e.class == "mixed" || (e.class == "slash" && r.Intn(2) == 0) {
			// pool 0 is a classic pool whose multiplier values 1-3 shares at 1-3 uosmo (dust stakes)
			ms := [][2]int64{{1, 1}, {3, 2}, {2, 1}, {5, 2}, {3, 1}, {1, 1}, {7, 3}}
			m := ms[r.Intn(len(ms))]
			su.osmo[0] = mulShares(m[0], m[1])
			if su.clAt == 0 {
				su.clAt = -1
			}
			su.rf = []string{"0", "0.25", "0.5", "0.05", "0.333333333333333333"}[r.Intn(5)]
		}
		if e.class == "fault" { // pool 0 classic, a risk factor that leaves every share a value
			if su.clAt == 0 {
				su.clAt = -1
			}
			su.rf = []string{"0", "0.25", "0.5", "0.05", "0.333333333333333333"}[r.Intn(5)]
		}
		e.setup(t, su)
		done++
		nops := 40 + r.Intn(120)
		if r.Intn(2) == 0 { // an unpool whitelist (set by an upgrade handler on mainnet) so that its loss on import shows
			h.App.SuperfluidKeeper.SetUnpoolAllowedPools(h.Ctx, []uint64{1, 2})
		}
		for i := 0; i < nops && done < n; i++ {
			if i > 3 && r.Intn(12) == 0 {
				e.do(sfOp{kind: "exportimport", snd: -1})
				done++
			}
			op, after, ok := e.next()
			if !ok {
				continue
			}
			succeeded, id, emitted := e.do(op)
			if after != nil {
				after(succeeded, id)
			}
			if emitted {
				done++
			}
		}
		o.Count("history." + e.class)
	}
	o.Close(nil)
}

func (e *sfEngine) randAmount() *big.Int {
	r := e.r
	switch r.Intn(7) {
	case 0, 1:
		return big.NewInt(int64(1 + r.Intn(9)))
	case 2:
		return big.NewInt(int64(1 + r.Intn(1000)))
	case 3:
		return big.NewInt(int64(1 + r.Intn(10_000_000)))
	case 4:
		return new(big.Int).Add(new(big.Int).Rand(r, new(big.Int).Mul(big.NewInt(2), pow10(19))), big.NewInt(1))
	case 5:
		return new(big.Int).Mul(big.NewInt(int64(1+r.Intn(20))), pow10(18))
	}
	return big.NewInt(int64(1 + r.Intn(100)))
}

// pickLock: mostly a lock in the wanted state, sometimes any lock, rarely a missing id.
func (e *sfEngine) pickLock(lk []sfLock, pred func(sfLock) bool) (uint64, int) {
	last := e.h.App.LockupKeeper.GetLastLockID(e.ctx())
	if e.r.Intn(25) == 0 || len(lk) == 0 {
		return last + 1 + uint64(e.r.Intn(2)), e.r.Intn(3)
	}
	var c []sfLock
	if e.r.Intn(6) != 0 {
		for _, l := range lk {
			if pred(l) {
				c = append(c, l)
			}
		}
	}
	if len(c) == 0 {
		c = lk
	}
	l := c[e.r.Intn(len(c))]
	snd := l.owner
	if e.r.Intn(15) == 0 || snd < 0 {
		snd = e.r.Intn(3)
	}
	return l.id, snd
}

// next: the next op of the history — a pending step of a directed macro (mostly), a new macro, or a random op.
func (e *sfEngine) next() (sfOp, func(bool, uint64), bool) {
	r := e.r
	pop := func() (sfOp, func(bool, uint64), bool) {
		st := e.queue[0]
		e.queue = e.queue[1:]
		op, ok := st.mk()
		return op, st.after, ok
	}
	if len(e.queue) > 0 && r.Intn(6) != 0 {
		return pop()
	}
	if len(e.queue) == 0 {
		switch e.class {
		case "dust":
			if r.Intn(5) == 0 {
				e.planDust()
			}
		case "slash":
			if r.Intn(10) == 0 {
				e.planSlashed()
			}
		case "mixed":
			if r.Intn(8) == 0 {
				switch r.Intn(5) {
				case 0, 1:
					e.planDust()
				case 2, 3:
					e.planSlashed()
				default:
					if r.Intn(2) == 0 {
						e.planOverflow()
					} else {
						e.planZero()
					}
				}
			}
		case "fault":
			if r.Intn(5) == 0 {
				if r.Intn(2) == 0 {
					e.planOverflow()
				} else {
					e.planZero()
				}
			}
		}
		if len(e.queue) > 0 {
			return pop()
		}
	}
	op, ok := e.choose()
	return op, nil, ok
}

func (e *sfEngine) step(mk func() (sfOp, bool), after func(bool, uint64)) {
	e.queue = append(e.queue, sfStep{mk: mk, after: after})
}

// classicAsset: an enabled classic-pool denom index (-1 if none).
func (e *sfEngine) classicAsset() int {
	var c []int
	for i, p := range e.pools {
		if p.asset && !p.cl {
			c = append(c, i)
		}
	}
	if len(c) == 0 {
		return -1
	}
	if e.pools[0].asset && !e.pools[0].cl && e.r.Intn(4) != 0 {
		return 0
	}
	return c[e.r.Intn(len(c))]
}

// planDust — "dust and recover": 1-3 locks worth 1-3 uosmo each on ONE intermediary account, refresh, a price
// fall so large that the value of all of them rounds to 0, refresh (everything is force-undelegated and the
// staking delegation record disappears), optionally a top-up / new delegation / undelegation at the low price,
// price recovery, refresh (the stake has to be re-created from nothing).
func (e *sfEngine) planDust() {
	r := e.r
	d := e.classicAsset()
	if d < 0 {
		return
	}
	v := r.Intn(len(e.vals) - 1)
	ow := r.Intn(3)
	k := 1 + r.Intn(3)
	var ids []uint64
	e.o.Count("macro.dust")
	small := func() *big.Int { // 1-3 shares worth 1-3 uosmo now (else the smallest amount worth >= 1)
		m := e.mult(e.pools[d])
		var c []int64
		for x := int64(1); x <= 3; x++ {
			if val := e.osmoValue(m, big.NewInt(x)); val.Sign() > 0 && val.Cmp(big.NewInt(3)) <= 0 {
				c = append(c, x)
			}
		}
		if len(c) > 0 {
			return big.NewInt(c[r.Intn(len(c))])
		}
		for x := int64(1); x <= 64; x *= 2 {
			if e.osmoValue(m, big.NewInt(x)).Sign() > 0 {
				return big.NewInt(x)
			}
		}
		return big.NewInt(1 + int64(r.Intn(3)))
	}
	for i := 0; i < k; i++ {
		e.step(func() (sfOp, bool) {
			return sfOp{kind: "lock", snd: ow, d: d, amt: small(), dur: e.ubs, single: true}, true
		},
			func(ok bool, id uint64) {
				if ok {
					ids = append(ids, id)
				}
			})
		e.step(func() (sfOp, bool) {
			if len(ids) == 0 {
				return sfOp{}, false
			}
			return sfOp{kind: "delegate", snd: ow, id: ids[len(ids)-1], v: v}, true
		}, nil)
	}
	if r.Intn(3) != 0 {
		e.step(func() (sfOp, bool) { return sfOp{kind: "epoch"}, true }, nil)
	}
	var f int64
	e.step(func() (sfOp, bool) {
		// factor: at least 4; usually large enough that round(multiplier * total) becomes 0
		total := new(big.Int)
		for _, l := range e.locks() {
			for _, id := range ids {
				if l.id == id {
					total.Add(total, l.amount)
				}
			}
		}
		R := ratCeil(new(big.Rat).SetFrac(new(big.Int).Mul(e.mult(e.pools[d]), total), e18))
		f = 4
		if !R.IsInt64() || R.Int64() > 1_000_000 {
			f = 4 + int64(r.Intn(60)) // not a dust stake (another pool was picked): just a large fall
		} else if r.Intn(5) != 0 {
			f = 3*R.Int64() + 4 + int64(r.Intn(3))
			if r.Intn(3) == 0 {
				f *= int64(2 + r.Intn(20))
			}
		}
		return sfOp{kind: "move", d: d, num: f, den: 1, down: true}, true
	}, nil)
	e.step(func() (sfOp, bool) { return sfOp{kind: "epoch"}, true }, nil)
	switch r.Intn(7) {
	case 0, 1: // nothing between the two refreshes
	case 2: // dust top-up (worth nothing at the low price)
		e.step(func() (sfOp, bool) {
			if len(ids) == 0 {
				return sfOp{}, false
			}
			return sfOp{kind: "addtolock", snd: ow, id: ids[r.Intn(len(ids))], amt: big.NewInt(int64(1 + r.Intn(3)))}, true
		}, nil)
	case 3: // top-up worth something at the low price: the delegation record is re-created before the recovery
		e.step(func() (sfOp, bool) {
			if len(ids) == 0 {
				return sfOp{}, false
			}
			return sfOp{kind: "addtolock", snd: ow, id: ids[r.Intn(len(ids))], amt: big.NewInt(f * int64(1+r.Intn(4)))}, true
		}, nil)
	case 4: // a new lock delegated through the same account at the low price
		var nid uint64
		e.step(func() (sfOp, bool) {
			return sfOp{kind: "lock", snd: ow, d: d, amt: big.NewInt(f*int64(1+r.Intn(3)) + int64(r.Intn(3))), dur: e.ubs, single: true}, true
		}, func(ok bool, id uint64) {
			if ok {
				nid = id
			}
		})
		e.step(func() (sfOp, bool) { return sfOp{kind: "delegate", snd: ow, id: nid, v: v}, nid != 0 }, nil)
	case 5: // one lock undelegates while nothing is staked (no delegation record: nothing to burn)
		e.step(func() (sfOp, bool) {
			if len(ids) == 0 {
				return sfOp{}, false
			}
			return sfOp{kind: "undelegate", snd: ow, id: ids[0]}, true
		}, nil)
	case 6: // a second refresh at the low price
		e.step(func() (sfOp, bool) { return sfOp{kind: "epoch"}, true }, nil)
	}
	e.step(func() (sfOp, bool) {
		g := f
		switch r.Intn(5) {
		case 0:
			g = f/2 + 1
		case 1:
			g = 2 * f
		}
		return sfOp{kind: "move", d: d, num: g, den: 1, down: false}, true
	}, nil)
	e.step(func() (sfOp, bool) { return sfOp{kind: "epoch"}, true }, nil)
	if r.Intn(2) == 0 {
		e.step(func() (sfOp, bool) {
			if len(ids) == 0 {
				return sfOp{}, false
			}
			return sfOp{kind: "undelegate", snd: ow, id: ids[r.Intn(len(ids))]}, true
		}, nil)
	}
}

var sfFracs = []string{"0.333333333333333333", "0.142857142857142857", "0.01", "0.5", "0.05", "0.000001", "0.1", "0.25"}

func (e *sfEngine) slashOp(v int) sfOp {
	return sfOp{kind: "slash", v: v, frac: sfFracs[e.r.Intn(len(sfFracs))], num: int64(e.r.Intn(5))}
}

// planSlashed — "slashed validator": slashes before and after delegations (tokens per share != 1 and not a round
// ratio), then undelegation / partial undelegate-and-unbond / top-up, a refresh after a price fall (burn path)
// and one after a rise (mint path), with more slashes in between.
func (e *sfEngine) planSlashed() {
	r := e.r
	var ds []int
	for i, p := range e.pools {
		if p.asset {
			ds = append(ds, i)
		}
	}
	d := ds[r.Intn(len(ds))]
	v := r.Intn(len(e.vals) - 1)
	ow := r.Intn(3)
	var ids []uint64
	e.o.Count("macro.slashed")
	pick := func() (uint64, bool) {
		if len(ids) == 0 {
			return 0, false
		}
		return ids[r.Intn(len(ids))], true
	}
	amount := func() *big.Int {
		if r.Intn(3) == 0 {
			return e.randAmount()
		}
		return big.NewInt(int64(1 + r.Intn([]int{9, 100, 5000}[r.Intn(3)])))
	}
	if r.Intn(2) == 0 {
		e.step(func() (sfOp, bool) { return e.slashOp(v), true }, nil)
	}
	for i, k := 0, 1+r.Intn(3); i < k; i++ {
		e.step(func() (sfOp, bool) {
			return sfOp{kind: "lock", snd: ow, d: d, amt: amount(), dur: e.ubs, single: true}, true
		}, func(ok bool, id uint64) {
			if ok {
				ids = append(ids, id)
			}
		})
		e.step(func() (sfOp, bool) {
			if len(ids) == 0 {
				return sfOp{}, false
			}
			return sfOp{kind: "delegate", snd: ow, id: ids[len(ids)-1], v: v}, true
		}, nil)
	}
	e.step(func() (sfOp, bool) { return e.slashOp(v), true }, nil)
	act := func() {
		switch r.Intn(4) {
		case 0:
			e.step(func() (sfOp, bool) { id, ok := pick(); return sfOp{kind: "undelegate", snd: ow, id: id}, ok }, nil)
		case 1, 2:
			e.step(func() (sfOp, bool) {
				id, ok := pick()
				if !ok {
					return sfOp{}, false
				}
				amt := big.NewInt(1)
				for _, l := range e.locks() {
					if l.id == id {
						if r.Intn(4) == 0 {
							amt = new(big.Int).Set(l.amount)
						} else {
							amt = new(big.Int).Add(new(big.Int).Rand(r, l.amount), big.NewInt(1))
						}
					}
				}
				return sfOp{kind: "undelunbond", snd: ow, id: id, amt: amt}, true
			}, nil)
		default:
			e.step(func() (sfOp, bool) {
				id, ok := pick()
				if ok && e.pools[d].cl {
					ok = false
				}
				return sfOp{kind: "addtolock", snd: ow, id: id, amt: amount()}, ok
			}, nil)
		}
	}
	fs := []int64{2, 3, 4, 10}
	e.step(func() (sfOp, bool) { return sfOp{kind: "move", d: d, num: fs[r.Intn(4)], den: 1, down: true}, true }, nil)
	e.step(func() (sfOp, bool) { return sfOp{kind: "epoch"}, true }, nil)
	act()
	if r.Intn(2) == 0 {
		e.step(func() (sfOp, bool) { return e.slashOp(v), true }, nil)
	}
	e.step(func() (sfOp, bool) { return sfOp{kind: "move", d: d, num: fs[r.Intn(4)], den: 1, down: false}, true }, nil)
	e.step(func() (sfOp, bool) { return sfOp{kind: "epoch"}, true }, nil)
	act()
	if r.Intn(2) == 0 {
		e.step(func() (sfOp, bool) { return e.slashOp(v), true }, nil)
		act()
	}
	e.step(func() (sfOp, bool) { return sfOp{kind: "epoch"}, true }, nil)
}

// moveBy: a directed price move in pool d: the OSMO reserve falls (down) or rises by about num/den through one
// swap in the real pool (not a model op: the next epoch line carries the pool reading).
func (e *sfEngine) moveBy(d int, num, den int64, down bool) {
	p := e.pools[d]
	pl, err := e.h.App.PoolManagerKeeper.GetPool(e.ctx(), p.id)
	if err != nil {
		panic(err)
	}
	osmo := e.h.App.BankKeeper.GetBalance(e.ctx(), pl.GetAddress(), e.bond).Amount.BigInt()
	tokBal := e.h.App.BankKeeper.GetBalance(e.ctx(), pl.GetAddress(), p.token).Amount.BigInt()
	in := func(x *big.Int) *big.Int { // x * (num/den - 1) / 0.99, at least 1
		v := new(big.Int).Mul(x, big.NewInt(num-den))
		v.Mul(v, big.NewInt(100))
		v.Quo(v, big.NewInt(den*99))
		if v.Sign() <= 0 {
			v = big.NewInt(1)
		}
		return v
	}
	if !down && new(big.Int).Mul(osmo, big.NewInt(num)).Cmp(new(big.Int).Mul(pow10(23), big.NewInt(den))) > 0 {
		e.o.Count("move.directed.capped") // keep the stake of one validator below 2^63 power units
		return
	}
	cctx, write := e.h.Ctx.CacheContext()
	ok := catch(func() {
		if down {
			_, _, err = e.h.App.PoolManagerKeeper.SwapExactAmountIn(cctx, e.trader, p.id, sdk.NewCoin(p.token, osmomath.NewIntFromBigInt(in(tokBal))), e.bond, osmomath.ZeroInt())
		} else {
			_, _, err = e.h.App.PoolManagerKeeper.SwapExactAmountIn(cctx, e.trader, p.id, sdk.NewCoin(e.bond, osmomath.NewIntFromBigInt(in(osmo))), p.token, osmomath.ZeroInt())
		}
	})
	if !ok || err != nil {
		e.o.Count("move.directed.err")
		return
	}
	write()
	if down {
		e.o.Count("move.directed.down")
	} else {
		e.o.Count("move.directed.up")
	}
}

// choose draws the next op of a random history.
func (e *sfEngine) choose() (sfOp, bool) {
	r := e.r
	_, v := e.observe()
	lk := v.lk
	conn := map[uint64]string{}
	for _, c := range v.cn {
		conn[c.lock] = c.key
	}
	syn := map[uint64]sfSynth{}
	for _, s := range v.sy {
		syn[s.lock] = s
	}
	find := func(id uint64) *sfLock {
		for i := range lk {
			if lk[i].id == id {
				return &lk[i]
			}
		}
		return nil
	}
	if (e.class == "slash" || e.class == "mixed") && r.Intn(100) < 7 {
		return e.slashOp(r.Intn(len(e.vals) - 1)), true
	}
	w := r.Intn(100)
	switch {
	case w < 14 || len(lk) == 0:
		d := r.Intn(len(e.pools))
		if r.Intn(4) != 0 {
			d = r.Intn(len(e.pools) - 1) // mostly enabled denoms
		}
		durs := []int64{e.ubs, e.ubs, e.ubs, 2 * e.ubs, e.ubs + 1, e.ubs - 1, 3600}
		return sfOp{kind: "lock", snd: r.Intn(3), d: d, amt: e.randAmount(), dur: durs[r.Intn(len(durs))], single: r.Intn(12) != 0 || e.pools[d].cl}, true
	case w < 24:
		id, snd := e.pickLock(lk, func(l sfLock) bool { return l.single && (conn[l.id] != "" || r.Intn(3) == 0) })
		if l := find(id); l != nil && (!l.single || l.denom < 0 || e.pools[l.denom].cl) {
			return sfOp{}, false // adding to a multi-coin lock / concentrated shares: not generated
		}
		return sfOp{kind: "addtolock", snd: snd, id: id, amt: e.randAmount()}, true
	case w < 42:
		id, snd := e.pickLock(lk, func(l sfLock) bool {
			_, hasSyn := syn[l.id]
			return !hasSyn && !l.unl && l.single && l.dur >= e.ubs && l.denom >= 0 && e.pools[l.denom].asset
		})
		vi := r.Intn(len(e.vals) - 1)
		if r.Intn(20) == 0 {
			vi = len(e.vals) - 1
		}
		return sfOp{kind: "delegate", snd: snd, id: id, v: vi}, true
	case w < 52:
		id, snd := e.pickLock(lk, func(l sfLock) bool { return conn[l.id] != "" })
		return sfOp{kind: "undelegate", snd: snd, id: id}, true
	case w < 59:
		id, snd := e.pickLock(lk, func(l sfLock) bool { s, ok := syn[l.id]; return ok && s.kind == "u" && !l.unl })
		return sfOp{kind: "unbond", snd: snd, id: id}, true
	case w < 66:
		id, snd := e.pickLock(lk, func(l sfLock) bool { return conn[l.id] != "" })
		amt := big.NewInt(1)
		if l := find(id); l != nil {
			switch r.Intn(6) {
			case 0:
				amt = new(big.Int).Set(l.amount)
			case 1:
				amt = new(big.Int).Add(l.amount, big.NewInt(1))
			case 2:
				amt = big.NewInt(0)
			default:
				amt = new(big.Int).Add(new(big.Int).Rand(r, l.amount), big.NewInt(1))
			}
		}
		return sfOp{kind: "undelunbond", snd: snd, id: id, amt: amt}, true
	case w < 71:
		id, snd := e.pickLock(lk, func(l sfLock) bool { return !l.unl })
		op := sfOp{kind: "beginunlock", snd: snd, id: id}
		if l := find(id); l != nil && l.single && l.denom >= 0 && r.Intn(3) == 0 && l.amount.Cmp(big.NewInt(1)) > 0 {
			op.amt = new(big.Int).Add(new(big.Int).Rand(r, new(big.Int).Sub(l.amount, big.NewInt(1))), big.NewInt(1))
		}
		return op, true
	case w < 76:
		id, _ := e.pickLock(lk, func(l sfLock) bool { return l.unl })
		return sfOp{kind: "withdraw", id: id}, true
	case w < 79:
		return sfOp{kind: "endblock"}, true
	case w < 88:
		dts := []int64{1, 5, 3600, e.ubs / 2, e.ubs - 1, e.ubs, e.ubs + 1, 86400}
		return sfOp{kind: "advance", dt: dts[r.Intn(len(dts))]}, true
	}
	return sfOp{kind: "epoch", moves: r.Intn(3)}, true
}

// do executes one op against the real keepers, records it, and runs the oracle.
func (e *sfEngine) do(op sfOp) (succeeded bool, retID uint64, emitted bool) {
	h, o := e.h, e.o
	if op.kind == "move" {
		e.moveBy(op.d, op.num, op.den, op.down)
		return true, 0, false
	}
	_, v0 := e.observe()
	conn := map[uint64]string{}
	for _, c := range v0.cn {
		conn[c.lock] = c.key
	}
	lock0 := map[uint64]sfLock{}
	for _, l := range v0.lk {
		lock0[l.id] = l
	}
	_, _, repBefore := e.supply()
	sms := sfkeeper.NewMsgServerImpl(h.App.SuperfluidKeeper)
	lms := lockupkeeper.NewMsgServerImpl(h.App.LockupKeeper)
	var line, res string
	result := func(err error, panicked bool, id *uint64) string {
		if panicked {
			return "panic"
		}
		if err != nil {
			c := sfErrClass(err)
			if c == "other" && os.Getenv("VERIF_SF_DEBUG") != "" {
				fmt.Fprintf(os.Stderr, "OTHER %s: %v\n", op.kind, err)
			}
			return "err:" + c
		}
		if id != nil {
			return fmt.Sprintf("ok %d", *id)
		}
		return "ok"
	}
	touch := func(key string) { e.opsSinceEp[key]++ }
	burnt := func(key string) { // a force-undelegation on the validator of account `key`
		var d, v int
		if _, err := fmt.Sscanf(key, "%d.%d", &d, &v); err == nil {
			e.valBurns[v]++
		}
	}
	snd := sdk.AccAddress{}
	if op.snd >= 0 && op.snd < len(e.owners) {
		snd = e.owners[op.snd]
	}
	switch op.kind {
	case "lock":
		p := e.pools[op.d]
		var id uint64
		amt := op.amt
		sg := 0
		if op.single {
			sg = 1
		}
		var err error
		var pn bool
		if p.cl {
			// a locked full-range position: the lock's amount is the liquidity the position got
			tokAmt := new(big.Int).Add(new(big.Int).Rand(e.r, pow10(12)), big.NewInt(1000))
			coins := sdk.NewCoins(sdk.NewCoin(e.bond, osmomath.NewIntFromBigInt(new(big.Int).Add(op.amt, big.NewInt(1000)))), sdk.NewCoin(p.token, osmomath.NewIntFromBigInt(tokAmt)))
			err, pn = e.atomic(func(ctx sdk.Context) error {
				_, lid, err := h.App.ConcentratedLiquidityKeeper.CreateFullRangePositionLocked(ctx, p.id, snd, coins, time.Duration(op.dur)*time.Second)
				id = lid
				if err == nil {
					if l, lerr := h.App.LockupKeeper.GetLockByID(ctx, lid); lerr != nil || len(l.Coins) == 0 {
						return errors.New("position with less than one unit of liquidity: the lock holds no coin")
					}
				}
				return err
			})
			if err != nil || pn {
				o.Count("lock.cl-failed")
				return false, 0, false
			}
			l, _ := h.App.LockupKeeper.GetLockByID(e.ctx(), id)
			amt = l.Coins[0].Amount.BigInt()
			_, _, repBefore = e.supply()
			o.Count("lock.cl")
		} else {
			coins := sdk.NewCoins(sdk.NewCoin(p.denom, osmomath.NewIntFromBigInt(op.amt)))
			if !op.single {
				coins = coins.Add(sdk.NewCoin("zzz", osmomath.NewInt(7)))
			}
			h.FundAcc(snd, coins)
			err, pn = e.atomic(func(ctx sdk.Context) error {
				l, err := h.App.LockupKeeper.CreateLock(ctx, snd, coins, time.Duration(op.dur)*time.Second)
				id = l.ID
				return err
			})
		}
		line = fmt.Sprintf("superfluid lock %d %d %s %d %d", op.snd, op.d, amt, op.dur, sg)
		res = result(err, pn, &id)
		retID = id
	case "addtolock":
		denom := e.pools[0].denom
		if l, ok := lock0[op.id]; ok && l.denom >= 0 {
			denom = e.pools[l.denom].denom
		}
		coin := sdk.NewCoin(denom, osmomath.NewIntFromBigInt(op.amt))
		h.FundAcc(snd, sdk.NewCoins(coin))
		pre := e.snap(e.ctx())
		err, pn := e.atomic(func(ctx sdk.Context) error {
			_, err := h.App.LockupKeeper.AddTokensToLockByID(ctx, op.id, snd, coin)
			return err
		})
		line = fmt.Sprintf("superfluid addtolock %d %d %s", op.snd, op.id, op.amt)
		res = result(err, pn, nil)
		if err == nil && !pn && conn[op.id] != "" {
			touch(conn[op.id])
		}
		if err == nil && !pn {
			// the hook (AfterAddTokensToLock -> IncreaseSuperfluidDelegation) logs and ignores every error of the mint branch
			mint := new(big.Int)
			if l, ok := lock0[op.id]; ok && conn[op.id] != "" && l.denom >= 0 {
				mint = e.osmoValue(e.mult(e.pools[l.denom]), op.amt)
			}
			e.atomicityTopup(pre, e.snap(e.ctx()), conn[op.id], mint, line)
		}
	case "delegate":
		pre := e.snap(e.ctx())
		err, pn := e.atomic(func(ctx sdk.Context) error {
			_, err := sms.SuperfluidDelegate(ctx, &sftypes.MsgSuperfluidDelegate{Sender: snd.String(), LockId: op.id, ValAddr: e.vals[op.v].String()})
			return err
		})
		line = fmt.Sprintf("superfluid delegate %d %d %d", op.snd, op.id, op.v)
		res = result(err, pn, nil)
		if err == nil && !pn {
			e.moved("successful-branch", "delegate", pre, e.snap(e.ctx()), line)
			touch(fmt.Sprintf("%d.%d", lock0[op.id].denom, op.v))
			delete(e.undeleg, op.id)
			// self-test of the oracle (never set by ./check): emulate a defective delegation path
			switch os.Getenv("VERIF_SF_MUTANT") {
			case "nomarker": // the staking marker is not created
				l := lock0[op.id]
				_ = h.App.LockupKeeper.DeleteSyntheticLockup(h.Ctx, op.id, fmt.Sprintf("%s/superbonding/%s", e.pools[l.denom].denom, e.vals[op.v].String()))
			case "nooffset": // the minted OSMO is not offset
				h.App.BankKeeper.AddSupplyOffset(h.Ctx, e.bond, osmomath.NewInt(1))
			}
		}
	case "undelegate":
		pre := e.snap(e.ctx())
		err, pn := e.atomic(func(ctx sdk.Context) error {
			_, err := sms.SuperfluidUndelegate(ctx, &sftypes.MsgSuperfluidUndelegate{Sender: snd.String(), LockId: op.id})
			return err
		})
		line = fmt.Sprintf("superfluid undelegate %d %d", op.snd, op.id)
		res = result(err, pn, nil)
		if err == nil && !pn {
			e.moved("successful-branch", "undelegate", pre, e.snap(e.ctx()), line)
			touch(conn[op.id])
			burnt(conn[op.id])
			e.undeleg[op.id] = e.now()
			if os.Getenv("VERIF_SF_MUTANT") == "nounstaking" { // self-test: the unstaking marker is not created
				for _, sy := range h.App.LockupKeeper.GetAllSyntheticLockups(h.Ctx) {
					if sy.UnderlyingLockId == op.id {
						_ = h.App.LockupKeeper.DeleteSyntheticLockup(h.Ctx, op.id, sy.SynthDenom)
					}
				}
			}
		}
	case "unbond":
		err, pn := e.atomic(func(ctx sdk.Context) error {
			_, err := sms.SuperfluidUnbondLock(ctx, &sftypes.MsgSuperfluidUnbondLock{Sender: snd.String(), LockId: op.id})
			return err
		})
		line = fmt.Sprintf("superfluid unbond %d %d", op.snd, op.id)
		res = result(err, pn, nil)
	case "undelunbond":
		var nid uint64
		pre := e.snap(e.ctx())
		err, pn := e.atomic(func(ctx sdk.Context) error {
			resp, err := sms.SuperfluidUndelegateAndUnbondLock(ctx, &sftypes.MsgSuperfluidUndelegateAndUnbondLock{Sender: snd.String(), LockId: op.id, Coin: sdk.NewCoin(e.pools[0].denom, osmomath.NewIntFromBigInt(op.amt))})
			if resp != nil {
				nid = resp.LockId
			}
			return err
		})
		line = fmt.Sprintf("superfluid undelunbond %d %d %s", op.snd, op.id, op.amt)
		res = result(err, pn, &nid)
		retID = nid
		if err == nil && !pn {
			e.moved("successful-branch", "undelegate-and-unbond", pre, e.snap(e.ctx()), line)
			touch(conn[op.id])
			touch(conn[op.id])
			burnt(conn[op.id])
			e.undeleg[nid] = e.now()
		}
	case "beginunlock":
		var coins sdk.Coins
		a := "-"
		if op.amt != nil {
			coins = sdk.NewCoins(sdk.NewCoin(e.pools[lock0[op.id].denom].denom, osmomath.NewIntFromBigInt(op.amt)))
			a = op.amt.String()
		}
		var nid uint64
		err, pn := e.atomic(func(ctx sdk.Context) error {
			resp, err := lms.BeginUnlocking(ctx, &lockuptypes.MsgBeginUnlocking{Owner: snd.String(), ID: op.id, Coins: coins})
			if resp != nil {
				nid = resp.UnlockingLockID
			}
			return err
		})
		line = fmt.Sprintf("superfluid beginunlock %d %d %s", op.snd, op.id, a)
		res = result(err, pn, &nid)
		if err == nil && !pn && conn[op.id] != "" {
			o.Fail("lock:unlock-while-delegated", line)
		}
	case "withdraw": // matured markers are swept first, as the EndBlocker does
		err, pn := e.atomic(func(ctx sdk.Context) error {
			h.App.LockupKeeper.DeleteAllMaturedSyntheticLocks(ctx)
			return h.App.LockupKeeper.UnlockMaturedLock(ctx, op.id)
		})
		line = fmt.Sprintf("superfluid withdraw %d", op.id)
		res = result(err, pn, nil)
		if t, ok := e.undeleg[op.id]; ok && err == nil && !pn && e.now() < t+e.ubs {
			o.Fail("lock:withdraw-before-maturity", line)
		}
	case "endblock":
		err, pn := e.atomic(func(ctx sdk.Context) error {
			h.App.LockupKeeper.DeleteAllMaturedSyntheticLocks(ctx)
			h.App.LockupKeeper.WithdrawMaturedLocks(ctx, 1000)
			return nil
		})
		line = "superfluid endblock"
		res = result(err, pn, nil)
	case "advance":
		h.Ctx = h.Ctx.WithBlockTime(h.Ctx.BlockTime().Add(time.Duration(op.dt) * time.Second)).WithBlockHeight(h.Ctx.BlockHeight() + 1)
		line = fmt.Sprintf("superfluid advance %d", op.dt)
		res = "ok"
	case "epoch":
		for k := op.moves; k > 0; k-- {
			e.priceMove()
		}
		var ups []string
		for _, a := range h.App.SuperfluidKeeper.GetAllSuperfluidAssets(e.ctx()) {
			i := e.denomIdx(a.Denom)
			osmo, q := e.poolReading(e.pools[i])
			k := "l"
			if e.pools[i].cl {
				k = "c"
			}
			ups = append(ups, fmt.Sprintf("%d:%s:%s:%s", i, osmo, q, k))
		}
		var order []string // the store iterates the intermediary accounts by address: an input of the model
		for _, a := range h.App.SuperfluidKeeper.GetAllIntermediaryAccounts(e.ctx()) {
			order = append(order, fmt.Sprintf("%d.%d", e.denomIdx(a.Denom), e.valIdx(a.ValAddr)))
		}
		ups = append(ups, "o="+strings.Join(order, ","))
		_, _, repBefore = e.supply()
		pre := e.snap(e.ctx())
		cur := map[string]*big.Int{} // what the refresh will read for every account
		for _, a := range e.accounts() {
			cur[a.key] = a.cur
		}
		err, pn := e.atomic(func(ctx sdk.Context) error {
			h.App.SuperfluidKeeper.AfterEpochStartBeginBlock(ctx)
			return nil
		})
		line = "superfluid epoch " + strings.Join(ups, " ")
		res = result(err, pn, nil)
		if err == nil && !pn {
			// every error of the refresh's mint / burn branches is logged and ignored
			want := map[string]*big.Int{}
			for _, a := range v0.accs {
				if a.v < 0 || a.v >= len(e.vals)-1 {
					continue
				}
				total := new(big.Int)
				for _, c := range v0.cn {
					if l, ok := lock0[c.lock]; ok && c.key == a.key {
						total.Add(total, l.amount)
					}
				}
				want[a.key] = e.osmoValue(e.mult(e.pools[a.d]), total)
			}
			e.blockedTopup = map[string]string{} // (a mint the refresh itself could not make is recorded again below)
			e.atomicityRefresh(pre, e.snap(e.ctx()), want, cur, line)
		}
		e.refreshedAll = err == nil && !pn
		if e.refreshedAll {
			e.opsSinceEp = map[string]int{}
			e.slashSinceEp = map[int]bool{}
			e.valBurns = map[int]int64{}
		}
	case "slash":
		// the real staking keeper's Slash (infraction at the current height): BeforeValidatorSlashed runs
		// superfluid's SlashLockupsForValidatorSlash, then the validator's tokens are burnt
		val, verr := h.App.StakingKeeper.GetValidator(e.ctx(), e.vals[op.v])
		if verr != nil {
			return false, 0, false
		}
		consAddr, cerr := val.GetConsAddr()
		if cerr != nil {
			panic(cerr)
		}
		pr := h.App.StakingKeeper.PowerReduction(e.ctx())
		power := val.Tokens.Quo(pr).Int64()
		switch op.num {
		case 1:
			power = power/2 + 1
		case 2:
			power = 1
		case 3:
			if power < math.MaxInt64 {
				power++
			} else if op.full {
				return false, 0, false
			}
		}
		frac := osmomath.MustNewDecFromStr(op.frac)
		powTok := h.App.StakingKeeper.TokensFromConsensusPower(e.ctx(), power)
		want := powTok.ToLegacyDec().Mul(frac).TruncateInt()
		if op.full && len(e.markedOn(op.v)) > 0 {
			return false, 0, false // a 100 % slash with marked locks is the composite op `slashrefill`
		}
		if !op.full && want.MulRaw(10).GT(val.Tokens.MulRaw(6)) {
			o.Count("slash.skipped-too-large") // a (near) 100% slash empties locks: only as the composite op `slashrefill` (fault classes)
			return false, 0, false
		}
		// concentrated-share locks: whether the position-level preparation (prepareConcentratedLockForSlash:
		// position lookup by lock id, UpdatePosition) succeeds is decided by the concentrated-liquidity module,
		// which is outside the model; it is observed on a discarded branch and passed to the model as an input.
		// (It fails e.g. for the lock split off by a partial undelegate-and-unbond: no position is mapped to it,
		// and ApplyFuncIfNoError silently drops that lock's slash.)
		var skip []string
		if want.IsPositive() && val.Tokens.IsPositive() {
			eff := want.ToLegacyDec().QuoRoundUp(val.Tokens.ToLegacyDec())
			cctx, _ := h.Ctx.CacheContext()
			catch(func() { h.App.SuperfluidKeeper.SlashLockupsForValidatorSlash(cctx, e.vals[op.v], eff) })
			for _, sy := range v0.sy {
				l, ok := lock0[sy.lock]
				if sy.v != op.v || !ok || l.denom < 0 || !e.pools[l.denom].cl {
					continue
				}
				exp := osmomath.NewIntFromBigInt(l.amount).ToLegacyDec().Mul(eff).TruncateInt()
				l1, lerr := h.App.LockupKeeper.GetLockByID(cctx, sy.lock)
				if exp.IsPositive() && lerr == nil && len(l1.Coins) > 0 && l1.Coins[0].Amount.BigInt().Cmp(l.amount) == 0 {
					skip = append(skip, fmt.Sprint(sy.lock))
				}
			}
		}
		if len(skip) > 0 {
			o.Count("slash.concentrated-lock-slash-dropped")
		}
		burned := new(big.Int)
		err, pn := e.atomic(func(ctx sdk.Context) error {
			b, err := h.App.StakingKeeper.Slash(ctx, consAddr, ctx.BlockHeight(), power, frac)
			if err == nil {
				burned = b.BigInt()
			}
			return err
		})
		line = fmt.Sprintf("superfluid slash %d %s %s x=%s", op.v, powTok, frac.BigInt(), strings.Join(skip, ","))
		res = result(err, pn, nil)
		if res == "ok" {
			res = "ok " + burned.String()
		}
		if err == nil && !pn && burned.Sign() > 0 {
			e.slashedVal[op.v] = true
			e.slashSinceEp[op.v] = true
			repBefore = new(big.Int).Sub(repBefore, burned)
			o.Count("slash.frac." + op.frac)
			if op.full {
				o.Count("slash.full.no-marked-lock")
			}
		}
	case "slashrefill":
		// composite (fault classes): the REAL StakingKeeper.Slash with fraction 1 and a power above the validator's — every
		// lock marked for the validator is emptied (removeTokensFromLock leaves a lock without coins) — and, in the same
		// engine op, AddTokensToLockByID for every emptied lock by its owner: for the locks that are still delegated the
		// hook tries to mint to a validator without tokens, staking refuses (ErrDelegatorShareExRateInvalid) inside the
		// all-or-nothing branch, the hook logs it, the top-up stands.  The model sees ONE op whose result has no empty lock.
		val, verr := h.App.StakingKeeper.GetValidator(e.ctx(), e.vals[op.v])
		if verr != nil || val.Tokens.IsZero() {
			return false, 0, false
		}
		consAddr, cerr := val.GetConsAddr()
		if cerr != nil {
			panic(cerr)
		}
		power := val.Tokens.Quo(h.App.StakingKeeper.PowerReduction(e.ctx())).Int64()
		if power == math.MaxInt64 {
			return false, 0, false // (the slash could not take everything)
		}
		power++
		frac := osmomath.OneDec()
		powTok := h.App.StakingKeeper.TokensFromConsensusPower(e.ctx(), power)
		var ids []uint64
		for id := range op.refill {
			ids = append(ids, id)
		}
		sort.Slice(ids, func(i, j int) bool { return ids[i] < ids[j] })
		marked := e.markedOn(op.v)
		if len(marked) != len(ids) {
			return false, 0, false // the set of marked locks changed since the macro planned the refill
		}
		var tl []string
		for _, id := range ids {
			l, ok := lock0[id]
			if !ok || l.denom < 0 || l.owner < 0 {
				return false, 0, false
			}
			tl = append(tl, fmt.Sprintf("%d:%s", id, op.refill[id]))
			h.FundAcc(e.owners[l.owner], sdk.NewCoins(sdk.NewCoin(e.pools[l.denom].denom, osmomath.NewIntFromBigInt(op.refill[id]))))
		}
		burned := new(big.Int)
		var mid, post sfSnap
		leftTrace := []string{}
		err, pn := e.atomic(func(ctx sdk.Context) error {
			b, err := h.App.StakingKeeper.Slash(ctx, consAddr, ctx.BlockHeight(), power, frac)
			if err != nil {
				return err
			}
			burned = b.BigInt()
			for _, id := range ids {
				l, lerr := h.App.LockupKeeper.GetLockByID(ctx, id)
				if lerr != nil || len(l.Coins) != 0 {
					return fmt.Errorf("lock %d not emptied by the 100%% slash: %v %v", id, l, lerr)
				}
			}
			mid = e.snap(ctx)
			for _, id := range ids {
				lk := lock0[id]
				if _, err := h.App.LockupKeeper.AddTokensToLockByID(ctx, id, e.owners[lk.owner], sdk.NewCoin(e.pools[lk.denom].denom, osmomath.NewIntFromBigInt(op.refill[id]))); err != nil {
					return err
				}
			}
			post = e.snap(ctx)
			leftTrace = mid.diff(post, true)
			return nil
		})
		line = fmt.Sprintf("superfluid slashrefill %d %s %s x= t=%s", op.v, powTok, frac.BigInt(), strings.Join(tl, ","))
		res = result(err, pn, nil)
		if res == "ok" {
			res = "ok " + burned.String()
		}
		if err == nil && !pn {
			e.slashedVal[op.v] = true
			e.slashSinceEp[op.v] = true
			repBefore = new(big.Int).Sub(repBefore, burned)
			o.Count("slash.full.refilled")
			o.Count(fmt.Sprintf("slash.full.refilled.locks.%d", min(len(ids), 4)))
			// the top-ups after the slash: every hook mint had to fail (validator without tokens), none may leave a trace
			if mid.valTok[op.v].Sign() != 0 || mid.valSh[op.v].Sign() <= 0 {
				o.Count("slash.full.validator-not-invalid") // no outstanding shares: the rate is reset, mints work again
			} else {
				for _, w := range leftTrace {
					o.Fail("atomicity:failed-branch-left-trace:"+w+":topup-hook", fmt.Sprintf("top-ups after a 100%% slash: before {%s} after {%s} | %s", mid, post, line))
				}
				for _, id := range ids {
					if conn[id] != "" {
						o.Count("atomic.topup.failed-branch.invalid-exrate")
					}
				}
			}
			if !sfModelRefill {
				e.noEmit = true // the model has no composite op: the rest of the history is an oracle-only tail
			}
		} else {
			o.Count("slash.full.refill-failed")
		}
	case "exportimport":
		// the REAL ExportGenesis (through the JSON codec), every key of the superfluid store deleted, the risk factor
		// param overwritten, then the REAL InitGenesis.  lockup / staking / bank / incentives are other modules.
		sk := h.App.SuperfluidKeeper
		cdc := h.App.AppCodec()
		rawOf := func(ctx sdk.Context) []string {
			store := ctx.KVStore(h.App.GetKey(sftypes.StoreKey))
			it := store.Iterator(nil, nil)
			defer it.Close()
			var out []string
			for ; it.Valid(); it.Next() {
				out = append(out, fmt.Sprintf("%x=%x", it.Key(), it.Value()))
			}
			return out
		}
		pre := rawOf(h.Ctx)
		preParams := sk.GetParams(h.Ctx)
		// x/lockup goes through the same export -> wipe -> import (its synthetic locks ARE the superfluid delegations: several
		// owners delegating one share denomination to one validator share a synthetic denomination, every synthetic lock lasts
		// the unbonding time whatever the duration of the lock underneath)
		lk := h.App.LockupKeeper
		lkey := h.App.GetKey(lockuptypes.StoreKey)
		preLockup := rawStoreMap(h.Ctx, lkey)
		preLeaves, _, _ := lockupAccumLeaves(h.Ctx, lkey)
		nClusters, nDiffering := lockupSynthClusters(h.Ctx, lk)
		err, pn := e.atomic(func(ctx sdk.Context) error {
			lbz := cdc.MustMarshalJSON(lk.ExportGenesis(ctx))
			lstore := ctx.KVStore(lkey)
			for k := range preLockup {
				lstore.Delete([]byte(k))
			}
			var lgs lockuptypes.GenesisState
			cdc.MustUnmarshalJSON(lbz, &lgs)
			lk.InitGenesis(ctx, lgs)
			return nil
		})
		if pn || err != nil {
			o.Fail("lockup:export-import:panics", fmt.Sprint(err))
		} else {
			o.Count("exportimport.lockup")
			if nClusters > 0 {
				o.Count("exportimport.lockup.synthetic-denom-with->=2-locks-at-one-duration")
			}
			if nDiffering > 0 {
				o.Count("exportimport.lockup.synthetic-denom-with->=2-locks-at-one-duration.lock-duration-differs")
			}
			isAcc := func(k string) bool { return strings.HasPrefix(k, string(lockuptypes.KeyPrefixLockAccumulation)) }
			diffs := storeDiffByClass(preLockup, rawStoreMap(h.Ctx, lkey), func(k, _ string) string {
				if isAcc(k) {
					return "" // sum trees: compared by meaning below (their shape depends on the insertion history)
				}
				return byteClass(k)
			})
			for _, c := range sortedClassKeys(diffs) {
				o.Fail("export-import:derived-store-differs:lockup:"+c, fmt.Sprintf("%d keys, e.g. %s%s", diffs[c].n, diffs[c].sample, e.histStr()))
			}
			lockupDerivedOracle(h.Ctx, lk, lkey, preLeaves, func(cls, detail string) {
				o.Fail("export-import:derived-store-differs:lockup:accumulation:"+cls, detail+e.histStr())
			}, o.Count)
		}
		err, pn = e.atomic(func(ctx sdk.Context) error {
			bz := cdc.MustMarshalJSON(sk.ExportGenesis(ctx))
			store := ctx.KVStore(h.App.GetKey(sftypes.StoreKey))
			var keys [][]byte
			it := store.Iterator(nil, nil)
			for ; it.Valid(); it.Next() {
				keys = append(keys, append([]byte{}, it.Key()...))
			}
			it.Close()
			for _, k := range keys {
				store.Delete(k)
			}
			sk.SetParams(ctx, sftypes.Params{MinimumRiskFactor: osmomath.MustNewDecFromStr("0.123")})
			var gs sftypes.GenesisState
			cdc.MustUnmarshalJSON(bz, &gs)
			sk.InitGenesis(ctx, gs)
			return nil
		})
		line = "superfluid exportimport"
		res = result(err, pn, nil)
		if pn {
			o.Fail("superfluid:export-import:panics", "")
		} else {
			post := rawOf(h.Ctx)
			postSet := map[string]bool{}
			for _, x := range post {
				postSet[x] = true
			}
			unpoolPfx := fmt.Sprintf("%x=", sftypes.KeyUnpoolAllowedPools)
			var missing []string
			for _, x := range pre {
				if !postSet[x] {
					if strings.HasPrefix(x, unpoolPfx) {
						if os.Getenv("VERIF_EXPORT_IMPORT_LOSSES") != "count" {
							o.Fail("superfluid:export-import:unpool-whitelist-not-exported", x)
						} else {
							o.Count("exportimport.LOSS.superfluid:export-import:unpool-whitelist-not-exported")
						}
						continue
					}
					missing = append(missing, x)
				}
				delete(postSet, x)
			}
			if len(missing) > 0 || len(postSet) > 0 {
				o.Fail("superfluid:export-import:store-differs", fmt.Sprintf("missing %v extra %d", missing, len(postSet)))
			}
			if p := sk.GetParams(h.Ctx); !p.MinimumRiskFactor.Equal(preParams.MinimumRiskFactor) {
				o.Fail("superfluid:export-import:params", fmt.Sprintf("%s -> %s", preParams.MinimumRiskFactor, p.MinimumRiskFactor))
			}
		}
	default:
		panic("unknown op " + op.kind)
	}
	obs, v := e.observe()
	hasSyn := map[uint64]bool{}
	for _, s := range v.sy {
		hasSyn[s.lock] = true
	}
	for id, t := range e.undeleg { // matured and swept: no longer undelegating
		if e.now() >= t+e.ubs && !hasSyn[id] {
			delete(e.undeleg, id)
		}
	}
	if e.noEmit {
		o.Count("tail.op." + op.kind + "." + strings.SplitN(res, " ", 2)[0])
	} else {
		o.Emit(line, res+" "+obs, op.kind != "advance")
		e.hist = append(e.hist, line+" => "+strings.SplitN(res, " ", 2)[0])
		o.Count("op." + op.kind + "." + strings.SplitN(res, " ", 2)[0])
	}
	e.oracle(op.kind, line, v, v0, repBefore)
	if e.r.Intn(8) == 0 {
		e.faultProbe(line)
	}
	return strings.HasPrefix(res, "ok"), retID, true
}

// sfModelRefill: the Lean model has the composite op `slashrefill` (Model/SuperfluidStaking.lean `slashRefillS`).
const sfModelRefill = true
